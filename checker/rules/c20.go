package rules

import (
	"encoding/json"
	"fmt"
	"go/ast"
	"go/types"
	"os"
	"path/filepath"
	"sort"
	"strings"

	"golang.org/x/tools/go/packages"

	"osmcheck/core"
)

// C20 is decided by symbolic execution (c20_sx*.go, c20_val.go): every endpoint method, wrapper, option method and
// the request function of package osmapi is run forwards with symbolic inputs; calls to functions of the package
// are inlined, undecided branches fork the path and record the assumption, and the library functions used to build
// URLs and to talk HTTP are modelled. The obligations (c20_r_*.go) are read off the outcomes (returned values,
// request/limiter/HTTP events, facts), so they do not depend on how the code is split into helpers, on the form of
// its branches (if-chain, switch, inverted or merged tests, if-init), on local names, named constants, statement
// order or on the file a function lives in. For getFromAPI the execution is repeated for every status 100..599.
//
// Anchors. Exported API only: Datasource (fields BaseURL, and the one field of "waiter" interface type),
// DefaultDatasource, the constant BaseURL, the exported endpoint methods and wrappers, (*Datasource).NotFound, the
// option constructors At/Limit/MaxDaysClosed and the option interfaces *Option, osm.OSM/osm.Change. Unexported
// functions are found by role: the request function is the one function or method whose inputs (receiver included) are
// a *Datasource, a context.Context, a string and an interface{} in any order and whose result is an error; base-URL methods are Datasource methods func() string;
// option-joining functions are func([]XOption) (string, error); everything else is reached through calls.

func init() {
	register(&core.Property{
		ID:    "C20",
		Title: "osmapi calls hit the documented endpoint and map statuses to typed errors",
		Explanation: "Structural necessary conditions decided on /repo/osmapi (non-test files) against the external table tables/api06.json (API v0.6 paths) by symbolic execution: every function is run with symbolic inputs, package functions inlined, each undecided branch explored under both assumptions; the rules read the outcomes, so helper extraction/inlining (including helpers taking function literals, which are executed in place when called), method vs function form, grouped parameters, named results, variadic helpers, presized lists written by index, ids copied into number lists, strings accumulated with +=, mutable struct values of the package (field stores, pointer methods), lookup tables (map/slice/array/struct literals held in locals or in unexported package variables that are only read, with function values as entries) instead of if-chains or switches, branch form (if/switch/type switch), local names, named constants and statement order do not matter. " +
			"(H1) a path that makes no request never returns a status-typed error (endpoints) and, in getFromAPI, a path that never calls Client.Do returns neither a status-typed error nor nil — conditions on the URL (its length, its content) are explored both ways; on every path of every exported *Datasource endpoint method that returns a nil error exactly one request (call of the request function getFromAPI) was made, on every other path at most one, none in a loop; HTTP requests are created/sent only in getFromAPI and helpers only it calls, which performs Client.Do exactly once before decoding, tests Do's error and returns it; every package-level wrapper performs exactly `DefaultDatasource.<same name>(<its parameters in order>)` and returns its results. " +
			"(H2) every path reaching Client.Do has tested the limiter field against nil and, when it is non-nil, called Wait(ctx) on it before and found its error nil; when Wait fails that error is returned and no request is sent. " +
			"(H3) executing getFromAPI for every status 100..599, every path with a successful Do ends in exactly the typed error of the table (404, 403, 410, 414, other non-200, the latter recording the status) and in the XML decode of the response body into the item parameter only for 200; NotFound, executed for nil, a foreign error and every error type of the package, is true exactly for the 404 type; the request is a GET created by http.NewRequest; on every endpoint path the request's error is tested and, when non-nil, returned unchanged. " +
			"(H4) the URL argument of the request, evaluated symbolically on every path (constant format strings, concatenation, option and id-list loops summarised, each hole bound to a method parameter) and merged over the paths (configured vs default base URL, options given or not), equals the table entry; base-URL methods return the configured BaseURL exactly when non-empty, else the default; getFromAPI requests its URL parameter unchanged, without body. " +
			"(H5) every path returning a nil error returns the table's field of the fresh empty document that was the decode target; element [0] is returned only on paths whose passed tests imply len == 1. " +
			"(H6) At/Limit/MaxDaysClosed construct an option holding the argument whose apply method appends exactly `at=` (UTC, layout 2006-01-02T15:04:05Z), `limit=` (appended exactly for 1..10000) and `closed=`; option-joining functions join with `&` and return option errors. " +
			"NOT decided: that encoding/xml returns the server's elements unmodified; URL escaping beyond the presence of QueryEscape on the search query; precision of %f for bounding boxes (6 decimals); that the http.Client follows the request unchanged (redirects, transport); trailing `?`/`&` when no option is given (accepted by the table); the text of error messages and the URL recorded in the typed errors; code shapes outside the executor's model (goroutines, function literals that escape to code that is not inlined, method values, labelled jumps, general loops, pointer-declared or shared strings.Builder/bytes.Buffer, url.Values, tables filled by assignments (init functions) or searched with sort.Search, indexed writes into presized slices, writes through pointers or to fields) are reported as undecided, not accepted.",
		Assumptions: []string{"go/types (x/tools v0.29.0)", "tables/api06.json transcribes the OSM API v0.6 documentation", "fmt.Sprintf/Sprint/Fprintf verbs %d/%f/%s/%v, strings.Join, strings.Builder/bytes.Buffer writes, strconv.AppendInt/FormatInt/Itoa, url.QueryEscape, time.Time.UTC/Format, append/len/make behave as documented", "errors of the package do not wrap other errors (errors.As is modelled as the type test of its target)", "net/http sends the request it is given; encoding/xml decodes faithfully", "every option appends a non-empty key=value string (H6), so `options given` and `option string non-empty` coincide", "function values, interface calls other than the option apply methods and the limiter, and library calls that are not modelled yield unknown values; they cannot alter locals of the analysed function"},
		LevelText:   "Structural necessary conditions of the request/response contract, decided for every endpoint method, every wrapper, every status value 100..599 and every path of getFromAPI by symbolic execution with helpers inlined: one request per call, limiter before the request, status-to-error table, URL shape equal to the external API v0.6 table with parameter-to-position binding, single-element guards, option encodings. Fidelity of the XML decode and of net/http is not decided.",
		LevelNote:   "Trusts the Go type checker, the model of the symbolic executor (c20_sx*.go), the documented behaviour of fmt/strings/strconv/net/url/time used in URL building, and the transcription of the API v0.6 documentation in tables/api06.json.",
		Technique:   "forward symbolic execution of the package's functions (inlined calls, path forking with recorded assumptions, loop summaries for option and id loops, modelled fmt/strings/strconv/net/url/time/net/http/encoding/xml calls) + finite-domain execution of getFromAPI per status and of NotFound per error type + merging of per-path URLs against an external path table",
		DesignRef:   "DESIGN.md §5 C20, Appendix B",
		Rules: []*core.Rule{
			{ID: "H1", Floor: 54, Doc: "one request per call; HTTP only in the request function (and its private helpers); wrappers delegate to the same-named method", Run: c20H1},
			{ID: "H2", Floor: 2, Doc: "limiter wait precedes the request and its error returns", Run: c20H2},
			{ID: "H3", Floor: 35, Doc: "status table per status 100..599, decode only on 200, NotFound true only for the 404 type, GET, errors propagated", Run: c20H3},
			{ID: "H4", Floor: 28, Doc: "URL shape per endpoint equals tables/api06.json", Run: c20H4},
			{ID: "H5", Floor: 36, Doc: "results come from the decoded document; element [0] only where the tests passed imply exactly one element", Run: c20H5},
			{ID: "H6", Floor: 8, Doc: "at=, limit= (1..10000), closed= options and their joining", Run: c20H6},
		},
		Benign: c20Benign(),
		Mutants: []core.Mutant{
			{Name: "nodeversion-swap-id-version", File: "osmapi/node.go", Find: "fmt.Sprintf(\"%s/node/%d/%d\", ds.baseURL(), id, v)", Replace: "fmt.Sprintf(\"%s/node/%d/%d\", ds.baseURL(), v, id)", ExpectRule: "H4", ExpectConstruct: "(*Datasource).NodeVersion"},
			{Name: "wayrelations-wrong-segment", File: "osmapi/way.go", Find: "%s/way/%d/relations?%s", Replace: "%s/way/%d/ways?%s", ExpectRule: "H4", ExpectConstruct: "(*Datasource).WayRelations"},
			{Name: "relation-kind-segment", File: "osmapi/relation.go", Find: "\"%s/relation/%d?%s\"", Replace: "\"%s/relations/%d?%s\"", ExpectRule: "H4", ExpectConstruct: "(*Datasource).Relation"},
			{Name: "ways-multifetch-separator", File: "osmapi/way.go", Find: "url += \"&\" + params", Replace: "url += \"?\" + params", ExpectRule: "H4", ExpectConstruct: "(*Datasource).Ways"},
			{Name: "nodes-csv-semicolon", File: "osmapi/node.go", Find: "byte(',')", Replace: "byte(';')", ExpectRule: "H4", ExpectConstruct: "(*Datasource).Nodes"},
			{Name: "map-bbox-order", File: "osmapi/map.go", Find: "bounds.MinLon, bounds.MinLat,", Replace: "bounds.MinLat, bounds.MinLon,", ExpectRule: "H4", ExpectConstruct: "(*Datasource).Map"},
			{Name: "notessearch-unescaped", File: "osmapi/note.go", Find: "url.QueryEscape(query)", Replace: "url.PathEscape(query)", ExpectRule: "H4", ExpectConstruct: "(*Datasource).NotesSearch"},
			{Name: "baseurl-ignores-configured", File: "osmapi/datasource.go", Find: "if ds.BaseURL != \"\" {", Replace: "if ds.BaseURL == \"\" {", ExpectRule: "H4", ExpectConstruct: "baseURL"},
			{Name: "gone-mapped-to-notfound", File: "osmapi/datasource.go", Find: "return &GoneError{URL: url}", Replace: "return &NotFoundError{URL: url}", ExpectRule: "H3", ExpectConstruct: "status 410"},
			{Name: "non200-check-first", File: "osmapi/datasource.go", Find: "if resp.StatusCode == http.StatusNotFound {", Replace: "if resp.StatusCode != http.StatusOK {\n\t\treturn &UnexpectedStatusCodeError{Code: resp.StatusCode, URL: url}\n\t}\n\n\tif resp.StatusCode == http.StatusNotFound {", ExpectRule: "H3", ExpectConstruct: "status 404"},
			{Name: "decode-on-3xx", File: "osmapi/datasource.go", Find: "if resp.StatusCode != http.StatusOK {", Replace: "if resp.StatusCode >= 400 {", ExpectRule: "H3", ExpectConstruct: "status other"},
			{Name: "notfound-asserts-gone", File: "osmapi/datasource.go", Find: "_, ok := err.(*NotFoundError)", Replace: "_, ok := err.(*GoneError)", ExpectRule: "H3", ExpectConstruct: "NotFound"},
			{Name: "request-post", File: "osmapi/datasource.go", Find: "http.NewRequest(\"GET\", url, nil)", Replace: "http.NewRequest(\"POST\", url, nil)", ExpectRule: "H3", ExpectConstruct: "request"},
			{Name: "user-error-swallowed", File: "osmapi/user.go", Find: "if err := ds.getFromAPI(ctx, url, &o); err != nil {\n\t\treturn nil, err\n\t}", Replace: "ds.getFromAPI(ctx, url, &o)", ExpectRule: "H3", ExpectConstruct: "propagate@(*Datasource).User"},
			{Name: "limiter-wait-dropped", File: "osmapi/datasource.go", Find: "\t\terr := ds.Limiter.Wait(ctx)\n\t\tif err != nil {\n\t\t\treturn err\n\t\t}\n", Replace: "", ExpectRule: "H2", ExpectConstruct: "wait-before-do"},
			{Name: "limiter-error-ignored", File: "osmapi/datasource.go", Find: "\t\terr := ds.Limiter.Wait(ctx)\n\t\tif err != nil {\n\t\t\treturn err\n\t\t}\n", Replace: "\t\tds.Limiter.Wait(ctx)\n", ExpectRule: "H2", ExpectConstruct: "wait-error"},
			{Name: "limiter-wait-after-do", File: "osmapi/datasource.go", Find: "\tif ds.Limiter != nil {\n\t\terr := ds.Limiter.Wait(ctx)\n\t\tif err != nil {\n\t\t\treturn err\n\t\t}\n\t}\n\n\treq, err := http.NewRequest(\"GET\", url, nil)\n\tif err != nil {\n\t\treturn err\n\t}\n\n\tresp, err := client.Do(req.WithContext(ctx))\n\tif err != nil {\n\t\treturn err\n\t}\n", Replace: "\treq, err := http.NewRequest(\"GET\", url, nil)\n\tif err != nil {\n\t\treturn err\n\t}\n\n\tresp, err := client.Do(req.WithContext(ctx))\n\tif err != nil {\n\t\treturn err\n\t}\n\tif ds.Limiter != nil {\n\t\terr := ds.Limiter.Wait(ctx)\n\t\tif err != nil {\n\t\t\treturn err\n\t\t}\n\t}\n", ExpectRule: "H2", ExpectConstruct: "wait-before-do"},
			{Name: "node-len-check-eq-zero", File: "osmapi/node.go", Find: "if l := len(o.Nodes); l != 1 {", Replace: "if l := len(o.Nodes); l == 0 {", ExpectRule: "H5", ExpectConstruct: "single@(*Datasource).Node"},
			{Name: "user-len-check-other-field", File: "osmapi/user.go", Find: "if l := len(o.Users); l != 1 {", Replace: "if l := len(o.Notes); l != 1 {", ExpectRule: "H5", ExpectConstruct: "single@(*Datasource).User"},
			{Name: "note-len-check-dropped", File: "osmapi/note.go", Find: "\tif l := len(o.Notes); l != 1 {\n\t\treturn nil, fmt.Errorf(\"wrong number of notes, expected 1, got %v\", l)\n\t}\n", Replace: "", ExpectRule: "H5", ExpectConstruct: "single@(*Datasource).Note"},
			{Name: "wayfull-returns-other-document", File: "osmapi/way.go", Find: "\treturn o, nil\n", Replace: "\treturn &osm.OSM{Ways: o.Ways}, nil\n", ExpectRule: "H5", ExpectConstruct: "result@(*Datasource).WayFull"},
			{Name: "wrapper-other-method", File: "osmapi/way.go", Find: "return DefaultDatasource.WayRelations(ctx, id, opts...)", Replace: "return DefaultDatasource.NodeRelations(ctx, osm.NodeID(id), opts...)", ExpectRule: "H1", ExpectConstruct: "wrapper@WayRelations"},
			{Name: "wrapper-drops-options", File: "osmapi/map.go", Find: "return DefaultDatasource.Map(ctx, bounds, opts...)", Replace: "return DefaultDatasource.Map(ctx, bounds)", ExpectRule: "H1", ExpectConstruct: "wrapper@Map"},
			{Name: "history-request-retried", File: "osmapi/node.go", Find: "\turl := fmt.Sprintf(\"%s/node/%d/history\", ds.baseURL(), id)\n\n\to := &osm.OSM{}\n\tif err := ds.getFromAPI(ctx, url, &o); err != nil {\n\t\treturn nil, err\n\t}\n", Replace: "\turl := fmt.Sprintf(\"%s/node/%d/history\", ds.baseURL(), id)\n\n\to := &osm.OSM{}\n\tfor i := 0; i < 2; i++ {\n\t\tif err := ds.getFromAPI(ctx, url, &o); err != nil {\n\t\t\treturn nil, err\n\t\t}\n\t}\n", ExpectRule: "H1", ExpectConstruct: "once@(*Datasource).NodeHistory"},
			{Name: "changeset-double-request", File: "osmapi/changeset.go", Find: "\turl := fmt.Sprintf(\"%s/changeset/%d\", ds.baseURL(), id)\n\treturn ds.getChangeset(ctx, url)", Replace: "\turl := fmt.Sprintf(\"%s/changeset/%d\", ds.baseURL(), id)\n\tif _, err := ds.getChangeset(ctx, url); err != nil {\n\t\treturn nil, err\n\t}\n\treturn ds.getChangeset(ctx, url)", ExpectRule: "H1", ExpectConstruct: "once@(*Datasource).Changeset"},
			{Name: "http-outside-getfromapi", File: "osmapi/user.go", Find: "\to := &osm.OSM{}\n", Replace: "\to := &osm.OSM{}\n\tif resp, err := DefaultDatasource.Client.Get(url); err == nil {\n\t\tresp.Body.Close()\n\t}\n", ExpectRule: "H1", ExpectConstruct: "http-call@"},
			{Name: "at-local-time", File: "osmapi/options.go", Find: "o.t.UTC().Format(", Replace: "o.t.Format(", ExpectRule: "H6", ExpectConstruct: "apply@At"},
			{Name: "at-layout", File: "osmapi/options.go", Find: "Format(\"2006-01-02T15:04:05Z\")", Replace: "Format(\"2006-01-02 15:04:05Z\")", ExpectRule: "H6", ExpectConstruct: "apply@At"},
			{Name: "limit-upper-bound", File: "osmapi/options.go", Find: "10000 < o.n", Replace: "100000 < o.n", ExpectRule: "H6", ExpectConstruct: "range@Limit"},
			{Name: "limit-ctor-wrong-option", File: "osmapi/options.go", Find: "return &limit{num}", Replace: "return &maxDaysClosed{num}", ExpectRule: "H6", ExpectConstruct: "Limit"},
			{Name: "closed-key", File: "osmapi/options.go", Find: "\"closed=%d\"", Replace: "\"close=%d\"", ExpectRule: "H6", ExpectConstruct: "apply@MaxDaysClosed"},
			{Name: "do-error-ignored", File: "osmapi/datasource.go", Find: "\tresp, err := client.Do(req.WithContext(ctx))\n\tif err != nil {\n\t\treturn err\n\t}\n", Replace: "\tresp, _ := client.Do(req.WithContext(ctx))\n", ExpectRule: "H1", ExpectConstruct: "do-once@"},
			{Name: "option-error-ignored", File: "osmapi/options.go", Find: "\t\tparams, err = o.applyFeature(params)\n\t\tif err != nil {\n\t\t\treturn \"\", err\n\t\t}\n", Replace: "\t\tparams, _ = o.applyFeature(params)\n\t\t_ = err\n", ExpectRule: "H6", ExpectConstruct: "join@featureOptions"},
			{Name: "way-single-guard-allows-many", File: "osmapi/way.go", Find: "if l := len(o.Ways); l != 1 {", Replace: "if l := len(o.Ways); l < 1 {", ExpectRule: "H5", ExpectConstruct: "single@(*Datasource).Way"},
			{Name: "relations-csv-separator-unguarded", File: "osmapi/relation.go", Find: "\t\tif i != 0 {\n\t\t\tdata = append(data, byte(','))\n\t\t}\n", Replace: "\t\t_ = i\n\t\tdata = append(data, byte(','))\n", ExpectRule: "H4", ExpectConstruct: "path@(*Datasource).Relations"},
			{Name: "changeset-helper-swallows-request-error", File: "osmapi/changeset.go", Find: "\tif err := ds.getFromAPI(ctx, url, &css); err != nil {\n\t\treturn nil, err\n\t}\n", Replace: "\tif err := ds.getFromAPI(ctx, url, &css); err != nil {\n\t\treturn nil, fmt.Errorf(\"changeset: %v\", err)\n\t}\n", ExpectRule: "H3", ExpectConstruct: "propagate@(*Datasource).ChangesetWithDiscussion"},
			{Name: "closure-helper-always-first-id", File: "osmapi/relation.go",
				Find: `	data := make([]byte, 0, 11*len(ids))
	for i, id := range ids {
		if i != 0 {
			data = append(data, byte(','))
		}
		data = strconv.AppendInt(data, int64(id), 10)
	}
	url := ds.baseURL() + "/relations?relations=" + string(data)
	if len(params) > 0 {
		url += "&" + params
	}

	o := &osm.OSM{}
	if err := ds.getFromAPI(ctx, url, &o); err != nil {
		return nil, err
	}

	return o.Relations, nil
}
`,
				Replace: `	idList := joinInt64(len(ids), func(i int) int64 { return int64(ids[0]) })
	url := ds.baseURL() + "/relations?relations=" + idList
	if len(params) > 0 {
		url += "&" + params
	}

	o := &osm.OSM{}
	if err := ds.getFromAPI(ctx, url, &o); err != nil {
		return nil, err
	}

	return o.Relations, nil
}

// joinInt64 formats the n numbers at(0..n-1) in base 10, comma separated.
func joinInt64(n int, at func(i int) int64) string {
	out := make([]byte, 0, 11*n)
	for i := 0; i < n; i++ {
		if i > 0 {
			out = append(out, ',')
		}
		out = strconv.AppendInt(out, at(i), 10)
	}
	return string(out)
}
`, ExpectRule: "H4", ExpectConstruct: "path@(*Datasource).Relations"},
			{Name: "closure-helper-separator-guard-off-by-one", File: "osmapi/relation.go",
				Find: `	data := make([]byte, 0, 11*len(ids))
	for i, id := range ids {
		if i != 0 {
			data = append(data, byte(','))
		}
		data = strconv.AppendInt(data, int64(id), 10)
	}
	url := ds.baseURL() + "/relations?relations=" + string(data)
	if len(params) > 0 {
		url += "&" + params
	}

	o := &osm.OSM{}
	if err := ds.getFromAPI(ctx, url, &o); err != nil {
		return nil, err
	}

	return o.Relations, nil
}
`,
				Replace: `	idList := joinInt64(len(ids), func(i int) int64 { return int64(ids[i]) })
	url := ds.baseURL() + "/relations?relations=" + idList
	if len(params) > 0 {
		url += "&" + params
	}

	o := &osm.OSM{}
	if err := ds.getFromAPI(ctx, url, &o); err != nil {
		return nil, err
	}

	return o.Relations, nil
}

// joinInt64 formats the n numbers at(0..n-1) in base 10, comma separated.
func joinInt64(n int, at func(i int) int64) string {
	out := make([]byte, 0, 11*n)
	for i := 0; i < n; i++ {
		if i > 1 {
			out = append(out, ',')
		}
		out = strconv.AppendInt(out, at(i), 10)
	}
	return string(out)
}
`, ExpectRule: "H4", ExpectConstruct: "path@(*Datasource).Relations"},
			{Name: "closure-helper-semicolon", File: "osmapi/relation.go",
				Find: `	data := make([]byte, 0, 11*len(ids))
	for i, id := range ids {
		if i != 0 {
			data = append(data, byte(','))
		}
		data = strconv.AppendInt(data, int64(id), 10)
	}
	url := ds.baseURL() + "/relations?relations=" + string(data)
	if len(params) > 0 {
		url += "&" + params
	}

	o := &osm.OSM{}
	if err := ds.getFromAPI(ctx, url, &o); err != nil {
		return nil, err
	}

	return o.Relations, nil
}
`,
				Replace: `	idList := joinInt64(len(ids), func(i int) int64 { return int64(ids[i]) })
	url := ds.baseURL() + "/relations?relations=" + idList
	if len(params) > 0 {
		url += "&" + params
	}

	o := &osm.OSM{}
	if err := ds.getFromAPI(ctx, url, &o); err != nil {
		return nil, err
	}

	return o.Relations, nil
}

// joinInt64 formats the n numbers at(0..n-1) in base 10, comma separated.
func joinInt64(n int, at func(i int) int64) string {
	out := make([]byte, 0, 11*n)
	for i := 0; i < n; i++ {
		if i > 0 {
			out = append(out, ';')
		}
		out = strconv.AppendInt(out, at(i), 10)
	}
	return string(out)
}
`, ExpectRule: "H4", ExpectConstruct: "path@(*Datasource).Relations"},
			{Name: "status-table-410-mapped-to-notfound-constructor", File: "osmapi/datasource.go",
				Find: `	if resp.StatusCode == http.StatusNotFound {
		return &NotFoundError{URL: url}
	}

	if resp.StatusCode == http.StatusForbidden {
		return &ForbiddenError{URL: url}
	}

	if resp.StatusCode == http.StatusGone {
		return &GoneError{URL: url}
	}

	if resp.StatusCode == http.StatusRequestURITooLong {
		return &RequestURITooLongError{URL: url}
	}

	if resp.StatusCode != http.StatusOK {
		return &UnexpectedStatusCodeError{
			Code: resp.StatusCode,
			URL:  url,
		}
	}

	return xml.NewDecoder(resp.Body).Decode(item)
}
`,
				Replace: `	if resp.StatusCode == http.StatusOK {
		return xml.NewDecoder(resp.Body).Decode(item)
	}

	if newError, ok := statusErrors[resp.StatusCode]; ok {
		return newError(url)
	}

	return &UnexpectedStatusCodeError{Code: resp.StatusCode, URL: url}
}

var statusErrors = map[int]func(url string) error{
	http.StatusNotFound: func(url string) error { return &NotFoundError{URL: url} },
	http.StatusForbidden: func(url string) error { return &ForbiddenError{URL: url} },
	http.StatusGone: func(url string) error { return &NotFoundError{URL: url} },
	http.StatusRequestURITooLong: func(url string) error { return &RequestURITooLongError{URL: url} },
}
`, ExpectRule: "H3", ExpectConstruct: "status 410"},
			{Name: "status-table-403-missing", File: "osmapi/datasource.go",
				Find: `	if resp.StatusCode == http.StatusNotFound {
		return &NotFoundError{URL: url}
	}

	if resp.StatusCode == http.StatusForbidden {
		return &ForbiddenError{URL: url}
	}

	if resp.StatusCode == http.StatusGone {
		return &GoneError{URL: url}
	}

	if resp.StatusCode == http.StatusRequestURITooLong {
		return &RequestURITooLongError{URL: url}
	}

	if resp.StatusCode != http.StatusOK {
		return &UnexpectedStatusCodeError{
			Code: resp.StatusCode,
			URL:  url,
		}
	}

	return xml.NewDecoder(resp.Body).Decode(item)
}
`,
				Replace: `	if resp.StatusCode == http.StatusOK {
		return xml.NewDecoder(resp.Body).Decode(item)
	}

	if newError, ok := statusErrors[resp.StatusCode]; ok {
		return newError(url)
	}

	return &UnexpectedStatusCodeError{Code: resp.StatusCode, URL: url}
}

var statusErrors = map[int]func(url string) error{
	http.StatusNotFound: func(url string) error { return &NotFoundError{URL: url} },
	http.StatusGone: func(url string) error { return &GoneError{URL: url} },
	http.StatusRequestURITooLong: func(url string) error { return &RequestURITooLongError{URL: url} },
}
`, ExpectRule: "H3", ExpectConstruct: "status 403"},
			{Name: "status-table-first-with-200-entry-returning-error", File: "osmapi/datasource.go",
				Find: `	if resp.StatusCode == http.StatusNotFound {
		return &NotFoundError{URL: url}
	}

	if resp.StatusCode == http.StatusForbidden {
		return &ForbiddenError{URL: url}
	}

	if resp.StatusCode == http.StatusGone {
		return &GoneError{URL: url}
	}

	if resp.StatusCode == http.StatusRequestURITooLong {
		return &RequestURITooLongError{URL: url}
	}

	if resp.StatusCode != http.StatusOK {
		return &UnexpectedStatusCodeError{
			Code: resp.StatusCode,
			URL:  url,
		}
	}

	return xml.NewDecoder(resp.Body).Decode(item)
}
`,
				Replace: `	if newError, ok := statusErrors[resp.StatusCode]; ok {
		return newError(url)
	}

	if resp.StatusCode != http.StatusOK {
		return &UnexpectedStatusCodeError{Code: resp.StatusCode, URL: url}
	}

	return xml.NewDecoder(resp.Body).Decode(item)
}

var statusErrors = map[int]func(url string) error{
	http.StatusOK: func(url string) error { return &UnexpectedStatusCodeError{Code: http.StatusOK, URL: url} },
	http.StatusNotFound: func(url string) error { return &NotFoundError{URL: url} },
	http.StatusForbidden: func(url string) error { return &ForbiddenError{URL: url} },
	http.StatusGone: func(url string) error { return &GoneError{URL: url} },
	http.StatusRequestURITooLong: func(url string) error { return &RequestURITooLongError{URL: url} },
}
`, ExpectRule: "H3", ExpectConstruct: "status 200"},
			{Name: "limit-bounds-struct-wrong-max", File: "osmapi/options.go",
				Find: `func (o *limit) applyNotes(p []string) ([]string, error) {
	if o.n < 1 || 10000 < o.n {
		return nil, errors.New("osmapi: limit must be between 1 and 10000")
	}
	return append(p, fmt.Sprintf("limit=%d", o.n)), nil
}
`,
				Replace: `func (o *limit) applyNotes(p []string) ([]string, error) {
	if o.n < notesLimit.min || o.n > notesLimit.max {
		return nil, errors.New("osmapi: limit must be between 1 and 10000")
	}
	return append(p, fmt.Sprintf("limit=%d", o.n)), nil
}

var notesLimit = struct{ min, max int }{min: 1, max: 100000}
`, ExpectRule: "H6", ExpectConstruct: "range@Limit"},
			{Name: "uri-too-long-fabricated-before-limiter-and-request", File: "osmapi/datasource.go",
				Find: `	if ds.Limiter != nil {
		err := ds.Limiter.Wait(ctx)
`,
				Replace: `	if len(url) > 8190 {
		// known to fail, do not spend a limiter token and a round trip on it.
		return &RequestURITooLongError{URL: url}
	}

	if ds.Limiter != nil {
		err := ds.Limiter.Wait(ctx)
`, ExpectRule: "H1", ExpectConstruct: "do-once@"},
			{Name: "empty-url-returns-nil-without-request", File: "osmapi/datasource.go",
				Find: `	if ds.Limiter != nil {
		err := ds.Limiter.Wait(ctx)
`,
				Replace: `	if url == "" {
		return nil
	}

	if ds.Limiter != nil {
		err := ds.Limiter.Wait(ctx)
`, ExpectRule: "H1", ExpectConstruct: "do-once@"},
			{Name: "ways-empty-id-list-returns-nil-without-request", File: "osmapi/way.go",
				Find: `	data := make([]byte, 0, 11*len(ids))
`,
				Replace: `	if len(ids) == 0 {
		return nil, nil
	}
	data := make([]byte, 0, 11*len(ids))
`, ExpectRule: "H1", ExpectConstruct: "once@(*Datasource).Ways"},
			{Name: "node-negative-id-synthesises-404", File: "osmapi/node.go",
				Find: `	url := fmt.Sprintf("%s/node/%d?%s", ds.baseURL(), id, params)
`,
				Replace: `	url := fmt.Sprintf("%s/node/%d?%s", ds.baseURL(), id, params)
	if id < 0 {
		return nil, &NotFoundError{URL: url}
	}
`, ExpectRule: "H1", ExpectConstruct: "once@(*Datasource).Node"},
			{Name: "notes-presized-list-leading-empty-element", File: "osmapi/note.go",
				Find: `	params := make([]string, 0, 1+len(opts))
	params = append(params, fmt.Sprintf("bbox=%f,%f,%f,%f",
		bounds.MinLon, bounds.MinLat,
		bounds.MaxLon, bounds.MaxLat))
`,
				Replace: `	params := make([]string, 2, 2+len(opts))
	params[1] = fmt.Sprintf("bbox=%f,%f,%f,%f",
		bounds.MinLon, bounds.MinLat,
		bounds.MaxLon, bounds.MaxLat)
`, ExpectRule: "H4", ExpectConstruct: "path@(*Datasource).Notes"},
			{Name: "nodes-presized-ids-joined-with-semicolon", File: "osmapi/node.go",
				Find: `	"strconv"

	"github.com/paulmach/osm"
)

// Node returns the latest version of the node from the osm rest api.
// Delegates to the DefaultDatasource and uses its http.Client to make the request.
func Node(ctx context.Context, id osm.NodeID, opts ...FeatureOption) (*osm.Node, error) {
	return DefaultDatasource.Node(ctx, id, opts...)
}

// Node returns the latest version of the node from the osm rest api.
func (ds *Datasource) Node(ctx context.Context, id osm.NodeID, opts ...FeatureOption) (*osm.Node, error) {
	params, err := featureOptions(opts)
	if err != nil {
		return nil, err
	}
	url := fmt.Sprintf("%s/node/%d?%s", ds.baseURL(), id, params)

	o := &osm.OSM{}
	if err := ds.getFromAPI(ctx, url, &o); err != nil {
		return nil, err
	}

	if l := len(o.Nodes); l != 1 {
		return nil, fmt.Errorf("wrong number of nodes, expected 1, got %v", l)
	}

	return o.Nodes[0], nil
}

// Nodes returns the latest version of the nodes from the osm rest api.
// Delegates to the DefaultDatasource and uses its http.Client to make the request.
func Nodes(ctx context.Context, ids []osm.NodeID, opts ...FeatureOption) (osm.Nodes, error) {
	return DefaultDatasource.Nodes(ctx, ids, opts...)
}

// Nodes returns the latest version of the nodes from the osm rest api.
// Will return 404 if any node is missing.
func (ds *Datasource) Nodes(ctx context.Context, ids []osm.NodeID, opts ...FeatureOption) (osm.Nodes, error) {
	params, err := featureOptions(opts)
	if err != nil {
		return nil, err
	}

	data := make([]byte, 0, 11*len(ids))
	for i, id := range ids {
		if i != 0 {
			data = append(data, byte(','))
		}
		data = strconv.AppendInt(data, int64(id), 10)
	}
	url := ds.baseURL() + "/nodes?nodes=" + string(data)
`,
				Replace: `	"strconv"
	"strings"

	"github.com/paulmach/osm"
)

// Node returns the latest version of the node from the osm rest api.
// Delegates to the DefaultDatasource and uses its http.Client to make the request.
func Node(ctx context.Context, id osm.NodeID, opts ...FeatureOption) (*osm.Node, error) {
	return DefaultDatasource.Node(ctx, id, opts...)
}

// Node returns the latest version of the node from the osm rest api.
func (ds *Datasource) Node(ctx context.Context, id osm.NodeID, opts ...FeatureOption) (*osm.Node, error) {
	params, err := featureOptions(opts)
	if err != nil {
		return nil, err
	}
	url := fmt.Sprintf("%s/node/%d?%s", ds.baseURL(), id, params)

	o := &osm.OSM{}
	if err := ds.getFromAPI(ctx, url, &o); err != nil {
		return nil, err
	}

	if l := len(o.Nodes); l != 1 {
		return nil, fmt.Errorf("wrong number of nodes, expected 1, got %v", l)
	}

	return o.Nodes[0], nil
}

// Nodes returns the latest version of the nodes from the osm rest api.
// Delegates to the DefaultDatasource and uses its http.Client to make the request.
func Nodes(ctx context.Context, ids []osm.NodeID, opts ...FeatureOption) (osm.Nodes, error) {
	return DefaultDatasource.Nodes(ctx, ids, opts...)
}

// Nodes returns the latest version of the nodes from the osm rest api.
// Will return 404 if any node is missing.
func (ds *Datasource) Nodes(ctx context.Context, ids []osm.NodeID, opts ...FeatureOption) (osm.Nodes, error) {
	params, err := featureOptions(opts)
	if err != nil {
		return nil, err
	}

	strs := make([]string, len(ids))
	for i := range ids {
		strs[i] = strconv.FormatInt(int64(ids[i]), 10)
	}
	url := ds.baseURL() + "/nodes?nodes=" + strings.Join(strs, ";")
`, ExpectRule: "H4", ExpectConstruct: "path@(*Datasource).Nodes"},
			{Name: "int64-list-join-separator-guard-inverted", File: "osmapi/way.go",
				Find: `	data := make([]byte, 0, 11*len(ids))
	for i, id := range ids {
		if i != 0 {
			data = append(data, byte(','))
		}
		data = strconv.AppendInt(data, int64(id), 10)
	}
	url := ds.baseURL() + "/ways?ways=" + string(data)
	if len(params) > 0 {
		url += "&" + params
	}

	o := &osm.OSM{}
	if err := ds.getFromAPI(ctx, url, &o); err != nil {
		return nil, err
	}

	return o.Ways, nil
}
`,
				Replace: `	raw := make([]int64, len(ids))
	for i, id := range ids {
		raw[i] = int64(id)
	}
	url := ds.baseURL() + "/ways?ways=" + joinInts(raw...)
	if len(params) > 0 {
		url += "&" + params
	}

	o := &osm.OSM{}
	if err := ds.getFromAPI(ctx, url, &o); err != nil {
		return nil, err
	}

	return o.Ways, nil
}

// joinInts formats the numbers in base 10, comma separated.
func joinInts(nums ...int64) (list string) {
	for _, n := range nums {
		if list == "" {
			list += ","
		}
		list += strconv.FormatInt(n, 10)
	}
	return
}
`, ExpectRule: "H4", ExpectConstruct: "path@(*Datasource).Ways"},
			{Name: "request-struct-joins-with-semicolon", File: "osmapi/note.go",
				Find: `	params := make([]string, 0, 1+len(opts))
	params = append(params, fmt.Sprintf("bbox=%f,%f,%f,%f",
		bounds.MinLon, bounds.MinLat,
		bounds.MaxLon, bounds.MaxLat))

	var err error
	for _, o := range opts {
		params, err = o.applyNotes(params)
		if err != nil {
			return nil, err
		}
	}

	url := fmt.Sprintf("%s/notes?%s", ds.baseURL(), strings.Join(params, "&"))

	o := &osm.OSM{}
	if err := ds.getFromAPI(ctx, url, &o); err != nil {
		return nil, err
	}

	return o.Notes, nil
}
`,
				Replace: `	q := &query{}
	q.path = ds.baseURL() + "/notes"
	q.add(fmt.Sprintf("bbox=%f,%f,%f,%f",
		bounds.MinLon, bounds.MinLat,
		bounds.MaxLon, bounds.MaxLat))

	for _, o := range opts {
		var err error
		if q.parts, err = o.applyNotes(q.parts); err != nil {
			return nil, err
		}
	}

	url := q.String()

	o := &osm.OSM{}
	if err := ds.getFromAPI(ctx, url, &o); err != nil {
		return nil, err
	}

	return o.Notes, nil
}

// query is a request url under construction.
type query struct {
	path  string
	parts []string
}

func (q *query) add(p string) { q.parts = append(q.parts, p) }

func (q query) String() (s string) {
	s = q.path + "?"
	s += strings.Join(q.parts, ";")
	return
}
`, ExpectRule: "H4", ExpectConstruct: "path@(*Datasource).Notes"},
			{Name: "named-results-request-error-cleared", File: "osmapi/changeset.go",
				Find: `func (ds *Datasource) getChangeset(ctx context.Context, url string) (*osm.Changeset, error) {
	css := &osm.OSM{}
	if err := ds.getFromAPI(ctx, url, &css); err != nil {
		return nil, err
	}

	if l := len(css.Changesets); l != 1 {
		return nil, fmt.Errorf("wrong number of changesets, expected 1, got %v", l)
	}

	return css.Changesets[0], nil
}
`,
				Replace: `func (ds *Datasource) getChangeset(ctx context.Context, url string) (cs *osm.Changeset, err error) {
	css := &osm.OSM{}
	if err = ds.getFromAPI(ctx, url, &css); err != nil {
		err = nil
	}

	if l := len(css.Changesets); l != 1 {
		err = fmt.Errorf("wrong number of changesets, expected 1, got %v", l)
		return
	}

	cs = css.Changesets[0]
	return
}
`, ExpectRule: "H3", ExpectConstruct: "propagate@(*Datasource).Changeset"},
			{Name: "featureoptions-join-comma", File: "osmapi/options.go", Find: "strings.Join(params, \"&\")", Replace: "strings.Join(params, \",\")", ExpectRule: "H6", ExpectConstruct: "join@featureOptions"},
		},
	})
}

// ---------------------------------------------------------------------------
// external table

type c20Endpoint struct {
	Method   string         `json:"method"`
	Doc      string         `json:"doc"`
	URL      string         `json:"url"`
	Params   map[string]int `json:"params"`
	Document string         `json:"document"`
	Result   string         `json:"result"`
	Single   bool           `json:"single"`
}

type c20Option struct {
	Ctor       string `json:"ctor"`
	Kind       string `json:"kind"`
	Key        string `json:"key"`
	Value      string `json:"value"`
	TimeLayout string `json:"time_layout"`
	UTC        bool   `json:"utc"`
	Min        *int64 `json:"min"`
	Max        *int64 `json:"max"`
}

type c20Table struct {
	HTTPMethod      string            `json:"http_method"`
	BasePathSuffix  string            `json:"base_path_suffix"`
	OptionSeparator string            `json:"option_separator"`
	OKStatus        int64             `json:"ok_status"`
	Statuses        map[string]string `json:"statuses"`
	OtherStatus     string            `json:"other_status"`
	NotFoundType    string            `json:"not_found_type"`
	Endpoints       []c20Endpoint     `json:"endpoints"`
	Options         []c20Option       `json:"options"`
}

func (t *c20Table) endpoint(name string) *c20Endpoint {
	for i := range t.Endpoints {
		if t.Endpoints[i].Method == name {
			return &t.Endpoints[i]
		}
	}
	return nil
}

// c20LoadTable reads tables/api06.json from rules.TablesDir. The sensitivity sub-processes of
// main.go are started without -verif, so when the file is absent there the directories next to
// the executable (<exe>/tables, <exe>/../tables) are tried as well.
func c20LoadTable(r *core.R) *c20Table {
	cands := []string{filepath.Join(TablesDir, "api06.json")}
	if exe, err := os.Executable(); err == nil {
		d := filepath.Dir(exe)
		cands = append(cands, filepath.Join(d, "tables", "api06.json"), filepath.Join(d, "..", "tables", "api06.json"))
	}
	var lastErr error
	for _, p := range cands {
		b, err := os.ReadFile(p)
		if err != nil {
			lastErr = err
			continue
		}
		t := &c20Table{}
		if err := json.Unmarshal(b, t); err != nil {
			r.Anchor("tables/api06.json (unparsable: " + err.Error() + ")")
			return nil
		}
		if len(t.Endpoints) == 0 || len(t.Statuses) == 0 || len(t.Options) == 0 || t.HTTPMethod == "" || t.OptionSeparator == "" {
			r.Anchor("tables/api06.json (incomplete: endpoints/statuses/options/http_method/option_separator required)")
			return nil
		}
		return t
	}
	r.Anchor(fmt.Sprintf("tables/api06.json (%v)", lastErr))
	return nil
}

// ---------------------------------------------------------------------------
// shared context

const c20PkgRel = "osmapi"

type c20Ctx struct {
	r       *core.R
	pk      *packages.Package
	info    *types.Info
	dsType  string // pkgpath.Datasource
	getFn   *FuncInfo
	get     c20GetRoles // positions of datasource, context, URL and decode target in getFn's inputs
	funcs   []*FuncInfo
	byObj   map[*types.Func]*FuncInfo
	reqFns  map[*types.Func]bool // functions that (transitively) perform a request, including getFromAPI
	epRuns  map[*FuncInfo]*c20EpRun
	getRuns map[int64]*c20GetRun
	tables  map[*types.Var]*ast.CompositeLit // package-level lookup tables that are only read (nil = not one)
}

func c20NewCtx(r *core.R) *c20Ctx {
	pk := r.P.Pkg(c20PkgRel)
	if pk == nil {
		r.Anchor("package osmapi")
		return nil
	}
	cx := &c20Ctx{r: r, pk: pk, info: pk.TypesInfo, dsType: pk.PkgPath + ".Datasource", byObj: map[*types.Func]*FuncInfo{}, reqFns: map[*types.Func]bool{}}
	if nt, _ := structType(pk, "Datasource"); nt == nil {
		r.Anchor("osmapi.Datasource")
		return nil
	}
	cx.funcs = allFuncs(pk)
	sort.Slice(cx.funcs, func(i, j int) bool { return cx.funcs[i].Decl.Pos() < cx.funcs[j].Decl.Pos() })
	for _, fi := range cx.funcs {
		cx.byObj[fi.Obj] = fi
	}
	cx.getFn = c20FindGet(cx)
	if cx.getFn == nil || cx.getFn.Decl.Body == nil {
		r.Anchor("the request function: exactly one function or method taking a *Datasource, a context.Context, a string and an interface{} and returning error (getFromAPI)")
		return nil
	}
	cx.reqFns[cx.getFn.Obj] = true
	for changed := true; changed; {
		changed = false
		for _, fi := range cx.funcs {
			if cx.reqFns[fi.Obj] {
				continue
			}
			ast.Inspect(fi.Decl.Body, func(n ast.Node) bool {
				if call, ok := n.(*ast.CallExpr); ok {
					if fn := callee(cx.info, call); fn != nil && cx.reqFns[fn] {
						cx.reqFns[fi.Obj] = true
						changed = true
					}
				}
				return true
			})
		}
	}
	return cx
}

func c20IsCtx(t types.Type) bool { return namedPath(t) == "context.Context" }

func c20Sig(fn *types.Func) *types.Signature { return fn.Type().(*types.Signature) }

// endpoints: exported methods of Datasource whose first parameter is a context.Context.
func (cx *c20Ctx) endpoints() []*FuncInfo {
	var out []*FuncInfo
	for _, fi := range cx.funcs {
		sig := c20Sig(fi.Obj)
		if sig.Recv() == nil || namedPath(sig.Recv().Type()) != cx.dsType || !fi.Obj.Exported() {
			continue
		}
		if sig.Params().Len() == 0 || !c20IsCtx(sig.Params().At(0).Type()) {
			continue
		}
		out = append(out, fi)
	}
	sort.Slice(out, func(i, j int) bool { return out[i].Obj.Name() < out[j].Obj.Name() })
	return out
}

// wrappers: exported package-level functions whose first parameter is a context.Context.
func (cx *c20Ctx) wrappers() []*FuncInfo {
	var out []*FuncInfo
	for _, fi := range cx.funcs {
		sig := c20Sig(fi.Obj)
		if sig.Recv() != nil || !fi.Obj.Exported() || sig.Params().Len() == 0 || !c20IsCtx(sig.Params().At(0).Type()) {
			continue
		}
		out = append(out, fi)
	}
	sort.Slice(out, func(i, j int) bool { return out[i].Obj.Name() < out[j].Obj.Name() })
	return out
}

// c20HTTPCall classifies calls that create or send HTTP requests.
func c20HTTPCall(fn *types.Func) string {
	if fn == nil || fn.Pkg() == nil || fn.Pkg().Path() != "net/http" {
		return ""
	}
	recv := c20Sig(fn).Recv()
	if recv == nil {
		switch fn.Name() {
		case "Get", "Head", "Post", "PostForm":
			return "http." + fn.Name()
		case "NewRequest", "NewRequestWithContext":
			return fn.Name()
		}
		return ""
	}
	switch namedPath(recv.Type()) {
	case "net/http.Client":
		switch fn.Name() {
		case "Do", "Get", "Head", "Post", "PostForm":
			return "Client." + fn.Name()
		}
	case "net/http.Transport", "net/http.RoundTripper":
		if fn.Name() == "RoundTrip" {
			return "RoundTrip"
		}
	}
	return ""
}

// c20Hole is a position of a built string filled from a function input.
type c20Hole struct {
	fn    string // "", "feature", "notes", "csv", "escape", "utc:<layout>", "local:<layout>"
	base  bool   // the datasource's base URL
	param int    // index in the signature; -1 = receiver
	pname string
	field string
	verb  string // non-canonical formatting directive ("" when canonical for the type)
}

type c20Tok struct {
	lit  string
	hole *c20Hole
	opt  c20Sym // optional group (emitted when the option string inside is non-empty)
}

type c20Sym []c20Tok

func c20Lit(s string) c20Sym { return c20Sym{{lit: s}} }

// render prints the symbolic string in the notation of tables/api06.json; roles maps parameter index to role name.
func (s c20Sym) render(roles map[int]string) string {
	var b strings.Builder
	for _, t := range s {
		switch {
		case t.opt != nil:
			b.WriteString("[" + t.opt.render(roles) + "]")
		case t.hole != nil:
			h := t.hole
			b.WriteString("{")
			if h.base {
				b.WriteString("base")
			} else {
				if h.fn != "" {
					b.WriteString(h.fn + ":")
				}
				switch {
				case h.param == -1:
					b.WriteString("recv")
				case h.param == -2:
					b.WriteString("var " + h.pname)
				case h.param == -3:
					b.WriteString("status")
				case roles[h.param] != "":
					b.WriteString(roles[h.param])
				default:
					b.WriteString(fmt.Sprintf("?param#%d(%s)", h.param, h.pname))
				}
				if h.field != "" {
					b.WriteString("." + h.field)
				}
			}
			if h.verb != "" {
				b.WriteString(":" + h.verb)
			}
			b.WriteString("}")
		default:
			b.WriteString(t.lit)
		}
	}
	return b.String()
}

func (s c20Sym) holes() []*c20Hole {
	var out []*c20Hole
	for _, t := range s {
		if t.hole != nil {
			out = append(out, t.hole)
		}
		if t.opt != nil {
			out = append(out, t.opt.holes()...)
		}
	}
	return out
}

type c20FmtPart struct {
	lit  string
	verb string // full directive, e.g. "%d", "%05.2f"
}

// c20ParseFormat splits a fmt format string into literals and directives.
func c20ParseFormat(f string) ([]c20FmtPart, string) {
	var parts []c20FmtPart
	var lit strings.Builder
	flush := func() {
		if lit.Len() > 0 {
			parts = append(parts, c20FmtPart{lit: lit.String()})
			lit.Reset()
		}
	}
	for i := 0; i < len(f); i++ {
		if f[i] != '%' {
			lit.WriteByte(f[i])
			continue
		}
		if i+1 < len(f) && f[i+1] == '%' {
			lit.WriteByte('%')
			i++
			continue
		}
		j := i + 1
		for j < len(f) && strings.IndexByte("+-# 0123456789.", f[j]) >= 0 {
			j++
		}
		if j >= len(f) {
			return nil, "format string ends inside a directive"
		}
		if f[j] == '[' || f[j] == '*' {
			return nil, "explicit argument indexes / '*' widths are not among the enumerated idioms"
		}
		flush()
		parts = append(parts, c20FmtPart{verb: f[i : j+1]})
		i = j
	}
	flush()
	return parts, ""
}

func c20Roles(ep *c20Endpoint) map[int]string {
	m := map[int]string{}
	for role, i := range ep.Params {
		m[i] = role
	}
	return m
}

func c20ParamList(sig *types.Signature, ep *c20Endpoint) string {
	var s []string
	roles := c20Roles(ep)
	for i := 1; i < sig.Params().Len(); i++ {
		role := roles[i]
		if role == "" {
			role = "?"
		}
		s = append(s, fmt.Sprintf("%s=#%d %s", role, i, sig.Params().At(i).Name()))
	}
	return strings.Join(s, ", ")
}
