package rules

import (
	"fmt"
	"go/ast"
	"go/types"
	"sort"
	"strings"

	"golang.org/x/tools/go/packages"

	"osmcheck/core"
)

// C20 is decided by symbolic execution (c20_sx*.go, c20_val.go): every endpoint method, wrapper, option method and
// the request function of package osmapi is run forwards with symbolic inputs; calls to functions of the package
// are inlined, undecided branches fork the path and record the assumption, and the library functions used to build
// URLs and to talk HTTP are modelled. The obligations (c20_r_*.go) are read off the outcomes (returned values,
// request/limiter/HTTP events, facts), so they do not depend on how the code is split into helpers, on the form of
// its branches (if-chain, switch, inverted or merged tests, if-init), on local names, named constants, statement
// order or on the file a function lives in. For getFromAPI the execution is repeated for every status 100..599.
//
// Anchors. Exported API only: Datasource (fields BaseURL, and the one field of "waiter" interface type),
// DefaultDatasource, the constant BaseURL, the exported endpoint methods and wrappers, (*Datasource).NotFound, the
// option constructors At/Limit/MaxDaysClosed and the option interfaces *Option, osm.OSM/osm.Change. Unexported
// functions are found by role: the request function is the one function or method whose inputs (receiver included) are
// a *Datasource, a context.Context, a string and an interface{} in any order and whose result is an error; base-URL methods are Datasource methods func() string;
// option-joining functions are func([]XOption) (string, error); everything else is reached through calls.

func init() {
	register(&core.Property{
		ID:    "C20",
		Title: "osmapi calls hit the documented endpoint and map statuses to typed errors",
		Explanation: "Structural necessary conditions decided on /repo/osmapi (non-test files) against the external table tables/api06.json (API v0.6 paths) by symbolic execution: every function is run with symbolic inputs, package functions inlined, each undecided branch explored under both assumptions; the rules read the outcomes, so helper extraction/inlining (including helpers taking function literals, which are executed in place when called), method vs function form, grouped parameters, allocation-saving spellings (a URL built in one presized byte buffer, scratch arrays sliced [:0], append(dst, src...), strconv.Append*/Time.AppendFormat, lazily allocated lists), counting loops in any spelling (for/while/guard-and-break, labelled, first iteration peeled, callback iterators), named results, single-exit result variables, variadic helpers, presized lists written by index, ids copied into number lists, strings accumulated with +=, mutable struct values of the package (field stores, pointer methods), lookup tables (map/slice/array/struct literals held in locals or in unexported package variables that are only read, with function values as entries) instead of if-chains or switches, branch form (if/switch/type switch), local names, named constants and statement order do not matter. " +
			"(H1) no path panics on an empty id list (`ids[0]`, `ids[1:]` are only evaluated after a test of the length passed); a path that makes no request never returns a status-typed error (endpoints) and, in getFromAPI, a path that never calls Client.Do returns neither a status-typed error nor nil — conditions on the URL (its length, its content) are explored both ways; on every path of every exported *Datasource endpoint method that returns a nil error exactly one request (call of the request function getFromAPI) was made, on every other path at most one, none in a loop; HTTP requests are created/sent only in getFromAPI and helpers only it calls, which performs Client.Do exactly once before decoding, tests Do's error and returns it; every package-level wrapper performs exactly `DefaultDatasource.<same name>(<its parameters in order>)` and returns its results. " +
			"(H2) every path reaching Client.Do has tested the limiter field against nil and, when it is non-nil, called Wait(ctx) on it before and found its error nil; when Wait fails that error is returned and no request is sent. " +
			"(H3) executing getFromAPI for every status 100..599, every path with a successful Do ends in exactly the typed error of the table (404, 403, 410, 414, other non-200, the latter recording the status) and in the XML decode of the response body into the item parameter only for 200; NotFound, executed for nil, a foreign error and every error type of the package, is true exactly for the 404 type; the request is a GET created by http.NewRequest; on every endpoint path the request's error is tested and, when non-nil, returned unchanged. " +
			"(H4) the URL argument of the request, evaluated symbolically on every path (constant format strings, concatenation, option and id-list loops summarised, each hole bound to a method parameter) and merged over the paths (configured vs default base URL, options given or not), equals the table entry; base-URL methods return the configured BaseURL exactly when non-empty, else the default; getFromAPI requests its URL parameter unchanged, without body. Every numeric argument in the URL is rendered injectively on its domain (arg-fidelity@<endpoint> <parameter>): integers in decimal, float coordinates with the shortest round-trip rendering or at least the 7 decimals of OSM's 1e-7 degree resolution; %f (6 decimals), fewer decimals, 32-bit renderings and integers passed through float64 are violations (today: the bbox of Map and Notes, recorded as known findings). " +
			"(H5) every path returning a nil error returns the table's field of the fresh empty document that was the decode target; element [0] is returned only on paths whose passed tests imply len == 1. " +
			"(H6) At/Limit/MaxDaysClosed construct an option holding the argument whose apply method appends exactly `at=` (UTC, layout 2006-01-02T15:04:05Z), `limit=` (appended exactly for 1..10000) and `closed=`; option-joining functions join with `&` and return option errors. " +
			"NOT decided: that encoding/xml returns the server's elements unmodified; URL escaping beyond the presence of QueryEscape on the search query; that the http.Client follows the request unchanged (redirects, transport); trailing `?`/`&` when no option is given (accepted by the table); the text of error messages and the URL recorded in the typed errors; code shapes outside the executor's model (goroutines, function literals that escape to code that is not inlined, method values, labelled jumps, general loops, pointer-declared or shared strings.Builder/bytes.Buffer, url.Values, tables filled by assignments (init functions) or searched with sort.Search, indexed writes into presized slices, writes through pointers or to fields) are reported as undecided, not accepted.",
		Assumptions: []string{"go/types (x/tools v0.29.0)", "tables/api06.json transcribes the OSM API v0.6 documentation", "fmt.Sprintf/Sprint/Fprintf verbs %d/%f/%s/%v, strings.Join, strings.Builder/bytes.Buffer writes, strconv.AppendInt/FormatInt/Itoa, url.QueryEscape, time.Time.UTC/Format, append/len/make behave as documented", "errors of the package do not wrap other errors (errors.As is modelled as the type test of its target)", "net/http sends the request it is given; encoding/xml decodes faithfully", "every option appends a non-empty key=value string (H6), so `options given` and `option string non-empty` coincide", "function values, interface calls other than the option apply methods and the limiter, and library calls that are not modelled yield unknown values; they cannot alter locals of the analysed function"},
		LevelText:   "Structural necessary conditions of the request/response contract, decided for every endpoint method, every wrapper, every status value 100..599 and every path of getFromAPI by symbolic execution with helpers inlined: one request per call, limiter before the request, status-to-error table, URL shape equal to the external API v0.6 table with parameter-to-position binding, single-element guards, option encodings. Fidelity of the XML decode and of net/http is not decided.",
		LevelNote:   "Trusts the Go type checker, the model of the symbolic executor (c20_sx*.go), the documented behaviour of fmt/strings/strconv/net/url/time used in URL building, and the transcription of the API v0.6 documentation in tables/api06.json.",
		Technique:   "forward symbolic execution of the package's functions (inlined calls, path forking with recorded assumptions, loop summaries for option and id loops, modelled fmt/strings/strconv/net/url/time/net/http/encoding/xml calls) + finite-domain execution of getFromAPI per status and of NotFound per error type + merging of per-path URLs against an external path table",
		DesignRef:   "DESIGN.md §5 C20, Appendix B",
		Rules: []*core.Rule{
			{ID: "H1", Floor: 54, Doc: "one request per call; HTTP only in the request function (and its private helpers); wrappers delegate to the same-named method", Run: c20H1},
			{ID: "H2", Floor: 2, Doc: "limiter wait precedes the request and its error returns", Run: c20H2},
			{ID: "H3", Floor: 35, Doc: "status table per status 100..599, decode only on 200, NotFound true only for the 404 type, GET, errors propagated", Run: c20H3},
			{ID: "H4", Floor: 56, Doc: "URL shape per endpoint equals tables/api06.json", Run: c20H4},
			{ID: "H5", Floor: 36, Doc: "results come from the decoded document; element [0] only where the tests passed imply exactly one element", Run: c20H5},
			{ID: "H6", Floor: 8, Doc: "at=, limit= (1..10000), closed= options and their joining", Run: c20H6},
		},
		Benign:  c20Benign(),
		Mutants: c20Mutants(),
	})
}

// ---------------------------------------------------------------------------
// external table

const c20PkgRel = "osmapi"

type c20Ctx struct {
	r       *core.R
	pk      *packages.Package
	info    *types.Info
	dsType  string // pkgpath.Datasource
	getFn   *FuncInfo
	get     c20GetRoles // positions of datasource, context, URL and decode target in getFn's inputs
	funcs   []*FuncInfo
	byObj   map[*types.Func]*FuncInfo
	reqFns  map[*types.Func]bool // functions that (transitively) perform a request, including getFromAPI
	epRuns  map[*FuncInfo]*c20EpRun
	getRuns map[int64]*c20GetRun
	tables  map[*types.Var]*ast.CompositeLit // package-level lookup tables that are only read (nil = not one)
}

func c20NewCtx(r *core.R) *c20Ctx {
	pk := r.P.Pkg(c20PkgRel)
	if pk == nil {
		r.Anchor("package osmapi")
		return nil
	}
	cx := &c20Ctx{r: r, pk: pk, info: pk.TypesInfo, dsType: pk.PkgPath + ".Datasource", byObj: map[*types.Func]*FuncInfo{}, reqFns: map[*types.Func]bool{}}
	if nt, _ := structType(pk, "Datasource"); nt == nil {
		r.Anchor("osmapi.Datasource")
		return nil
	}
	cx.funcs = allFuncs(pk)
	sort.Slice(cx.funcs, func(i, j int) bool { return cx.funcs[i].Decl.Pos() < cx.funcs[j].Decl.Pos() })
	for _, fi := range cx.funcs {
		cx.byObj[fi.Obj] = fi
	}
	cx.getFn = c20FindGet(cx)
	if cx.getFn == nil || cx.getFn.Decl.Body == nil {
		r.Anchor("the request function: exactly one function or method taking a *Datasource, a context.Context, a string and an interface{} and returning error (getFromAPI)")
		return nil
	}
	cx.reqFns[cx.getFn.Obj] = true
	for changed := true; changed; {
		changed = false
		for _, fi := range cx.funcs {
			if cx.reqFns[fi.Obj] {
				continue
			}
			ast.Inspect(fi.Decl.Body, func(n ast.Node) bool {
				if call, ok := n.(*ast.CallExpr); ok {
					if fn := callee(cx.info, call); fn != nil && cx.reqFns[fn] {
						cx.reqFns[fi.Obj] = true
						changed = true
					}
				}
				return true
			})
		}
	}
	return cx
}

func c20IsCtx(t types.Type) bool { return namedPath(t) == "context.Context" }

func c20Sig(fn *types.Func) *types.Signature { return fn.Type().(*types.Signature) }

// endpoints: exported methods of Datasource whose first parameter is a context.Context.
func (cx *c20Ctx) endpoints() []*FuncInfo {
	var out []*FuncInfo
	for _, fi := range cx.funcs {
		sig := c20Sig(fi.Obj)
		if sig.Recv() == nil || namedPath(sig.Recv().Type()) != cx.dsType || !fi.Obj.Exported() {
			continue
		}
		if sig.Params().Len() == 0 || !c20IsCtx(sig.Params().At(0).Type()) {
			continue
		}
		out = append(out, fi)
	}
	sort.Slice(out, func(i, j int) bool { return out[i].Obj.Name() < out[j].Obj.Name() })
	return out
}

// wrappers: exported package-level functions whose first parameter is a context.Context.
func (cx *c20Ctx) wrappers() []*FuncInfo {
	var out []*FuncInfo
	for _, fi := range cx.funcs {
		sig := c20Sig(fi.Obj)
		if sig.Recv() != nil || !fi.Obj.Exported() || sig.Params().Len() == 0 || !c20IsCtx(sig.Params().At(0).Type()) {
			continue
		}
		out = append(out, fi)
	}
	sort.Slice(out, func(i, j int) bool { return out[i].Obj.Name() < out[j].Obj.Name() })
	return out
}

// c20HTTPCall classifies calls that create or send HTTP requests.
func c20HTTPCall(fn *types.Func) string {
	if fn == nil || fn.Pkg() == nil || fn.Pkg().Path() != "net/http" {
		return ""
	}
	recv := c20Sig(fn).Recv()
	if recv == nil {
		switch fn.Name() {
		case "Get", "Head", "Post", "PostForm":
			return "http." + fn.Name()
		case "NewRequest", "NewRequestWithContext":
			return fn.Name()
		}
		return ""
	}
	switch namedPath(recv.Type()) {
	case "net/http.Client":
		switch fn.Name() {
		case "Do", "Get", "Head", "Post", "PostForm":
			return "Client." + fn.Name()
		}
	case "net/http.Transport", "net/http.RoundTripper":
		if fn.Name() == "RoundTrip" {
			return "RoundTrip"
		}
	}
	return ""
}

// c20Hole is a position of a built string filled from a function input.
type c20Hole struct {
	fn    string // "", "feature", "notes", "csv", "escape", "utc:<layout>", "local:<layout>"
	base  bool   // the datasource's base URL
	param int    // index in the signature; -1 = receiver
	pname string
	field string
	verb  string // non-canonical formatting directive ("" when canonical for the type)
	num   bool   // rendered as a number
	fl    string // float rendering class (c20FloatClass): "f6", "f7", "shortest", ...; "" for integers
	flsrc string // the float rendering as spelled in the source (for diagnostics)
}

type c20Tok struct {
	lit  string
	hole *c20Hole
	opt  c20Sym // optional group (emitted when the option string inside is non-empty)
}

type c20Sym []c20Tok

func c20Lit(s string) c20Sym { return c20Sym{{lit: s}} }

// render prints the symbolic string in the notation of tables/api06.json; roles maps parameter index to role name.
func (s c20Sym) render(roles map[int]string) string {
	var b strings.Builder
	for _, t := range s {
		switch {
		case t.opt != nil:
			b.WriteString("[" + t.opt.render(roles) + "]")
		case t.hole != nil:
			h := t.hole
			b.WriteString("{")
			if h.base {
				b.WriteString("base")
			} else {
				if h.fn != "" {
					b.WriteString(h.fn + ":")
				}
				switch {
				case h.param == -1:
					b.WriteString("recv")
				case h.param == -2:
					b.WriteString("var " + h.pname)
				case h.param == -3:
					b.WriteString("status")
				case roles[h.param] != "":
					b.WriteString(roles[h.param])
				default:
					b.WriteString(fmt.Sprintf("?param#%d(%s)", h.param, h.pname))
				}
				if h.field != "" {
					b.WriteString("." + h.field)
				}
			}
			if h.verb != "" {
				b.WriteString(":" + h.verb)
			}
			b.WriteString("}")
		default:
			b.WriteString(t.lit)
		}
	}
	return b.String()
}

func (s c20Sym) holes() []*c20Hole {
	var out []*c20Hole
	for _, t := range s {
		if t.hole != nil {
			out = append(out, t.hole)
		}
		if t.opt != nil {
			out = append(out, t.opt.holes()...)
		}
	}
	return out
}

type c20FmtPart struct {
	lit  string
	verb string // full directive, e.g. "%d", "%05.2f"
}

// c20ParseFormat splits a fmt format string into literals and directives.
func c20ParseFormat(f string) ([]c20FmtPart, string) {
	var parts []c20FmtPart
	var lit strings.Builder
	flush := func() {
		if lit.Len() > 0 {
			parts = append(parts, c20FmtPart{lit: lit.String()})
			lit.Reset()
		}
	}
	for i := 0; i < len(f); i++ {
		if f[i] != '%' {
			lit.WriteByte(f[i])
			continue
		}
		if i+1 < len(f) && f[i+1] == '%' {
			lit.WriteByte('%')
			i++
			continue
		}
		j := i + 1
		for j < len(f) && strings.IndexByte("+-# 0123456789.", f[j]) >= 0 {
			j++
		}
		if j >= len(f) {
			return nil, "format string ends inside a directive"
		}
		if f[j] == '[' || f[j] == '*' {
			return nil, "explicit argument indexes / '*' widths are not among the enumerated idioms"
		}
		flush()
		parts = append(parts, c20FmtPart{verb: f[i : j+1]})
		i = j
	}
	flush()
	return parts, ""
}

func c20Roles(ep *c20Endpoint) map[int]string {
	m := map[int]string{}
	for role, i := range ep.Params {
		m[i] = role
	}
	return m
}

func c20ParamList(sig *types.Signature, ep *c20Endpoint) string {
	var s []string
	roles := c20Roles(ep)
	for i := 1; i < sig.Params().Len(); i++ {
		role := roles[i]
		if role == "" {
			role = "?"
		}
		s = append(s, fmt.Sprintf("%s=#%d %s", role, i, sig.Params().At(i).Name()))
	}
	return strings.Join(s, ", ")
}

// c20Mutants is the sensitivity suite (c20_mutants*.go).
func c20Mutants() []core.Mutant {
	var out []core.Mutant
	for _, l := range [][]core.Mutant{c20Mutants1(), c20Mutants2(), c20Mutants3(), c20Mutants4(), c20Mutants5()} {
		out = append(out, l...)
	}
	return out
}
