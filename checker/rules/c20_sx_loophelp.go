package rules

import (
	"go/ast"
	"go/types"
)

// c20MergeLits joins adjacent literal tokens.
func c20MergeLits(s c20Sym) c20Sym {
	var out c20Sym
	for _, t := range s {
		if t.hole == nil && t.opt == nil {
			if t.lit == "" {
				continue
			}
			if n := len(out); n > 0 && out[n-1].hole == nil && out[n-1].opt == nil {
				out[n-1].lit += t.lit
				continue
			}
		}
		out = append(out, t)
	}
	return out
}

// c20AssignedIn lists the variables assigned (=, +=, ...) by identifier inside n.
func c20AssignedIn(info *types.Info, n ast.Node) map[types.Object]bool {
	out := map[types.Object]bool{}
	ast.Inspect(n, func(m ast.Node) bool {
		if as, ok := m.(*ast.AssignStmt); ok {
			for _, l := range as.Lhs {
				if o := objOf(info, l); o != nil {
					out[o] = true
				}
			}
		}
		return true
	})
	return out
}

// c20IsFirstElem: the buffer holds exactly the decimal first element of the id slice v.
func c20IsFirstElem(s c20Sym, v c20V) bool {
	return len(s) == 1 && s[0].hole != nil && s[0].hole.fn == "elem@0" && s[0].hole.param == v.h.param
}

// c20HasPrefix: symbolic string s starts with the tokens of p.
func c20HasPrefix(s, p c20Sym) bool {
	if len(s) < len(p) {
		return false
	}
	return c20Sym(s[:len(p)]).render(nil) == p.render(nil)
}

// elemValue: the abstract element of an option slice or id slice input inside loop id.
func (x *c20SX) elemValue(v c20V, id int) (c20V, bool) {
	if v.k != c20kIn || v.typ == nil || v.h.field != "" {
		return c20V{}, false
	}
	sl, ok := v.typ.Underlying().(*types.Slice)
	if !ok {
		return c20V{}, false
	}
	elem := sl.Elem()
	if kind := x.optKind(elem); kind != "" {
		return c20V{k: c20kObj, tag: "optelem", id: id, h: v.h, name: kind, typ: elem}, true
	}
	if b, ok := elem.Underlying().(*types.Basic); ok && b.Info()&types.IsInteger != 0 {
		return c20V{k: c20kIn, h: &c20Hole{fn: "elem", param: v.h.param, pname: v.h.pname}, typ: elem}, true
	}
	return c20V{}, false
}

// c20EndsWithFirstElem: the buffer ends with the decimal first element of the id slice v (whatever precedes it).
func c20EndsWithFirstElem(s c20Sym, v c20V) bool {
	return len(s) > 0 && c20IsFirstElem(s[len(s)-1:], v)
}
