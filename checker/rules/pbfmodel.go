package rules

import (
	"fmt"
	"go/ast"
	"go/token"
	"go/types"
	"sort"

	"golang.org/x/tools/go/packages"

	"osmcheck/core"
)

// pbfModel is the PBF pipeline model of DESIGN §3.1, derived from osmpbf/decode.go:
// the spawner, its go statements and their roles, the functions each role reaches,
// the channels with their operations, the cancellable context and the wait group.
//
// Unexported anchors used (class 3 of DESIGN §2.2): type `decoder` (found as the
// receiver of the method that contains go statements and is reached from Scanner.Scan),
// type `dataDecoder` (the type of the value allocated in the worker-spawning loop).
type pbfModel struct {
	p    *core.Program
	pk   *packages.Package
	info *types.Info

	scannerT *types.Named
	decoderT *types.Named
	ddT      *types.Named // dataDecoder

	start *FuncInfo // the spawner
	next  *FuncInfo // decoder method called by Scanner.Scan to fetch an object
	gos   []*goSite

	ctxField    *types.Var // decoder field holding the cancellable context
	cancelField *types.Var
	wgField     *types.Var

	units map[ast.Node]*unit // FuncDecl or go-closure FuncLit -> unit
	// roles: "consumer", "worker", "reader", "serializer"
	errs []string
}

// goSite is one `go func(){...}()` statement of the spawner.
type goSite struct {
	stmt   *ast.GoStmt
	lit    *ast.FuncLit
	role   string
	inLoop *ast.ForStmt
}

// unit is a body executed by one goroutine role: a function declaration (without its go closures)
// or a go closure (with its nested deferred closures).
type unit struct {
	node  ast.Node // *ast.FuncDecl or *ast.FuncLit
	body  *ast.BlockStmt
	fi    *FuncInfo // enclosing declaration
	name  string
	calls []*types.Func // static callees inside the package
	roles map[string]bool
	// for roles reached from the spawner's own body: position of the call site in the spawner
	initPos map[token.Pos]bool
}

func (m *pbfModel) fail(format string, args ...interface{}) {
	m.errs = append(m.errs, fmt.Sprintf(format, args...))
}

var pbfModelCache = map[*core.Program]*pbfModel{}

// getPBFModel builds (once per program) the pipeline model.
func getPBFModel(p *core.Program) *pbfModel {
	if m, ok := pbfModelCache[p]; ok {
		return m
	}
	m := buildPBFModel(p)
	pbfModelCache[p] = m
	return m
}

func buildPBFModel(p *core.Program) *pbfModel {
	m := &pbfModel{p: p, units: map[ast.Node]*unit{}}
	m.pk = p.Pkg("osmpbf")
	if m.pk == nil {
		m.fail("package osmpbf not loaded")
		return m
	}
	m.info = m.pk.TypesInfo
	m.scannerT, _ = structType(m.pk, "Scanner")
	if m.scannerT == nil {
		m.fail("type osmpbf.Scanner")
		return m
	}
	// spawner: the method with go statements
	for _, fi := range allFuncs(m.pk) {
		n := 0
		ast.Inspect(fi.Decl.Body, func(x ast.Node) bool {
			if _, ok := x.(*ast.GoStmt); ok {
				n++
			}
			return true
		})
		if n > 0 {
			if m.start != nil {
				m.fail("more than one function with go statements: %s and %s", m.start.Name(), fi.Name())
			}
			m.start = fi
		}
	}
	if m.start == nil {
		m.fail("no function with go statements in osmpbf (the spawner)")
		return m
	}
	if recv := m.start.Obj.Type().(*types.Signature).Recv(); recv != nil {
		t := recv.Type()
		if pt, ok := t.(*types.Pointer); ok {
			t = pt.Elem()
		}
		m.decoderT, _ = t.(*types.Named)
	}
	if m.decoderT == nil {
		m.fail("spawner %s is not a method", m.start.Name())
		return m
	}
	// units for every declared function
	for _, fi := range allFuncs(m.pk) {
		u := &unit{node: fi.Decl, body: fi.Decl.Body, fi: fi, name: fi.Name(), roles: map[string]bool{}, initPos: map[token.Pos]bool{}}
		m.units[fi.Decl] = u
	}
	// go sites
	par := parentsOf(p, m.start)
	ast.Inspect(m.start.Decl.Body, func(x ast.Node) bool {
		gs, ok := x.(*ast.GoStmt)
		if !ok {
			return true
		}
		lit, ok := gs.Call.Fun.(*ast.FuncLit)
		if !ok {
			m.fail("go statement at %s does not start a function literal", p.Rel(gs.Pos()))
			return true
		}
		g := &goSite{stmt: gs, lit: lit}
		if l := enclosing(par, gs, func(n ast.Node) bool { _, ok := n.(*ast.ForStmt); return ok }); l != nil {
			g.inLoop = l.(*ast.ForStmt)
		}
		if enclosing(par, gs, func(n ast.Node) bool { _, ok := n.(*ast.RangeStmt); return ok }) != nil {
			m.fail("go statement inside a range loop at %s", p.Rel(gs.Pos()))
		}
		m.gos = append(m.gos, g)
		m.units[lit] = &unit{node: lit, body: lit.Body, fi: m.start, roles: map[string]bool{}, initPos: map[token.Pos]bool{}}
		return true
	})
	// static calls per unit
	for _, u := range m.units {
		u := u
		m.walkUnit(u, func(n ast.Node) bool {
			if call, ok := n.(*ast.CallExpr); ok {
				if fn := callee(m.info, call); fn != nil && fn.Pkg() == m.pk.Types {
					u.calls = append(u.calls, fn)
				}
			}
			return true
		})
	}
	// roles of the closures
	for _, g := range m.gos {
		u := m.units[g.lit]
		switch {
		case g.inLoop != nil:
			g.role = "worker"
		case m.unitReaches(u, func(x *unit) bool { return m.unitCalls(x, "io", "ReadFull") }):
			g.role = "reader"
		default:
			g.role = "serializer"
		}
		u.name = m.start.Name() + "$" + g.role
		m.propagate(u, g.role, token.NoPos)
	}
	// consumer: exported methods of Scanner and New
	for _, fi := range allFuncs(m.pk) {
		isEntry := false
		if recv := fi.Obj.Type().(*types.Signature).Recv(); recv != nil {
			if namedPath(recv.Type()) == namedPath(m.scannerT) && fi.Obj.Exported() {
				isEntry = true
			}
		} else if fi.Obj.Exported() {
			isEntry = true
		}
		if isEntry {
			m.propagate(m.units[fi.Decl], "consumer", token.NoPos)
		}
	}
	// decoder fields: context, cancel, wait group
	if st, ok := m.decoderT.Underlying().(*types.Struct); ok {
		for i := 0; i < st.NumFields(); i++ {
			f := st.Field(i)
			switch {
			case namedPath(f.Type()) == "context.Context":
				m.ctxField = f
			case namedPath(f.Type()) == "sync.WaitGroup":
				m.wgField = f
			}
			if sig, ok := f.Type().Underlying().(*types.Signature); ok && sig.Params().Len() == 0 && sig.Results().Len() == 0 {
				m.cancelField = f
			}
		}
	}
	if m.ctxField == nil || m.cancelField == nil || m.wgField == nil {
		m.fail("decoder fields for context / cancel func / wait group")
	} else {
		m.checkCtxPair()
	}
	// next: the decoder method Scan calls to obtain an object
	if scan := findFunc(m.pk, "(*Scanner).Scan"); scan != nil {
		for _, fn := range m.units[scan.Decl].calls {
			if fn == m.start.Obj {
				continue
			}
			if recv := fn.Type().(*types.Signature).Recv(); recv != nil && namedPath(recv.Type()) == namedPath(m.decoderT) {
				m.next = findFunc(m.pk, funcName(fn))
			}
		}
	}
	if m.next == nil {
		m.fail("decoder method called by Scanner.Scan to fetch the next object")
	}
	// dataDecoder: type allocated in the worker loop
	for _, g := range m.gos {
		if g.role != "worker" || g.inLoop == nil {
			continue
		}
		ast.Inspect(g.inLoop.Body, func(x ast.Node) bool {
			if cl, ok := x.(*ast.CompositeLit); ok && x.Pos() < g.stmt.Pos() {
				if nt, ok := m.info.TypeOf(cl).(*types.Named); ok && nt.Obj().Pkg() == m.pk.Types {
					if _, isStruct := nt.Underlying().(*types.Struct); isStruct {
						m.ddT = nt
					}
				}
			}
			return true
		})
	}
	if m.ddT == nil {
		m.fail("per-worker decoder value allocated in the worker-spawning loop")
	}
	return m
}

// checkCtxPair verifies that ctxField/cancelField are initialised together from one context.WithCancel call.
func (m *pbfModel) checkCtxPair() {
	ok := false
	for _, fi := range allFuncs(m.pk) {
		ast.Inspect(fi.Decl.Body, func(x ast.Node) bool {
			as, isAs := x.(*ast.AssignStmt)
			if !isAs || len(as.Lhs) != 2 || len(as.Rhs) != 1 {
				return true
			}
			call, isCall := as.Rhs[0].(*ast.CallExpr)
			if !isCall || !isPkgFunc(callee(m.info, call), "context", "WithCancel") {
				return true
			}
			c, cancel := objOf(m.info, as.Lhs[0]), objOf(m.info, as.Lhs[1])
			// a composite literal of the decoder type in the same function must use them for the two fields
			var gotCtx, gotCancel bool
			ast.Inspect(fi.Decl.Body, func(y ast.Node) bool {
				cl, isCl := y.(*ast.CompositeLit)
				if !isCl || namedPath(m.info.TypeOf(cl)) != namedPath(m.decoderT) {
					return true
				}
				for _, e := range cl.Elts {
					kv, isKV := e.(*ast.KeyValueExpr)
					if !isKV {
						continue
					}
					k, _ := kv.Key.(*ast.Ident)
					if k == nil {
						continue
					}
					if m.info.Uses[k] == m.ctxField && objOf(m.info, kv.Value) == c {
						gotCtx = true
					}
					if m.info.Uses[k] == m.cancelField && objOf(m.info, kv.Value) == cancel {
						gotCancel = true
					}
				}
				return true
			})
			if gotCtx && gotCancel {
				ok = true
			}
			return true
		})
	}
	if !ok {
		m.fail("decoder context and cancel func are not initialised as a pair from context.WithCancel in the constructor")
	}
}

// walkUnit visits the nodes of a unit: nested go closures are other units and are skipped;
// other nested function literals (deferred closures) belong to the unit.
func (m *pbfModel) walkUnit(u *unit, f func(ast.Node) bool) {
	ast.Inspect(u.body, func(n ast.Node) bool {
		if n == nil {
			return true
		}
		if lit, ok := n.(*ast.FuncLit); ok {
			if _, isGo := m.units[lit]; isGo && lit != u.node {
				return false
			}
		}
		return f(n)
	})
}

func (m *pbfModel) unitCalls(u *unit, pkgpath, name string) bool {
	found := false
	m.walkUnit(u, func(n ast.Node) bool {
		if call, ok := n.(*ast.CallExpr); ok && isPkgFunc(callee(m.info, call), pkgpath, name) {
			found = true
		}
		return !found
	})
	return found
}

func (m *pbfModel) unitOfFunc(fn *types.Func) *unit {
	for _, u := range m.units {
		if fd, ok := u.node.(*ast.FuncDecl); ok && m.info.Defs[fd.Name] == fn {
			return u
		}
	}
	return nil
}

func (m *pbfModel) unitReaches(u *unit, pred func(*unit) bool) bool {
	seen := map[*unit]bool{}
	var rec func(*unit) bool
	rec = func(x *unit) bool {
		if x == nil || seen[x] {
			return false
		}
		seen[x] = true
		if pred(x) {
			return true
		}
		for _, fn := range x.calls {
			if rec(m.unitOfFunc(fn)) {
				return true
			}
		}
		return false
	}
	return rec(u)
}

// propagate marks u and everything it statically reaches with role.
func (m *pbfModel) propagate(u *unit, role string, _ token.Pos) {
	if u == nil || u.roles[role] {
		return
	}
	u.roles[role] = true
	for _, fn := range u.calls {
		m.propagate(m.unitOfFunc(fn), role, token.NoPos)
	}
}

// goOf returns the go site with the given role (first one).
func (m *pbfModel) goOf(role string) *goSite {
	for _, g := range m.gos {
		if g.role == role {
			return g
		}
	}
	return nil
}

// sortedUnits returns the units in source order.
func (m *pbfModel) sortedUnits() []*unit {
	var us []*unit
	for _, u := range m.units {
		us = append(us, u)
	}
	sort.Slice(us, func(i, j int) bool { return us[i].node.Pos() < us[j].node.Pos() })
	return us
}

// rolesOf lists the roles of a unit in sorted order.
func rolesOf(u *unit) []string {
	var rs []string
	for r := range u.roles {
		rs = append(rs, r)
	}
	sort.Strings(rs)
	return rs
}

// ---- channels ----

// chanOp is one channel operation in the package.
type chanOp struct {
	kind   string // send, recv, range, close
	class  string // channel class: decoder field name the channel belongs to, or "?" + text
	expr   ast.Expr
	pos    token.Pos
	u      *unit
	sel    *ast.SelectStmt // enclosing select, if the op is a comm clause
	clause *ast.CommClause
	defer_ bool // close inside a deferred call/closure
}

// chanClass resolves a channel expression to the decoder field it belongs to.
func (m *pbfModel) chanClass(u *unit, e ast.Expr) string {
	e = ast.Unparen(e)
	switch x := e.(type) {
	case *ast.SelectorExpr:
		if f := fieldOf(m.info, x); f != nil {
			return f.Name()
		}
	case *ast.IndexExpr:
		if f := fieldOf(m.info, x.X); f != nil {
			return f.Name()
		}
	case *ast.Ident:
		o := objOf(m.info, x)
		if o == nil {
			break
		}
		// find the defining assignment / range / append-into-field anywhere in the spawner
		cls := ""
		ast.Inspect(m.start.Decl, func(n ast.Node) bool {
			switch s := n.(type) {
			case *ast.AssignStmt:
				for i, l := range s.Lhs {
					if objOf(m.info, l) == o && i < len(s.Rhs) {
						if ix, ok := ast.Unparen(s.Rhs[i]).(*ast.IndexExpr); ok {
							if f := fieldOf(m.info, ix.X); f != nil {
								cls = f.Name()
							}
						}
					}
					// dec.F = append(dec.F, o)
					if f := fieldOf(m.info, l); f != nil && i < len(s.Rhs) {
						if call, ok := s.Rhs[i].(*ast.CallExpr); ok && builtinName(m.info, call) == "append" {
							for _, a := range call.Args[1:] {
								if objOf(m.info, a) == o {
									cls = f.Name()
								}
							}
						}
					}
				}
			case *ast.RangeStmt:
				if s.Value != nil && objOf(m.info, s.Value) == o {
					if f := fieldOf(m.info, s.X); f != nil {
						cls = f.Name()
					}
				}
			}
			return true
		})
		if cls != "" {
			return cls
		}
	}
	return "?" + src(m.p.Fset, e)
}

// chanOps collects every channel operation of the package.
func (m *pbfModel) chanOps() []*chanOp {
	var ops []*chanOp
	isChan := func(e ast.Expr) bool {
		t := m.info.TypeOf(e)
		if t == nil {
			return false
		}
		_, ok := t.Underlying().(*types.Chan)
		return ok
	}
	for _, u := range m.sortedUnits() {
		u := u
		par := parentsOf(m.p, u.fi)
		inDefer := func(n ast.Node) bool {
			for p := par[n]; p != nil && p != u.node; p = par[p] {
				if _, ok := p.(*ast.DeferStmt); ok {
					return true
				}
			}
			return false
		}
		commOf := func(n ast.Node) (*ast.SelectStmt, *ast.CommClause) {
			// the op must be the Comm statement of a clause (possibly wrapped in assign/expr stmt)
			for p := par[n]; p != nil && p != u.node; p = par[p] {
				if cc, ok := p.(*ast.CommClause); ok {
					if cc.Comm != nil && cc.Comm.Pos() <= n.Pos() && n.End() <= cc.Comm.End() {
						sel, _ := par[par[cc]].(*ast.SelectStmt)
						return sel, cc
					}
					return nil, nil
				}
				if _, ok := p.(*ast.BlockStmt); ok {
					return nil, nil
				}
			}
			return nil, nil
		}
		m.walkUnit(u, func(n ast.Node) bool {
			switch x := n.(type) {
			case *ast.SendStmt:
				op := &chanOp{kind: "send", expr: x.Chan, pos: x.Pos(), u: u, class: m.chanClass(u, x.Chan)}
				op.sel, op.clause = commOf(x)
				ops = append(ops, op)
			case *ast.UnaryExpr:
				if x.Op == token.ARROW {
					op := &chanOp{kind: "recv", expr: x.X, pos: x.Pos(), u: u}
					op.sel, op.clause = commOf(x)
					if call, ok := ast.Unparen(x.X).(*ast.CallExpr); ok {
						if fn := callee(m.info, call); isMethod(fn, "context.Context", "Done") {
							op.kind = "done"
							op.class = "ctx.Done"
							if sel, ok := call.Fun.(*ast.SelectorExpr); ok {
								if f := fieldOf(m.info, sel.X); f != nil && f == m.ctxField {
									op.class = "dec.ctx.Done"
								}
							}
						}
					}
					if op.class == "" {
						op.class = m.chanClass(u, x.X)
					}
					ops = append(ops, op)
				}
			case *ast.RangeStmt:
				if isChan(x.X) {
					ops = append(ops, &chanOp{kind: "range", expr: x.X, pos: x.Pos(), u: u, class: m.chanClass(u, x.X)})
				}
			case *ast.CallExpr:
				if builtinName(m.info, x) == "close" && len(x.Args) == 1 {
					ops = append(ops, &chanOp{kind: "close", expr: x.Args[0], pos: x.Pos(), u: u, class: m.chanClass(u, x.Args[0]), defer_: inDefer(x)})
				}
			}
			return true
		})
	}
	return ops
}

// hasDoneCase reports whether a select has a `<-dec.ctx.Done()` case and returns that clause.
func (m *pbfModel) doneCase(sel *ast.SelectStmt) *ast.CommClause {
	if sel == nil {
		return nil
	}
	for _, c := range sel.Body.List {
		cc := c.(*ast.CommClause)
		if cc.Comm == nil {
			continue
		}
		found := false
		ast.Inspect(cc.Comm, func(n ast.Node) bool {
			ue, ok := n.(*ast.UnaryExpr)
			if !ok || ue.Op != token.ARROW {
				return true
			}
			call, ok := ast.Unparen(ue.X).(*ast.CallExpr)
			if !ok || !isMethod(callee(m.info, call), "context.Context", "Done") {
				return true
			}
			if s, ok := call.Fun.(*ast.SelectorExpr); ok {
				if f := fieldOf(m.info, s.X); f != nil && f == m.ctxField {
					found = true
				}
			}
			return true
		})
		if found {
			return cc
		}
	}
	return nil
}

// isCtxErrCall reports whether e is `<dec>.ctx.Err()` on the decoder's cancellable context.
func (m *pbfModel) isCtxErrCall(e ast.Expr) bool {
	call, ok := ast.Unparen(e).(*ast.CallExpr)
	if !ok || !isMethod(callee(m.info, call), "context.Context", "Err") {
		return false
	}
	s, ok := call.Fun.(*ast.SelectorExpr)
	if !ok {
		return false
	}
	f := fieldOf(m.info, s.X)
	return f != nil && f == m.ctxField
}
