package rules

import (
	"fmt"
	"go/ast"
	"go/token"
	"go/types"
	"path/filepath"
	"sort"

	"golang.org/x/tools/go/cfg"
	"golang.org/x/tools/go/packages"

	"osmcheck/core"
)

// pbfModel is the PBF pipeline model of DESIGN §3.1, derived from package osmpbf:
// the spawner, its go statements and their roles, the functions each role reaches,
// the channels with their operations, the cancellable context and the wait group.
//
// Everything is found by ROLE, never by name or by file:
//   - the spawner is the (root) function that contains go statements (go statements may also sit in
//     helpers it calls);
//   - a goroutine body is a function literal (`go func(){...}()`) or the declaration of the function
//     started (`go dec.method(args)`); in the second case goSite.lit is a literal synthesised from the
//     declaration (same Type and Body nodes), so that code written against closures keeps working;
//   - worker = go statement executed in a loop; reader = goroutine that reaches io.ReadFull; serializer = the
//     remaining one; consumer = what the exported API reaches;
//   - the decoder type is the receiver of the spawner; its context / cancel func / wait group fields are
//     found by type; `next` is the decoder method with results (osm.Object, error) reachable from
//     Scanner.Scan; the per-worker decoder type is the receiver of decodeEntry(), the function with results
//     ([]osm.Object, error) closest to the worker goroutine.
//
// Unexported anchors used (class 3 of DESIGN §2.2): none by name.
type pbfModel struct {
	p    *core.Program
	pk   *packages.Package
	info *types.Info

	scannerT *types.Named
	decoderT *types.Named
	ddT      *types.Named // per-worker decoder (dataDecoder)

	start *FuncInfo // the (root) spawner
	next  *FuncInfo // decoder method called (possibly through helpers) by Scanner.Scan to fetch an object
	gos   []*goSite

	ctxField    *types.Var // decoder field holding the cancellable context
	cancelField *types.Var
	wgField     *types.Var

	units map[ast.Node]*unit // FuncDecl or goroutine-body FuncLit -> unit
	// roles: "consumer", "worker", "reader", "serializer"
	errs []string

	funcs    map[*types.Func]*FuncInfo      // every function declared with a body in the package
	byDecl   map[*types.Func]*unit          // the unit that executes the body of a declared function
	sites    map[*types.Func][]*pbfCallSite // static call sites (plain, go, defer) of declared functions
	goCalls  map[*ast.CallExpr]*goSite      // the call expression of every go statement
	entry    *FuncInfo                      // cache of decodeEntry()
	view     *pbfPkgView
	opsMemo  []*chanOp
	ctxUnits map[[2]*unit]*unit // per-caller copies of shared helper units (see pbfmodel_ctx.go)
}

// pbfPkgView is what the CFG helpers and the tracer need to know about one package: its declared functions,
// cached control-flow graphs, and the functions that are goroutine bodies (never entered by a synchronous trace).
type pbfPkgView struct {
	pk     *packages.Package
	fset   *token.FileSet
	info   *types.Info
	funcs  map[*types.Func]*FuncInfo
	cfgs   map[*ast.BlockStmt]*pbfCFG
	goBody map[*types.Func]bool
	pars   map[*ast.File]map[ast.Node]ast.Node
	// current call-site context (see pbfmodel_ctx.go)
	ctxCalls []*ast.CallExpr
}

var pbfViewCache = map[*packages.Package]*pbfPkgView{}

// newPkgView builds (once per package) the view of a repository package.
func newPkgView(pk *packages.Package) *pbfPkgView {
	if v, ok := pbfViewCache[pk]; ok {
		return v
	}
	v := &pbfPkgView{pk: pk, fset: pk.Fset, info: pk.TypesInfo, funcs: map[*types.Func]*FuncInfo{}, cfgs: map[*ast.BlockStmt]*pbfCFG{}, goBody: map[*types.Func]bool{},
		pars: map[*ast.File]map[ast.Node]ast.Node{}}
	for _, fi := range allFuncs(pk) {
		v.funcs[fi.Obj] = fi
	}
	pbfViewCache[pk] = v
	return v
}

// parents returns the parent map of the file that declares fi.
func (v *pbfPkgView) parents(fi *FuncInfo) map[ast.Node]ast.Node {
	var file *ast.File
	for _, f := range v.pk.Syntax {
		if f.Pos() <= fi.Decl.Pos() && fi.Decl.Pos() <= f.End() {
			file = f
		}
	}
	if file == nil {
		return map[ast.Node]ast.Node{}
	}
	if m, ok := v.pars[file]; ok {
		return m
	}
	m := map[ast.Node]ast.Node{}
	var stack []ast.Node
	ast.Inspect(file, func(n ast.Node) bool {
		if n == nil {
			stack = stack[:len(stack)-1]
			return true
		}
		if len(stack) > 0 {
			m[n] = stack[len(stack)-1]
		}
		stack = append(stack, n)
		return true
	})
	v.pars[file] = m
	return m
}

// parentsOfNode returns the parent map of the file that contains node n.
func (v *pbfPkgView) parentsOfNode(n ast.Node) map[ast.Node]ast.Node {
	for _, fi := range v.funcs {
		if fi.Decl.Pos() <= n.Pos() && n.End() <= fi.Decl.End() {
			return v.parents(fi)
		}
	}
	return map[ast.Node]ast.Node{}
}

// rel renders a position as file:line (base name of the file).
func (v *pbfPkgView) rel(pos token.Pos) string {
	if !pos.IsValid() {
		return "-"
	}
	ps := v.fset.Position(pos)
	return fmt.Sprintf("%s:%d", filepath.Base(ps.Filename), ps.Line)
}

// goSite is one go statement of the spawner (or of a helper the spawner calls).
type goSite struct {
	stmt   *ast.GoStmt
	lit    *ast.FuncLit // the closure, or a literal synthesised from decl (go f(args))
	role   string
	inLoop *ast.ForStmt // innermost for loop (in the spawner or in the helper holding the statement) that repeats it (nil when the loop is a range loop: see loopStmt)
	// loopStmt is the innermost loop statement that repeats the go statement: a *ast.ForStmt (then inLoop is set too) or
	// a *ast.RangeStmt (`for i := range dec.inputs` over a presized slice).
	loopStmt ast.Stmt
	decl     *FuncInfo // the declared function started by `go f(args)`; nil for a closure
	unit     *unit     // the goroutine's unit (== model.units[lit])
	host     *FuncInfo // function that lexically contains the go statement
	// rootPos is the position inside the root spawner at which the goroutine is started: the go statement
	// itself, or the spawner's call to the helper that holds it.
	rootPos token.Pos
}

// unit is a body executed by one goroutine role: a function declaration (without its go closures)
// or a goroutine body (with its nested deferred closures).
type unit struct {
	node  ast.Node // *ast.FuncDecl or *ast.FuncLit
	body  *ast.BlockStmt
	fi    *FuncInfo // enclosing declaration (for a `go f(args)` unit: the declaration of f)
	name  string
	calls []*types.Func // static callees inside the package
	roles map[string]bool
	// for roles reached from the spawner's own body: position of the call site in the spawner
	initPos map[token.Pos]bool
	goSite  *goSite // non-nil for goroutine bodies
	orig    *unit   // non-nil for the per-call-site copy of a shared helper (see pbfmodel_ctx.go)
}

// pbfCallSite is one static call of a declared function.
type pbfCallSite struct {
	call   *ast.CallExpr
	u      *unit
	isGo   bool
	defer_ bool // the call is the call of a defer statement
}

func (m *pbfModel) fail(format string, args ...interface{}) {
	m.errs = append(m.errs, fmt.Sprintf(format, args...))
}

var pbfModelCache = map[*core.Program]*pbfModel{}

// getPBFModel builds (once per program) the pipeline model.
func getPBFModel(p *core.Program) *pbfModel {
	if m, ok := pbfModelCache[p]; ok {
		return m
	}
	m := buildPBFModel(p)
	pbfModelCache[p] = m
	return m
}

func pbfRecvNamed(fn *types.Func) *types.Named {
	recv := fn.Type().(*types.Signature).Recv()
	if recv == nil {
		return nil
	}
	t := recv.Type()
	if pt, ok := t.(*types.Pointer); ok {
		t = pt.Elem()
	}
	nt, _ := t.(*types.Named)
	return nt
}

func buildPBFModel(p *core.Program) *pbfModel {
	m := &pbfModel{p: p, units: map[ast.Node]*unit{}, byDecl: map[*types.Func]*unit{},
		sites: map[*types.Func][]*pbfCallSite{}, goCalls: map[*ast.CallExpr]*goSite{}}
	m.pk = p.Pkg("osmpbf")
	if m.pk == nil {
		m.fail("package osmpbf not loaded")
		return m
	}
	m.info = m.pk.TypesInfo
	m.scannerT, _ = structType(m.pk, "Scanner")
	if m.scannerT == nil {
		m.fail("type osmpbf.Scanner")
		return m
	}
	all := allFuncs(m.pk)
	m.view = newPkgView(m.pk)
	m.funcs = m.view.funcs
	// units for every declared function
	for _, fi := range all {
		u := &unit{node: fi.Decl, body: fi.Decl.Body, fi: fi, name: fi.Name(), roles: map[string]bool{}, initPos: map[token.Pos]bool{}}
		m.units[fi.Decl] = u
		m.byDecl[fi.Obj] = u
	}
	// go statements anywhere in the package
	var hosts []*FuncInfo
	for _, fi := range all {
		fi := fi
		par := parentsOf(p, fi)
		n := 0
		ast.Inspect(fi.Decl.Body, func(x ast.Node) bool {
			gs, ok := x.(*ast.GoStmt)
			if !ok {
				return true
			}
			n++
			g := &goSite{stmt: gs, host: fi, rootPos: gs.Pos()}
			switch fun := ast.Unparen(gs.Call.Fun).(type) {
			case *ast.FuncLit:
				g.lit = fun
			default:
				fn := callee(m.info, gs.Call)
				if fn == nil || m.funcs[fn] == nil {
					m.fail("go statement at %s starts neither a function literal nor a function declared in the package", p.Rel(gs.Pos()))
					return true
				}
				g.decl = m.funcs[fn]
				g.lit = &ast.FuncLit{Type: g.decl.Decl.Type, Body: g.decl.Decl.Body}
			}
			if l := enclosing(par, gs, pbfIsLoop); l != nil {
				g.loopStmt = l.(ast.Stmt)
				g.inLoop, _ = l.(*ast.ForStmt)
			}
			if lit := enclosing(par, gs, func(n ast.Node) bool { _, ok := n.(*ast.FuncLit); return ok }); lit != nil {
				m.fail("go statement nested in a function literal at %s", p.Rel(gs.Pos()))
			}
			m.gos = append(m.gos, g)
			m.goCalls[gs.Call] = g
			return true
		})
		if n > 0 {
			hosts = append(hosts, fi)
		}
	}
	if len(hosts) == 0 {
		m.fail("no function with go statements in osmpbf (the spawner)")
		return m
	}
	// goroutine units
	for _, g := range m.gos {
		if g.decl != nil {
			if old := m.byDecl[g.decl.Obj]; old != nil && old.goSite != nil {
				m.fail("function %s is started by more than one go statement", g.decl.Name())
				continue
			}
			u := &unit{node: g.lit, body: g.decl.Decl.Body, fi: g.decl, roles: map[string]bool{}, initPos: map[token.Pos]bool{}, goSite: g}
			m.view.goBody[g.decl.Obj] = true
			delete(m.units, g.decl.Decl)
			m.units[g.lit] = u
			m.byDecl[g.decl.Obj] = u
			g.unit = u
		} else {
			u := &unit{node: g.lit, body: g.lit.Body, fi: g.host, roles: map[string]bool{}, initPos: map[token.Pos]bool{}, goSite: g}
			m.units[g.lit] = u
			g.unit = u
		}
	}
	if len(m.errs) > 0 {
		return m
	}
	// static calls per unit, call sites per function
	for _, u := range m.units {
		u := u
		par := parentsOf(p, u.fi)
		m.walkUnit(u, func(n ast.Node) bool {
			call, ok := n.(*ast.CallExpr)
			if !ok {
				return true
			}
			fn := callee(m.info, call)
			if fn == nil || fn.Pkg() != m.pk.Types {
				return true
			}
			_, isGo := m.goCalls[call]
			if !isGo {
				u.calls = append(u.calls, fn)
			}
			if m.funcs[fn] != nil {
				ds, _ := par[call].(*ast.DeferStmt)
				m.sites[fn] = append(m.sites[fn], &pbfCallSite{call: call, u: u, isGo: isGo, defer_: ds != nil && ds.Call == call})
			}
			return true
		})
	}
	// a function started as a goroutine must not also be called synchronously (its body would belong to two threads)
	for _, g := range m.gos {
		if g.decl == nil {
			continue
		}
		for _, s := range m.sites[g.decl.Obj] {
			if !s.isGo {
				m.fail("%s is started as a goroutine and also called synchronously at %s", g.decl.Name(), p.Rel(s.call.Pos()))
			}
		}
	}
	// the root spawner: the host that reaches every other host
	for _, h := range hosts {
		all := true
		for _, o := range hosts {
			if o != h && !m.unitReaches(m.byDecl[h.Obj], func(x *unit) bool { return x == m.byDecl[o.Obj] }) {
				all = false
			}
		}
		if all {
			if m.start != nil && len(hosts) > 1 {
				m.fail("more than one root function with go statements: %s and %s", m.start.Name(), h.Name())
			}
			m.start = h
		}
	}
	if m.start == nil {
		m.fail("the functions with go statements are not reached from one spawner")
		return m
	}
	m.decoderT = pbfRecvNamed(m.start.Obj)
	if m.decoderT == nil {
		m.fail("spawner %s is not a method", m.start.Name())
		return m
	}
	// go statements in helpers of the spawner: position in the root, loop of the call chain
	for _, g := range m.gos {
		if g.host == m.start {
			continue
		}
		found := false
		m.deepWalk(m.byDecl[m.start.Obj], func(s *pbfSite, n ast.Node) bool {
			if n != ast.Node(g.stmt) {
				return true
			}
			found = true
			g.rootPos = s.rootPos(n)
			if g.loopStmt == nil {
				for i := len(s.frames) - 2; i >= 0 && g.loopStmt == nil; i-- {
					fr := s.frames[i]
					par := parentsOf(p, fr.u.fi)
					if l := enclosing(par, fr.link, pbfIsLoop); l != nil {
						g.loopStmt = l.(ast.Stmt)
						g.inLoop, _ = l.(*ast.ForStmt)
					}
				}
			}
			return true
		})
		if !found {
			m.fail("go statement at %s is not reached from the spawner %s", p.Rel(g.stmt.Pos()), m.start.Name())
		}
	}
	sort.SliceStable(m.gos, func(i, j int) bool { return m.gos[i].stmt.Pos() < m.gos[j].stmt.Pos() })
	// roles of the goroutines
	for _, g := range m.gos {
		u := g.unit
		switch {
		case g.loopStmt != nil:
			g.role = "worker"
		case m.unitReaches(u, func(x *unit) bool { return m.unitReadsInput(x) }):
			g.role = "reader"
		default:
			g.role = "serializer"
		}
		u.name = m.start.Name() + "$" + g.role
		m.propagate(u, g.role, token.NoPos)
	}
	// consumer: exported methods of Scanner and exported functions
	for _, fi := range all {
		isEntry := false
		if recv := fi.Obj.Type().(*types.Signature).Recv(); recv != nil {
			if namedPath(recv.Type()) == namedPath(m.scannerT) && fi.Obj.Exported() {
				isEntry = true
			}
		} else if fi.Obj.Exported() {
			isEntry = true
		}
		if isEntry {
			m.propagate(m.byDecl[fi.Obj], "consumer", token.NoPos)
		}
	}
	// decoder fields: context, cancel, wait group
	if st, ok := m.decoderT.Underlying().(*types.Struct); ok {
		for i := 0; i < st.NumFields(); i++ {
			f := st.Field(i)
			switch {
			case namedPath(f.Type()) == "context.Context":
				m.ctxField = f
			case namedPath(f.Type()) == "sync.WaitGroup":
				m.wgField = f
			}
			if sig, ok := f.Type().Underlying().(*types.Signature); ok && sig.Params().Len() == 0 && sig.Results().Len() == 0 {
				m.cancelField = f
			}
		}
	}
	if m.ctxField == nil || m.cancelField == nil || m.wgField == nil {
		m.fail("decoder fields for context / cancel func / wait group")
	} else {
		m.checkCtxPair()
	}
	// next: the decoder method with results (osm.Object, error) closest to Scanner.Scan
	if scan := findFunc(m.pk, "(*Scanner).Scan"); scan != nil {
		m.bfs(m.byDecl[scan.Obj], func(u *unit) bool {
			if u.goSite != nil || u.fi.Obj == m.start.Obj {
				return false
			}
			fn := u.fi.Obj
			sig := fn.Type().(*types.Signature)
			if nt := pbfRecvNamed(fn); nt != nil && nt == m.decoderT && sig.Results().Len() == 2 &&
				namedPath(sig.Results().At(0).Type()) == core.ModulePath+".Object" && pbfIsError(sig.Results().At(1).Type()) {
				m.next = u.fi
				return true
			}
			return false
		})
	}
	if m.next == nil {
		m.fail("decoder method called by Scanner.Scan to fetch the next object")
	}
	// per-worker decoder type: receiver of the decode entry
	if e := m.decodeEntry(); e != nil {
		m.ddT = pbfRecvNamed(e.Obj)
	}
	if m.ddT == nil {
		m.fail("per-worker decoder (the receiver of the method returning ([]osm.Object, error) that the worker goroutine calls)")
	}
	return m
}

// pbfIsLoop reports whether n is a for or range statement.
func pbfIsLoop(n ast.Node) bool {
	switch n.(type) {
	case *ast.ForStmt, *ast.RangeStmt:
		return true
	}
	return false
}

// pbfLoopBody returns the body of a for / range statement.
func pbfLoopBody(l ast.Stmt) *ast.BlockStmt {
	switch x := l.(type) {
	case *ast.ForStmt:
		return x.Body
	case *ast.RangeStmt:
		return x.Body
	}
	return nil
}

func pbfIsError(t types.Type) bool {
	return types.Identical(t, types.Universe.Lookup("error").Type())
}

// decodeEntry returns the per-worker decoder method that turns one blob into objects: the function with results
// ([]osm.Object, error) that is closest (in calls) to the worker goroutine, found through helper calls.
func (m *pbfModel) decodeEntry() *FuncInfo {
	if m.entry != nil {
		return m.entry
	}
	wg := m.goOf("worker")
	if wg == nil {
		return nil
	}
	m.bfs(wg.unit, func(u *unit) bool {
		if u.goSite != nil {
			return false
		}
		fn := u.fi.Obj
		sig := fn.Type().(*types.Signature)
		nt := pbfRecvNamed(fn)
		if nt == nil || nt == m.decoderT || nt.Obj().Pkg() != m.pk.Types || sig.Results().Len() != 2 || !pbfIsError(sig.Results().At(1).Type()) {
			return false
		}
		sl, ok := sig.Results().At(0).Type().Underlying().(*types.Slice)
		if !ok || namedPath(sl.Elem()) != core.ModulePath+".Object" {
			return false
		}
		m.entry = u.fi
		return true
	})
	return m.entry
}

// bfs visits the units reachable from u through static calls, nearest first, until visit returns true.
func (m *pbfModel) bfs(u *unit, visit func(*unit) bool) {
	if u == nil {
		return
	}
	seen := map[*unit]bool{u: true}
	queue := []*unit{u}
	for len(queue) > 0 {
		x := queue[0]
		queue = queue[1:]
		if visit(x) {
			return
		}
		for _, fn := range x.calls {
			if y := m.unitOfFunc(fn); y != nil && !seen[y] {
				seen[y] = true
				queue = append(queue, y)
			}
		}
	}
}

// checkCtxPair verifies that ctxField/cancelField are initialised together from one context.WithCancel call:
// either `c, cancel := context.WithCancel(..)` feeding a composite literal of the decoder, or
// `dec.ctx, dec.cancel = context.WithCancel(..)`.
func (m *pbfModel) checkCtxPair() {
	ok := false
	for _, fi := range allFuncs(m.pk) {
		ast.Inspect(fi.Decl.Body, func(x ast.Node) bool {
			as, isAs := x.(*ast.AssignStmt)
			if !isAs || len(as.Lhs) != 2 || len(as.Rhs) != 1 {
				return true
			}
			call, isCall := as.Rhs[0].(*ast.CallExpr)
			if !isCall || !isPkgFunc(callee(m.info, call), "context", "WithCancel") {
				return true
			}
			if fieldOf(m.info, as.Lhs[0]) == m.ctxField && fieldOf(m.info, as.Lhs[1]) == m.cancelField {
				ok = true
				return true
			}
			c, cancel := objOf(m.info, as.Lhs[0]), objOf(m.info, as.Lhs[1])
			if c == nil || cancel == nil {
				return true
			}
			// a composite literal of the decoder type in the same function must use them for the two fields,
			// or the two fields are assigned from them
			var gotCtx, gotCancel bool
			ast.Inspect(fi.Decl.Body, func(y ast.Node) bool {
				switch z := y.(type) {
				case *ast.CompositeLit:
					if namedPath(m.info.TypeOf(z)) != namedPath(m.decoderT) {
						return true
					}
					for _, e := range z.Elts {
						kv, isKV := e.(*ast.KeyValueExpr)
						if !isKV {
							continue
						}
						k, _ := kv.Key.(*ast.Ident)
						if k == nil {
							continue
						}
						if m.info.Uses[k] == m.ctxField && objOf(m.info, kv.Value) == c {
							gotCtx = true
						}
						if m.info.Uses[k] == m.cancelField && objOf(m.info, kv.Value) == cancel {
							gotCancel = true
						}
					}
				case *ast.AssignStmt:
					for i, l := range z.Lhs {
						if i < len(z.Rhs) && len(z.Lhs) == len(z.Rhs) {
							if fieldOf(m.info, l) == m.ctxField && objOf(m.info, z.Rhs[i]) == c {
								gotCtx = true
							}
							if fieldOf(m.info, l) == m.cancelField && objOf(m.info, z.Rhs[i]) == cancel {
								gotCancel = true
							}
						}
					}
				}
				return true
			})
			if gotCtx && gotCancel {
				ok = true
			}
			return true
		})
	}
	if !ok {
		m.fail("decoder context and cancel func are not initialised as a pair from context.WithCancel in the constructor")
	}
}

// walkUnit visits the nodes of a unit: nested goroutine closures are other units and are skipped;
// other nested function literals (deferred closures) belong to the unit. The call expression of a
// `go f(args)` statement is visited (its arguments are evaluated by the unit), but f's body is another unit.
func (m *pbfModel) walkUnit(u *unit, f func(ast.Node) bool) {
	ast.Inspect(u.body, func(n ast.Node) bool {
		if n == nil {
			return true
		}
		if lit, ok := n.(*ast.FuncLit); ok {
			if _, isGo := m.units[lit]; isGo && lit != u.node {
				return false
			}
		}
		return f(n)
	})
}

func (m *pbfModel) unitCalls(u *unit, pkgpath, name string) bool {
	found := false
	m.walkUnit(u, func(n ast.Node) bool {
		if call, ok := n.(*ast.CallExpr); ok && isPkgFunc(callee(m.info, call), pkgpath, name) {
			found = true
		}
		return !found
	})
	return found
}

// unitOfFunc returns the unit that executes the body of a declared function (for a function started with
// `go f(args)` that is the goroutine's unit).
func (m *pbfModel) unitOfFunc(fn *types.Func) *unit {
	return m.byDecl[fn]
}

func (m *pbfModel) unitReaches(u *unit, pred func(*unit) bool) bool {
	seen := map[*unit]bool{}
	var rec func(*unit) bool
	rec = func(x *unit) bool {
		if x == nil || seen[x] {
			return false
		}
		seen[x] = true
		if pred(x) {
			return true
		}
		for _, fn := range x.calls {
			if rec(m.unitOfFunc(fn)) {
				return true
			}
		}
		return false
	}
	return rec(u)
}

// propagate marks u and everything it statically reaches with role.
func (m *pbfModel) propagate(u *unit, role string, _ token.Pos) {
	if u == nil || u.roles[role] {
		return
	}
	u.roles[role] = true
	for _, fn := range u.calls {
		m.propagate(m.unitOfFunc(fn), role, token.NoPos)
	}
}

// goOf returns the go site with the given role (first one).
func (m *pbfModel) goOf(role string) *goSite {
	for _, g := range m.gos {
		if g.role == role {
			return g
		}
	}
	return nil
}

// sortedUnits returns the units in source order.
func (m *pbfModel) sortedUnits() []*unit {
	var us []*unit
	for _, u := range m.units {
		us = append(us, u)
	}
	sort.Slice(us, func(i, j int) bool { return us[i].node.Pos() < us[j].node.Pos() })
	return us
}

// rolesOf lists the roles of a unit in sorted order.
func rolesOf(u *unit) []string {
	var rs []string
	for r := range u.roles {
		rs = append(rs, r)
	}
	sort.Strings(rs)
	return rs
}

// goroutineOnly reports whether the unit runs only inside pipeline goroutines (never on the caller's goroutine).
func (u *unit) goroutineOnly() bool {
	return len(u.roles) > 0 && !u.roles["consumer"]
}

// onlyRole reports whether role is the unit's single role.
func (u *unit) onlyRole(role string) bool {
	return len(u.roles) == 1 && u.roles[role]
}

// funcAt returns the declared function whose declaration spans pos.
func (m *pbfModel) funcAt(pos token.Pos) *FuncInfo {
	for _, fi := range m.funcs {
		if fi.Decl.Pos() <= pos && pos < fi.Decl.End() {
			return fi
		}
	}
	return nil
}

// ---- control-flow graphs ----

type pbfCFG struct {
	g   *cfg.CFG
	dom map[*cfg.Block]map[*cfg.Block]bool
}

// cfgOf returns the (cached) CFG and dominator sets of a function body.
func (v *pbfPkgView) cfgOf(body *ast.BlockStmt) *pbfCFG {
	if c, ok := v.cfgs[body]; ok {
		return c
	}
	g := newCFG(v.info, body)
	c := &pbfCFG{g: g, dom: dominators(g)}
	v.cfgs[body] = c
	return c
}

func (m *pbfModel) cfgOf(body *ast.BlockStmt) *pbfCFG { return m.view.cfgOf(body) }

// exits returns the live blocks from which the function returns (return statement or falling off the end);
// blocks that end in a call that never returns are not exits.
func (c *pbfCFG) exits(info *types.Info) []*cfg.Block {
	var out []*cfg.Block
	for _, b := range c.g.Blocks {
		if !b.Live || len(b.Succs) > 0 || b.Kind == cfg.KindSelectAfterCase {
			continue // (the fall-through block of a select without default is never left: the select blocks)
		}
		if len(b.Nodes) > 0 {
			if es, ok := b.Nodes[len(b.Nodes)-1].(*ast.ExprStmt); ok {
				if call, ok := es.X.(*ast.CallExpr); ok && builtinName(info, call) == "panic" {
					continue
				}
			}
		}
		out = append(out, b)
	}
	return out
}

// inCycle reports whether block b can reach itself.
func pbfInCycle(b *cfg.Block) bool {
	return reachableFrom(b.Succs, nil)[b]
}

// mustExec reports whether node n (a statement directly in body, not inside a nested function literal) is executed
// exactly once on every complete execution of body: its block dominates every exit and is not part of a cycle.
// For a defer statement this means the deferred call runs exactly once, when body returns.
func (m *pbfModel) mustExec(body *ast.BlockStmt, n ast.Node) bool { return m.view.mustExec(body, n) }

func (v *pbfPkgView) mustExec(body *ast.BlockStmt, n ast.Node) bool {
	m := v
	c := m.cfgOf(body)
	b, _ := blockOf(c.g, n.Pos())
	if b == nil || !b.Live || pbfInCycle(b) {
		return false
	}
	for _, x := range c.exits(m.info) {
		if !c.dom[x][b] {
			return false
		}
	}
	return true
}

// ---- deep walking: a unit together with the helpers it calls ----

// pbfFrame is one level of a deep site: a function body and the node in it (call, defer statement or function
// literal) that leads to the next level.
type pbfFrame struct {
	u        *unit
	body     *ast.BlockStmt
	link     ast.Node // nil in the innermost frame
	deferred bool     // link is a defer statement (its callee runs when body returns)
}

// pbfSite locates a node found by deepWalk: the chain of frames from the root unit to the function body that
// lexically contains the node.
type pbfSite struct {
	frames []pbfFrame
}

// unit returns the unit that lexically contains the node.
func (s *pbfSite) unit() *unit { return s.frames[len(s.frames)-1].u }

// body returns the innermost function body containing the node.
func (s *pbfSite) body() *ast.BlockStmt { return s.frames[len(s.frames)-1].body }

// rootPos maps the node to a position in the root unit's own body: the node itself, or the root's statement
// that leads to it.
func (s *pbfSite) rootPos(n ast.Node) token.Pos {
	if len(s.frames) > 1 {
		return s.frames[0].link.Pos()
	}
	return n.Pos()
}

// deferredCtx reports whether the node runs in a deferred context of the root (some level of the chain is a defer).
func (s *pbfSite) deferredCtx() bool {
	for _, f := range s.frames {
		if f.deferred {
			return true
		}
	}
	return false
}

// deepWalk visits the nodes of root and, through static calls (plain or deferred), the bodies of the declared
// functions of the package it reaches (each once; recursion is cut). Goroutine bodies started from root are
// other units and are not entered. Function literals are entered as a frame of their own.
func (m *pbfModel) deepWalk(root *unit, f func(s *pbfSite, n ast.Node) bool) {
	m.deepWalkOpt(root, false, f)
}

// deepWalkOpt is deepWalk; with perPath a helper is entered once per call site (call path) instead of once in all,
// so that code shared by several callers is seen in each calling context.
func (m *pbfModel) deepWalkOpt(root *unit, perPath bool, f func(s *pbfSite, n ast.Node) bool) {
	seen := map[*unit]bool{root: true}
	var walkBody func(u *unit, body *ast.BlockStmt, frames []pbfFrame)
	walkBody = func(u *unit, body *ast.BlockStmt, frames []pbfFrame) {
		site := &pbfSite{frames: append(append([]pbfFrame{}, frames...), pbfFrame{u: u, body: body})}
		par := parentsOf(m.p, u.fi)
		ast.Inspect(body, func(n ast.Node) bool {
			if n == nil {
				return true
			}
			if lit, ok := n.(*ast.FuncLit); ok {
				if _, isGo := m.units[lit]; isGo {
					return false
				}
				// nested literal: its own frame; deferred when it is the callee of a defer statement
				link := ast.Node(lit)
				deferred := false
				if call, ok := par[lit].(*ast.CallExpr); ok && ast.Unparen(call.Fun) == ast.Expr(lit) {
					link = call
					if ds, ok := par[call].(*ast.DeferStmt); ok {
						link, deferred = ds, true
					}
				}
				if !f(site, n) {
					return false
				}
				walkBody(u, lit.Body, append(append([]pbfFrame{}, frames...), pbfFrame{u: u, body: body, link: link, deferred: deferred}))
				return false
			}
			if !f(site, n) {
				return false
			}
			if call, ok := n.(*ast.CallExpr); ok {
				if _, isGo := m.goCalls[call]; isGo {
					return true
				}
				fn := callee(m.info, call)
				if fn == nil || m.funcs[fn] == nil {
					return true
				}
				tu := m.byDecl[fn]
				if tu == nil || tu.goSite != nil || seen[tu] {
					return true
				}
				seen[tu] = true
				if perPath {
					defer delete(seen, tu)
				}
				link := ast.Node(call)
				deferred := false
				if ds, ok := par[call].(*ast.DeferStmt); ok && ds.Call == call {
					link, deferred = ds, true
				}
				walkBody(tu, tu.body, append(append([]pbfFrame{}, frames...), pbfFrame{u: u, body: body, link: link, deferred: deferred}))
			}
			return true
		})
	}
	walkBody(root, root.body, nil)
}

// mustExecDeep reports whether node n at site s is executed exactly once on every complete execution of the root
// unit: every link of the chain and n itself are must-exec in their function body.
func (m *pbfModel) mustExecDeep(s *pbfSite, n ast.Node) bool {
	for i, fr := range s.frames {
		x := fr.link
		if i == len(s.frames)-1 {
			x = n
		}
		if !m.mustExec(fr.body, x) {
			return false
		}
	}
	return true
}

// ---- definitions of local variables and parameters ----

// pbfOrigin is one defining expression of a variable.
type pbfOrigin struct {
	kind string   // "assign", "result" (idx-th result of call e), "range-key", "range-value" (of range over e), "recv" (v, ok := <-e: idx 0/1), "arg" (argument bound to a parameter), "zero" (var without value), "unknown"
	e    ast.Expr // defining expression
	idx  int
	fi   *FuncInfo // function that lexically contains e
	stmt ast.Node  // the defining statement
}

// defsOf lists every definition of a local variable or parameter o: for a local every assignment in its function,
// for a parameter (or receiver) of a declared function the argument at every static call site.
func (m *pbfModel) defsOf(o types.Object) []pbfOrigin {
	return m.ctxDefs(m.defsOfAll(o)) // (narrowed to the current call-site context, if one is set)
}

// defsOfAll: defsOf regardless of any call-site context.
func (m *pbfModel) defsOfAll(o types.Object) []pbfOrigin {
	v, ok := o.(*types.Var)
	if !ok || v.IsField() {
		return nil
	}
	fi := m.funcAt(o.Pos())
	if fi == nil {
		return nil
	}
	var out []pbfOrigin
	// parameter or receiver of fi?
	isParam := false
	if fi.Decl.Recv != nil {
		for _, fld := range fi.Decl.Recv.List {
			for _, nm := range fld.Names {
				if m.info.Defs[nm] == o {
					isParam = true
				}
			}
		}
	}
	if c01ParamIndex(m.info, fi, o) >= 0 {
		isParam = true
	}
	if isParam {
		for _, s := range m.sites[fi.Obj] {
			if a := argForParam(m.info, fi, s.call, o); a != nil {
				out = append(out, pbfOrigin{kind: "arg", e: a, fi: s.u.fi, stmt: s.call})
			} else {
				out = append(out, pbfOrigin{kind: "unknown", fi: s.u.fi, stmt: s.call})
			}
		}
	}
	// parameter of a function literal: bound by the call when the literal is invoked on the spot
	// (`go func(a T) {...}(x)`, `defer func(a T) {...}(x)`, `func(a T) {...}(x)`), unknown otherwise
	ast.Inspect(fi.Decl.Body, func(n ast.Node) bool {
		lit, ok := n.(*ast.FuncLit)
		if !ok || lit.Type.Params == nil {
			return true
		}
		idx, pi := -1, 0
		for _, fld := range lit.Type.Params.List {
			for _, nm := range fld.Names {
				if m.info.Defs[nm] == o {
					idx = pi
				}
				pi++
			}
		}
		if idx < 0 {
			return true
		}
		par := m.view.parents(fi)
		if call, ok := par[lit].(*ast.CallExpr); ok && ast.Unparen(call.Fun) == ast.Expr(lit) && idx < len(call.Args) && !call.Ellipsis.IsValid() {
			out = append(out, pbfOrigin{kind: "arg", e: call.Args[idx], fi: fi, stmt: call})
		} else {
			out = append(out, pbfOrigin{kind: "unknown", fi: fi, stmt: lit})
		}
		return true
	})
	ast.Inspect(fi.Decl.Body, func(n ast.Node) bool {
		switch s := n.(type) {
		case *ast.AssignStmt:
			for i, l := range s.Lhs {
				id, ok := ast.Unparen(l).(*ast.Ident)
				if !ok || (m.info.Defs[id] != o && m.info.Uses[id] != o) {
					continue
				}
				switch {
				case s.Tok != token.ASSIGN && s.Tok != token.DEFINE:
					out = append(out, pbfOrigin{kind: "unknown", e: s.Rhs[0], fi: fi, stmt: s}) // op-assignment
				case len(s.Lhs) == len(s.Rhs):
					out = append(out, pbfOrigin{kind: "assign", e: s.Rhs[i], fi: fi, stmt: s})
				case len(s.Rhs) == 1:
					rhs := ast.Unparen(s.Rhs[0])
					if ue, ok := rhs.(*ast.UnaryExpr); ok && ue.Op == token.ARROW {
						out = append(out, pbfOrigin{kind: "recv", e: ue.X, idx: i, fi: fi, stmt: s})
					} else if _, ok := rhs.(*ast.CallExpr); ok {
						out = append(out, pbfOrigin{kind: "result", e: rhs, idx: i, fi: fi, stmt: s})
					} else {
						out = append(out, pbfOrigin{kind: "unknown", e: rhs, idx: i, fi: fi, stmt: s})
					}
				}
			}
		case *ast.IncDecStmt:
			if id, ok := ast.Unparen(s.X).(*ast.Ident); ok && m.info.Uses[id] == o {
				out = append(out, pbfOrigin{kind: "unknown", e: s.X, fi: fi, stmt: s})
			}
		case *ast.ValueSpec:
			for i, nm := range s.Names {
				if m.info.Defs[nm] != o {
					continue
				}
				switch {
				case len(s.Values) == 0:
					out = append(out, pbfOrigin{kind: "zero", fi: fi, stmt: s})
				case len(s.Values) == len(s.Names):
					out = append(out, pbfOrigin{kind: "assign", e: s.Values[i], fi: fi, stmt: s})
				default:
					out = append(out, pbfOrigin{kind: "result", e: s.Values[0], idx: i, fi: fi, stmt: s})
				}
			}
		case *ast.RangeStmt:
			if s.Key != nil && objOf(m.info, s.Key) == o {
				out = append(out, pbfOrigin{kind: "range-key", e: s.X, fi: fi, stmt: s})
			}
			if s.Value != nil && objOf(m.info, s.Value) == o {
				out = append(out, pbfOrigin{kind: "range-value", e: s.X, fi: fi, stmt: s})
			}
		case *ast.UnaryExpr:
			// address taken: the variable may be written through the pointer
			if s.Op == token.AND {
				if id, ok := ast.Unparen(s.X).(*ast.Ident); ok && m.info.Uses[id] == o {
					out = append(out, pbfOrigin{kind: "unknown", e: s.X, fi: fi, stmt: s})
				}
			}
		}
		return true
	})
	return out
}

// returnsOf lists, for a declared function, the idx-th result expression of every return statement
// (nil entry for a bare return of named results).
func (m *pbfModel) returnsOf(fi *FuncInfo, idx int) []ast.Expr {
	var out []ast.Expr
	ast.Inspect(fi.Decl.Body, func(n ast.Node) bool {
		switch s := n.(type) {
		case *ast.FuncLit:
			return false
		case *ast.ReturnStmt:
			switch {
			case idx < len(s.Results):
				out = append(out, s.Results[idx])
			case len(s.Results) == 1 && idx > 0:
				out = append(out, nil) // `return f()` forwarding a tuple
			case len(s.Results) == 0:
				// bare return of named results: the result variable itself (its definitions are followed)
				out = append(out, pbfNamedResult(fi, idx))
			default:
				out = append(out, nil)
			}
		}
		return true
	})
	return out
}

// pbfNamedResult returns the declaring identifier of the idx-th named result of fi (nil when results are unnamed).
func pbfNamedResult(fi *FuncInfo, idx int) ast.Expr {
	if fi.Decl.Type.Results == nil {
		return nil
	}
	k := 0
	for _, fld := range fi.Decl.Type.Results.List {
		for _, nm := range fld.Names {
			if k == idx {
				return nm
			}
			k++
		}
		if len(fld.Names) == 0 {
			k++
		}
	}
	return nil
}

// ---- channels ----

// chanOp is one channel operation in the package.
type chanOp struct {
	kind   string // send, recv, range, close, done
	class  string // channel class: decoder field name the channel belongs to, or "?" + text
	expr   ast.Expr
	pos    token.Pos
	u      *unit
	sel    *ast.SelectStmt // enclosing select, if the op is a comm clause
	clause *ast.CommClause
	defer_ bool            // close that runs when a goroutine (or function) exits: inside a deferred call/closure, or in a helper that is only called that way
	node   ast.Node        // the send statement / receive expression / range statement / close call
	ctx    []*ast.CallExpr // call site this operation is seen from, for an operation of a shared helper split per call site
}

// chanClass resolves a channel expression to the decoder field it belongs to: directly (`dec.F`, `dec.F[i]`),
// through locals (`x := dec.F[i]`, `for _, x := range dec.F`, `x := make(..)` with `dec.F = append(dec.F, x)`),
// and through parameters (the argument at every call / go statement of the function).
func (m *pbfModel) chanClass(u *unit, e ast.Expr) string {
	if cls := m.classesOf(e, map[types.Object]bool{}); len(cls) == 1 {
		for c := range cls {
			return c
		}
	}
	return "?" + src(m.p.Fset, e)
}

func (m *pbfModel) classesOf(e ast.Expr, seen map[types.Object]bool) map[string]bool {
	out := map[string]bool{}
	add := func(s map[string]bool) {
		for k := range s {
			out[k] = true
		}
	}
	e = ast.Unparen(e)
	switch x := e.(type) {
	case *ast.SelectorExpr:
		if f := fieldOf(m.info, x); f != nil {
			// a channel kept in a field of a struct that holds what a closure would have captured
			// (`w.in` with `w := &worker{in: input}`): the class of what the field was given
			if base, bf := m.structLocalField(x); base != nil && namedPath(selRecv(m.info, x)) != namedPath(m.decoderT) {
				if inits, ok := m.fieldInits(base, 0, bf, map[types.Object]bool{}, 0); ok && len(inits) > 0 {
					for _, in := range inits {
						add(m.classesOf(in, seen))
					}
					if len(out) > 0 {
						break
					}
				}
			}
			out[m.classNameOf(x, f)] = true
		}
	case *ast.IndexExpr:
		add(m.classesOf(x.X, seen))
	case *ast.SliceExpr:
		add(m.classesOf(x.X, seen)) // `dec.outputs[:n]`
	case *ast.CallExpr:
		// conversion to a directional channel type
		if tv, ok := m.info.Types[x.Fun]; ok && tv.IsType() && len(x.Args) == 1 {
			add(m.classesOf(x.Args[0], seen))
		}
	case *ast.Ident:
		o := objOf(m.info, x)
		if o == nil || seen[o] {
			break
		}
		seen[o] = true
		defer delete(seen, o)
		for _, d := range m.ctxDefs(m.defsOf(o)) {
			switch d.kind {
			case "assign", "arg", "range-value":
				add(m.classesOf(d.e, seen))
			}
		}
		// registered in a slice of the decoder in another way: stored into an element (`dec.F[i] = o`), put into a
		// struct that is appended / stored (`dec.L = append(dec.L, T{in: o})`), or returned to a caller that does so
		add(m.registeredClasses(o, seen))
		// appended into a field: dec.F = append(dec.F, o)
		if fi := m.funcAt(o.Pos()); fi != nil {
			ast.Inspect(fi.Decl.Body, func(n ast.Node) bool {
				as, ok := n.(*ast.AssignStmt)
				if !ok || len(as.Lhs) != len(as.Rhs) {
					return true
				}
				for i, l := range as.Lhs {
					f := fieldOf(m.info, l)
					if f == nil {
						continue
					}
					if call, ok := ast.Unparen(as.Rhs[i]).(*ast.CallExpr); ok && builtinName(m.info, call) == "append" && len(call.Args) >= 2 {
						for _, a := range call.Args[1:] {
							if objOf(m.info, a) == o {
								out[f.Name()] = true
							}
						}
					}
				}
				return true
			})
		}
	}
	return out
}

// isCtxDone reports whether e is `<-C.Done()` where C is the decoder's cancellable context (the field, or a local /
// parameter that holds it); strict reports whether C is provably the decoder's context field.
func (m *pbfModel) isCtxDoneRecv(e ast.Expr) (isDone, strict bool) {
	ue, ok := ast.Unparen(e).(*ast.UnaryExpr)
	if !ok || ue.Op != token.ARROW {
		return false, false
	}
	return m.isCtxDoneChan(ue.X, map[types.Object]bool{})
}

func (m *pbfModel) isCtxDoneChan(e ast.Expr, seen map[types.Object]bool) (isDone, strict bool) {
	e = ast.Unparen(e)
	if id, ok := e.(*ast.Ident); ok {
		// done := dec.ctx.Done()
		o := objOf(m.info, id)
		if o == nil || seen[o] {
			return false, false
		}
		seen[o] = true
		defer delete(seen, o)
		defs := m.defsOf(o)
		if len(defs) == 0 {
			return false, false
		}
		all, allStrict := true, true
		for _, d := range defs {
			if d.kind != "assign" && d.kind != "arg" {
				return false, false
			}
			dn, st := m.isCtxDoneChan(d.e, seen)
			all = all && dn
			allStrict = allStrict && st
		}
		return all, all && allStrict
	}
	call, ok := e.(*ast.CallExpr)
	if !ok || !isMethod(callee(m.info, call), "context.Context", "Done") {
		return false, false
	}
	sel, ok := call.Fun.(*ast.SelectorExpr)
	if !ok {
		return true, false
	}
	return true, m.isDecoderCtx(sel.X, map[types.Object]bool{})
}

// isDecoderCtx reports whether e denotes the decoder's cancellable context: the field itself or a local/parameter
// that only ever holds it.
func (m *pbfModel) isDecoderCtx(e ast.Expr, seen map[types.Object]bool) bool {
	e = ast.Unparen(e)
	if f := fieldOf(m.info, e); f != nil {
		if f == m.ctxField {
			return true
		}
		// a field of a struct that holds what a closure would have captured (`w.ctx` with `w := &worker{ctx: dec.ctx}`)
		if base, bf := m.structLocalField(e); base != nil {
			if inits, ok := m.fieldInits(base, 0, bf, map[types.Object]bool{}, 0); ok && len(inits) > 0 {
				for _, in := range inits {
					if !m.isDecoderCtx(in, seen) {
						return false
					}
				}
				return true
			}
		}
		return false
	}
	id, ok := e.(*ast.Ident)
	if !ok {
		return false
	}
	o := objOf(m.info, id)
	if o == nil || seen[o] {
		return false
	}
	seen[o] = true
	defer delete(seen, o)
	defs := m.defsOf(o)
	if len(defs) == 0 {
		return false
	}
	for _, d := range defs {
		if (d.kind != "assign" && d.kind != "arg") || !m.isDecoderCtx(d.e, seen) {
			return false
		}
	}
	return true
}

// atExitOnly reports whether a declared helper only ever runs when a function returns: every call site is the call
// of a defer statement, lies inside a deferred function literal, or lies in a helper that is itself at-exit-only.
func (m *pbfModel) atExitOnly(u *unit, seen map[*unit]bool) bool {
	if u == nil || u.goSite != nil || seen[u] {
		return false
	}
	seen[u] = true
	ss := m.sites[u.fi.Obj]
	if len(ss) == 0 {
		return false
	}
	for _, s := range ss {
		if s.isGo {
			return false
		}
		if s.defer_ || m.inDeferredLit(s.u, s.call) {
			continue
		}
		if !m.atExitOnly(s.u, seen) {
			return false
		}
	}
	return true
}

// inDeferredLit reports whether n lies (inside unit u) under a defer statement: `defer f(n…)` or `defer func(){ … n … }()`.
func (m *pbfModel) inDeferredLit(u *unit, n ast.Node) bool {
	par := parentsOf(m.p, u.fi)
	for p := par[n]; p != nil && p != u.node && p != ast.Node(u.body); p = par[p] {
		if _, ok := p.(*ast.DeferStmt); ok {
			return true
		}
	}
	return false
}

// chanOps collects every channel operation of the package.
func (m *pbfModel) chanOps() []*chanOp {
	if m.opsMemo != nil {
		return m.opsMemo
	}
	var ops []*chanOp
	isChan := func(e ast.Expr) bool {
		t := m.info.TypeOf(e)
		if t == nil {
			return false
		}
		_, ok := t.Underlying().(*types.Chan)
		return ok
	}
	for _, u := range m.sortedUnits() {
		u := u
		par := parentsOf(m.p, u.fi)
		exitOnly := m.atExitOnly(u, map[*unit]bool{})
		inDefer := func(n ast.Node) bool {
			return exitOnly || m.inDeferredLit(u, n)
		}
		commOf := func(n ast.Node) (*ast.SelectStmt, *ast.CommClause) {
			// the op must be the Comm statement of a clause (possibly wrapped in assign/expr stmt)
			for p := par[n]; p != nil && p != u.node; p = par[p] {
				if cc, ok := p.(*ast.CommClause); ok {
					if cc.Comm != nil && cc.Comm.Pos() <= n.Pos() && n.End() <= cc.Comm.End() {
						sel, _ := par[par[cc]].(*ast.SelectStmt)
						return sel, cc
					}
					return nil, nil
				}
				if _, ok := p.(*ast.BlockStmt); ok {
					return nil, nil
				}
			}
			return nil, nil
		}
		m.walkUnit(u, func(n ast.Node) bool {
			switch x := n.(type) {
			case *ast.SendStmt:
				op := &chanOp{kind: "send", expr: x.Chan, pos: x.Pos(), u: u, class: m.chanClass(u, x.Chan), node: x}
				op.sel, op.clause = commOf(x)
				ops = append(ops, op)
			case *ast.UnaryExpr:
				if x.Op == token.ARROW {
					op := &chanOp{kind: "recv", expr: x.X, pos: x.Pos(), u: u, node: x}
					op.sel, op.clause = commOf(x)
					if isDone, strict := m.isCtxDoneRecv(x); isDone {
						op.kind = "done"
						op.class = "ctx.Done"
						if strict {
							op.class = "dec.ctx.Done"
						}
					}
					if op.class == "" {
						op.class = m.chanClass(u, x.X)
					}
					ops = append(ops, op)
				}
			case *ast.RangeStmt:
				if isChan(x.X) {
					ops = append(ops, &chanOp{kind: "range", expr: x.X, pos: x.Pos(), u: u, class: m.chanClass(u, x.X), node: x})
				}
			case *ast.CallExpr:
				if builtinName(m.info, x) == "close" && len(x.Args) == 1 {
					ops = append(ops, &chanOp{kind: "close", expr: x.Args[0], pos: x.Pos(), u: u, class: m.chanClass(u, x.Args[0]), defer_: inDefer(x), node: x})
				}
			}
			return true
		})
	}
	// operations on a channel parameter that different call sites bind differently: one operation per call site
	var split []*chanOp
	for _, op := range ops {
		if len(op.class) > 0 && op.class[0] == '?' {
			if per := m.ctxOps(op); len(per) > 0 {
				split = append(split, per...)
				continue
			}
		}
		split = append(split, op)
	}
	ops = split
	m.opsMemo = ops
	return ops
}

// doneCase returns the clause of a select that receives from the Done channel of the decoder's cancellable context.
func (m *pbfModel) doneCase(sel *ast.SelectStmt) *ast.CommClause {
	if sel == nil {
		return nil
	}
	for _, c := range sel.Body.List {
		cc := c.(*ast.CommClause)
		if cc.Comm == nil {
			continue
		}
		found := false
		ast.Inspect(cc.Comm, func(n ast.Node) bool {
			ue, ok := n.(*ast.UnaryExpr)
			if !ok || ue.Op != token.ARROW {
				return true
			}
			if isDone, strict := m.isCtxDoneRecv(ue); isDone && strict {
				found = true
			}
			return true
		})
		if found {
			return cc
		}
	}
	return nil
}

// isCtxErrCall reports whether e is `<dec>.ctx.Err()` on the decoder's cancellable context.
func (m *pbfModel) isCtxErrCall(e ast.Expr) bool {
	call, ok := ast.Unparen(e).(*ast.CallExpr)
	if !ok || !isMethod(callee(m.info, call), "context.Context", "Err") {
		return false
	}
	s, ok := call.Fun.(*ast.SelectorExpr)
	if !ok {
		return false
	}
	return m.isDecoderCtx(s.X, map[types.Object]bool{})
}

// chanField returns the decoder field with the given channel class name.
func (m *pbfModel) chanField(class string) *types.Var {
	st, ok := m.decoderT.Underlying().(*types.Struct)
	if !ok {
		return nil
	}
	slot := m.slotOf(class)
	if slot.elem != nil {
		return slot.elem
	}
	_ = st
	return slot.slice
}

// pipelineClasses returns the channel classes by role: in = what the workers receive from, out = what the workers
// send on, queue = what the consumer receives from.
func (m *pbfModel) pipelineClasses() (in, out, queue string) {
	for _, op := range m.chanOps() {
		if op.u.onlyRole("worker") {
			if op.kind == "range" || op.kind == "recv" {
				in = op.class
			}
			if op.kind == "send" {
				out = op.class
			}
		}
		if (op.kind == "recv" || op.kind == "range") && op.u.roles["consumer"] {
			queue = op.class
		}
	}
	return
}
