package rules

import (
	"fmt"
	"go/ast"
	"go/token"
	"go/types"
	"strings"

	"osmcheck/core"
)

// c18InitResult is what package initialisation establishes about the table.
type c18InitResult struct {
	final   c18UF             // facts of the table when initialisation is over
	touched bool              // some initialiser decodes the literal or assigns the table
	loops   []c18LoopDiag     // loops over tracked slices seen on the way
	writes  map[ast.Node]bool // assignments to the table the analysis has accounted for
	reasons []string
	ok      *c18LoopDiag
}

func c18NewFlowEnv(r *core.R, c *c18Ctx, lit *c18Lit, writes map[ast.Node]bool) *c18FlowEnv {
	return &c18FlowEnv{r: r, c: c, lit: lit, tableP: map[types.Object]types.Object{}, entryP: map[types.Object]bool{}, valsP: map[types.Object]bool{},
		addrOf: map[*ast.CallExpr]types.Object{}, writes: writes}
}

// c18InitFacts runs the must-analysis over package initialisation in execution order: the initialiser of the
// table's declaration (a call of a package function that decodes, sorts and returns the slice), then every
// init function. The table may be filled through &table as the target of json.Unmarshal, or by assigning it
// a slice that was decoded into a local and sorted there (possibly in a helper that returns it).
func c18InitFacts(r *core.R, c *c18Ctx, lit *c18Lit) *c18InitResult {
	res := &c18InitResult{writes: map[ast.Node]bool{}}
	st := c18Flow{f: map[types.Object]c18UF{}}
	collect := func(env *c18FlowEnv) {
		res.touched = res.touched || env.reach
		res.loops = append(res.loops, env.loops...)
	}
	if e := c18VarInit(c.pk, c.table); e != nil {
		if call, ok := ast.Unparen(e).(*ast.CallExpr); ok {
			if fd2 := c.funcs[callee(c.info, call)]; fd2 != nil {
				env := c18NewFlowEnv(r, c, lit, res.writes)
				env.stack, env.active = []*ast.CallExpr{call}, []*ast.FuncDecl{fd2}
				if _, rv, ret := env.flow(fd2, st); ret {
					if !rv.errPath {
						st = st.with(c.table, rv.uf)
					}
					env.reach = true
				}
				collect(env)
			}
		}
	}
	for _, fd := range c18FuncDecls(c.pk) {
		if fd.Name.Name != "init" || fd.Recv != nil {
			continue
		}
		env := c18NewFlowEnv(r, c, lit, res.writes)
		env.active = []*ast.FuncDecl{fd}
		out, _, ret := env.flow(fd, st)
		if !env.reach {
			continue // this init does not touch the table
		}
		collect(env)
		if !ret {
			continue
		}
		if !out.f[c.table].u {
			res.reasons = append(res.reasons, fmt.Sprintf("the init function at %s can finish without the table holding the unmarshalled literal", r.P.Rel(fd.Pos())))
		}
		st = out
	}
	res.final = st.f[c.table]
	if res.final.errv != nil {
		res.reasons = append(res.reasons, fmt.Sprintf("the table is filled from a call that can fail, and the error %s is not ruled out (tested against nil with a panic or return) before initialisation ends", res.final.errv.Name()))
		res.final = c18UF{}
	}
	// helpers are analysed once per call and fixpoint round: keep the last diagnosis of each loop
	last := map[token.Pos]int{}
	var ls []c18LoopDiag
	for _, l := range res.loops {
		if i, ok := last[l.pos]; ok {
			ls[i] = l
		} else {
			last[l.pos] = len(ls)
			ls = append(ls, l)
		}
	}
	res.loops = ls
	good := false
	for i := range res.loops {
		l := &res.loops[i]
		at := r.P.Rel(l.pos)
		switch {
		case !l.hasSort && l.copyAsg:
			res.reasons = append(res.reasons, fmt.Sprintf("the loop at %s assigns to the %s field of the range-value copy, which never reaches %s", at, c.valsF.Name(), c.table.Name()))
		case !l.hasSort:
			res.reasons = append(res.reasons, fmt.Sprintf("the loop at %s contains no in-place sort (sort.Strings / sort.StringSlice(..).Sort() / sort.Sort(sort.StringSlice(..)) / slices.Sort, directly or in a helper) of the entry's %s", at, c.valsF.Name()))
		case !l.everyIter:
			res.reasons = append(res.reasons, fmt.Sprintf("some iterations of the loop at %s reach the next entry without passing `%s`: those entries stay unsorted", at, l.sortText))
		case !l.onlyHead:
			res.reasons = append(res.reasons, fmt.Sprintf("the loop at %s can be left before the last entry: the remaining entries stay unsorted", at))
		case !l.loaded:
			res.reasons = append(res.reasons, fmt.Sprintf("the literal has not necessarily been unmarshalled into the slice when the sorting loop at %s starts (sorting an empty or a different slice)", at))
		default:
			good, res.ok = true, l
		}
	}
	switch {
	case len(res.loops) == 0:
		res.reasons = append(res.reasons, "initialisation has no loop over the decoded slice after the unmarshal")
	case good && res.final.u && !res.final.s:
		res.reasons = append(res.reasons, "initialisation can finish without completing the sorting loop, or the table is decoded or assigned again after it (from a slice that is not the sorted one)")
	}
	return res
}

// c18CheckSorted discharges "value lists sorted before use".
func c18CheckSorted(r *core.R, c *c18Ctx, lit *c18Lit, sc string, unsorted []string, res *c18InitResult) {
	if len(unsorted) == 0 {
		r.OKTrivial(sc, lit.expr.Pos(), "every value list of the embedded literal is already in ascending order")
		return
	}
	need := fmt.Sprintf("value lists of %v are not in ascending order in the literal, and sort.SearchStrings on an unsorted list misses members", unsorted)
	switch {
	case res.final.u && res.final.s:
		pos, elem, st := lit.call.Pos(), "?", "?"
		if res.ok != nil {
			pos, elem, st = res.ok.sortPos, res.ok.elem, res.ok.sortText
		}
		r.OK(sc, pos, "literal lists of %v are unsorted, but on every path through package initialisation the json.Unmarshal of the literal is followed by a complete loop over the decoded slice (element `%s`) in which every iteration passes `%s` (in place on the shared backing array), that slice is (or ends up in) %s, and every normal exit lies behind that loop", unsorted, elem, st, c.table.Name())
	case !res.touched:
		r.Unknown(sc, lit.call.Pos(), "%s; the unmarshal is in %s, which neither the table's declaration nor a package init function runs, so the rule cannot order it before the first search", need, lit.fd.Name.Name)
	default:
		reasons := res.reasons
		if len(reasons) == 0 {
			reasons = append(reasons, "no path-independent sort of every entry was found in package initialisation")
		}
		r.Bad(sc, lit.call.Pos(), "%s; %s", need, strings.Join(reasons, "; "))
	}
}
