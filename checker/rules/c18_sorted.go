package rules

import (
	"fmt"
	"go/ast"
	"go/token"
	"go/types"
	"strings"

	"osmcheck/core"
)

// c18CheckSorted discharges "value lists sorted before use".
func c18CheckSorted(r *core.R, c *c18Ctx, lit *c18Lit, sc string, unsorted []string) {
	if len(unsorted) == 0 {
		r.OKTrivial(sc, lit.expr.Pos(), "every value list of the embedded literal is already in ascending order")
		return
	}
	need := fmt.Sprintf("value lists of %v are not in ascending order in the literal, and sort.SearchStrings on an unsorted list misses members", unsorted)
	var inits []*ast.FuncDecl
	for _, fd := range c18FuncDecls(c.pk) {
		if fd.Name.Name == "init" && fd.Recv == nil {
			inits = append(inits, fd)
		}
	}
	loadedSomewhere := false
	var reasons []string
	for _, fd := range inits {
		env := &c18FlowEnv{r: r, c: c, lit: lit, entryP: map[types.Object]bool{}, valsP: map[types.Object]bool{}, active: []*ast.FuncDecl{fd}}
		out, ret := env.flow(fd, c18Flow{})
		if !env.reach {
			continue // this init does not touch the table
		}
		{ // helpers are analysed once per call and fixpoint round: keep the last diagnosis of each loop
			last := map[token.Pos]int{}
			var ls []c18LoopDiag
			for _, l := range env.loops {
				if i, ok := last[l.pos]; ok {
					ls[i] = l
				} else {
					last[l.pos] = len(ls)
					ls = append(ls, l)
				}
			}
			env.loops = ls
		}
		if ret && out.u && out.s {
			var ok *c18LoopDiag
			for i := range env.loops {
				if l := &env.loops[i]; l.everyIter && l.onlyHead && l.loaded && l.hasSort {
					ok = l
				}
			}
			pos, elem, st := lit.call.Pos(), "?", "?"
			if ok != nil {
				pos, elem, st = ok.sortPos, ok.elem, ok.sortText
			}
			r.OK(sc, pos, "literal lists of %v are unsorted, but on every path through init the json.Unmarshal into %s is followed by a complete loop over %[2]s (element `%s`) in which every iteration passes `%s` (in place on the shared backing array), and every normal exit of init lies behind that loop", unsorted, c.table.Name(), elem, st)
			return
		}
		if ret && out.u {
			loadedSomewhere = true
		}
		if ret && !out.u {
			reasons = append(reasons, fmt.Sprintf("the init function at %s can finish without having unmarshalled the literal", r.P.Rel(fd.Pos())))
		}
		good := false
		for _, l := range env.loops {
			at := r.P.Rel(l.pos)
			switch {
			case !l.hasSort && l.copyAsg:
				reasons = append(reasons, fmt.Sprintf("the loop at %s assigns to the %s field of the range-value copy, which never reaches %s", at, c.valsF.Name(), c.table.Name()))
			case !l.hasSort:
				reasons = append(reasons, fmt.Sprintf("the loop at %s contains no in-place sort (sort.Strings / sort.StringSlice(..).Sort() / sort.Sort(sort.StringSlice(..)) / slices.Sort, directly or in a helper) of the entry's %s", at, c.valsF.Name()))
			case !l.everyIter:
				reasons = append(reasons, fmt.Sprintf("some iterations of the loop at %s reach the next entry without passing `%s`: those entries stay unsorted", at, l.sortText))
			case !l.onlyHead:
				reasons = append(reasons, fmt.Sprintf("the loop at %s can be left before the last entry: the remaining entries stay unsorted", at))
			case !l.loaded:
				reasons = append(reasons, fmt.Sprintf("json.Unmarshal has not necessarily run when the sorting loop at %s starts (sorting an empty table)", at))
			default:
				good = true
			}
		}
		switch {
		case len(env.loops) == 0:
			reasons = append(reasons, "init has no loop over "+c.table.Name()+" after the unmarshal")
		case good && ret && out.u && !out.s:
			reasons = append(reasons, "init can finish without completing the sorting loop, or unmarshals again after it")
		}
	}
	switch {
	case len(inits) == 0 || (!loadedSomewhere && len(reasons) == 0):
		r.Unknown(sc, lit.call.Pos(), "%s; the unmarshal is in %s, which no package init function runs on every path, so the rule cannot order it before the first search", need, lit.fd.Name.Name)
	default:
		if len(reasons) == 0 {
			reasons = append(reasons, "no path-independent sort of every entry was found in init")
		}
		r.Bad(sc, lit.call.Pos(), "%s; %s", need, strings.Join(reasons, "; "))
	}
}
