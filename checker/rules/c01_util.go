package rules

import (
	"go/ast"
	"go/token"
	"go/types"

	"golang.org/x/tools/go/cfg"
	"golang.org/x/tools/go/packages"

	"osmcheck/core"
)

// Shared machinery of the C01 / C06 / C08 rule files (all identifiers carry the c01 prefix). It makes the rules
// independent of the surface form of the code:
//   - c01Fn: per-body cache of CFG, dominators and parent map; guard facts that also understand `switch tag { case K: }`
//     (go/cfg only records the case expression; the `tag == K` fact is synthesised here);
//   - c01Tri / c01Eval: three-valued evaluation of conditions for finite-domain walks of a CFG;
//   - c01LocalDef / c01Expand: a value read once into a local is the expression it was read from;
//   - c01Callee / c01MustPass / c01MayReach: following static calls into functions of the same package
//     (helpers produced by "extract function"), with must/may summaries computed on the callee's CFG.

// ---------------------------------------------------------------- per-body analysis cache

type c01Fn struct {
	p    *core.Program
	pk   *packages.Package
	info *types.Info
	fi   *FuncInfo      // enclosing declaration
	body *ast.BlockStmt // the declaration's body or a function literal's body
	g    *cfg.CFG
	dom  map[*cfg.Block]map[*cfg.Block]bool
	par  map[ast.Node]ast.Node
}

type c01FnKey struct {
	p    *core.Program
	body *ast.BlockStmt
}

var c01FnCache = map[c01FnKey]*c01Fn{}

// c01Pkgs maps type-checker packages to the loaded packages seen so far (to find declarations of callees).
var c01Pkgs = map[*types.Package]*packages.Package{}

// c01FnOf returns the cached analysis of a declaration's body.
func c01FnOf(p *core.Program, fi *FuncInfo) *c01Fn {
	return c01FnOfBody(p, fi, fi.Decl.Body)
}

// c01FnOfBody returns the cached analysis of a body that lies inside declaration fi (the body of fi itself or of
// a function literal inside it).
func c01FnOfBody(p *core.Program, fi *FuncInfo, body *ast.BlockStmt) *c01Fn {
	k := c01FnKey{p, body}
	if f, ok := c01FnCache[k]; ok {
		return f
	}
	c01Pkgs[fi.Pkg.Types] = fi.Pkg
	f := &c01Fn{p: p, pk: fi.Pkg, info: fi.Pkg.TypesInfo, fi: fi, body: body}
	f.g = newCFG(f.info, body)
	f.dom = dominators(f.g)
	f.par = parentsOf(p, fi)
	c01FnCache[k] = f
	return f
}

// innermostBody returns the analysis of the innermost function body (literal or declaration) that contains n.
func (f *c01Fn) innermost(n ast.Node) *c01Fn {
	for p := f.par[n]; p != nil; p = f.par[p] {
		if fl, ok := p.(*ast.FuncLit); ok {
			return c01FnOfBody(f.p, f.fi, fl.Body)
		}
		if _, ok := p.(*ast.FuncDecl); ok {
			break
		}
	}
	return c01FnOfBody(f.p, f.fi, f.fi.Decl.Body)
}

// condOf returns the condition that decides between the two successors of b (Succs[0] on true), or nil.
// For the case tests of `switch tag { case K: }` it synthesises `tag == K`.
func (f *c01Fn) condOf(b *cfg.Block) ast.Expr {
	if len(b.Succs) != 2 || len(b.Nodes) == 0 {
		return nil
	}
	e, ok := b.Nodes[len(b.Nodes)-1].(ast.Expr)
	if !ok {
		return nil
	}
	if s := b.Succs[0]; s.Kind == cfg.KindSwitchCaseBody {
		if cc, ok := s.Stmt.(*ast.CaseClause); ok {
			if blk, ok := f.par[cc].(*ast.BlockStmt); ok {
				if sw, ok := f.par[blk].(*ast.SwitchStmt); ok && sw.Tag != nil {
					for _, ce := range cc.List {
						if ce == e {
							return &ast.BinaryExpr{X: sw.Tag, Op: token.EQL, Y: e}
						}
					}
				}
			}
		}
	}
	if t := f.info.TypeOf(e); t != nil {
		if bt, ok := t.Underlying().(*types.Basic); ok && bt.Info()&types.IsBoolean != 0 {
			return e
		}
	}
	return nil
}

// factsAt returns the atomic facts established by the branch conditions controlling block target (see factsAt in
// robust.go; this variant knows about switch tags).
func (f *c01Fn) factsAt(target *cfg.Block) []guardFact {
	var out []guardFact
	if target == nil {
		return nil
	}
	for _, b := range f.g.Blocks {
		if !b.Live || b == target || !f.dom[target][b] {
			continue
		}
		cond := f.condOf(b)
		if cond == nil {
			continue
		}
		viaT := reachableFrom([]*cfg.Block{b.Succs[0]}, func(x *cfg.Block) bool { return x == b })[target]
		viaF := reachableFrom([]*cfg.Block{b.Succs[1]}, func(x *cfg.Block) bool { return x == b })[target]
		switch {
		case viaT && !viaF:
			splitFacts(cond, true, b, &out)
		case viaF && !viaT:
			splitFacts(cond, false, b, &out)
		}
	}
	return out
}

func (f *c01Fn) blockOf(pos token.Pos) *cfg.Block {
	b, _ := blockOf(f.g, pos)
	return b
}

func (f *c01Fn) factsAtPos(pos token.Pos) []guardFact {
	return f.factsAt(f.blockOf(pos))
}

// dominatesPos: the node at a dominates the node at b.
func (f *c01Fn) dominatesPos(a, b token.Pos) bool {
	return posDominates(f.g, f.dom, a, b)
}

// ---------------------------------------------------------------- three-valued evaluation

type c01Tri int

const (
	c01F c01Tri = iota
	c01T
	c01U
)

func c01Not(a c01Tri) c01Tri {
	switch a {
	case c01F:
		return c01T
	case c01T:
		return c01F
	}
	return c01U
}

func c01And(a, b c01Tri) c01Tri {
	if a == c01F || b == c01F {
		return c01F
	}
	if a == c01T && b == c01T {
		return c01T
	}
	return c01U
}

func c01Or(a, b c01Tri) c01Tri { return c01Not(c01And(c01Not(a), c01Not(b))) }

func c01Bool(b bool) c01Tri {
	if b {
		return c01T
	}
	return c01F
}

// c01Eval evaluates a boolean expression with an oracle for its atoms; &&, || and ! are interpreted, constants too.
func c01Eval(info *types.Info, e ast.Expr, atom func(ast.Expr) c01Tri) c01Tri {
	e = ast.Unparen(e)
	switch x := e.(type) {
	case *ast.BinaryExpr:
		switch x.Op {
		case token.LAND:
			return c01And(c01Eval(info, x.X, atom), c01Eval(info, x.Y, atom))
		case token.LOR:
			return c01Or(c01Eval(info, x.X, atom), c01Eval(info, x.Y, atom))
		}
	case *ast.UnaryExpr:
		if x.Op == token.NOT {
			return c01Not(c01Eval(info, x.X, atom))
		}
	case *ast.Ident:
		if tv, ok := info.Types[x]; ok && tv.Value != nil {
			switch tv.Value.String() {
			case "true":
				return c01T
			case "false":
				return c01F
			}
		}
	}
	return atom(e)
}

// c01NilCmp decomposes `X == nil` / `X != nil` (either operand order): it returns X and whether the comparison is `!=`.
func c01NilCmp(e ast.Expr) (ast.Expr, bool, bool) {
	be, ok := ast.Unparen(e).(*ast.BinaryExpr)
	if !ok || (be.Op != token.EQL && be.Op != token.NEQ) {
		return nil, false, false
	}
	switch {
	case isNilIdent(be.Y):
		return be.X, be.Op == token.NEQ, true
	case isNilIdent(be.X):
		return be.Y, be.Op == token.NEQ, true
	}
	return nil, false, false
}

// c01EqCmp decomposes `A == B` / `A != B`: it returns both operands and whether the operator is `!=`.
func c01EqCmp(e ast.Expr) (ast.Expr, ast.Expr, bool, bool) {
	be, ok := ast.Unparen(e).(*ast.BinaryExpr)
	if !ok || (be.Op != token.EQL && be.Op != token.NEQ) {
		return nil, nil, false, false
	}
	return be.X, be.Y, be.Op == token.NEQ, true
}

// c01EqFact: the fact establishes A == B (`A == B` true or `A != B` false); it returns the operands.
func c01EqFact(f guardFact) (ast.Expr, ast.Expr, bool) {
	a, b, neq, ok := c01EqCmp(f.expr)
	if !ok || f.val == neq {
		return nil, nil, false
	}
	return a, b, true
}

// ---------------------------------------------------------------- locals, aliases, roots

// c01RootObj returns the variable at the root of a selector/index/star/slice chain.
func c01RootObj(info *types.Info, e ast.Expr) types.Object {
	for {
		switch x := ast.Unparen(e).(type) {
		case *ast.Ident:
			return objOf(info, x)
		case *ast.SelectorExpr:
			e = x.X
		case *ast.IndexExpr:
			e = x.X
		case *ast.StarExpr:
			e = x.X
		case *ast.SliceExpr:
			e = x.X
		case *ast.UnaryExpr:
			if x.Op != token.AND {
				return nil
			}
			e = x.X
		default:
			return nil
		}
	}
}

// c01Def is one definition of a local variable.
type c01Def struct {
	rhs   ast.Expr // the defining expression (a call for tuple assignments)
	index int      // position of the variable among the results when rhs is a call yielding a tuple, else -1
	stmt  ast.Node
	tok   token.Token
}

// c01Defs lists every definition of local obj inside scope: assignments, short declarations, var specs, range
// clauses (rhs nil) and inc/dec statements (rhs nil).
func c01Defs(info *types.Info, scope ast.Node, obj types.Object) []c01Def {
	var out []c01Def
	if obj == nil || scope == nil {
		return nil
	}
	is := func(e ast.Expr) bool {
		id, ok := ast.Unparen(e).(*ast.Ident)
		return ok && (info.Defs[id] == obj || info.Uses[id] == obj)
	}
	ast.Inspect(scope, func(n ast.Node) bool {
		switch s := n.(type) {
		case *ast.AssignStmt:
			for i, l := range s.Lhs {
				if !is(l) {
					continue
				}
				switch {
				case len(s.Rhs) == len(s.Lhs):
					out = append(out, c01Def{rhs: s.Rhs[i], index: -1, stmt: s, tok: s.Tok})
				case len(s.Rhs) == 1:
					out = append(out, c01Def{rhs: s.Rhs[0], index: i, stmt: s, tok: s.Tok})
				}
			}
		case *ast.ValueSpec:
			for i, nm := range s.Names {
				if info.Defs[nm] != obj {
					continue
				}
				switch {
				case len(s.Values) == len(s.Names):
					out = append(out, c01Def{rhs: s.Values[i], index: -1, stmt: s, tok: token.DEFINE})
				case len(s.Values) == 1:
					out = append(out, c01Def{rhs: s.Values[0], index: i, stmt: s, tok: token.DEFINE})
				default:
					out = append(out, c01Def{rhs: nil, index: -1, stmt: s, tok: token.VAR})
				}
			}
		case *ast.RangeStmt:
			if (s.Key != nil && is(s.Key)) || (s.Value != nil && is(s.Value)) {
				out = append(out, c01Def{rhs: nil, index: -1, stmt: s, tok: token.RANGE})
			}
		case *ast.IncDecStmt:
			if is(s.X) {
				out = append(out, c01Def{rhs: nil, index: -1, stmt: s, tok: s.Tok})
			}
		case *ast.UnaryExpr:
			if s.Op == token.AND && is(s.X) {
				out = append(out, c01Def{rhs: nil, index: -1, stmt: s, tok: token.AND}) // address taken: may be written anywhere
			}
		}
		return true
	})
	return out
}

// c01SingleDef returns the defining expression of a local that is defined exactly once in scope by a single-valued
// expression (`x := E`, `var x = E`, `if x := E; ...`), else nil.
func c01SingleDef(info *types.Info, scope ast.Node, obj types.Object) ast.Expr {
	if v, ok := obj.(*types.Var); !ok || v.IsField() {
		return nil
	}
	if obj.Parent() == nil || obj.Pkg() == nil || obj.Parent() == obj.Pkg().Scope() {
		return nil // package-level variable
	}
	ds := c01Defs(info, scope, obj)
	if len(ds) != 1 || ds[0].rhs == nil || ds[0].index >= 0 {
		return nil
	}
	if ds[0].tok != token.DEFINE && ds[0].tok != token.ASSIGN {
		return nil
	}
	return ds[0].rhs
}

// c01Expand replaces identifiers of single-definition locals by the expression they were defined from, repeatedly
// (depth-limited): "a value read into a local once and reused". Only the top-level expression is expanded.
func c01Expand(info *types.Info, scope ast.Node, e ast.Expr) ast.Expr {
	for depth := 0; depth < 4; depth++ {
		id, ok := ast.Unparen(e).(*ast.Ident)
		if !ok {
			return ast.Unparen(e)
		}
		o := objOf(info, id)
		if o == nil {
			return id
		}
		rhs := c01SingleDef(info, scope, o)
		if rhs == nil {
			return id
		}
		e = rhs
	}
	return ast.Unparen(e)
}

// c01Chain rewrites the root of a selector/index chain through locals that alias a chain: `n := &w.Nodes[i]`
// (pointer to the chain) and `pb := dec.block` where the local has pointer type (copy of a pointer: same target).
func c01Chain(info *types.Info, scope ast.Node, e ast.Expr) ast.Expr {
	for depth := 0; depth < 4; depth++ {
		changed := false
		e = rewriteRoot(e, func(id *ast.Ident) ast.Expr {
			o := objOf(info, id)
			if o == nil {
				return nil
			}
			rhs := c01SingleDef(info, scope, o)
			if rhs == nil {
				return nil
			}
			rhs = ast.Unparen(rhs)
			if ue, ok := rhs.(*ast.UnaryExpr); ok && ue.Op == token.AND && isPureChain(ue.X) {
				changed = true
				return &ast.ParenExpr{X: ue.X}
			}
			if _, isPtr := o.Type().Underlying().(*types.Pointer); isPtr && isPureChain(rhs) {
				if _, isId := rhs.(*ast.Ident); !isId || objOf(info, rhs) != o {
					changed = true
					return &ast.ParenExpr{X: rhs}
				}
			}
			return nil
		})
		if !changed {
			break
		}
	}
	return e
}

// c01Same compares two pure expressions through objects, after alias expansion within scope.
func c01Same(info *types.Info, scope ast.Node, a, b ast.Expr) bool {
	return sameChain(info, c01Chain(info, scope, a), c01Chain(info, scope, b))
}

// c01FieldOfChain returns the field selected by the last selector of a (possibly alias-expanded) chain.
func c01FieldOfChain(info *types.Info, e ast.Expr) *types.Var {
	e = stripDerefParen(e)
	if sel, ok := e.(*ast.SelectorExpr); ok {
		return selField(info, sel)
	}
	return nil
}

// c01ChainFields lists the fields selected along a chain from the root outwards (`dec.block.Stringtable.S` →
// block, Stringtable, S).
func c01ChainFields(info *types.Info, e ast.Expr) []*types.Var {
	var rev []*types.Var
	for {
		e = stripDerefParen(e)
		switch x := e.(type) {
		case *ast.SelectorExpr:
			if f := selField(info, x); f != nil {
				rev = append(rev, f)
			}
			e = x.X
			continue
		case *ast.IndexExpr:
			e = x.X
			continue
		case *ast.SliceExpr:
			e = x.X
			continue
		}
		break
	}
	for i, j := 0, len(rev)-1; i < j; i, j = i+1, j-1 {
		rev[i], rev[j] = rev[j], rev[i]
	}
	return rev
}

// c01StripConv removes parentheses and conversions to basic numeric types.
func c01StripConv(info *types.Info, e ast.Expr) ast.Expr {
	for {
		e = ast.Unparen(e)
		call, ok := e.(*ast.CallExpr)
		if !ok || len(call.Args) != 1 {
			return e
		}
		tv, ok := info.Types[call.Fun]
		if !ok || !tv.IsType() {
			return e
		}
		if _, isBasic := tv.Type.Underlying().(*types.Basic); !isBasic {
			return e
		}
		e = call.Args[0]
	}
}

// c01IsConversion reports whether call is a type conversion.
func c01IsConversion(info *types.Info, call *ast.CallExpr) bool {
	tv, ok := info.Types[call.Fun]
	return ok && tv.IsType()
}

// c01ParamObjs lists the parameter objects of a declaration in order (receiver excluded).
func c01ParamObjs(info *types.Info, fi *FuncInfo) []types.Object {
	var out []types.Object
	if fi.Decl.Type.Params == nil {
		return nil
	}
	for _, fld := range fi.Decl.Type.Params.List {
		if len(fld.Names) == 0 {
			out = append(out, nil)
			continue
		}
		for _, nm := range fld.Names {
			out = append(out, info.Defs[nm])
		}
	}
	return out
}

// c01RecvObj returns the receiver variable of a method declaration, or nil.
func c01RecvObj(info *types.Info, fi *FuncInfo) types.Object {
	if fi.Decl.Recv == nil || len(fi.Decl.Recv.List) != 1 || len(fi.Decl.Recv.List[0].Names) != 1 {
		return nil
	}
	return info.Defs[fi.Decl.Recv.List[0].Names[0]]
}

// c01IsErrNonNilExpr: the expression is certainly a non-nil error: a call to errors.New / fmt.Errorf, a package-level
// error variable, or a local the facts prove non-nil.
func c01IsErrNonNilExpr(info *types.Info, e ast.Expr, facts []guardFact) bool {
	e = ast.Unparen(e)
	if isNilIdent(e) {
		return false
	}
	switch x := e.(type) {
	case *ast.CallExpr:
		fn := callee(info, x)
		if isPkgFunc(fn, "errors", "New") || isPkgFunc(fn, "fmt", "Errorf") {
			return true
		}
		// f(err) with err known non-nil, where f maps non-nil errors to non-nil errors
		if fn != nil && len(x.Args) == 1 && c01IsErrNonNilExpr(info, x.Args[0], facts) && c01KeepsErrNonNil(fn, 0) {
			return true
		}
	case *ast.Ident, *ast.SelectorExpr:
		var o types.Object
		if id, ok := x.(*ast.Ident); ok {
			o = objOf(info, id)
		} else {
			o = info.Uses[x.(*ast.SelectorExpr).Sel]
		}
		if v, ok := o.(*types.Var); ok && !v.IsField() && v.Pkg() != nil && v.Parent() == v.Pkg().Scope() && isErrorType(v.Type()) {
			return true // package-level error value (errors.New at init)
		}
	}
	if knownNonNil(facts, func(y ast.Expr) bool { return sameChain(info, y, e) }) != nil {
		return true
	}
	return false
}

// ---------------------------------------------------------------- following calls

// c01Callee resolves the static callee of call when it is a function or method declared with a body in pk.
func c01Callee(pk *packages.Package, call *ast.CallExpr) *FuncInfo {
	fn := callee(pk.TypesInfo, call)
	if fn == nil || fn.Pkg() != pk.Types {
		return nil
	}
	return c01FuncInfo(pk, fn)
}

type c01FIKey struct {
	pk *packages.Package
	fn *types.Func
}

var c01FICache = map[c01FIKey]*FuncInfo{}

// c01FuncInfo returns the declaration of fn in pk (cached), or nil.
func c01FuncInfo(pk *packages.Package, fn *types.Func) *FuncInfo {
	k := c01FIKey{pk, fn}
	if fi, ok := c01FICache[k]; ok {
		return fi
	}
	var res *FuncInfo
	for _, f := range pk.Syntax {
		for _, d := range f.Decls {
			if fd, ok := d.(*ast.FuncDecl); ok && fd.Body != nil && pk.TypesInfo.Defs[fd.Name] == fn {
				res = &FuncInfo{Pkg: pk, Decl: fd, Obj: fn}
			}
		}
	}
	c01FICache[k] = res
	return res
}

// c01ArgOf maps a parameter (or the receiver) of callee fi to the argument expression at call.
func c01ArgOf(info *types.Info, fi *FuncInfo, call *ast.CallExpr, param types.Object) ast.Expr {
	if param == nil {
		return nil
	}
	if c01RecvObj(info, fi) == param {
		if sel, ok := ast.Unparen(call.Fun).(*ast.SelectorExpr); ok {
			return sel.X
		}
		return nil
	}
	for i, po := range c01ParamObjs(info, fi) {
		if po == param && i < len(call.Args) {
			return call.Args[i]
		}
	}
	return nil
}

// c01Event classifies a CFG node for the must/may analyses: hit = the node is (or contains) the event; the walk
// also looks into static callees of the same package, where pred is asked with the callee's context.
type c01EventPred func(f *c01Fn, n ast.Node) bool

// c01NodeCalls lists the same-package static callees (with bodies) called inside CFG node n, function literals excluded.
func c01NodeCalls(f *c01Fn, n ast.Node) []*ast.CallExpr {
	var out []*ast.CallExpr
	ast.Inspect(n, func(x ast.Node) bool {
		if _, ok := x.(*ast.FuncLit); ok {
			return false
		}
		if call, ok := x.(*ast.CallExpr); ok && c01Callee(f.pk, call) != nil {
			out = append(out, call)
		}
		return true
	})
	return out
}

// c01Sum memoises per-function booleans of the interprocedural walks.
type c01Sum struct {
	must    map[*types.Func]int // 0 unknown, 1 computing, 2 true, 3 false
	may     map[*types.Func]int
	isEvent c01EventPred
	p       *core.Program
}

func c01NewSum(p *core.Program, isEvent c01EventPred) *c01Sum {
	return &c01Sum{must: map[*types.Func]int{}, may: map[*types.Func]int{}, isEvent: isEvent, p: p}
}

// nodeMust: the node itself is an event, or it calls a function every normal path of which passes an event.
func (s *c01Sum) nodeMust(f *c01Fn, n ast.Node) bool {
	if s.isEvent(f, n) {
		return true
	}
	for _, call := range c01NodeCalls(f, n) {
		if s.Must(c01Callee(f.pk, call)) {
			return true
		}
	}
	return false
}

// nodeMay: the node is an event or calls a function that may perform one.
func (s *c01Sum) nodeMay(f *c01Fn, n ast.Node) bool {
	if s.isEvent(f, n) {
		return true
	}
	for _, call := range c01NodeCalls(f, n) {
		if s.May(c01Callee(f.pk, call)) {
			return true
		}
	}
	return false
}

// Must: every path from the entry of fi to a normal exit (a return or the end of the body) passes an event.
// Paths ending in panic do not count. Recursion is cut pessimistically.
func (s *c01Sum) Must(fi *FuncInfo) bool {
	if fi == nil {
		return false
	}
	switch s.must[fi.Obj] {
	case 1, 3:
		return false
	case 2:
		return true
	}
	s.must[fi.Obj] = 1
	f := c01FnOf(s.p, fi)
	res := !s.pathAvoiding(f, f.g.Blocks[0], 0, func(b *cfg.Block, i int) bool { return false }, true)
	if res {
		s.must[fi.Obj] = 2
	} else {
		s.must[fi.Obj] = 3
	}
	return res
}

// May: some node of fi (or of a function it calls) is an event.
func (s *c01Sum) May(fi *FuncInfo) bool {
	if fi == nil {
		return false
	}
	switch s.may[fi.Obj] {
	case 1, 3:
		return false
	case 2:
		return true
	}
	s.may[fi.Obj] = 1
	f := c01FnOf(s.p, fi)
	res := false
	for _, b := range f.g.Blocks {
		if !b.Live {
			continue
		}
		for _, n := range b.Nodes {
			if s.nodeMay(f, n) {
				res = true
			}
		}
	}
	if res {
		s.may[fi.Obj] = 2
	} else {
		s.may[fi.Obj] = 3
	}
	return res
}

// pathAvoiding reports whether a path exists that starts at node index i0 of block b0, passes no must-event node,
// and reaches either a node for which target returns true or (when exitCounts) a normal exit of the function.
func (s *c01Sum) pathAvoiding(f *c01Fn, b0 *cfg.Block, i0 int, target func(b *cfg.Block, i int) bool, exitCounts bool) bool {
	type st struct {
		b *cfg.Block
		i int
	}
	seen := map[*cfg.Block]bool{}
	work := []st{{b0, i0}}
	for len(work) > 0 {
		cur := work[len(work)-1]
		work = work[:len(work)-1]
		stopped := false
		for i := cur.i; i < len(cur.b.Nodes); i++ {
			if target(cur.b, i) {
				return true
			}
			if s.nodeMust(f, cur.b.Nodes[i]) {
				stopped = true
				break
			}
		}
		if stopped {
			continue
		}
		if len(cur.b.Succs) == 0 {
			if exitCounts && c01IsNormalExit(f, cur.b) {
				return true
			}
			continue
		}
		for _, nb := range cur.b.Succs {
			if !seen[nb] {
				seen[nb] = true
				work = append(work, st{nb, 0})
			}
		}
	}
	return false
}

// c01IsNormalExit: a block without successors that ends the function normally (return or fall off the end), not by panic.
func c01IsNormalExit(f *c01Fn, b *cfg.Block) bool {
	if b.Kind == cfg.KindSelectAfterCase {
		return false // go/cfg's "no case of a select without default was taken": the goroutine blocks there
	}
	if len(b.Nodes) == 0 {
		return true
	}
	last := b.Nodes[len(b.Nodes)-1]
	if es, ok := last.(*ast.ExprStmt); ok {
		if call, ok := es.X.(*ast.CallExpr); ok && builtinName(f.info, call) == "panic" {
			return false
		}
	}
	return true
}

// c01ReachAvoiding reports whether, inside f, a node satisfying target is reachable from (b0,i0) without passing a
// node for which stop returns true (plain intraprocedural reachability with node granularity).
func c01ReachAvoiding(f *c01Fn, b0 *cfg.Block, i0 int, target, stop func(n ast.Node) bool) bool {
	type st struct {
		b *cfg.Block
		i int
	}
	seen := map[*cfg.Block]bool{}
	work := []st{{b0, i0}}
	for len(work) > 0 {
		cur := work[len(work)-1]
		work = work[:len(work)-1]
		stopped := false
		for i := cur.i; i < len(cur.b.Nodes); i++ {
			n := cur.b.Nodes[i]
			if target(n) {
				return true
			}
			if stop != nil && stop(n) {
				stopped = true
				break
			}
		}
		if stopped {
			continue
		}
		for _, nb := range cur.b.Succs {
			if !seen[nb] {
				seen[nb] = true
				work = append(work, st{nb, 0})
			}
		}
	}
	return false
}

// c01ContainsCall reports whether node n contains (outside function literals) a call satisfying pred.
func c01ContainsCall(n ast.Node, pred func(*ast.CallExpr) bool) bool {
	found := false
	ast.Inspect(n, func(x ast.Node) bool {
		if found {
			return false
		}
		if _, ok := x.(*ast.FuncLit); ok {
			return false
		}
		if call, ok := x.(*ast.CallExpr); ok && pred(call) {
			found = true
		}
		return !found
	})
	return found
}

// c01Loops computes the natural loops of a CFG: for every back edge u→h (h dominates u) the set of blocks that can
// reach u without passing h, plus h.
type c01Loop struct {
	head   *cfg.Block
	blocks map[*cfg.Block]bool
	backs  []*cfg.Block // sources of the back edges
}

func c01Loops(f *c01Fn) []*c01Loop {
	byHead := map[*cfg.Block]*c01Loop{}
	var order []*cfg.Block
	preds := map[*cfg.Block][]*cfg.Block{}
	for _, b := range f.g.Blocks {
		if !b.Live {
			continue
		}
		for _, s := range b.Succs {
			preds[s] = append(preds[s], b)
		}
	}
	for _, u := range f.g.Blocks {
		if !u.Live {
			continue
		}
		for _, h := range u.Succs {
			if !f.dom[u][h] {
				continue
			}
			l := byHead[h]
			if l == nil {
				l = &c01Loop{head: h, blocks: map[*cfg.Block]bool{h: true}}
				byHead[h] = l
				order = append(order, h)
			}
			l.backs = append(l.backs, u)
			work := []*cfg.Block{u}
			for len(work) > 0 {
				x := work[len(work)-1]
				work = work[:len(work)-1]
				if l.blocks[x] {
					continue
				}
				l.blocks[x] = true
				work = append(work, preds[x]...)
			}
		}
	}
	var out []*c01Loop
	for _, h := range order {
		out = append(out, byHead[h])
	}
	return out
}

// c01InnermostLoop returns the smallest natural loop containing block b, or nil.
func c01InnermostLoop(loops []*c01Loop, b *cfg.Block) *c01Loop {
	var best *c01Loop
	for _, l := range loops {
		if l.blocks[b] && (best == nil || len(l.blocks) < len(best.blocks)) {
			best = l
		}
	}
	return best
}

// ---------------------------------------------------------------- pipeline model access

// c01Model0 is modelOrAnchor under this file's prefix (the pipeline model itself is owned by pbfmodel.go).
func c01PBFModel(r *core.R) *pbfModel {
	m := c01PipelineModel(r.P)
	for _, e := range m.errs {
		r.Anchor("pipeline model: " + e)
	}
	if len(m.errs) > 0 {
		return nil
	}
	return m
}

// c01RoleFuncs lists the declared, hand-written functions of package osmpbf that run in one of the given goroutine roles.
func c01RoleFuncs(m *pbfModel, roles ...string) []*FuncInfo {
	var out []*FuncInfo
	for _, u := range m.sortedUnits() {
		fd, ok := u.node.(*ast.FuncDecl)
		if !ok || isGenerated(m.p, fd.Pos()) {
			continue
		}
		for _, r := range roles {
			if u.roles[r] {
				out = append(out, u.fi)
				break
			}
		}
	}
	return out
}

// c01RoleBodies lists every body (declaration or goroutine closure) that runs in one of the given roles.
type c01Body struct {
	u    *unit
	fn   *c01Fn
	name string
}

func c01RoleBodies(m *pbfModel, roles ...string) []c01Body {
	var out []c01Body
	for _, u := range m.sortedUnits() {
		if fd, ok := u.node.(*ast.FuncDecl); ok && isGenerated(m.p, fd.Pos()) {
			continue
		}
		if u.body == nil || u.fi == nil {
			continue
		}
		for _, r := range roles {
			if u.roles[r] {
				name := u.name
				if name == "" {
					name = u.fi.Name()
				}
				out = append(out, c01Body{u: u, fn: c01FnOfBody(m.p, u.fi, u.body), name: name})
				break
			}
		}
	}
	return out
}

// c01DecodeEntry finds the entry point of the per-worker decoder by role: the method of the per-worker decoder type
// that runs in the worker role, takes the generated *Blob and returns (a slice, error). Where several qualify (a
// wrapper was added), the one that is not called by another candidate is taken.
func c01DecodeEntry(m *pbfModel) *FuncInfo {
	var cands []*FuncInfo
	for _, fi := range c01RoleFuncs(m, "worker") {
		sig := fi.Obj.Type().(*types.Signature)
		if sig.Recv() == nil || m.ddT == nil || namedPath(sig.Recv().Type()) != namedPath(m.ddT) {
			continue
		}
		if sig.Results().Len() != 2 || !isErrorType(sig.Results().At(1).Type()) {
			continue
		}
		if _, ok := sig.Results().At(0).Type().Underlying().(*types.Slice); !ok {
			continue
		}
		takesBlob := false
		for i := 0; i < sig.Params().Len(); i++ {
			if c01IsGenerated(sig.Params().At(i).Type(), "Blob") {
				takesBlob = true
			}
		}
		if takesBlob {
			cands = append(cands, fi)
		}
	}
	if len(cands) <= 1 {
		if len(cands) == 1 {
			return cands[0]
		}
		return nil
	}
	for _, c := range cands {
		called := false
		for _, o := range cands {
			if o == c {
				continue
			}
			ast.Inspect(o.Decl.Body, func(n ast.Node) bool {
				if call, ok := n.(*ast.CallExpr); ok && callee(m.info, call) == c.Obj {
					called = true
				}
				return true
			})
		}
		if !called {
			return c
		}
	}
	return cands[0]
}

const c01GenPkgSuffix = "/osmpbf/internal/osmpbf"

// c01IsGenerated: t is (a pointer to) the named type `name` of the generated protobuf package.
func c01IsGenerated(t types.Type, name string) bool {
	np := namedPath(t)
	return len(np) > len(c01GenPkgSuffix)+len(name) && np[len(np)-len(name)-1:] == "."+name &&
		np[len(np)-len(name)-1-len(c01GenPkgSuffix):len(np)-len(name)-1] == c01GenPkgSuffix
}

// c01GenTypeName returns the name of the generated message type t denotes (through pointers), or "".
func c01GenTypeName(t types.Type) string {
	for {
		if pt, ok := t.(*types.Pointer); ok {
			t = pt.Elem()
			continue
		}
		break
	}
	nt, ok := t.(*types.Named)
	if !ok || nt.Obj().Pkg() == nil {
		return ""
	}
	p := nt.Obj().Pkg().Path()
	if len(p) >= len(c01GenPkgSuffix) && p[len(p)-len(c01GenPkgSuffix):] == c01GenPkgSuffix {
		return nt.Obj().Name()
	}
	return ""
}

// Unprotected: a path from the entry of fi reaches a target event (directly or inside a function it calls) without
// having passed an event of this summary (directly, or a call all of whose normal paths pass one).
// Within one CFG node the calls into the package are taken in source order, then the node itself.
func (s *c01Sum) Unprotected(fi *FuncInfo, isTarget c01EventPred, memo map[*types.Func]int) bool {
	if fi == nil {
		return false
	}
	switch memo[fi.Obj] {
	case 1, 3:
		return false
	case 2:
		return true
	}
	memo[fi.Obj] = 1
	f := c01FnOf(s.p, fi)
	res := false
	seen := map[*cfg.Block]bool{f.g.Blocks[0]: true}
	work := []*cfg.Block{f.g.Blocks[0]}
	for len(work) > 0 && !res {
		b := work[len(work)-1]
		work = work[:len(work)-1]
		stopped := false
		for _, n := range b.Nodes {
			for _, call := range c01NodeCalls(f, n) {
				g := c01Callee(f.pk, call)
				if s.Unprotected(g, isTarget, memo) {
					res = true
					break
				}
				if s.Must(g) {
					stopped = true
					break
				}
			}
			if res || stopped {
				break
			}
			if isTarget(f, n) {
				res = true
				break
			}
			if s.isEvent(f, n) {
				stopped = true
				break
			}
		}
		if res || stopped {
			continue
		}
		for _, nb := range b.Succs {
			if !seen[nb] {
				seen[nb] = true
				work = append(work, nb)
			}
		}
	}
	if res {
		memo[fi.Obj] = 2
	} else {
		memo[fi.Obj] = 3
	}
	return res
}

// c01Reachable lists fi and every declared function of its package reachable from it through static calls.
func c01Reachable(p *core.Program, fi *FuncInfo) []*FuncInfo {
	seen := map[*types.Func]bool{fi.Obj: true}
	out := []*FuncInfo{fi}
	for i := 0; i < len(out); i++ {
		ast.Inspect(out[i].Decl.Body, func(n ast.Node) bool {
			if call, ok := n.(*ast.CallExpr); ok {
				if g := c01Callee(fi.Pkg, call); g != nil && !seen[g.Obj] {
					seen[g.Obj] = true
					out = append(out, g)
				}
			}
			return true
		})
	}
	return out
}

// c01KeepsErrNonNil: fn is a declared `func(error) error` every return of which yields its parameter, a freshly
// created error or a package-level error value: given a non-nil error it returns a non-nil error.
func c01KeepsErrNonNil(fn *types.Func, depth int) bool {
	if fn == nil || fn.Pkg() == nil || depth > 2 {
		return false
	}
	pk := c01Pkgs[fn.Pkg()]
	if pk == nil {
		return false
	}
	fi := c01FuncInfo(pk, fn)
	sig := fn.Type().(*types.Signature)
	if fi == nil || sig.Params().Len() != 1 || sig.Results().Len() != 1 || !isErrorType(sig.Params().At(0).Type()) || !isErrorType(sig.Results().At(0).Type()) {
		return false
	}
	info := pk.TypesInfo
	ps := c01ParamObjs(info, fi)
	if len(ps) != 1 || ps[0] == nil {
		return false
	}
	// the parameter is never overwritten
	if len(c01Defs(info, fi.Decl.Body, ps[0])) != 0 {
		return false
	}
	ok, n := true, 0
	ast.Inspect(fi.Decl.Body, func(x ast.Node) bool {
		if _, isLit := x.(*ast.FuncLit); isLit {
			return false
		}
		ret, isRet := x.(*ast.ReturnStmt)
		if !isRet {
			return true
		}
		n++
		if len(ret.Results) != 1 {
			ok = false
			return true
		}
		v := ast.Unparen(ret.Results[0])
		if objOf(info, v) == ps[0] {
			return true
		}
		if !c01IsErrNonNilExpr(info, v, nil) {
			ok = false
		}
		return true
	})
	return ok && n > 0
}

// c01GenStruct returns the struct of the generated message type t denotes (through pointers).
func c01GenStruct(t types.Type) (*types.Struct, bool) {
	if c01GenTypeName(t) == "" {
		return nil, false
	}
	for {
		if pt, ok := t.(*types.Pointer); ok {
			t = pt.Elem()
			continue
		}
		break
	}
	st, ok := t.Underlying().(*types.Struct)
	return st, ok
}
