package rules

// c19_errors.go — C19.M2 `errors@<function>`: a failure other than "file missing" aborts the search.
//
// The property quantifies over fault sequences: only a 404 may be stepped over. For every place a function reachable
// from the lookups obtains a state (a call through the descriptor's fetch or current-state function, or of a wrapper
// of the fetch) and keeps the error in a variable, the CFG is walked from the call with that error taken to be a
// failure that is not a 404 (`err != nil` true, `NotFound(err)` false): the walk must leave through returns that
// carry that error, before any other state is obtained and before the error variable is given another value.

import (
	"fmt"
	"go/ast"
	"go/token"
	"go/types"
	"sort"

	"osmcheck/core"
)

// isStateSource: call obtains a state from the server (fetch, wrapper of the fetch, or current state).
func (m *c19Model) isStateSource(call *ast.CallExpr) bool {
	if _, ok := m.isFetch(call); ok {
		return true
	}
	return fieldOf(m.info, call.Fun) == m.curFld
}

// failureAtom decides the tests on errVar for "errVar is a failure that is not a 404".
func (m *c19Model) failureAtom(errs map[types.Object]bool) func(ast.Expr) tri {
	return func(e ast.Expr) tri {
		e = ast.Unparen(e)
		if call, ok := e.(*ast.CallExpr); ok {
			if m.notFound != nil && callee(m.info, call) == m.notFound.Obj && len(call.Args) == 1 && errs[objOf(m.info, call.Args[0])] {
				return triF
			}
			return triU
		}
		l, op, r, ok := cmpNorm(e)
		if !ok || (op != token.EQL && op != token.NEQ) {
			return triU
		}
		var other ast.Expr
		switch {
		case m.info.Types[r].IsNil():
			other = l
		case m.info.Types[l].IsNil():
			other = r
		default:
			return triU
		}
		if !errs[objOf(m.info, other)] {
			return triU
		}
		return c19TriOf(op == token.NEQ)
	}
}

func c19M2Errors(r *core.R, m *c19Model) {
	info, fs := m.info, r.P.Fset
	for _, fi := range m.reachList {
		par := parentsOf(r.P, fi)
		var sites []*ast.CallExpr
		ast.Inspect(fi.Decl.Body, func(n ast.Node) bool {
			if _, ok := n.(*ast.FuncLit); ok {
				return false
			}
			if call, ok := n.(*ast.CallExpr); ok && m.isStateSource(call) {
				sites = append(sites, call)
			}
			return true
		})
		if len(sites) == 0 {
			continue
		}
		sort.Slice(sites, func(i, j int) bool { return sites[i].Pos() < sites[j].Pos() })
		c := "errors@" + fi.Name()
		g := m.graph(fi)
		// the error result variable of the function, for bare returns
		var namedErr types.Object
		if ft := fi.Decl.Type; ft.Results != nil {
			for _, fld := range ft.Results.List {
				for _, nm := range fld.Names {
					if o := info.Defs[nm]; o != nil && c19IsError(o.Type()) {
						namedErr = o
					}
				}
			}
		}
		bad, unknown := "", ""
		checked := 0
		for _, call := range sites {
			var errVar types.Object
			switch st := par[call].(type) {
			case *ast.AssignStmt:
				if len(st.Rhs) == 1 && len(st.Lhs) >= 2 {
					if o := objOf(info, st.Lhs[len(st.Lhs)-1]); o != nil && c19IsError(o.Type()) {
						errVar = o
					}
				}
			case *ast.ReturnStmt:
				continue // the results, error included, are handed on as they are
			}
			if errVar == nil {
				if unknown == "" {
					unknown = fmt.Sprintf("the error of `%s` is not kept in a variable", src(fs, call))
				}
				continue
			}
			blk, idx := blockOf(g.g, call.Pos())
			if blk == nil {
				continue
			}
			checked++
			errs := c19Copies(info, fi.Decl.Body, map[types.Object]bool{errVar: true}) // `retErr = err; break … return nil, retErr`
			returned := false
			m.walkFrom(blk, idx, m.failureAtom(errs), func(n ast.Node) bool {
				if bad != "" {
					return false
				}
				if ret, ok := n.(*ast.ReturnStmt); ok {
					returned = true
					var last types.Object
					if len(ret.Results) > 0 {
						last = objOf(info, ret.Results[len(ret.Results)-1])
					} else {
						last = namedErr
					}
					if last == nil || !errs[last] {
						bad = fmt.Sprintf("after `%s` failed with an error that is not a 404 the search reaches `%s`, which does not hand that error on: a server failure is taken for a missing (or found) state file and the search goes on or answers", src(fs, call), src(fs, ret))
					}
					return false
				}
				found := false
				ast.Inspect(n, func(x ast.Node) bool {
					if c2, ok := x.(*ast.CallExpr); ok && c2 != call && m.isStateSource(c2) {
						found = true
					}
					return !found
				})
				if found || c19Contains(n, call.Pos()) {
					bad = fmt.Sprintf("after `%s` failed with an error that is not a 404 the search still reaches `%s`: it goes on fetching states instead of aborting", src(fs, call), src(fs, n))
					return false
				}
				if c19Overwrites(info, n, errs) {
					bad = fmt.Sprintf("after `%s` failed with an error that is not a 404 the error is overwritten by `%s` before it is returned", src(fs, call), src(fs, n))
					return false
				}
				return true
			})
			if bad == "" && !returned && unknown == "" {
				unknown = fmt.Sprintf("after `%s` failed no return is reached", src(fs, call))
			}
		}
		switch {
		case bad != "":
			r.Bad(c, fi.Decl.Pos(), "%s", bad)
		case unknown != "":
			r.Unknown(c, fi.Decl.Pos(), "%s", unknown)
		case checked == 0:
			r.OKTrivial(c, fi.Decl.Pos(), "%s hands the results of its %d state fetch(es) on as they are", fi.Name(), len(sites))
		default:
			r.OK(c, fi.Decl.Pos(), "for each of the %d place(s) %s obtains a state: with an error that is not a 404 (err != nil, NotFound(err) false) every path leaves through a return carrying that error before another state is fetched", checked, fi.Name())
		}
	}
}
