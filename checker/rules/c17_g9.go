package rules

import (
	"fmt"
	"go/ast"
	"go/token"
	"go/types"
	"strings"

	"golang.org/x/tools/go/cfg"

	"osmcheck/core"
)

// G9: "a point for every located node that is not part of a way, or has an interesting tag, or is a relation member"
// — and for no other node. Decided by finite-domain evaluation of one iteration of the node pass.
//
// Three atoms, recognised by role whatever spells them (directly, negated, through boolean locals, one-line predicates
// or helpers with several returns, De Morgan forms, early returns):
//
//	A  the node's id is in the way-node set (G8's set: comma-ok lookup, bool-map index, or the binary-search idiom);
//	B  the membership map has entries for the node's feature id (`len(member[node.FeatureID()])` compared with 0);
//	C  the node's own tags contain an interesting tag (interest test with a nil discount set).
//
// The *attempt* is the call, in the iteration, of a package function that takes the node and returns a *geojson.Feature
// (it may still return nil for a node without location). For each of the 8 valuations of (A, B, C) the CFG of the
// iteration is walked along feasible branches: when !A || B || C the iteration cannot end without the attempt; when
// A && !B && !C the attempt is unreachable.
func c17G9(r *core.R) {
	o := c17LoadOptions(r)
	if o == nil {
		return
	}
	root := findFunc(o.pk, "Convert")
	if root == nil {
		r.Anchor("osmgeojson.Convert")
		return
	}
	a := c17NewPkg(r.P, o.pk)
	// the node pass, found as in G5 (its own diagnostics are G5's business)
	quiet := &core.R{P: r.P, PropID: r.PropID, RuleID: r.RuleID}
	g5 := &c17G5An{r: quiet, o: o, a: a, sites: map[*c17Fn][]c17Site{}, emitMemo: map[*c17Fn]int{}, wMemo: map[*c17Fn]int{},
		wBusy: map[*c17Fn]bool{}, passes: map[string]*c17Pass{}, visits: map[*c17Fn]int{}}
	conv := a.fns[root.Obj]
	if !g5.emits(conv) {
		r.Anchor("feature emissions reachable from Convert")
		return
	}
	g5.visit(conv, nil)
	pass := g5.passes["nodes"]
	if pass == nil {
		r.Anchor("node pass (range over the input's Nodes that emits features)")
		return
	}
	// the way-node set (as in G8) and the interest predicate (as in G6)
	var set *types.Var
	for f := range o.all {
		switch t := f.Type().Underlying().(type) {
		case *types.Map:
			if namedPath(t.Key()) == c17NodeIDPath {
				if s, ok := t.Elem().Underlying().(*types.Struct); (ok && s.NumFields() == 0) || c17IsBool(t.Elem()) {
					set = f
				}
			}
		case *types.Slice:
			if _, isPtr := t.Elem().(*types.Pointer); !isPtr && namedPath(t.Elem()) == c17NodeIDPath {
				set = f
			}
		}
	}
	if set == nil || o.member == nil {
		r.Anchor("way-node set and membership map of the conversion context")
		return
	}
	o2 := *o
	o2.skip = set
	g := &c17G9An{r: r, o: o, a: a, set: set, lookup: &c17G5An{r: quiet, o: &o2, a: a}}
	for _, fn := range a.list {
		sig := fn.Obj.Type().(*types.Signature)
		if sig.Recv() == nil && sig.Params().Len() == 2 && sig.Results().Len() == 1 && c17IsBool(sig.Results().At(0).Type()) &&
			namedPath(sig.Params().At(0).Type()) == core.ModulePath+".Tags" {
			if m, ok := sig.Params().At(1).Type().Underlying().(*types.Map); ok && types.Identical(m.Key(), types.Typ[types.String]) {
				g.preds = append(g.preds, fn.Obj)
			}
		}
	}
	g.check(pass)
}

type c17G9An struct {
	r      *core.R
	o      *c17Opt
	a      *c17Pkg
	set    *types.Var
	lookup *c17G5An // G5's membership-test recogniser pointed at the way-node set
	preds  []*types.Func
	busy   map[*c17Fn]bool
}

type c17G9Val struct{ inWay, member, interesting bool }

func (g *c17G9An) check(pass *c17Pass) {
	r, a, info, fset := g.r, g.a, g.a.info, g.a.fset
	fn, loop := pass.fn, pass.loop
	c := "noderule@Convert"
	elems := map[types.Object]bool{}
	if loop.Value != nil {
		if o := objOf(info, loop.Value); o != nil {
			elems[o] = true
		}
	}
	if loop.Key != nil {
		ko := objOf(info, loop.Key)
		ast.Inspect(loop.Body, func(n ast.Node) bool {
			if as, ok := n.(*ast.AssignStmt); ok && len(as.Lhs) == len(as.Rhs) {
				for i, rhs := range as.Rhs {
					if ix, ok := stripDerefParen(rhs).(*ast.IndexExpr); ok && ko != nil && objOf(info, ix.Index) == ko && sameChain(info, stripDerefParen(ix.X), stripDerefParen(loop.X)) {
						if o := objOf(info, as.Lhs[i]); o != nil && a.singleInit(fn, o) != nil {
							elems[o] = true
						}
					}
				}
			}
			return true
		})
	}
	// the attempt: a package function taking the node and returning a feature
	attempts := map[*cfg.Block]bool{}
	var attemptSrc string
	inspectNoLit(loop.Body, func(n ast.Node) bool {
		call, ok := n.(*ast.CallExpr)
		if !ok {
			return true
		}
		f := callee(info, call)
		if f == nil || a.fns[f] == nil {
			return true
		}
		sig := f.Type().(*types.Signature)
		if sig.Results().Len() != 1 || namedPath(sig.Results().At(0).Type()) != c17FeaturePath {
			return true
		}
		for _, arg := range call.Args {
			if id, ok := stripDerefParen(a.resolveAlias(fn, arg)).(*ast.Ident); ok && elems[objOf(info, id)] {
				if b := fn.blockAt(call.Pos()); b != nil {
					attempts[b] = true
					attemptSrc = src(fset, call)
				}
			}
		}
		return true
	})
	head, body, _ := fn.loopBlocks(loop)
	if len(elems) == 0 || len(attempts) == 0 || head == nil || body == nil {
		r.Unknown(c, loop.Pos(), "the node pass has no element variable or no call of a node-to-feature function the rule can follow")
		return
	}
	var bad []string
	for i := 0; i < 8; i++ {
		v := c17G9Val{inWay: i&4 != 0, member: i&2 != 0, interesting: i&1 != 0}
		next := func(b *cfg.Block) []*cfg.Block {
			if len(b.Succs) == 2 {
				if cnd := fn.cond(b); cnd != nil {
					switch g.eval(fn, cnd, elems, v, 0) {
					case triT:
						return b.Succs[:1]
					case triF:
						return b.Succs[1:]
					}
				}
			}
			return b.Succs
		}
		all := c17AvoidReach(body, map[*cfg.Block]bool{head: true}, next)
		reachAttempt := false
		for b := range attempts {
			if all[b] {
				reachAttempt = true
			}
		}
		avoid := map[*cfg.Block]bool{head: true}
		for b := range attempts {
			avoid[b] = true
		}
		skipPossible := false
		for b := range c17AvoidReach(body, avoid, next) {
			for _, s := range next(b) {
				if s == head {
					skipPossible = true
				}
			}
		}
		desc := fmt.Sprintf("part of a way: %v, relation member: %v, interesting tag: %v", v.inWay, v.member, v.interesting)
		wants := !v.inWay || v.member || v.interesting
		switch {
		case wants && skipPossible:
			bad = append(bad, "a node ("+desc+") can pass the iteration without `"+attemptSrc+"`: it gets no point although the property grants it one")
		case !wants && reachAttempt:
			bad = append(bad, "a node ("+desc+") reaches `"+attemptSrc+"`: an uninteresting node of a way that is no relation member gets a point of its own")
		}
	}
	if len(bad) > 0 {
		r.Bad(c, loop.Pos(), "%s (%d of 8 cases violated)", bad[0], len(bad))
		return
	}
	r.OK(c, loop.Pos(), "for all 8 valuations of (part of a way, relation member, interesting tag) the iteration reaches `%s` exactly when the node is not part of a way, or is a relation member, or has an interesting tag (conditions evaluated through locals and helpers)", attemptSrc)
}

// nodeKey: key denotes the id (or feature id) of the element.
func (g *c17G9An) isElem(fn *c17Fn, e ast.Expr, elems map[types.Object]bool) bool {
	id, ok := stripDerefParen(g.a.resolveAlias(fn, stripDerefParen(e))).(*ast.Ident)
	return ok && elems[objOf(g.a.info, id)]
}

func (g *c17G9An) isElemID(fn *c17Fn, key ast.Expr, elems map[types.Object]bool) bool {
	key = stripDerefParen(g.a.resolve(fn, stripDerefParen(key)))
	sel, ok := key.(*ast.SelectorExpr)
	if !ok {
		return false
	}
	f := c17FieldOf(g.a.info, sel)
	return f != nil && f.Name() == "ID" && namedPath(f.Type()) == c17NodeIDPath && g.isElem(fn, sel.X, elems)
}

// isElemFeatureID: key is `<elem>.FeatureID()` (or `<elem>.ID.FeatureID()`).
func (g *c17G9An) isElemFeatureID(fn *c17Fn, key ast.Expr, elems map[types.Object]bool) bool {
	call, ok := stripDerefParen(g.a.resolve(fn, stripDerefParen(key))).(*ast.CallExpr)
	if !ok {
		return false
	}
	m := c17Callee(g.a.info, call)
	sel, ok := ast.Unparen(call.Fun).(*ast.SelectorExpr)
	if m == nil || !ok || m.Name() != "FeatureID" {
		return false
	}
	return g.isElem(fn, sel.X, elems) || g.isElemID(fn, sel.X, elems)
}

func (g *c17G9An) eval(fn *c17Fn, e ast.Expr, elems map[types.Object]bool, v c17G9Val, depth int) tri {
	return evalTri(e, func(x ast.Expr) tri { return g.atom(fn, x, elems, v, depth) })
}

func (g *c17G9An) atom(fn *c17Fn, e ast.Expr, elems map[types.Object]bool, v c17G9Val, depth int) tri {
	a, info := g.a, g.a.info
	e = ast.Unparen(e)
	if depth > 4 {
		return triU
	}
	if tv, ok := info.Types[e]; ok && tv.Value != nil && c17IsBool(tv.Type) {
		return c17TriOf(tv.Value.String() == "true")
	}
	// A: membership test of the way-node set
	if key, pol := g.lookup.skipTest(fn, e, 0); key != nil && pol != 0 && g.isElemID(fn, key, elems) {
		return c17TriOf(v.inWay == (pol > 0))
	}
	switch x := e.(type) {
	case *ast.Ident:
		if o := objOf(info, x); o != nil && c17IsBool(o.Type()) {
			if init := a.singleInit(fn, o); init != nil {
				return g.eval(fn, init, elems, v, depth+1)
			}
		}
	case *ast.BinaryExpr:
		l, op, rr, ok := cmpNorm(x)
		if !ok {
			return triU
		}
		// the binary-search idiom on a sorted slice: `i < len(set) && set[i] == id`
		for _, pair := range [][2]ast.Expr{{l, rr}, {rr, l}} {
			if ix, isIx := stripDerefParen(pair[0]).(*ast.IndexExpr); isIx && c17FieldOf(info, ix.X) == g.set && g.isElemID(fn, pair[1], elems) && (op == token.EQL || op == token.NEQ) {
				return c17TriOf(v.inWay == (op == token.EQL))
			}
		}
		if g.isLenOf(rr, func(arg ast.Expr) bool { return c17FieldOf(info, arg) == g.set }) && (op == token.LSS) {
			return triT // bounds guard of the idiom above
		}
		// B: len(member[node.FeatureID()]) against 0
		isMemberLen := func(arg ast.Expr) bool {
			ix, ok := stripDerefParen(a.resolve(fn, stripDerefParen(arg))).(*ast.IndexExpr)
			return ok && c17FieldOf(info, ix.X) == g.o.member && g.isElemFeatureID(fn, ix.Index, elems)
		}
		zero := func(z ast.Expr) bool { n, ok := constInt(info, ast.Unparen(z)); return ok && n == 0 }
		switch {
		case g.isLenOf(l, isMemberLen) && zero(rr):
			switch op {
			case token.EQL, token.LEQ:
				return c17TriOf(!v.member)
			case token.NEQ:
				return c17TriOf(v.member)
			}
		case zero(l) && g.isLenOf(rr, isMemberLen):
			switch op {
			case token.EQL:
				return c17TriOf(!v.member)
			case token.NEQ, token.LSS:
				return c17TriOf(v.member)
			}
		}
	case *ast.CallExpr:
		// C: the interest test on the element's own tags without discount
		if tags, disc, ok := g.interestTest(x); ok {
			t := stripDerefParen(a.resolve(fn, stripDerefParen(tags)))
			if f := c17FieldOf(info, t); f != nil && namedPath(f.Type()) == core.ModulePath+".Tags" && g.isElem(fn, t.(*ast.SelectorExpr).X, elems) {
				if tv, isNil := info.Types[ast.Unparen(disc)]; disc == ast.Expr(c17NilDiscount) || (isNil && tv.IsNil()) {
					return c17TriOf(v.interesting)
				}
			}
			return triU
		}
		if _, ret := a.predicate(x); ret != nil {
			return g.eval(fn, ret, elems, v, depth+1)
		}
		if h := a.fns[c17Callee(info, x)]; h != nil {
			return g.helper(fn, h, x, elems, v, depth+1)
		}
	}
	return triU
}

func (g *c17G9An) isLenOf(e ast.Expr, is func(ast.Expr) bool) bool {
	call, ok := ast.Unparen(e).(*ast.CallExpr)
	return ok && builtinName(g.a.info, call) == "len" && len(call.Args) == 1 && is(call.Args[0])
}

func (g *c17G9An) interestTest(call *ast.CallExpr) (tags, discount ast.Expr, ok bool) {
	f := c17Callee(g.a.info, call)
	if f == nil {
		return nil, nil, false
	}
	for _, p := range g.preds {
		if p == f && len(call.Args) == 2 {
			return call.Args[0], call.Args[1], true
		}
	}
	if len(call.Args) == 0 && isMethod(f, core.ModulePath+".Tags", "AnyInteresting") {
		if sel, isSel := ast.Unparen(call.Fun).(*ast.SelectorExpr); isSel {
			return sel.X, c17NilDiscount, true
		}
	}
	return nil, nil, false
}

// helper evaluates the boolean result of a helper with several returns: the element is followed into its parameters,
// the body is walked along feasible branches and the values of the reachable returns are joined.
func (g *c17G9An) helper(fn, h *c17Fn, call *ast.CallExpr, elems map[types.Object]bool, v c17G9Val, depth int) tri {
	sig := h.Obj.Type().(*types.Signature)
	if sig.Results().Len() != 1 || !c17IsBool(sig.Results().At(0).Type()) {
		return triU
	}
	if g.busy == nil {
		g.busy = map[*c17Fn]bool{}
	}
	if g.busy[h] {
		return triU
	}
	g.busy[h] = true
	defer func() { g.busy[h] = false }()
	sub := map[types.Object]bool{}
	for i := 0; i < sig.Params().Len() && i < len(call.Args); i++ {
		if g.isElem(fn, call.Args[i], elems) {
			sub[sig.Params().At(i)] = true
		}
	}
	next := func(b *cfg.Block) []*cfg.Block {
		if len(b.Succs) == 2 {
			if cnd := h.cond(b); cnd != nil {
				switch g.eval(h, cnd, sub, v, depth) {
				case triT:
					return b.Succs[:1]
				case triF:
					return b.Succs[1:]
				}
			}
		}
		return b.Succs
	}
	var vals []string
	for b := range c17AvoidReach(h.graph().Blocks[0], nil, next) {
		for _, n := range b.Nodes {
			if ret, ok := n.(*ast.ReturnStmt); ok && len(ret.Results) == 1 {
				switch g.eval(h, ret.Results[0], sub, v, depth) {
				case triT:
					vals = append(vals, "T")
				case triF:
					vals = append(vals, "F")
				default:
					vals = append(vals, "U")
				}
			}
		}
	}
	s := strings.Join(vals, "")
	switch {
	case s == "" || strings.Contains(s, "U") || (strings.Contains(s, "T") && strings.Contains(s, "F")):
		return triU
	case strings.Contains(s, "T"):
		return triT
	}
	return triF
}
