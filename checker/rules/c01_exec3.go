package rules

import (
	"go/ast"
	"go/token"
	"go/types"
)

// transfer executes one CFG node (not a branch condition) on one state.
func (fm *c01Frame) transfer(n ast.Node, o c01Out) []c01Out {
	fm.uses(n, &c01Ev{fm: fm, st: o.st, res: o.res})
	fm.cellUses(n, &c01Ev{fm: fm, st: o.st, res: o.res})
	outs := fm.execCalls(n, o)
	var result []c01Out
	for _, cur := range outs {
		ev := &c01Ev{fm: fm, st: cur.st, res: cur.res}
		switch s := n.(type) {
		case *ast.AssignStmt:
			result = append(result, fm.assign(ev, cur, s.Lhs, s.Rhs, s.Tok)...)
			continue
		case *ast.IncDecStmt:
			if p := ev.path(s.X); p != "" {
				if v := cur.st.get(p); v.k == 'I' && v.i < 4096 && v.i > -4096 {
					if s.Tok == token.INC {
						cur.st.set(p, c01IntVal(v.i+1))
					} else {
						cur.st.set(p, c01IntVal(v.i-1))
					}
				} else {
					cur.st.set(p, c01Unknown)
				}
			}
		case *ast.DeclStmt:
			if gd, ok := s.Decl.(*ast.GenDecl); ok {
				for _, sp := range gd.Specs {
					if vs, ok := sp.(*ast.ValueSpec); ok {
						result = append(result, fm.valueSpec(ev, cur, vs)...)
					}
				}
				continue
			}
		case *ast.ValueSpec:
			result = append(result, fm.valueSpec(ev, cur, s)...)
			continue
		case *ast.ReturnStmt:
			fm.doReturn(ev, cur, s)
		case ast.Expr:
			// the operand of a range statement is evaluated when the loop is entered: restart its counter
			if rs, ok := fm.rangeX[s]; ok {
				delete(cur.st.cells, c01RangeCounter(rs))
			}
		}
		result = append(result, cur)
	}
	return result
}

func c01RangeCounter(rs *ast.RangeStmt) string { return "range@" + c01Itoa(int(rs.Pos())) }

func c01Itoa(v int) string {
	if v == 0 {
		return "0"
	}
	var b []byte
	for v > 0 {
		b = append([]byte{byte('0' + v%10)}, b...)
		v /= 10
	}
	return string(b)
}

func (fm *c01Frame) valueSpec(ev *c01Ev, cur c01Out, vs *ast.ValueSpec) []c01Out {
	var lhs []ast.Expr
	for _, nm := range vs.Names {
		lhs = append(lhs, nm)
	}
	if len(vs.Values) == 0 {
		for _, nm := range vs.Names {
			o := fm.fr.info.Defs[nm]
			if root, ok := fm.roots[o]; ok {
				if _, isMap := c01MapElem(o.Type()); isMap {
					cur.st.del(root)
					cur.st.cells[root+c01MapKnown] = c01BoolVal(true) // a nil map: every key reads as zero
					continue
				}
				b := c01MaxCells
				if z, okz := c01Zero(o.Type(), &b); okz {
					cur.st.set(root, z)
				}
			}
		}
		return []c01Out{cur}
	}
	return fm.assign(ev, cur, lhs, vs.Values, token.DEFINE)
}

// rhsValues evaluates the right-hand sides of an assignment to one value per left-hand side; isIter[i] tells that
// value i is the iterator returned by Message.Iterator (assigned from the current message).
func (fm *c01Frame) rhsValues(ev *c01Ev, nl int, rhs []ast.Expr) ([]c01Val, []bool) {
	info := fm.fr.info
	vals := make([]c01Val, nl)
	isIter := make([]bool, nl)
	for i := range vals {
		vals[i] = c01Unknown
	}
	if len(rhs) == nl {
		for i, r := range rhs {
			vals[i] = ev.eval(r)
			if call, ok := ast.Unparen(r).(*ast.CallExpr); ok && isMethod(callee(info, call), protoscanMsg, "Iterator") {
				isIter[i] = true
				vals[i] = c01Val{k: 'T', i: 'A'}
			}
		}
		return vals, isIter
	}
	if len(rhs) == 1 && nl == 2 {
		// v, ok := m[k] on a tracked map
		if ix, ok := ast.Unparen(rhs[0]).(*ast.IndexExpr); ok {
			if _, isMap := c01MapElem(info.TypeOf(ix.X)); isMap {
				if p := ev.path(ix); p != "" {
					vals[0] = ev.eval(ix)
					_, present := ev.st.cells[p]
					if !present && len(ev.st.get(p).m) > 0 {
						present = true
					}
					_, known := ev.st.cells[c01RootOf(p)+c01MapKnown]
					if present || known {
						vals[1] = c01BoolVal(present)
					}
				}
				return vals, isIter
			}
		}
	}
	if len(rhs) == 1 {
		if call, ok := ast.Unparen(rhs[0]).(*ast.CallExpr); ok {
			if isMethod(callee(info, call), protoscanMsg, "Iterator") {
				isIter[0] = true
				vals[0] = c01Val{k: 'T', i: 'A'}
			}
			if rs, ok := ev.res[call]; ok {
				for i := range vals {
					if i < len(rs) {
						vals[i] = rs[i]
					}
				}
			}
		}
	}
	return vals, isIter
}

// assign executes an assignment / definition.
func (fm *c01Frame) assign(ev *c01Ev, cur c01Out, lhs, rhs []ast.Expr, tok token.Token) []c01Out {
	info := fm.fr.info
	vals, isIter := fm.rhsValues(ev, len(lhs), rhs)
	outs := []c01Out{cur}
	for i, l := range lhs {
		if id, ok := ast.Unparen(l).(*ast.Ident); ok && id.Name == "_" {
			continue
		}
		v := vals[i]
		// an iterator field of the decoder (directly or through a pointer held in a table)
		if idx, ok := ev.fieldTarget(l); ok {
			nv := byte('S')
			switch {
			case tok != token.ASSIGN && tok != token.DEFINE:
			case isIter[i]:
				nv = 'A'
			case v.k == 'N':
				nv = 'N'
			case v.k == 'F':
				nv = cur.st.fields[v.i]
			case v.k == 'T':
				nv = byte(v.i)
			}
			for _, o := range outs {
				o.st.fields[idx] = nv
			}
			continue
		}
		// a struct of tracked iterator fields assigned as a whole (`dec.cols = colsT{}`, `dec.cols = other`)
		if tfs := fm.structFieldsTracked(l); len(tfs) > 0 && (tok == token.ASSIGN || tok == token.DEFINE) {
			for _, tf := range tfs {
				nv := byte('S')
				if v.k == 'C' {
					switch sub := c01Sub(v, "."+tf.Name()); sub.k {
					case 'N':
						nv = 'N'
					case 'T':
						nv = byte(sub.i)
					case 'F':
						nv = cur.st.fields[sub.i]
					}
				}
				for _, o := range outs {
					o.st.fields[fm.fr.fieldIdx[tf]] = nv
				}
			}
			continue
		}
		p := ev.path(l)
		if p == "" {
			// a tracked variable written at an unknown position
			if root, ok := fm.roots[c01RootObj(info, l)]; ok {
				for _, o := range outs {
					o.st.havoc(root)
				}
			}
			continue
		}
		lt := info.TypeOf(l)
		if _, isMap := c01MapElem(lt); isMap && len(rhs) == len(lhs) {
			// m = make(map...) / map literal: completely known; anything else: unknown
			for _, o := range outs {
				o.st.del(p)
				switch r := ast.Unparen(rhs[i]).(type) {
				case *ast.CallExpr:
					if builtinName(info, r) == "make" {
						o.st.cells[p+c01MapKnown] = c01BoolVal(true)
					}
				case *ast.CompositeLit:
					okLit := true
					oev := &c01Ev{fm: fm, st: o.st, res: o.res}
					for _, el := range r.Elts {
						kv, isKV := el.(*ast.KeyValueExpr)
						if !isKV {
							okLit = false
							break
						}
						k := oev.eval(kv.Key)
						ev2 := oev.eval(kv.Value)
						if k.k != 'I' || ev2.k == 'U' {
							okLit = false
							break
						}
						o.st.set(p+"["+c01Itoa64(k.i)+"]", ev2)
					}
					if okLit {
						o.st.cells[p+c01MapKnown] = c01BoolVal(true)
					} else {
						o.st.del(p)
					}
				}
			}
			continue
		}
		if ix, isIx := ast.Unparen(l).(*ast.IndexExpr); isIx && v.k == 'C' && len(v.m) == 0 {
			if _, isMap := c01MapElem(info.TypeOf(ix.X)); isMap {
				// m[k] = struct{}{}: the key is present (a set)
				for _, o := range outs {
					o.st.del(p)
					o.st.cells[p] = c01BoolVal(true)
				}
				continue
			}
		}
		if ix, isIx := ast.Unparen(l).(*ast.IndexExpr); isIx && (v.k == 'U' || v.k == 0) {
			if _, isMap := c01MapElem(info.TypeOf(ix.X)); isMap {
				// an unknown value stored in a map: the map is no longer completely known
				for _, o := range outs {
					o.st.del(p)
					delete(o.st.cells, c01RootOf(p)+c01MapKnown)
				}
				continue
			}
		}
		if tok != token.ASSIGN && tok != token.DEFINE {
			// x op= v
			op, ok := map[token.Token]token.Token{token.ADD_ASSIGN: token.ADD, token.SUB_ASSIGN: token.SUB, token.MUL_ASSIGN: token.MUL,
				token.OR_ASSIGN: token.OR, token.AND_ASSIGN: token.AND, token.XOR_ASSIGN: token.XOR, token.AND_NOT_ASSIGN: token.AND_NOT,
				token.SHL_ASSIGN: token.SHL, token.SHR_ASSIGN: token.SHR, token.QUO_ASSIGN: token.QUO, token.REM_ASSIGN: token.REM}[tok]
			for _, o := range outs {
				nv := c01Unknown
				if ok && i < len(rhs) {
					oev := &c01Ev{fm: fm, st: o.st, res: o.res}
					nv = oev.binary(&ast.BinaryExpr{X: l, Op: op, Y: rhs[i]})
					if nv.k == 'I' {
						nv = c01Truncate(nv, lt)
					}
				}
				o.st.set(p, nv)
			}
			continue
		}
		// the field number of a message read into a variable that selects presence state: enumerate the finite
		// domain {0 .. largest constant of the function + 1, "larger"}
		if len(rhs) == len(lhs) {
			if call, ok := ast.Unparen(rhs[i]).(*ast.CallExpr); ok && isMethod(callee(info, call), protoscanMsg, "FieldNumber") {
				var nw []c01Out
				for _, o := range outs {
					for k := int64(0); k <= fm.maxK+1; k++ {
						c := o.clone()
						c.st.set(p, c01IntVal(k))
						nw = append(nw, c)
					}
					c := o.clone()
					c.st.set(p, c01IntVal(c01Big))
					nw = append(nw, c)
				}
				outs = nw
				continue
			}
		}
		if v.k == 'U' || v.k == 0 {
			v = c01UnknownOf(lt)
			if isErrorType(lt) && len(rhs) == len(lhs) {
				// an error value built in place
				if c01IsErrNonNilExpr(info, rhs[i], nil) {
					v = c01Val{k: 'E', i: 'E'}
				}
			}
			// an unknown bool: both values (keeps later tests of the same flag consistent)
			if b, isB := lt.Underlying().(*types.Basic); isB && b.Info()&types.IsBoolean != 0 {
				var nw []c01Out
				for _, o := range outs {
					t := o.clone()
					o.st.set(p, c01BoolVal(true))
					t.st.set(p, c01BoolVal(false))
					nw = append(nw, o, t)
				}
				outs = nw
				continue
			}
		}
		if v.k == 'I' {
			v = c01Truncate(v, lt)
		}
		if v.k == 'F' {
			// the value of a decoder field copied into a cell keeps the state the field has now
			switch fs := cur.st.fields[v.i]; fs {
			case 'N':
				v = c01Val{k: 'N'}
			default:
				v = c01Val{k: 'T', i: int64(fs), s: "dec." + fm.fr.fields[v.i].Name()}
			}
		}
		for _, o := range outs {
			o.st.set(p, v)
		}
	}
	return outs
}

// doReturn records the ways of returning from a return statement.
func (fm *c01Frame) doReturn(ev *c01Ev, cur c01Out, s *ast.ReturnStmt) {
	info := fm.fr.info
	sig := fm.fi.Obj.Type().(*types.Signature)
	nres := sig.Results().Len()
	hasErr := nres > 0 && isErrorType(sig.Results().At(nres-1).Type())
	rets := make([]c01Val, nres)
	for i := range rets {
		rets[i] = c01Unknown
	}
	switch {
	case len(s.Results) == nres:
		for i, r := range s.Results {
			rets[i] = ev.eval(r)
		}
	case len(s.Results) == 1 && nres > 1:
		if call, ok := ast.Unparen(s.Results[0]).(*ast.CallExpr); ok {
			if rs, ok := ev.res[call]; ok {
				copy(rets, rs)
			}
		}
	case len(s.Results) == 0 && nres > 0:
		// named results
		if res := fm.fi.Decl.Type.Results; res != nil {
			i := 0
			for _, fld := range res.List {
				for _, nm := range fld.Names {
					if root, ok := fm.roots[info.Defs[nm]]; ok && i < nres {
						rets[i] = cur.st.get(root)
					}
					i++
				}
			}
		}
	}
	cls := byte('-')
	if hasErr {
		cls = '?'
		last := rets[nres-1]
		switch {
		case last.k == 'E':
			cls = byte(last.i)
		case last.k == 'N':
			cls = 'Z'
		case len(s.Results) == nres && fm.retNonNil(s):
			cls = 'E'
		}
		rets[nres-1] = c01Val{k: 'E', i: int64(cls)}
	}
	fm.addExit(cur.st, rets, cls)
}

// c01RetNonNil caches, per return statement, whether its error result is certainly non-nil by the guard facts.
var c01RetNonNil = map[*ast.ReturnStmt]bool{}

func (fm *c01Frame) retNonNil(s *ast.ReturnStmt) bool {
	if v, ok := c01RetNonNil[s]; ok {
		return v
	}
	v := c01IsErrNonNilExpr(fm.fr.info, s.Results[len(s.Results)-1], fm.f.factsAtPos(s.Pos()))
	c01RetNonNil[s] = v
	return v
}

func c01Itoa64(v int64) string {
	if v < 0 {
		return "-" + c01Itoa(int(-v))
	}
	return c01Itoa(int(v))
}
