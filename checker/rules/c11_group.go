package rules

// C11.A5 group@<grouping method> — what Compute needs from the method that turns the locations of a child into
// groups: the result is the partition of the location list into MAXIMAL RUNS OF EQUAL PARENT INDEX, in list
// order (Compute takes group[0].<parent> for the whole group, visits every location exactly once and must not
// process a parent version twice). The location list is produced in ascending parent order.
//
// Decided by finite-domain evaluation, whatever the spelling (peel-off re-slicing, start/end markers, a flush
// at the end, a helper that appends the group): the method is executed by the interpreter in concrete mode on
// every list of length 0..5 with every pattern of equal/different adjacent parents (1+1+2+4+8+16 inputs) and
// the groups it returns are compared with the expected partition. For the peel-off spelling the property is
// additionally proved for lists of any length (c11_group_ind.go); for other spellings the claim is bounded
// by the evaluated family.

import (
	"fmt"
	"go/types"
	"strings"

	"golang.org/x/tools/go/packages"

	"osmcheck/core"
)

const c11GroupMaxLen = 5

func c11A5Group(r *core.R, cpk *packages.Package, fn *types.Func, locs *c11Locs) {
	c := "group@" + funcName(fn)
	fi := findFunc(cpk, funcName(fn))
	if fi == nil || fi.Decl.Body == nil {
		r.Anchor("declaration of core." + funcName(fn))
		return
	}
	recvO := c11RecvObj(cpk.TypesInfo, fi.Decl)
	if recvO == nil {
		r.Unknown(c, fi.Decl.Pos(), "unnamed receiver")
		return
	}
	bad, unk, n := c11GroupFinite(r, cpk, fi, recvO, locs)
	proved, proof := c11GroupInductive(r, cpk, fi, recvO, locs)
	const consequence = "Compute uses group[0] for the whole group and must see every location exactly once and every parent version once"
	switch {
	case len(bad) > 0:
		if len(bad) > 3 {
			bad = append(bad[:3], fmt.Sprintf("… %d more inputs", len(bad)-3))
		}
		r.Bad(c, fi.Decl.Pos(), "%s does not return the maximal runs of equal %s, in order: %s; %s", fi.Name(), locs.parentField.Name(), strings.Join(bad, "; "), consequence)
	case proved:
		r.OK(c, fi.Decl.Pos(), "proved for lists of any length: %s: groups are maximal runs of one parent index, in order, covering the list (also evaluated on %d concrete lists)", proof, n)
	case len(unk) > 0:
		r.Unknown(c, fi.Decl.Pos(), "%s could not be evaluated on concrete location lists (%s) and is not the peel-off form (%s); cannot show that every group is a maximal run of one parent index; %s", fi.Name(), strings.Join(c11Uniq(unk), "; "), proof, consequence)
	default:
		r.OK(c, fi.Decl.Pos(), "evaluated on all %d location lists of length 0..%d with every pattern of equal/different adjacent parents: the groups returned are exactly the maximal runs of equal %s, in order (bounded claim: longer lists are not covered)", n, c11GroupMaxLen, locs.parentField.Name())
	}
}

// c11GroupFinite runs the grouping method on the finite family of concrete location lists.
func c11GroupFinite(r *core.R, cpk *packages.Package, fi *FuncInfo, recvO types.Object, locs *c11Locs) (bad, unk []string, n int) {
	locT := locs.locType
	for length := 0; length <= c11GroupMaxLen; length++ {
		patterns := 1
		if length > 1 {
			patterns = 1 << (length - 1)
		}
		for pat := 0; pat < patterns; pat++ {
			n++
			it := c11NewInterp(cpk)
			it.concrete = true
			it.initHeap = map[int]*c11Obj{}
			// parents: ascending ids, a new id where the pattern says "different"
			ids := make([]int, length)
			for i := 1; i < length; i++ {
				ids[i] = ids[i-1]
				if pat&(1<<(i-1)) != 0 {
					ids[i]++
				}
			}
			var elems []*c11V
			for i := 0; i < length; i++ {
				id := it.fresh()
				it.initHeap[id] = &c11Obj{typ: locT, f: map[string]*c11V{
					locs.parentField.Name(): c11Int(int64(ids[i] + 3)), // parent indices need not start at 0
					locs.indexField.Name():  c11Int(int64(100 + i)),    // unique: identifies the location
				}}
				elems = append(elems, &c11V{k: "struct", id: id, typ: locT})
			}
			var in *c11V = c11List(elems)
			if length == 0 {
				in = c11Nil()
			}
			desc := fmt.Sprintf("parents %v", ids)
			outs, _ := it.run(fi, map[types.Object]*c11V{recvO: in})
			if notes := c11PathNotes(it, outs); len(notes) > 0 {
				unk = append(unk, desc+": "+strings.Join(notes, "; "))
				continue
			}
			if len(outs) != 1 || outs[0].ctl != c11Return || len(outs[0].res) != 1 {
				unk = append(unk, desc+": the evaluation does not reduce to one return")
				continue
			}
			got, ok := c11GroupsOf(outs[0].st, outs[0].res[0], locs)
			if !ok {
				unk = append(unk, desc+": the result "+c11Trunc(outs[0].res[0].key())+" is not a concrete list of lists of locations")
				continue
			}
			// expected: maximal runs
			var want [][]int
			for i := 0; i < length; i++ {
				if i == 0 || ids[i] != ids[i-1] {
					want = append(want, nil)
				}
				want[len(want)-1] = append(want[len(want)-1], 100+i)
			}
			if fmt.Sprint(got) != fmt.Sprint(want) {
				bad = append(bad, fmt.Sprintf("for locations with %s it returns the groups %v (locations named 100, 101, …), expected %v", desc, got, want))
			}
		}
	}
	return bad, unk, n
}

// c11GroupsOf reads a concrete [][]location result as lists of location identities (their index field).
func c11GroupsOf(st *c11St, v *c11V, locs *c11Locs) ([][]int, bool) {
	if v.k == "nil" {
		return nil, true
	}
	if v.k != "list" {
		return nil, false
	}
	var out [][]int
	for _, g := range v.xs {
		if g.k != "list" {
			return nil, false
		}
		var ids []int
		for _, e := range g.xs {
			e = c11StripPtr(e)
			if e.k != "struct" || st.heap[e.id] == nil {
				return nil, false
			}
			id, ok := c11ConstIdx(st.heap[e.id].f[locs.indexField.Name()])
			if !ok {
				return nil, false
			}
			ids = append(ids, id)
		}
		out = append(out, ids)
	}
	return out, true
}
