package rules

import (
	"go/ast"
	"go/types"
)

// The multipolygon builder, by role.
//
// A function belongs to the multipolygon builder when
//   (a) it handles orb.MultiPolygon values: its signature, a variable or any expression in its body has that type
//       (a thin builder that only receives the result of an extracted assembly helper still does), or
//   (b) it is an unexported function without an element pass of its own from which a function of kind (a) is
//       reachable through static calls of the package (the builder after its geometry part has been extracted
//       behind an orb.Geometry result), or
//   (c) it is an unexported helper all of whose uses are static calls from functions of the builder.
// Convert (exported, runs the element passes), the way and node converters and the route builder satisfy none.

// handlesType reports whether the signature of fn or any variable or expression in its body has the named type.
func (fn *c17Fn) handlesType(path string) bool {
	info := fn.a.info
	is := func(t types.Type) bool { return t != nil && namedPath(t) == path }
	sig := fn.Obj.Type().(*types.Signature)
	for i := 0; i < sig.Params().Len(); i++ {
		if is(sig.Params().At(i).Type()) {
			return true
		}
	}
	for i := 0; i < sig.Results().Len(); i++ {
		if is(sig.Results().At(i).Type()) {
			return true
		}
	}
	found := false
	ast.Inspect(fn.Decl.Body, func(n ast.Node) bool {
		if found {
			return false
		}
		switch x := n.(type) {
		case *ast.Ident:
			if o := info.Defs[x]; o != nil && is(o.Type()) {
				found = true
			}
			if tn, ok := info.Uses[x].(*types.TypeName); ok && is(tn.Type()) {
				found = true
			}
		case ast.Expr:
			if tv, ok := info.Types[x]; ok && is(tv.Type) {
				found = true
			}
		}
		return true
	})
	return found
}

// hasElementPass: fn ranges over the input's relations, ways or nodes.
func (fn *c17Fn) hasElementPass() bool {
	found := false
	ast.Inspect(fn.Decl.Body, func(n ast.Node) bool {
		if rs, ok := n.(*ast.RangeStmt); ok && c17ElementKinds[namedPath(fn.a.info.TypeOf(rs.X))] != "" {
			found = true
		}
		return !found
	})
	return found
}

// callees lists the functions of the package fn calls statically.
func (a *c17Pkg) calleesOf(fn *c17Fn) []*c17Fn {
	var out []*c17Fn
	seen := map[*c17Fn]bool{}
	ast.Inspect(fn.Decl.Body, func(n ast.Node) bool {
		if call, ok := n.(*ast.CallExpr); ok {
			if h := a.fns[callee(a.info, call)]; h != nil && !seen[h] {
				seen[h] = true
				out = append(out, h)
			}
		}
		return true
	})
	return out
}

// polygonOnly: fn is part of the multipolygon builder (see above).
func (a *c17Pkg) polygonOnly(fn *c17Fn, seen map[*c17Fn]bool) bool {
	if v, ok := a.polyMem[fn]; ok {
		return v > 0
	}
	if seen[fn] {
		return true
	}
	seen[fn] = true
	res := fn.handlesType(c17MultiPolygonPath)
	if !res && !fn.Obj.Exported() && !fn.hasElementPass() {
		// (b) reaches a handler
		visited := map[*c17Fn]bool{fn: true}
		work := a.calleesOf(fn)
		for len(work) > 0 && !res {
			h := work[len(work)-1]
			work = work[:len(work)-1]
			if visited[h] {
				continue
			}
			visited[h] = true
			if h.handlesType(c17MultiPolygonPath) {
				res = true
				break
			}
			work = append(work, a.calleesOf(h)...)
		}
	}
	if !res && a.onlyCalled(fn.Obj) {
		res = true
		for _, cs := range a.calls[fn.Obj] {
			if !a.polygonOnly(cs.fn, seen) {
				res = false
			}
		}
	}
	if res {
		a.polyMem[fn] = 1
	} else {
		a.polyMem[fn] = -1
	}
	return res
}
