package rules

// c19_middle.go — C19.M2 `scans@<function> progress`: every iteration of the bisection strictly shrinks
// [lower, upper] or exits.
//
// The bounds are only ever replaced by the state probed in the iteration (M6), the neighbour scans probe strictly
// between the bounds (scan bound obligations) and an iteration that finds nothing exits (exhausted). What is left
// for progress is the probe of the middle itself: with the loop kept running by lo.SeqNum - hi.SeqNum <= -2 (at
// least one number between the bounds) the middle must lie strictly between them. Accepted spellings, through
// single-definition locals, parameters and one-line functions: (lo.SeqNum + hi.SeqNum [+1]) / 2 (or >> 1) and
// lo.SeqNum + (hi.SeqNum - lo.SeqNum [+1]) / 2. A constant offset outside {0, 1} lets the middle fall on a bound
// (the bound state is fetched again, the bounds do not move, the loop never ends); anything else is undecided.

import (
	"fmt"
	"go/ast"
	"go/token"
	"go/types"
)

// c19Unfold follows e through parameters (to the caller's argument), single-definition locals and calls of one-line
// functions, returning the expression to look at and the frame it is to be read in.
func (rs *c19Resolver) unfold(fr *c19Frame, e ast.Expr, depth int) (*c19Frame, ast.Expr) {
	info := rs.m.info
	for ; depth < 10; depth++ {
		e = ast.Unparen(e)
		switch x := e.(type) {
		case *ast.Ident:
			o := objOf(info, x)
			if o == nil {
				return fr, e
			}
			n, def, defPos := c19Writes(info, fr.fi.Decl.Body, o)
			switch {
			case c19IsParam(fr.fi, o) && n == 0 && fr.parent != nil:
				a := argForParam(info, fr.fi, fr.call, o)
				if a == nil {
					return fr, e
				}
				fr, e = fr.parent, a
			case n == 1 && def != nil && (rs.stale == nil || !rs.stale(def, defPos, fr)):
				e = def
			default:
				return fr, e
			}
		case *ast.CallExpr:
			if tv, ok := info.Types[x.Fun]; ok && tv.IsType() && len(x.Args) == 1 {
				e = x.Args[0]
				continue
			}
			g := rs.m.funcs[callee(info, x)]
			if g == nil {
				return fr, e
			}
			body := singleReturnExpr(g)
			if body == nil {
				return fr, e
			}
			fr, e = &c19Frame{fi: g, call: x, parent: fr}, body
		default:
			return fr, e
		}
	}
	return fr, e
}

// halved: e is X/2 or X>>1; it returns X.
func c19Halved(info *types.Info, e ast.Expr) (ast.Expr, bool) {
	be, ok := ast.Unparen(e).(*ast.BinaryExpr)
	if !ok {
		return nil, false
	}
	k, isConst := constInt(info, be.Y)
	if (be.Op == token.QUO && isConst && k == 2) || (be.Op == token.SHR && isConst && k == 1) {
		return be.X, true
	}
	return nil, false
}

// middleInside judges the sequence number probed as the middle: verdict "ok", "bad" or "unknown", with the reason.
func (rs *c19Resolver) middleInside(fr *c19Frame, mid ast.Expr, lo, hi types.Object) (verdict, why string) {
	m := rs.m
	kl, kh := c19SeqKey(lo), c19SeqKey(hi)
	f, e := rs.unfold(fr, mid, 0)
	shown := src(m.fset, e)
	judge := func(c int64) (string, string) {
		if c == 0 || c == 1 {
			return "ok", shown
		}
		return "bad", fmt.Sprintf("`%s` is the midpoint of the bounds offset by %+d: with two or three numbers left it falls on a bound, the bound state is fetched again, the bounds do not move and the loop never ends", shown, c)
	}
	// (lo + hi + c) / 2
	if x, ok := c19Halved(m.info, e); ok {
		l := rs.lin(f, x, 0)
		if len(l.terms) == 2 && l.terms[kl] == 1 && l.terms[kh] == 1 && !l.sub {
			return judge(l.c)
		}
	}
	// lo + (hi - lo + c) / 2
	if be, ok := e.(*ast.BinaryExpr); ok && be.Op == token.ADD {
		for _, p := range [][2]ast.Expr{{be.X, be.Y}, {be.Y, be.X}} {
			base := rs.lin(f, p[0], 0)
			if len(base.terms) != 1 || base.terms[kl] != 1 || base.c != 0 {
				continue
			}
			f2, half := rs.unfold(f, p[1], 0)
			if x, ok := c19Halved(m.info, half); ok {
				d := rs.lin(f2, x, 0)
				if len(d.terms) == 2 && d.terms[kh] == 1 && d.terms[kl] == -1 {
					return judge(d.c)
				}
			}
		}
	}
	// the bound itself, or a bound plus a constant
	if l := rs.lin(f, e, 0); len(l.terms) == 1 && (l.terms[kl] == 1 || l.terms[kh] == 1) {
		return "bad", fmt.Sprintf("`%s` is a fixed distance from one bound, not a point between the two: the interval is not halved (and with the distance 0 the bound itself is fetched again and the loop never ends)", shown)
	}
	return "unknown", fmt.Sprintf("`%s` is not one of the accepted spellings of the midpoint ((lo.SeqNum + hi.SeqNum [+1]) / 2, lo.SeqNum + (hi.SeqNum - lo.SeqNum [+1]) / 2): whether it lies strictly between the bounds depends on values", shown)
}
