package rules

import (
	"go/ast"
	"go/token"
	"go/types"
)

// c20SX is the symbolic executor (see c20_val.go).
type c20SX struct {
	cx           *c20Ctx
	info         *types.Info
	root         *FuncInfo
	opaque       func(fn *types.Func) string // same-package function modelled as an event of this kind instead of being inlined ("" = inline)
	status       *int64                      // concrete StatusCode of the response returned by Client.Do (getFromAPI world)
	stack        []*types.Func
	frames       []c20Frame     // one per function or closure being executed (innermost last)
	lits         []*ast.FuncLit // function literals being executed (recursion guard)
	tick         int
	labels       []string             // labels of the loops being executed (innermost last, "" for none)
	pendingLabel string               // label of the statement about to be executed
	zeroing      []types.Type         // struct types being zero-filled (depth guard)
	birth        map[types.Object]int // when a variable was last declared or bound as a parameter (see changed)
	nextID       int
	budget       int
	sep          string
	preset       map[int]c20V // root parameters bound to given values instead of symbolic inputs (finite-domain runs)
}

// c20Frame describes the function or closure whose body is being executed.
type c20Frame struct {
	sig     *types.Signature
	lo, hi  token.Pos
	results []types.Object // the named result variables, if the function names them
}

func (x *c20SX) frame() c20Frame { return x.frames[len(x.frames)-1] }

const c20MaxStates = 20000

func c20NewSX(cx *c20Ctx, root *FuncInfo, opaque func(*types.Func) string) *c20SX {
	return &c20SX{cx: cx, info: cx.info, root: root, opaque: opaque, budget: c20MaxStates}
}

func (x *c20SX) newID() int { x.nextID++; return x.nextID }

// born records that variable o starts a new lifetime now (declaration, parameter binding).
func (x *c20SX) born(o types.Object) {
	if x.birth == nil {
		x.birth = map[types.Object]int{}
	}
	x.tick++
	x.birth[o] = x.tick
}

// input builds the symbolic value of a function input of the given type.
func (x *c20SX) input(h *c20Hole, t types.Type) c20V {
	if b, ok := t.Underlying().(*types.Basic); ok && b.Info()&types.IsString != 0 {
		return c20V{k: c20kStr, sym: c20Sym{{hole: h}}, typ: t}
	}
	return c20V{k: c20kIn, h: h, typ: t}
}

// run executes the root function with symbolic inputs and returns the final states (ctl Ret, Abort or Panic).
func (x *c20SX) run() []*c20St {
	st := c20NewSt()
	x.bindRoot(st)
	x.stack = []*types.Func{x.root.Obj}
	x.frames = []c20Frame{{sig: c20Sig(x.root.Obj), lo: x.root.Decl.Pos(), hi: x.root.Decl.End()}}
	x.enter(st)
	outs := x.block(x.root.Decl.Body.List, []*c20St{st})
	var final []*c20St
	for _, o := range outs {
		switch o.ctl {
		case c20cRun:
			if c20Sig(x.root.Obj).Results().Len() == 0 {
				o.ctl = c20cRet
			} else {
				o.abort(x.root.Decl, "a path reaches the end of %s without a return", x.root.Name())
			}
		case c20cCont, c20cBrk:
			o.abort(x.root.Decl, "break/continue outside a recognised loop")
		}
		final = append(final, o)
	}
	return final
}

func (x *c20SX) bindRoot(st *c20St) {
	sig := c20Sig(x.root.Obj)
	if recv := sig.Recv(); recv != nil {
		st.env[recv] = x.input(&c20Hole{param: -1, pname: recv.Name()}, recv.Type())
	}
	for i := 0; i < sig.Params().Len(); i++ {
		p := sig.Params().At(i)
		if v, ok := x.preset[i]; ok {
			st.env[p] = v
			continue
		}
		st.env[p] = x.input(&c20Hole{param: i, pname: p.Name()}, p.Type())
	}
}

// block executes statements in order over a set of paths; paths that stopped are passed through.
func (x *c20SX) block(list []ast.Stmt, in []*c20St) []*c20St {
	cur := in
	for _, s := range list {
		var next []*c20St
		for _, st := range cur {
			if st.ctl != c20cRun {
				next = append(next, st)
				continue
			}
			next = append(next, x.stmt(s, st)...)
		}
		cur = next
		if len(cur) > x.budget {
			for _, st := range cur {
				st.abort(s, "too many paths")
			}
			return cur
		}
	}
	return cur
}

// callInline executes a same-package function with the given receiver and arguments.
// Every returned pair is a running state with the call's result (a tuple for several results).
func (x *c20SX) callInline(fi *FuncInfo, call *ast.CallExpr, recv *c20V, args []c20V, st *c20St) []c20EV {
	for _, f := range x.stack {
		if f == fi.Obj {
			return []c20EV{{st, c20Unknown("recursive call of %s", fi.Name())}}
		}
	}
	if len(x.stack) > 8 {
		return []c20EV{{st, c20Unknown("call chain too deep at %s", fi.Name())}}
	}
	sig := c20Sig(fi.Obj)
	if sig.Recv() != nil && recv != nil {
		st.env[sig.Recv()] = *recv
	}
	np := sig.Params().Len()
	for i := 0; i < np; i++ {
		p := sig.Params().At(i)
		switch {
		case sig.Variadic() && i == np-1:
			if call.Ellipsis.IsValid() && i < len(args) {
				st.env[p] = args[i]
			} else if len(args) >= np-1 {
				st.env[p] = x.variadicArg(p.Type(), args[np-1:])
			} else {
				st.env[p] = c20Unknown("missing arguments of %s", fi.Name())
			}
		case i < len(args):
			st.env[p] = args[i]
		default:
			st.env[p] = c20Unknown("missing argument")
		}
	}
	if sig.Recv() != nil {
		x.born(sig.Recv())
	}
	for i := 0; i < np; i++ {
		x.born(sig.Params().At(i))
	}
	x.stack = append(x.stack, fi.Obj)
	x.frames = append(x.frames, c20Frame{sig: sig, lo: fi.Decl.Pos(), hi: fi.Decl.End()})
	x.enter(st)
	outs := x.block(fi.Decl.Body.List, []*c20St{st})
	x.stack = x.stack[:len(x.stack)-1]
	x.frames = x.frames[:len(x.frames)-1]
	return x.finishCall(outs, sig, call, fi.Name())
}

// assign stores v into the place denoted by lhs.
func (x *c20SX) assign(lhs ast.Expr, v c20V, st *c20St) {
	lhs = ast.Unparen(lhs)
	if id, ok := lhs.(*ast.Ident); ok {
		if id.Name == "_" {
			return
		}
		if o := objOf(x.info, id); o != nil {
			if _, isVar := o.(*types.Var); isVar && o.Parent() != x.cx.pk.Types.Scope() {
				if x.info.Defs[id] != nil {
					x.born(o)
				}
				st.env[o] = x.toIface(v, o.Type())
				return
			}
		}
	}
	if ix, ok := lhs.(*ast.IndexExpr); ok && x.storeIndex(ix, v, st) {
		return
	}
	if sel, ok := lhs.(*ast.SelectorExpr); ok && x.storeField(sel, v, st) {
		return
	}
	st.abort(lhs, "assignment to `%s` (only local variables and elements of unaliased local string lists are understood as assignment targets)", src(x.cx.r.P.Fset, lhs))
}

// zero value of a declared variable.
func (x *c20SX) zero(t types.Type) c20V {
	switch u := t.Underlying().(type) {
	case *types.Basic:
		switch {
		case u.Info()&types.IsString != 0:
			return c20V{k: c20kStr, typ: t}
		case u.Info()&types.IsInteger != 0:
			return c20V{k: c20kInt, typ: t}
		case u.Info()&types.IsBoolean != 0:
			return c20V{k: c20kBool}
		}
	case *types.Slice:
		if b, ok := u.Elem().Underlying().(*types.Basic); ok {
			if b.Info()&types.IsString != 0 {
				return c20V{k: c20kList, typ: t, id: x.newID()}
			}
			if b.Kind() == types.Uint8 {
				return c20V{k: c20kBytes, typ: t}
			}
			if b.Info()&types.IsInteger != 0 {
				// a list of numbers: its elements are the (converted) ids put into it
				return c20V{k: c20kList, name: "nums", typ: t, id: x.newID()}
			}
		}
		return c20V{k: c20kNil}
	case *types.Array:
		if b, ok := u.Elem().Underlying().(*types.Basic); ok && b.Kind() == types.Uint8 {
			return c20V{k: c20kBytes, tag: "array", typ: t} // a local byte array: only usable as scratch[:0]
		}
	case *types.Pointer:
		return c20V{k: c20kNil, typ: t} // a typed nil pointer (see toIface)
	case *types.Interface, *types.Map, *types.Chan, *types.Signature:
		return c20V{k: c20kNil}
	case *types.Struct:
		if c20IsBuilderType(t) {
			return c20V{k: c20kBytes, tag: "builder", typ: t}
		}
		if nt, ok := t.(*types.Named); ok {
			// `var o osm.OSM`: a fresh empty document
			z := c20V{k: c20kObj, tag: "doc", id: x.newID(), name: nt.Obj().Name(), b: true, typ: t, fields: map[string]c20V{}}
			if nt.Obj().Pkg() == x.cx.pk.Types && len(x.zeroing) < 4 {
				// a struct of the package: its fields hold their zero values
				x.zeroing = append(x.zeroing, t)
				for i := 0; i < u.NumFields(); i++ {
					z.fields[u.Field(i).Name()] = x.zero(u.Field(i).Type())
				}
				x.zeroing = x.zeroing[:len(x.zeroing)-1]
			}
			return z
		}
	}
	return c20Unknown("zero value of %s", t)
}

func c20AssignOp(tok token.Token) token.Token {
	switch tok {
	case token.ADD_ASSIGN:
		return token.ADD
	case token.SUB_ASSIGN:
		return token.SUB
	case token.MUL_ASSIGN:
		return token.MUL
	}
	return token.ILLEGAL
}
