package rules

import (
	"go/ast"
	"go/token"
	"go/types"
	"strings"

	"osmcheck/core"
)

// ---------------------------------------------------------------- child writes

// c15ChildWrite is an assignment to a field of `<receiver>.<children>[<update>.Index]` found in the API function or
// in a helper reached from it.
type c15ChildWrite struct {
	env   *c15Env
	stmt  *ast.AssignStmt
	i     int        // index of the LHS in stmt
	field *types.Var // the child field written
	cont  *c15Path   // <receiver>.<children>
	upd   *c15Path   // the update value whose Index selects the child
	lhs   *c15Path
	via   *c15WriteBack // non-nil: the write goes to a local copy that is stored back as a whole (c15_writeback.go)
}

// childWrites finds the child writes reached from rt whose child struct type is target ("…/osm.WayNode").
func (w *c15World) childWrites(rt *c15Root, target string) []c15ChildWrite {
	var out []c15ChildWrite
	for _, env := range rt.envs {
		env := env
		wbs := w.writeBacks(rt, env, target)
		inspectNoLit(env.fn.fi.Decl.Body, func(n ast.Node) bool {
			as, ok := n.(*ast.AssignStmt)
			if !ok {
				return true
			}
			for i, l := range as.Lhs {
				sel, ok := ast.Unparen(l).(*ast.SelectorExpr)
				if !ok {
					continue
				}
				f := selField(w.info, sel)
				if f == nil || namedPath(w.info.TypeOf(sel.X)) != target {
					continue
				}
				lp := w.pathOf(env, l, true)
				if wb := wbs[objOf(w.info, sel.X)]; wb != nil && lp != nil {
					out = append(out, c15ChildWrite{env: env, stmt: as, i: i, field: f, cont: wb.cont, upd: wb.upd, lhs: lp, via: wb})
					continue
				}
				if lp == nil || len(lp.steps) < 3 {
					continue
				}
				st := lp.steps[len(lp.steps)-2]
				if st.idx == nil || !c15IsUpdateIndexPath(st.idx) {
					continue
				}
				cont := lp.prefix(2)
				if !rt.f.isInput(cont.root) {
					continue
				}
				out = append(out, c15ChildWrite{env: env, stmt: as, i: i, field: f, cont: cont, upd: st.idx.prefix(1), lhs: lp})
			}
			return true
		})
	}
	return out
}

// childrenKey renders `<receiver type>.<field>` for the field of the API's receiver that holds a slice of target.
func (w *c15World) childrenKey(rt *c15Root, target, dflt string) string {
	recv := rt.f.fi.Obj.Type().(*types.Signature).Recv()
	if recv == nil {
		return dflt
	}
	t := recv.Type()
	if pt, ok := t.(*types.Pointer); ok {
		t = pt.Elem()
	}
	st, ok := t.Underlying().(*types.Struct)
	nt, ok2 := t.(*types.Named)
	if !ok || !ok2 {
		return dflt
	}
	for i := 0; i < st.NumFields(); i++ {
		if sl, ok := st.Field(i).Type().Underlying().(*types.Slice); ok && namedPath(sl.Elem()) == target {
			return nt.Obj().Name() + "." + st.Field(i).Name()
		}
	}
	return dflt
}

// elemOfSomeLoop: path p is the element of one of the loops reached from rt.
func (w *c15World) elemOfSomeLoop(rt *c15Root, p *c15Path) bool {
	for _, site := range rt.sites {
		if w.isElem(site.env, site.loop, p) {
			return true
		}
	}
	return false
}

// skippable decides whether statement stmt (a CFG node of env.fn) can be missed by an update that is to be applied
// (stamped at or before t, Index in range, and `reverse` as given): in a function that contains the scanning loop
// around stmt, a path from the top of the loop body to the next iteration or to a success return that does not
// execute stmt; in a helper, a path from the entry to a success return. Returns "" or a description.
func (w *c15World) skippable(rt *c15Root, env *c15Env, stmt ast.Node, reverse int) string {
	if why := w.skippable1(rt, env, stmt, reverse); why != "" {
		return why
	}
	// in a helper: the call that leads here must itself be on every such path of the caller
	for e := env; e.parent != nil; e = e.parent {
		if w.loopAround(rt, e.fn, stmt) != nil {
			break
		}
		n, _, _ := e.parent.fn.nodeAt(e.call.Pos())
		if n == nil {
			return "the call of " + e.fn.name() + " is not in the control-flow graph of " + e.parent.fn.name()
		}
		if why := w.skippable1(rt, e.parent, n, reverse); why != "" {
			return why + " (`" + src(w.r.P.Fset, e.call) + "`, which leads to it, is conditional)"
		}
		stmt = n
	}
	return ""
}

// loopAround returns the reached loop site of f whose body contains n, if any.
func (w *c15World) loopAround(rt *c15Root, f *c15Fn, n ast.Node) *c15LoopSite {
	for i := range rt.sites {
		if rt.sites[i].env.fn == f && rt.sites[i].loop.contains(n) {
			return &rt.sites[i]
		}
	}
	return nil
}

func (w *c15World) skippable1(rt *c15Root, env *c15Env, stmt ast.Node, reverse int) string {
	P := w.r.P
	f := env.fn
	barrier := func(n ast.Node) bool { return n == stmt }
	inLoop := w.loopAround(rt, f, stmt)
	check := func(wk *c15Walk, what string) string {
		if wk.head {
			return what + " can reach the end of the loop body without it"
		}
		if wk.implicit {
			return what + " can reach the end of " + f.name() + " without it"
		}
		for _, ret := range wk.returns {
			if w.retKind(f, ret) != c15RetFailure {
				return what + " can reach `" + src(P.Fset, ret) + "` (" + P.Rel(ret.Pos()) + ") without it"
			}
		}
		return ""
	}
	if inLoop != nil {
		for _, ord := range []c15Ord{c15OrdBefore, c15OrdEqual} {
			o := &c15Oracle{w: w, loop: inLoop.loop, lenv: inLoop.env, ord: ord, rng: c15In, reverse: reverse}
			if w.filteredSource(*inLoop) != nil {
				o.ord = c15OrdNone
			}
			wk := w.walk(inLoop.loop.entry, 0, c15WalkOpt{env: env, loop: inLoop.loop, oracle: o, barrier: barrier})
			if s := check(wk, "an in-range update stamped "+ord.String()); s != "" {
				return s
			}
		}
		return ""
	}
	o := &c15Oracle{w: w, rng: c15In, reverse: reverse}
	wk := w.walk(f.g.Blocks[0], 0, c15WalkOpt{env: env, oracle: o, barrier: barrier})
	return check(wk, "an in-range update")
}

// reachableWith reports whether stmt is executed on some path for an in-range update with the given reverse flag.
func (w *c15World) reachableWith(rt *c15Root, env *c15Env, stmt ast.Node, reverse int) bool {
	for e := env; e != nil; e = e.parent {
		f := e.fn
		o := &c15Oracle{w: w, rng: c15In, reverse: reverse}
		wk := w.walk(f.g.Blocks[0], 0, c15WalkOpt{env: e, oracle: o})
		if !wk.visited[stmt] {
			return false
		}
		if e.parent == nil {
			break
		}
		n, _, _ := e.parent.fn.nodeAt(e.call.Pos())
		if n == nil {
			return true
		}
		stmt = n
	}
	return true
}

// isNegation: `L *= -1`, `L = -L`, `L = L * -1`, `L = -1 * L`.
func (w *c15World) isNegation(cw c15ChildWrite) bool {
	as := cw.stmt
	if len(as.Rhs) != len(as.Lhs) {
		return false
	}
	rhs := ast.Unparen(as.Rhs[cw.i])
	isMinus1 := func(e ast.Expr) bool { v, ok := constInt(w.info, e); return ok && v == -1 }
	same := func(e ast.Expr) bool { return w.pathOf(cw.env, e, true).eq(cw.lhs) }
	switch as.Tok {
	case token.MUL_ASSIGN:
		return isMinus1(rhs)
	case token.ASSIGN:
		if ue, ok := rhs.(*ast.UnaryExpr); ok && ue.Op == token.SUB {
			return same(ue.X)
		}
		if be, ok := rhs.(*ast.BinaryExpr); ok && be.Op == token.MUL {
			return (isMinus1(be.X) && same(be.Y)) || (isMinus1(be.Y) && same(be.X))
		}
	}
	return false
}

// ---------------------------------------------------------------- U4

func c15U4(r *core.R) {
	w := c15NewWorld(r)
	if w.pk == nil {
		r.Anchor("package osm")
		return
	}
	roots := w.roots()
	expect := []string{"ChangesetID", "Lat", "Lon", "Version"}
	for _, spec := range []struct{ api, target string }{
		{"(*Way).ApplyUpdatesUpTo", core.ModulePath + ".WayNode"},
		{"(*Relation).ApplyUpdatesUpTo", core.ModulePath + ".Member"},
	} {
		rt := w.rootByName(roots, spec.api)
		if rt == nil {
			r.Anchor(spec.api)
			continue
		}
		writes := w.childWrites(rt, spec.target)
		short := spec.target[strings.LastIndex(spec.target, ".")+1:]
		if len(writes) == 0 {
			short = w.childrenKey(rt, spec.target, short)
			r.Bad("copy@"+short, rt.f.fi.Decl.Pos(), "%s reaches no assignment to a field of `<receiver>.<children>[<update>.Index]` with children of type %s: updates are not applied to the children", spec.api, short)
			if spec.target == core.ModulePath+".Member" {
				r.Bad("flip@"+short+" Orientation", rt.f.fi.Decl.Pos(), "no orientation flip for reversed way members")
			}
			continue
		}
		key := writes[0].cont.String() // "Way.Nodes" / "Relation.Members"
		c := "copy@" + key
		got := map[string]bool{}
		bad := false
		flipSeen := false
		for _, cw := range writes {
			s := src(r.P.Fset, cw.stmt)
			where := cw.env.fn.name()
			if !cw.cont.eq(writes[0].cont) {
				r.Bad(c+" "+cw.field.Name(), cw.stmt.Pos(), "`%s` writes to %s while other fields go to %s", s, cw.cont.String(), key)
				bad = true
				continue
			}
			if !w.elemOfSomeLoop(rt, cw.upd) {
				r.Bad(c+" "+cw.field.Name(), cw.stmt.Pos(), "`%s` in %s: the update whose Index selects the child is not the element of the scan", s, where)
				bad = true
				continue
			}
			if cw.via != nil {
				if why := w.writeBackDefect(rt, cw); why != "" {
					tag := c + " " + cw.field.Name()
					if cw.field.Name() == "Orientation" {
						tag, flipSeen = "flip@"+key+" Orientation", true
					}
					r.Bad(tag, cw.stmt.Pos(), "%s", why)
					bad = true
					continue
				}
			}
			if cw.field.Name() == "Orientation" {
				fc := "flip@" + key + " Orientation"
				flipSeen = true
				switch {
				case !w.isNegation(cw):
					r.Bad(fc, cw.stmt.Pos(), "Orientation is changed by `%s` in %s; it must be multiplied by -1 exactly when the update's Reverse holds", s, where)
				case w.reachableWith(rt, cw.env, cw.stmt, -1):
					r.Bad(fc, cw.stmt.Pos(), "`%s` in %s is reachable when the update's Reverse is false: the orientation must flip exactly when Reverse holds", s, where)
				default:
					if why := w.skippable(rt, cw.env, cw.stmt, +1); why != "" {
						r.Bad(fc, cw.stmt.Pos(), "`%s` in %s: %s although its Reverse holds", s, where, why)
					} else {
						r.OK(fc, cw.stmt.Pos(), "evaluated with Reverse true/false and Index in range: `%s` is on every success path when Reverse holds and on none when it does not", s)
					}
				}
				continue
			}
			// plain copy: same-named field of the same update
			okCopy := cw.stmt.Tok == token.ASSIGN && len(cw.stmt.Rhs) == len(cw.stmt.Lhs)
			if okCopy {
				rp := w.pathOf(cw.env, cw.stmt.Rhs[cw.i], false)
				okCopy = rp != nil && len(rp.steps) > 0 && rp.prefix(1).eq(cw.upd) && c15IsUpdateField(rp.last(), cw.field.Name())
			}
			if !okCopy {
				r.Bad(c+" "+cw.field.Name(), cw.stmt.Pos(), "`%s` in %s: child field %s must be copied from the same-named field of the update that selects the child", s, where, cw.field.Name())
				bad = true
				continue
			}
			if got[cw.field.Name()] {
				r.Bad(c+" "+cw.field.Name(), cw.stmt.Pos(), "field %s is assigned twice", cw.field.Name())
				bad = true
				continue
			}
			if why := w.skippable(rt, cw.env, cw.stmt, 0); why != "" {
				r.Bad(c+" "+cw.field.Name(), cw.stmt.Pos(), "`%s` in %s is conditional: %s", s, where, why)
				bad = true
				continue
			}
			got[cw.field.Name()] = true
		}
		if !bad {
			names := c15SortedKeys(got)
			if strings.Join(names, ",") == strings.Join(expect, ",") {
				r.OK(c, writes[0].stmt.Pos(), "reached from %s: exactly {%s} of %s[u.Index] are assigned, each from the same-named field of the scanned update, on every success path of an in-range update", spec.api, strings.Join(names, ","), key)
			} else {
				r.Bad(c, writes[0].stmt.Pos(), "reached from %s: {%s} of %s[u.Index] are assigned; the update carries {%s} for the child", spec.api, strings.Join(names, ","), key, strings.Join(expect, ","))
			}
		}
		if spec.target == core.ModulePath+".Member" && !flipSeen {
			r.Bad("flip@"+key+" Orientation", rt.f.fi.Decl.Pos(), "no orientation flip for reversed way members")
		}
	}
	c15Slots(r, w, roots)
}
