package rules

// Byte slices that build a text: `buf := scratch[:0]`, `buf = append(buf, s...)`, `buf = append(buf, '/')`,
// `buf = strconv.AppendInt(buf, v, 10)`, `string(buf)`, `[]byte(s)`. The abstract value of such a slice is the
// text it holds (the same pieces as a string), marked Bytes; string(b) and []byte(s) copy, so the conversion
// only flips the mark. Stores into the slice (b[i] = c) are not interpreted. A scratch array that is sliced
// again while an earlier slice of it is still live would alias; the value model does not see that and such a
// function is outside the interpreted forms only by convention (String methods build one text and return it).

import (
	"go/types"
)

func c10IsByteSlice(t types.Type) bool {
	if t == nil {
		return false
	}
	sl, ok := t.Underlying().(*types.Slice)
	if !ok {
		return false
	}
	b, ok := sl.Elem().Underlying().(*types.Basic)
	return ok && b.Kind() == types.Uint8
}

// bytesOf returns the pieces of a byte-slice value: an empty or nil slice, or a text marked Bytes.
func c10BytesOf(v c10Val) ([]c10Piece, bool) {
	switch {
	case v.K == c10VNil, v.K == c10VSlice && len(v.Args) == 0:
		return nil, true
	case (v.K == c10VStr || v.K == c10VText) && v.Bytes:
		ps, _ := c10Pieces(v)
		return ps, true
	}
	return nil, false
}

func c10MkBytes(ps []c10Piece) c10Val {
	v := c10MkText(ps)
	v.Bytes = true
	return v
}

// appendBytes folds append(b, x...) / append(b, c1, c2, ...) on a byte slice that holds a text.
func (ev *c10Eval) appendBytes(args []c10Val, ellipsis bool) (c10Val, bool) {
	if len(args) == 0 {
		return c10Val{}, false
	}
	ps, ok := c10BytesOf(args[0])
	if !ok {
		return c10Val{}, false
	}
	out := append([]c10Piece{}, ps...)
	if ellipsis {
		if len(args) != 2 {
			return c10Val{}, false
		}
		more, isBytes := c10BytesOf(args[1])
		if !isBytes {
			var isText bool
			if more, isText = c10Pieces(args[1]); !isText {
				return c10Val{}, false
			}
		}
		return c10MkBytes(append(out, more...)), true
	}
	for _, a := range args[1:] {
		c, isConst := a.V.signedConst()
		if a.K != c10VInt || !isConst || c <= 0 || c > 127 {
			return c10Val{}, false
		}
		out = append(out, c10Piece{Lit: string(rune(c))})
	}
	return c10MkBytes(out), true
}

// strconvAppend folds strconv.AppendInt / AppendUint (base 10) on such a slice.
func (ev *c10Eval) strconvAppend(name string, args []c10Val) (c10Val, bool) {
	if (name != "AppendInt" && name != "AppendUint") || len(args) != 3 {
		return c10Val{}, false
	}
	ps, ok := c10BytesOf(args[0])
	base, isConst := args[2].V.signedConst()
	if !ok || args[1].K != c10VInt || args[1].Tag != "" || args[2].K != c10VInt || !isConst || base != 10 {
		return c10Val{}, false
	}
	dec, _ := c10Pieces(c10DecText(args[1].V))
	return c10MkBytes(append(append([]c10Piece{}, ps...), dec...)), true
}
