package rules

import "osmcheck/core"

// Third-round shapes for the JSON codec: typed string constants in the dispatch, a type literal built by
// concatenation through a shared helper, a closure for the repeated unmarshal snippet, counted loops, an element
// filter by index. c05Benign2 must be silent; c05Mutants2 seed a defect into the same refactored shapes.

const c05NodeCase = "\t\tcase \"node\":\n\t\t\tn := &Node{}\n\t\t\terr = unmarshalJSON(data, n)\n\t\t\tif err != nil {\n\t\t\t\treturn err\n\t\t\t}\n\t\t\to.Nodes = append(o.Nodes, n)\n"

const c05NodeLiteral = "func (x xmlNameJSONTypeNode) MarshalJSON() ([]byte, error) {\n\treturn []byte(`\"node\"`), nil\n}\n"

func c05NodeLiteralConcat(t string) string {
	return "func (x xmlNameJSONTypeNode) MarshalJSON() ([]byte, error) {\n\treturn quotedType(" + t + "), nil\n}\n\nfunc quotedType(t Type) []byte {\n\treturn []byte(`\"` + string(t) + `\"`)\n}\n"
}

const c05Flatten = "\tobjects := o.Objects()\n\telements := make(Objects, 0, len(objects))\n\tfor _, obj := range objects {\n\t\tif _, ok := obj.(*Bounds); ok {\n\t\t\tcontinue\n\t\t}\n\t\telements = append(elements, obj)\n\t}\n"

func c05FlattenIndexed(start string) string {
	return "\tobjects := o.Objects()\n\telements := make(Objects, 0, len(objects))\n\tfor i := " + start + "; i < len(objects); i++ {\n\t\tswitch objects[i].(type) {\n\t\tcase *Bounds:\n\t\tdefault:\n\t\t\telements = append(elements, objects[i])\n\t\t}\n\t}\n"
}

const c05ElemLoopHead = "\tfor index, data := range s.Elements {\n\t\tt, err := findType(index, data)\n"

func c05NodeCaseClosure(target string) string {
	return "\t\tcase \"node\":\n\t\t\tn := &Node{}\n\t\t\tdecode := func(dst interface{}) error { return unmarshalJSON(data, dst) }\n\t\t\tif err = decode(" + target + "); err != nil {\n\t\t\t\treturn err\n\t\t\t}\n\t\t\to.Nodes = append(o.Nodes, n)\n"
}

var c05Benign2 = []core.Mutant{
	{Name: "case-label-typed-constant", File: "osm.go", Find: "\t\tswitch t {\n\t\tcase \"node\":\n", Replace: "\t\tswitch Type(t) {\n\t\tcase TypeNode:\n"},
	{Name: "type-literal-concatenated-in-helper", File: "json.go", Find: c05NodeLiteral, Replace: c05NodeLiteralConcat("TypeNode")},
	{Name: "flatten-counted-loop-type-switch", File: "osm.go", Find: c05Flatten, Replace: c05FlattenIndexed("0")},
	{Name: "elements-counted-loop", File: "osm.go", Find: c05ElemLoopHead, Replace: "\tfor index := 0; index < len(s.Elements); index++ {\n\t\tdata := s.Elements[index]\n\t\tt, err := findType(index, data)\n"},
	{Name: "unmarshal-through-closure", File: "osm.go", Find: c05NodeCase, Replace: c05NodeCaseClosure("n")},
	{Name: "waynodes-presized-indexed", File: "way.go",
		Find:    "\ta := make([]int64, 0, len(wn))\n\tfor _, n := range wn {\n\t\ta = append(a, int64(n.ID))\n\t}\n",
		Replace: "\ta := make([]int64, len(wn))\n\tfor i := 0; i < len(wn); i++ {\n\t\ta[i] = int64(wn[i].ID)\n\t}\n"},
	{Name: "members-empty-literal-from-helper", File: "relation.go",
		Find:    "\tif len(ms) == 0 {\n\t\treturn []byte(`[]`), nil\n\t}\n\n\treturn marshalJSON([]Member(ms))\n}\n",
		Replace: "\tif len(ms) == 0 {\n\t\treturn emptyJSONArray(), nil\n\t}\n\n\treturn marshalJSON([]Member(ms))\n}\n\nfunc emptyJSONArray() []byte {\n\tconst open, shut = \"[\", \"]\"\n\treturn []byte(open + shut)\n}\n"},
}

var c05Mutants2 = []core.Mutant{
	{Name: "concatenated-type-literal-of-other-type", File: "json.go", Find: c05NodeLiteral, Replace: c05NodeLiteralConcat("TypeWay"), ExpectRule: "J3", ExpectConstruct: "name@Node"},
	{Name: "indexed-flatten-skips-first-object", File: "osm.go", Find: c05Flatten, Replace: c05FlattenIndexed("1"), ExpectRule: "J1", ExpectConstruct: "carried@OSM"},
	{Name: "closure-unmarshals-into-fresh-copy", File: "osm.go", Find: c05NodeCase, Replace: c05NodeCaseClosure("&Node{}"), ExpectRule: "J2", ExpectConstruct: "case \"node\""},
	{Name: "typed-constant-case-of-other-type", File: "osm.go", Find: "\t\tswitch t {\n\t\tcase \"node\":\n", Replace: "\t\tswitch Type(t) {\n\t\tcase TypeBounds:\n", ExpectRule: "J2", ExpectConstruct: "case \"node\""},
}
