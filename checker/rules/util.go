package rules

import (
	"bytes"
	"go/ast"
	"go/constant"
	"go/printer"
	"go/token"
	"go/types"
	"strings"

	"golang.org/x/tools/go/cfg"
	"golang.org/x/tools/go/packages"
	"golang.org/x/tools/go/types/typeutil"

	"osmcheck/core"
)

// FuncInfo couples a declaration with its package.
type FuncInfo struct {
	Pkg  *packages.Package
	Decl *ast.FuncDecl
	Obj  *types.Func
}

// Name returns "(*T).M" / "T.M" / "F".
func (f *FuncInfo) Name() string { return funcName(f.Obj) }

func funcName(fn *types.Func) string {
	sig := fn.Type().(*types.Signature)
	if recv := sig.Recv(); recv != nil {
		t := recv.Type()
		ptr := false
		if pt, ok := t.(*types.Pointer); ok {
			t = pt.Elem()
			ptr = true
		}
		n := "?"
		if nt, ok := t.(*types.Named); ok {
			n = nt.Obj().Name()
		}
		if ptr {
			return "(*" + n + ")." + fn.Name()
		}
		return n + "." + fn.Name()
	}
	return fn.Name()
}

// findFunc resolves a function or method declared in pkg by its display name
// ("F", "T.M", "(*T).M"); for methods the pointer-ness of the receiver is ignored.
func findFunc(pk *packages.Package, name string) *FuncInfo {
	if pk == nil {
		return nil
	}
	want := strings.NewReplacer("(*", "", ")", "").Replace(name)
	for _, f := range pk.Syntax {
		for _, d := range f.Decls {
			fd, ok := d.(*ast.FuncDecl)
			if !ok {
				continue
			}
			obj, _ := pk.TypesInfo.Defs[fd.Name].(*types.Func)
			if obj == nil {
				continue
			}
			got := strings.NewReplacer("(*", "", ")", "").Replace(funcName(obj))
			if got == want {
				return &FuncInfo{Pkg: pk, Decl: fd, Obj: obj}
			}
		}
	}
	return nil
}

// allFuncs lists every function declaration with a body in pk.
func allFuncs(pk *packages.Package) []*FuncInfo {
	var out []*FuncInfo
	for _, f := range pk.Syntax {
		for _, d := range f.Decls {
			if fd, ok := d.(*ast.FuncDecl); ok && fd.Body != nil {
				if obj, _ := pk.TypesInfo.Defs[fd.Name].(*types.Func); obj != nil {
					out = append(out, &FuncInfo{Pkg: pk, Decl: fd, Obj: obj})
				}
			}
		}
	}
	return out
}

// src renders a node as source text.
func src(fset *token.FileSet, n ast.Node) string {
	if n == nil {
		return ""
	}
	var b bytes.Buffer
	printer.Fprint(&b, fset, n)
	s := b.String()
	s = strings.Join(strings.Fields(s), " ")
	if len(s) > 160 {
		s = s[:157] + "..."
	}
	return s
}

// callee resolves the static callee of a call through type information.
func callee(info *types.Info, call *ast.CallExpr) *types.Func {
	fn, _ := typeutil.Callee(info, call).(*types.Func)
	return fn
}

// isPkgFunc reports whether fn is pkgpath.name (package-level function).
func isPkgFunc(fn *types.Func, pkgpath, name string) bool {
	if fn == nil || fn.Pkg() == nil {
		return false
	}
	if fn.Type().(*types.Signature).Recv() != nil {
		return false
	}
	return fn.Pkg().Path() == pkgpath && fn.Name() == name
}

// isMethod reports whether fn is the method recvType.name where recvType is "pkgpath.Type".
func isMethod(fn *types.Func, recvType, name string) bool {
	if fn == nil || fn.Name() != name {
		return false
	}
	recv := fn.Type().(*types.Signature).Recv()
	if recv == nil {
		return false
	}
	return namedPath(recv.Type()) == recvType
}

// namedPath returns "pkgpath.Name" of a (pointer to a) named type, or "".
func namedPath(t types.Type) string {
	if t == nil {
		return ""
	}
	if pt, ok := t.(*types.Pointer); ok {
		t = pt.Elem()
	}
	if nt, ok := t.(*types.Named); ok {
		if nt.Obj().Pkg() == nil {
			return nt.Obj().Name()
		}
		return nt.Obj().Pkg().Path() + "." + nt.Obj().Name()
	}
	return ""
}

// builtinName returns the name of the builtin being called, or "".
func builtinName(info *types.Info, call *ast.CallExpr) string {
	id, ok := ast.Unparen(call.Fun).(*ast.Ident)
	if !ok {
		return ""
	}
	if b, ok := info.Uses[id].(*types.Builtin); ok {
		return b.Name()
	}
	return ""
}

// fieldOf returns the struct field selected by a selector expression, or nil.
func fieldOf(info *types.Info, e ast.Expr) *types.Var {
	sel, ok := ast.Unparen(e).(*ast.SelectorExpr)
	if !ok {
		return nil
	}
	if s := info.Selections[sel]; s != nil && s.Kind() == types.FieldVal {
		return s.Obj().(*types.Var)
	}
	return nil
}

// objOf returns the object an identifier expression denotes.
func objOf(info *types.Info, e ast.Expr) types.Object {
	id, ok := ast.Unparen(e).(*ast.Ident)
	if !ok {
		return nil
	}
	if o := info.Uses[id]; o != nil {
		return o
	}
	return info.Defs[id]
}

// constString returns the constant string value of e, if any.
func constString(info *types.Info, e ast.Expr) (string, bool) {
	tv, ok := info.Types[e]
	if !ok || tv.Value == nil || tv.Value.Kind() != constant.String {
		return "", false
	}
	return constant.StringVal(tv.Value), true
}

// constInt returns the constant integer value of e, if any.
func constInt(info *types.Info, e ast.Expr) (int64, bool) {
	tv, ok := info.Types[e]
	if !ok || tv.Value == nil {
		return 0, false
	}
	v := constant.ToInt(tv.Value)
	if v.Kind() != constant.Int {
		return 0, false
	}
	return constant.Int64Val(v)
}

// structFields lists the fields of a named struct type in pk.
func structType(pk *packages.Package, name string) (*types.Named, *types.Struct) {
	if pk == nil {
		return nil, nil
	}
	obj := pk.Types.Scope().Lookup(name)
	if obj == nil {
		return nil, nil
	}
	nt, ok := obj.Type().(*types.Named)
	if !ok {
		return nil, nil
	}
	st, _ := nt.Underlying().(*types.Struct)
	return nt, st
}

// newCFG builds the control-flow graph of a function body. Calls to panic and
// os.Exit are treated as not returning.
func newCFG(info *types.Info, body *ast.BlockStmt) *cfg.CFG {
	return cfg.New(body, func(call *ast.CallExpr) bool {
		if builtinName(info, call) == "panic" {
			return false
		}
		return true
	})
}

// blockOf finds the CFG block and the index of the node that contains pos.
func blockOf(g *cfg.CFG, pos token.Pos) (*cfg.Block, int) {
	var best *cfg.Block
	bi := -1
	var bestSpan token.Pos = 1 << 30
	for _, b := range g.Blocks {
		for i, n := range b.Nodes {
			if n.Pos() <= pos && pos < n.End() {
				if span := n.End() - n.Pos(); span < bestSpan {
					best, bi, bestSpan = b, i, span
				}
			}
		}
	}
	return best, bi
}

// reachableBlocks returns the set of live blocks reachable from start following Succs,
// not passing through any block for which stop returns true (stop blocks themselves are included).
func reachableFrom(start []*cfg.Block, stop func(*cfg.Block) bool) map[*cfg.Block]bool {
	seen := map[*cfg.Block]bool{}
	var work []*cfg.Block
	work = append(work, start...)
	for len(work) > 0 {
		b := work[len(work)-1]
		work = work[:len(work)-1]
		if seen[b] {
			continue
		}
		seen[b] = true
		if stop != nil && stop(b) {
			continue
		}
		work = append(work, b.Succs...)
	}
	return seen
}

// dominators computes the dominator sets of the live blocks of g (entry = Blocks[0]).
func dominators(g *cfg.CFG) map[*cfg.Block]map[*cfg.Block]bool {
	live := reachableFrom([]*cfg.Block{g.Blocks[0]}, nil)
	preds := map[*cfg.Block][]*cfg.Block{}
	var blocks []*cfg.Block
	for _, b := range g.Blocks {
		if !live[b] {
			continue
		}
		blocks = append(blocks, b)
		for _, s := range b.Succs {
			preds[s] = append(preds[s], b)
		}
	}
	dom := map[*cfg.Block]map[*cfg.Block]bool{}
	for _, b := range blocks {
		if b == g.Blocks[0] {
			dom[b] = map[*cfg.Block]bool{b: true}
			continue
		}
		all := map[*cfg.Block]bool{}
		for _, x := range blocks {
			all[x] = true
		}
		dom[b] = all
	}
	changed := true
	for changed {
		changed = false
		for _, b := range blocks {
			if b == g.Blocks[0] {
				continue
			}
			var nw map[*cfg.Block]bool
			for _, p := range preds[b] {
				if !live[p] {
					continue
				}
				if nw == nil {
					nw = map[*cfg.Block]bool{}
					for k := range dom[p] {
						nw[k] = true
					}
				} else {
					for k := range nw {
						if !dom[p][k] {
							delete(nw, k)
						}
					}
				}
			}
			if nw == nil {
				nw = map[*cfg.Block]bool{}
			}
			nw[b] = true
			if len(nw) != len(dom[b]) {
				dom[b] = nw
				changed = true
			}
		}
	}
	return dom
}

// posDominates reports whether the node containing a dominates the node containing b in g.
func posDominates(g *cfg.CFG, dom map[*cfg.Block]map[*cfg.Block]bool, a, b token.Pos) bool {
	ba, ia := blockOf(g, a)
	bb, ib := blockOf(g, b)
	if ba == nil || bb == nil {
		return false
	}
	if ba == bb {
		return ia <= ib
	}
	return dom[bb][ba]
}

// enclosing returns the nearest ancestor of n satisfying pred.
func enclosing(parents map[ast.Node]ast.Node, n ast.Node, pred func(ast.Node) bool) ast.Node {
	for p := parents[n]; p != nil; p = parents[p] {
		if pred(p) {
			return p
		}
	}
	return nil
}

// inspectSkipFuncLit walks n but does not descend into function literals.
func inspectNoLit(n ast.Node, f func(ast.Node) bool) {
	ast.Inspect(n, func(x ast.Node) bool {
		if x == nil {
			return true
		}
		if _, ok := x.(*ast.FuncLit); ok && x != n {
			return false
		}
		return f(x)
	})
}

// parentsOf returns the parent map for the file containing the function.
func parentsOf(p *core.Program, fi *FuncInfo) map[ast.Node]ast.Node {
	return p.Parents(p.FileOf(fi.Pkg, fi.Decl.Pos()))
}

// usesObj reports whether expression e mentions object o.
func usesObj(info *types.Info, e ast.Node, o types.Object) bool {
	found := false
	ast.Inspect(e, func(n ast.Node) bool {
		if id, ok := n.(*ast.Ident); ok && (info.Uses[id] == o || info.Defs[id] == o) {
			found = true
		}
		return !found
	})
	return found
}

// usesField reports whether node e selects field f anywhere.
func usesField(info *types.Info, e ast.Node, f *types.Var) bool {
	found := false
	ast.Inspect(e, func(n ast.Node) bool {
		if sel, ok := n.(*ast.SelectorExpr); ok {
			if s := info.Selections[sel]; s != nil && s.Obj() == f {
				found = true
			}
		}
		return !found
	})
	return found
}
