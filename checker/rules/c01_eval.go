package rules

import (
	"fmt"
	"go/ast"
	"go/constant"
	"go/token"
	"go/types"
)

// c01Ev evaluates expressions of one frame in one state. Calls that were executed for the node being evaluated
// (see c01_exec.go) are looked up in res.
type c01Ev struct {
	fm  *c01Frame
	st  c01St
	res map[*ast.CallExpr][]c01Val
}

// path returns the cell path expression e denotes (an lvalue of tracked state), or "".
func (ev *c01Ev) path(e ast.Expr) string {
	info := ev.fm.fr.info
	switch x := ast.Unparen(e).(type) {
	case *ast.Ident:
		if root, ok := ev.fm.roots[objOf(info, x)]; ok {
			if v, isRef := ev.st.cells[root]; isRef && v.k == 'R' {
				if _, isMap := c01MapElem(info.TypeOf(x)); isMap {
					return v.s // a map handed to a function is the caller's map
				}
			}
			return root
		}
	case *ast.SelectorExpr:
		fld := fieldOf(info, x)
		if fld == nil {
			return ""
		}
		// presence state kept in (non-iterator) fields of the per-worker decoder itself: cells that live across the
		// functions of the decoder; unknown until written
		if namedPath(selRecv(info, x)) == namedPath(ev.fm.fr.cm.m.ddT) && namedPath(fld.Type()) != protoscanIter && c01Trackable(fld.Type()) {
			if _, isPtr := fld.Type().Underlying().(*types.Pointer); !isPtr {
				return "dd." + fld.Name()
			}
		}
		if p := ev.path(x.X); p != "" {
			// a pointer cell is dereferenced implicitly
			if v, ok := ev.st.cells[p]; ok && v.k == 'R' {
				return v.s + "." + x.Sel.Name
			}
			return p + "." + x.Sel.Name
		}
		if v := ev.eval(x.X); v.k == 'R' {
			return v.s + "." + x.Sel.Name
		}
	case *ast.IndexExpr:
		p := ev.path(x.X)
		if p == "" {
			return ""
		}
		if v, ok := ev.st.cells[p]; ok && v.k == 'R' {
			p = v.s
		}
		if i := ev.eval(x.Index); i.k == 'I' {
			return fmt.Sprintf("%s[%d]", p, i.i)
		}
	case *ast.StarExpr:
		if v := ev.eval(x.X); v.k == 'R' {
			return v.s
		}
	}
	return ""
}

// fieldTarget: e denotes an iterator field of the decoder as an lvalue (`dec.F`, `*p` with p pointing at one).
func (ev *c01Ev) fieldTarget(e ast.Expr) (int, bool) {
	e = ast.Unparen(e)
	if f, ok := ev.fm.trackedField(e); ok {
		return ev.fm.fr.fieldIdx[f], true
	}
	if st, ok := e.(*ast.StarExpr); ok {
		if v := ev.eval(st.X); v.k == 'P' {
			return int(v.i), true
		}
	}
	return 0, false
}

func (ev *c01Ev) eval(e ast.Expr) c01Val {
	info := ev.fm.fr.info
	e = ast.Unparen(e)
	if tv, ok := info.Types[e]; ok && tv.Value != nil {
		switch tv.Value.Kind() {
		case constant.Bool:
			return c01BoolVal(constant.BoolVal(tv.Value))
		case constant.Int:
			if v, exact := constant.Int64Val(tv.Value); exact {
				return c01IntVal(v)
			}
		}
		return c01Unknown
	}
	if isNilIdent(e) {
		return c01Val{k: 'N'}
	}
	if idx, ok := ev.fieldTarget(e); ok {
		return c01Val{k: 'F', i: int64(idx)}
	}
	switch x := e.(type) {
	case *ast.Ident, *ast.SelectorExpr, *ast.IndexExpr, *ast.StarExpr:
		if p := ev.path(e); p != "" {
			v := ev.st.get(p)
			// a key that a completely known map does not hold reads as the zero value
			if ix, isIx := x.(*ast.IndexExpr); isIx && v.k == 'U' {
				if et, isMap := c01MapElem(info.TypeOf(ix.X)); isMap {
					if _, known := ev.st.cells[c01RootOf(p)+c01MapKnown]; known {
						b := c01MaxCells
						if z, ok := c01Zero(et, &b); ok {
							return z
						}
					}
				}
			}
			if v.k == 'T' && v.s == "" {
				if _, isSel := x.(*ast.SelectorExpr); isSel {
					v.s = c01CellLabel(info, e, v)
				}
			}
			return v
		}
		// indexing / selecting a composite value that is not stored in cells (e.g. a call result)
		if ix, ok := x.(*ast.IndexExpr); ok {
			if base := ev.eval(ix.X); base.k == 'C' {
				if i := ev.eval(ix.Index); i.k == 'I' {
					return c01Sub(base, fmt.Sprintf("[%d]", i.i))
				}
			}
		}
		if sel, ok := x.(*ast.SelectorExpr); ok && fieldOf(info, sel) != nil {
			if base := ev.eval(sel.X); base.k == 'C' {
				return c01Sub(base, "."+sel.Sel.Name)
			}
		}
	case *ast.UnaryExpr:
		switch x.Op {
		case token.NOT:
			if v := ev.eval(x.X); v.k == 'B' {
				return c01BoolVal(v.i == 0)
			}
		case token.SUB:
			if v := ev.eval(x.X); v.k == 'I' {
				return c01IntVal(-v.i)
			}
		case token.XOR:
			if v := ev.eval(x.X); v.k == 'I' {
				return c01IntVal(^v.i)
			}
		case token.AND:
			if idx, ok := ev.fieldTarget(x.X); ok {
				return c01Val{k: 'P', i: int64(idx)}
			}
			if p := ev.path(x.X); p != "" {
				return c01Val{k: 'R', s: p}
			}
			if cl, ok := ast.Unparen(x.X).(*ast.CompositeLit); ok {
				_ = cl
				return c01Unknown
			}
		}
	case *ast.BinaryExpr:
		return ev.binary(x)
	case *ast.CompositeLit:
		return ev.composite(x)
	case *ast.CallExpr:
		if c01IsConversion(info, x) && len(x.Args) == 1 {
			v := ev.eval(x.Args[0])
			if v.k == 'I' {
				return c01Truncate(v, info.TypeOf(x))
			}
			return v
		}
		if name := builtinName(info, x); (name == "len" || name == "cap") && len(x.Args) == 1 {
			t := info.TypeOf(x.Args[0])
			if pt, ok := t.Underlying().(*types.Pointer); ok {
				t = pt.Elem()
			}
			if at, ok := t.Underlying().(*types.Array); ok {
				return c01IntVal(at.Len())
			}
			return c01Unknown
		}
		if rs, ok := ev.res[x]; ok && len(rs) > 0 {
			return rs[0]
		}
	}
	return c01Unknown
}

// c01Sub selects a sub-value of a composite snapshot.
func c01Sub(base c01Val, sub string) c01Val {
	if v, ok := base.m[sub]; ok {
		return v
	}
	m := map[string]c01Val{}
	for k, v := range base.m {
		if len(k) > len(sub) && k[:len(sub)] == sub && (k[len(sub)] == '.' || k[len(sub)] == '[') {
			m[k[len(sub):]] = v
		}
	}
	if len(m) > 0 {
		return c01Val{k: 'C', m: m}
	}
	return c01Unknown
}

// c01Truncate applies the width of an integer type to a known value.
func c01Truncate(v c01Val, t types.Type) c01Val {
	if t == nil {
		return v
	}
	b, ok := t.Underlying().(*types.Basic)
	if !ok {
		return v
	}
	switch b.Kind() {
	case types.Uint8:
		return c01IntVal(int64(uint8(v.i)))
	case types.Uint16:
		return c01IntVal(int64(uint16(v.i)))
	case types.Uint32:
		return c01IntVal(int64(uint32(v.i)))
	case types.Int8:
		return c01IntVal(int64(int8(v.i)))
	case types.Int16:
		return c01IntVal(int64(int16(v.i)))
	case types.Int32:
		return c01IntVal(int64(int32(v.i)))
	}
	return v
}

// composite evaluates a struct / array literal of a tracked type.
func (ev *c01Ev) composite(cl *ast.CompositeLit) c01Val {
	info := ev.fm.fr.info
	t := info.TypeOf(cl)
	b := c01MaxCells
	z, ok := c01Zero(t, &b)
	if !ok {
		z, ok = c01ZeroLax(t)
	}
	if !ok || z.k != 'C' {
		return c01Unknown
	}
	put := func(prefix string, v c01Val) {
		if v.k == 'U' || v.k == 0 {
			if _, tracked := z.m[prefix]; !tracked {
				return // a field that is not tracked at all
			}
		}
		for k := range z.m {
			if k == prefix || (len(k) > len(prefix) && k[:len(prefix)] == prefix && (k[len(prefix)] == '.' || k[len(prefix)] == '[')) {
				delete(z.m, k)
			}
		}
		c01Flatten(z.m, prefix, v)
	}
	switch u := t.Underlying().(type) {
	case *types.Struct:
		for i, el := range cl.Elts {
			if kv, ok := el.(*ast.KeyValueExpr); ok {
				if id, ok := kv.Key.(*ast.Ident); ok {
					put("."+id.Name, ev.eval(kv.Value))
				}
				continue
			}
			if i < u.NumFields() {
				put("."+u.Field(i).Name(), ev.eval(el))
			}
		}
	case *types.Array:
		next := int64(0)
		for _, el := range cl.Elts {
			v := el
			if kv, ok := el.(*ast.KeyValueExpr); ok {
				k := ev.eval(kv.Key)
				if k.k != 'I' {
					return c01UnknownOf(t)
				}
				next, v = k.i, kv.Value
			}
			put(fmt.Sprintf("[%d]", next), ev.eval(v))
			next++
		}
	}
	return z
}

func (ev *c01Ev) binary(x *ast.BinaryExpr) c01Val {
	switch x.Op {
	case token.LAND, token.LOR:
		l := ev.eval(x.X)
		if l.k == 'B' && ((x.Op == token.LAND && l.i == 0) || (x.Op == token.LOR && l.i == 1)) {
			return l
		}
		r := ev.eval(x.Y)
		if r.k == 'B' && ((x.Op == token.LAND && r.i == 0) || (x.Op == token.LOR && r.i == 1)) {
			return r
		}
		if l.k == 'B' && r.k == 'B' {
			return r
		}
		return c01Unknown
	}
	l, r := ev.eval(x.X), ev.eval(x.Y)
	if x.Op == token.EQL || x.Op == token.NEQ {
		eq := c01Equal(ev.st, l, r)
		if eq == c01U {
			return c01Unknown
		}
		return c01BoolVal((eq == c01T) == (x.Op == token.EQL))
	}
	if l.k != 'I' || r.k != 'I' {
		return c01Unknown
	}
	a, b := l.i, r.i
	small := func(v int64) c01Val {
		if v > 4096 || v < -4096 {
			return c01Unknown // widening: concrete arithmetic is only followed on small values (table indices, counters)
		}
		return c01IntVal(v)
	}
	switch x.Op {
	case token.LSS:
		return c01BoolVal(a < b)
	case token.LEQ:
		return c01BoolVal(a <= b)
	case token.GTR:
		return c01BoolVal(a > b)
	case token.GEQ:
		return c01BoolVal(a >= b)
	case token.ADD:
		return small(a + b)
	case token.SUB:
		return small(a - b)
	case token.MUL:
		return small(a * b)
	case token.QUO:
		if b != 0 {
			return small(a / b)
		}
	case token.REM:
		if b != 0 {
			return small(a % b)
		}
	case token.AND:
		return c01Truncate(c01IntVal(a&b), ev.fm.fr.info.TypeOf(x))
	case token.OR:
		return c01Truncate(c01IntVal(a|b), ev.fm.fr.info.TypeOf(x))
	case token.XOR:
		return c01Truncate(c01IntVal(a^b), ev.fm.fr.info.TypeOf(x))
	case token.AND_NOT:
		return c01Truncate(c01IntVal(a&^b), ev.fm.fr.info.TypeOf(x))
	case token.SHL:
		if b >= 0 && b < 62 {
			return c01Truncate(c01IntVal(a<<uint(b)), ev.fm.fr.info.TypeOf(x))
		}
		if b >= 62 {
			return c01Truncate(c01IntVal(0), ev.fm.fr.info.TypeOf(x))
		}
	case token.SHR:
		if b >= 0 && b < 63 {
			return c01IntVal(a >> uint(b))
		}
	}
	return c01Unknown
}

// c01Equal compares two values for equality on the abstract domain.
func c01Equal(st c01St, l, r c01Val) c01Tri {
	isNil := func(v c01Val) c01Tri {
		switch v.k {
		case 'N':
			return c01T
		case 'P', 'R':
			return c01F
		case 'F':
			switch st.fields[v.i] {
			case 'A':
				return c01F
			case 'N':
				return c01T
			}
		case 'T':
			if v.i == 'A' {
				return c01F
			}
		case 'E':
			switch byte(v.i) {
			case 'Z':
				return c01T
			case 'E':
				return c01F
			}
		}
		return c01U
	}
	switch {
	case l.k == 'N':
		return isNil(r)
	case r.k == 'N':
		return isNil(l)
	case (l.k == 'B' && r.k == 'B') || (l.k == 'I' && r.k == 'I'):
		return c01Bool(l.i == r.i)
	case l.k == 'P' && r.k == 'P':
		return c01Bool(l.i == r.i)
	case l.k == 'R' && r.k == 'R':
		return c01Bool(l.s == r.s)
	}
	return c01U
}
