package rules

// c19_exits.go — two helpers that keep C19.M1/M2/M6 independent of the surface form of loops and conditions:
//   - expandFact looks through one-line predicate functions of the package (`func adjacent(lo, hi *State) bool
//     { return lo.SeqNum+1 >= hi.SeqNum }`): the fact `!adjacent(lower, upper)` is the atomic facts of the negated
//     body, read in a frame whose parameters are the arguments of the call;
//   - loopExits describes a `for { … }` loop that has neither a condition nor leading break guards by its exits
//     (`return` / `break` out of the loop) and the conditions of the enclosing `if`s inside the loop.

import (
	"fmt"
	"go/ast"
	"go/token"
	"go/types"

	"osmcheck/core"
)

// c19FrameFact is an atomic fact together with the frame its expression is to be read in.
type c19FrameFact struct {
	fr   *c19Frame
	expr ast.Expr
	val  bool
}

func (m *c19Model) expandFact(fr *c19Frame, e ast.Expr, val bool, depth int) []c19FrameFact {
	e = ast.Unparen(e)
	if call, ok := e.(*ast.CallExpr); ok && depth < 2 {
		if fn := callee(m.info, call); fn != nil {
			if g := m.funcs[fn]; g != nil {
				if body := singleReturnExpr(g); body != nil {
					var gf []guardFact
					splitFacts(body, val, nil, &gf)
					sub := &c19Frame{fi: g, call: call, parent: fr}
					var out []c19FrameFact
					for _, f := range gf {
						out = append(out, m.expandFact(sub, f.expr, f.val, depth+1)...)
					}
					return out
				}
			}
		}
	}
	return []c19FrameFact{{fr: fr, expr: e, val: val}}
}

// c19Exit is a statement that leaves a loop and the atomic conditions (inside the loop) under which it is reached.
type c19Exit struct {
	stmt  ast.Stmt
	facts []c19StayFact
}

// loopExits lists the exits of loop s: returns, and unlabelled breaks that target s itself. ok=false when the
// loop is left in a way that is not understood (labelled branch, goto).
func c19LoopExits(s *ast.ForStmt) (exits []c19Exit, ok bool) {
	ok = true
	var walk func(n ast.Node, facts []c19StayFact, breakable bool)
	add := func(st ast.Stmt, facts []c19StayFact) {
		exits = append(exits, c19Exit{stmt: st, facts: append([]c19StayFact{}, facts...)})
	}
	with := func(facts []c19StayFact, cond ast.Expr, val bool) []c19StayFact {
		var gf []guardFact
		splitFacts(cond, val, nil, &gf)
		out := append([]c19StayFact{}, facts...)
		for _, f := range gf {
			out = append(out, c19StayFact{f.expr, f.val})
		}
		return out
	}
	walk = func(n ast.Node, facts []c19StayFact, breakable bool) {
		switch x := n.(type) {
		case nil:
		case *ast.BlockStmt:
			for _, st := range x.List {
				walk(st, facts, breakable)
			}
		case *ast.IfStmt:
			walk(x.Body, with(facts, x.Cond, true), breakable)
			if x.Else != nil {
				walk(x.Else, with(facts, x.Cond, false), breakable)
			}
		case *ast.ReturnStmt:
			add(x, facts)
		case *ast.BranchStmt:
			switch {
			case x.Label != nil || x.Tok == token.GOTO:
				ok = false
			case x.Tok == token.BREAK && breakable:
				add(x, facts)
			}
		case *ast.ForStmt:
			walk(x.Body, facts, false) // a break inside targets the inner loop; a return still leaves
		case *ast.RangeStmt:
			walk(x.Body, facts, false)
		case *ast.SwitchStmt:
			for _, c := range x.Body.List {
				cc := c.(*ast.CaseClause)
				f := facts
				if x.Tag == nil && len(cc.List) == 1 {
					f = with(facts, cc.List[0], true)
				}
				for _, st := range cc.Body {
					walk(st, f, false)
				}
			}
		case *ast.TypeSwitchStmt:
			for _, c := range x.Body.List {
				for _, st := range c.(*ast.CaseClause).Body {
					walk(st, facts, false)
				}
			}
		case *ast.SelectStmt:
			for _, c := range x.Body.List {
				for _, st := range c.(*ast.CommClause).Body {
					walk(st, facts, false)
				}
			}
		case *ast.LabeledStmt:
			walk(x.Stmt, facts, breakable)
		}
	}
	walk(s.Body, nil, true)
	return
}

// c19M1Exits is M1 for a `for { … }` loop without condition and without leading break guards: the loop ends only
// through its exits, so there must be one, and every atomic condition an exit is taken under must depend on a
// variable the loop body assigns (an exit whose conditions are loop-invariant is taken on the first iteration
// or never: it bounds nothing).
func c19M1Exits(r *core.R, m *c19Model, l *c19Loop, s *ast.ForStmt, varied map[types.Object]token.Pos) {
	fs := r.P.Fset
	exits, ok := c19LoopExits(s)
	switch {
	case !ok:
		r.Unknown(l.key(), s.Pos(), "`for` without a condition in %s is left through a labelled branch or goto: termination is not decided", l.fi.Name())
		return
	case len(exits) == 0:
		r.Bad(l.key(), s.Pos(), "`for` without a condition in %s has no `return` and no `break` of its own: it never ends", l.fi.Name())
		return
	}
	for i, ex := range exits {
		if len(ex.facts) == 0 {
			r.OKTrivial(fmt.Sprintf("%s exit %d", l.key(), i+1), ex.stmt.Pos(), "`%s` is reached unconditionally: the loop body runs at most once past this point", src(fs, ex.stmt))
			continue
		}
		for j, f := range ex.facts {
			c := fmt.Sprintf("%s exit %d conjunct %d", l.key(), i+1, j+1)
			vars := c19VarsIn(m.info, f.expr)
			var hit types.Object
			for _, v := range vars {
				if _, ok := varied[v]; ok {
					hit = v
					break
				}
			}
			switch {
			case hit != nil:
				r.OK(c, f.expr.Pos(), "`%s` (needed to leave the loop through `%s`) depends on %s, which the loop body assigns (%s)", f.String(fs), src(fs, ex.stmt), hit.Name(), r.P.Rel(varied[hit]))
			case c19HasRealCall(m.info, f.expr):
				r.Unknown(c, f.expr.Pos(), "`%s`, needed to leave the loop through `%s`, mentions no variable the body assigns but calls a function; whether its value changes between iterations is not decided", f.String(fs), src(fs, ex.stmt))
			default:
				r.Bad(c, f.expr.Pos(), "`for` without a condition in %s: the exit `%s` needs `%s`, which mentions only {%s}, none of which is assigned inside the loop body: the exit is taken on the first iteration or never and bounds nothing; the body varies {%s}", l.fi.Name(), src(fs, ex.stmt), f.String(fs), c19Names(vars), c19Names(c19SortedObjs(varied)))
			}
		}
	}
}
