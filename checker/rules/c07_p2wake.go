package rules

import (
	"fmt"
	"strings"

	"osmcheck/core"
)

// c07WakeUpPath: a consumer blocked in a bare receive on a pipeline channel (Next waiting on the ordered queue) is only
// released by the close of that channel, i.e. by the exit of the goroutine that closes it. A cancellation from another
// goroutine must therefore reach that closer directly: the closer may not wait, without the Done alternative, on
// anything else - in particular not on a channel that is closed by goroutines further up the pipeline, because those
// end only when the reader gets out of a Read on the user's stream, which the context does not interrupt. So every
// blocking channel operation (send, receive, range) of a goroutine that closes a channel the consumer waits on is in a
// select with the decoder's Done case (or cannot block: select with default).
func c07WakeUpPath(r *core.R, m *pbfModel, closeRole map[*unit]bool) {
	ops := m.chanOps()
	waited := map[string]bool{} // classes the consumer waits on with a bare receive
	for _, op := range ops {
		if (op.kind == "recv" || op.kind == "range") && op.sel == nil && op.u.roles["consumer"] && !closeRole[op.u] && !strings.HasPrefix(op.class, "?") {
			waited[op.class] = true
		}
	}
	for cls := range waited {
		// the goroutines whose exit closes the class
		closers := map[string]*goSite{}
		for _, op := range ops {
			if op.kind != "close" || op.class != cls {
				continue
			}
			for _, g := range m.gos {
				if op.u.roles[g.role] {
					closers[g.role] = g
				}
			}
		}
		for role, g := range closers {
			c := fmt.Sprintf("wake-up %s closed by %s", cls, g.unit.name)
			var bad []string
			n := 0
			for _, op := range ops {
				if op.kind == "close" || op.kind == "done" || !op.u.onlyRole(role) {
					continue
				}
				n++
				switch {
				case op.sel != nil && (c07HasDefault(op.sel) || m.doneCase(op.sel) != nil):
				case op.sel != nil:
					bad = append(bad, fmt.Sprintf("the select at %s (%s %s) has no `<-dec.ctx.Done()` case", r.P.Rel(op.pos), op.kind, op.class))
				default:
					bad = append(bad, fmt.Sprintf("bare %s on %s at %s", op.kind, op.class, r.P.Rel(op.pos)))
				}
			}
			if len(bad) == 0 {
				r.OK(c, g.stmt.Pos(), "the consumer's bare receive on %s is released by the exit of %s, and each of its %d channel operations is in a select with the decoder's Done case: a cancel from any goroutine reaches a blocked Scan without waiting for the reader or the workers", cls, g.unit.name, n)
			} else {
				r.Bad(c, g.stmt.Pos(), "a Scan blocked on %s is only released when %s exits, but that goroutine can itself block without observing the context: %s; the channel it waits on is closed only after the reader returns from a Read on the user's stream, which a cancel or deadline does not interrupt (stalled pipe or socket): the cancellation never reaches the consumer", cls, g.unit.name, strings.Join(bad, "; "))
			}
		}
	}
}
