package rules

// K4 sorted@: every provided sort really sorts. The comparator handed to package sort is certified by
// comparator@ (c10_k4.go); this rule covers everything *around* that call: "already sorted" fast paths, length
// shortcuts, pre-checks on a coarser key. The whole Sort method is interpreted on concrete witness lists (ids
// built from the K2 layout: kind bits | ref<<16 | version); on a constant list every branch is decided, so the
// interpretation is exact and a report is a real counterexample: a list that is not in (kind, ref, version)
// order on which the method returns without handing the list to package sort and without having ordered it.
// The witnesses put the inversion in each field (version only, version bit 15, ref, ref bit 39, kind), at the
// start, middle and end of the list, and include sorted lists, duplicates, the empty and the one-element list.

import (
	"fmt"
	"go/types"
	"sort"
	"strings"
)

type c10Wit struct {
	kind     string
	ref, ver uint64
}

func c10WitnessLists() [][]c10Wit {
	n := func(ref, ver uint64) c10Wit { return c10Wit{"node", ref, ver} }
	w := func(ref, ver uint64) c10Wit { return c10Wit{"way", ref, ver} }
	r := func(ref, ver uint64) c10Wit { return c10Wit{"relation", ref, ver} }
	return [][]c10Wit{
		{},
		{n(1, 1)},
		{n(1, 1), n(1, 1)},
		{n(1, 1), n(1, 2), n(2, 1), w(1, 1), r(1, 1)},
		{n(1, 5), n(1, 4)},                   // version inversion inside one feature
		{w(7, 1<<15), w(7, 1)},               // ... in the top version bit
		{n(1, 1), n(1, 3), n(1, 2)},          // ... at the end of the list
		{r(3, 2), r(3, 1), r(3, 3)},          // ... at the start
		{n(1, 1), w(2, 9), w(2, 3), r(1, 1)}, // ... in the middle
		{n(2, 1), n(1, 9)},                   // reference inversion, versions ascending
		{n(1<<39, 1), n(1, 1)},               // ... in the top reference bit
		{w(1, 1), n(2, 1)},                   // kind inversion, references ascending
		{r(1, 1), w(5, 5)},
		{n(5, 1), w(4, 1), r(3, 1), n(6, 1)}, // inversion only between the last two
		{n(1, 2), n(1, 2), n(1, 1)},
	}
}

// witness builds the abstract element for one witness and its sort key under the element type.
func (m *c10Model) witness(elemT types.Type, wt c10Wit, label string) (c10Val, uint64, string) {
	k := m.kindByName(wt.kind)
	if m.isPacked(elemT) {
		id := k.mask | wt.ref<<c10VerBits
		if m.localName(elemT) != "FeatureID" {
			id |= wt.ver
		}
		v := c10IntVal(m.vecOf(elemT, c10ConstVec(id, 64, true)))
		v.Why = label
		return v, id, ""
	}
	iface, ok := elemT.Underlying().(*types.Interface)
	nt := c10Named(m.pk, k.Struct)
	if !ok || nt == nil {
		return c10Val{}, 0, "no struct for kind " + wt.kind
	}
	st, _ := nt.Underlying().(*types.Struct)
	dyn := types.NewPointer(nt)
	if st == nil || !types.Implements(dyn, iface) {
		return c10Val{}, 0, fmt.Sprintf("*%s does not implement %s", k.Struct, elemT)
	}
	sv := c10Val{K: c10VStruct, Fields: map[*types.Var]c10Val{}}
	for i := 0; i < st.NumFields(); i++ {
		f := st.Field(i)
		switch {
		case f.Name() == "ID" && m.kindByIDType(f.Type()) != nil:
			sv.Fields[f] = c10IntVal(m.vecOf(f.Type(), c10ConstVec(wt.ref, 64, true)))
		case f.Name() == "Version" && types.Identical(f.Type(), types.Typ[types.Int]):
			sv.Fields[f] = c10IntVal(m.vecOf(f.Type(), c10ConstVec(wt.ver, 64, true)))
		}
	}
	return c10Val{K: c10VDyn, Dyn: dyn, Args: []c10Val{sv}, Why: label}, k.mask | wt.ref<<c10VerBits | wt.ver, ""
}

func c10WitString(l []c10Wit, withVer bool) string {
	var s []string
	for _, w := range l {
		if withVer {
			s = append(s, fmt.Sprintf("%s/%d:%d", w.kind, w.ref, w.ver))
		} else {
			s = append(s, fmt.Sprintf("%s/%d", w.kind, w.ref))
		}
	}
	return "[" + strings.Join(s, " ") + "]"
}

const c10ListUnderTest = "list under test"

// checkSorted emits sorted@<method> for every provided sort.
func (m *c10Model) checkSorted() {
	r := m.r
	sorts := m.sortMethods()
	var fis []*FuncInfo
	for fi := range sorts {
		fis = append(fis, fi)
	}
	sort.Slice(fis, func(i, j int) bool { return fis[i].Name() < fis[j].Name() })
	for _, fi := range fis {
		c := "sorted@" + fi.Name()
		elemT := fi.Obj.Type().(*types.Signature).Recv().Type().Underlying().(*types.Slice).Elem()
		withVer := m.localName(elemT) != "FeatureID"
		rv, _ := c10RecvAndParams(m.info, fi.Decl)
		bad, unk := "", ""
		nLists, nUnsorted := 0, 0
		for _, l := range c10WitnessLists() {
			var elems []c10Val
			var keys []uint64
			label := map[string]uint64{}
			for i, wt := range l {
				v, key, why := m.witness(elemT, wt, fmt.Sprintf("#%d", i))
				if why != "" {
					unk = why
					break
				}
				elems, keys = append(elems, v), append(keys, key)
				label[v.Why] = key
			}
			if unk != "" {
				break
			}
			isSorted := sort.SliceIsSorted(keys, func(i, j int) bool { return keys[i] < keys[j] })
			recv := c10SliceVal(elems)
			recv.Why = c10ListUnderTest
			m.ev.resetScenario()
			m.ev.sorts = nil
			outs := m.ev.call(fi.Decl, &recv, nil, 1)
			events := m.ev.sorts
			m.ev.sorts = nil
			nLists++
			shown := c10WitString(l, withVer)
			switch {
			case len(outs) != 1:
				unk = fmt.Sprintf("%s on the constant list %s has %d outcomes: a branch does not depend on the list alone", fi.Name(), shown, len(outs))
			case outs[0].Unsupported != "":
				unk = fmt.Sprintf("%s on %s is outside the interpreted statement forms: %s (%s)", fi.Name(), shown, outs[0].Unsupported, r.P.Rel(outs[0].Pos))
			case outs[0].Panic:
				bad = fmt.Sprintf("%s panics on %s: %s", fi.Name(), shown, outs[0].PanicWhy)
			}
			if bad != "" || unk != "" {
				break
			}
			handed := false
			for _, ev := range events {
				if ev.Arg.K == c10VSlice && ev.Arg.Why == c10ListUnderTest {
					handed = true
				}
			}
			if isSorted {
				continue
			}
			nUnsorted++
			if handed {
				continue
			}
			// not handed to package sort: accept only if the method ordered the list itself
			fin := outs[0].Final[rv]
			ordered := fin.K == c10VSlice && len(fin.Args) == len(keys)
			var fk []uint64
			for _, e := range fin.Args {
				k, known := label[e.Why]
				if !known {
					ordered = false
				}
				fk = append(fk, k)
			}
			if ordered && sort.SliceIsSorted(fk, func(i, j int) bool { return fk[i] < fk[j] }) {
				continue
			}
			what := "(kind, reference, version)"
			if !withVer {
				what = "(kind, reference)"
			}
			bad = fmt.Sprintf("%s returns on %s without handing the list to package sort and leaves it as it is, but it is not in %s order: some test on the way (a fast path, a length shortcut, a pre-check on a coarser key than the one the sort compares) wrongly takes it for sorted", fi.Name(), shown, what)
			break
		}
		m.ev.resetScenario()
		switch {
		case bad != "":
			r.Bad(c, fi.Decl.Pos(), "%s", bad)
		case unk != "":
			r.Unknown(c, fi.Decl.Pos(), "%s", unk)
		default:
			r.OK(c, fi.Decl.Pos(), "%s interpreted on %d constant witness lists (inversions in the version, reference and kind field, at the start, middle and end): on each of the %d lists that are out of order the list reaches package sort with the certified comparator (or ends up ordered); no panic on the empty and one-element list", fi.Name(), nLists, nUnsorted)
		}
	}
}
