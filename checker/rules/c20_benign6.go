package rules

import "osmcheck/core"

// c20Benign6: allocation-saving spellings (one presized buffer, scratch arrays, Append* functions, lazily
// allocated lists, a fast path for the common status).
func c20Benign6() []core.Mutant {
	return []core.Mutant{
		{Name: "nodes-url-built-in-one-presized-buffer", File: "osmapi/node.go",
			Find: `	data := make([]byte, 0, 11*len(ids))
	for i, id := range ids {
		if i != 0 {
			data = append(data, byte(','))
		}
		data = strconv.AppendInt(data, int64(id), 10)
	}
	url := ds.baseURL() + "/nodes?nodes=" + string(data)
	if len(params) > 0 {
		url += "&" + params
	}

	o := &osm.OSM{}
	if err := ds.getFromAPI(ctx, url, &o); err != nil {
		return nil, err
	}

	return o.Nodes, nil
}
`,
			Replace: `	buf := urlBuffer(ds.baseURL(), "/nodes?nodes=", len(ids), params)
	for i, id := range ids {
		buf = appendNth(buf, i, int64(id))
	}
	url := urlFinish(buf, params)

	o := &osm.OSM{}
	if err := ds.getFromAPI(ctx, url, &o); err != nil {
		return nil, err
	}

	return o.Nodes, nil
}

// urlBuffer starts a multi fetch url in a buffer big enough for n ids and the params.
func urlBuffer(base, path string, n int, params string) []byte {
	buf := make([]byte, 0, len(base)+len(path)+n*21+1+len(params))
	buf = append(buf, base...)
	return append(buf, path...)
}

// appendNth appends the i-th id, comma separated.
func appendNth(buf []byte, i int, id int64) []byte {
	if i != 0 {
		buf = append(buf, ',')
	}
	return strconv.AppendInt(buf, id, 10)
}

// urlFinish appends the optional params and returns the url (a copy of the buffer).
func urlFinish(buf []byte, params string) string {
	if len(params) > 0 {
		buf = append(buf, '&')
		buf = append(buf, params...)
	}
	return string(buf)
}
`},
		{Name: "at-option-appendformat-into-stack-array", File: "osmapi/options.go",
			Find: `	return append(p, "at="+o.t.UTC().Format("2006-01-02T15:04:05Z")), nil
`,
			Replace: `	const layout = "2006-01-02T15:04:05Z"
	var scratch [len("at=") + len(layout)]byte
	buf := append(scratch[:0], "at="...)
	buf = o.t.UTC().AppendFormat(buf, layout)
	return append(p, string(buf)), nil
`},
		{Name: "map-bbox-appendfloat-six-decimals-into-scratch", File: "osmapi/map.go",
			Find: `	"fmt"

	"github.com/paulmach/osm"
)

// Map returns the latest elements in the given bounding box.
// Delegates to the DefaultDatasource and uses its http.Client to make the request.
func Map(ctx context.Context, bounds *osm.Bounds, opts ...FeatureOption) (*osm.OSM, error) {
	return DefaultDatasource.Map(ctx, bounds, opts...)
}

// Map returns the latest elements in the given bounding box.
func (ds *Datasource) Map(ctx context.Context, bounds *osm.Bounds, opts ...FeatureOption) (*osm.OSM, error) {
	params, err := featureOptions(opts)
	if err != nil {
		return nil, err
	}

	url := fmt.Sprintf("%s/map?bbox=%f,%f,%f,%f&%s", ds.baseURL(),
		bounds.MinLon, bounds.MinLat,
		bounds.MaxLon, bounds.MaxLat,
		params)
`,
			Replace: `	"strconv"

	"github.com/paulmach/osm"
)

// Map returns the latest elements in the given bounding box.
// Delegates to the DefaultDatasource and uses its http.Client to make the request.
func Map(ctx context.Context, bounds *osm.Bounds, opts ...FeatureOption) (*osm.OSM, error) {
	return DefaultDatasource.Map(ctx, bounds, opts...)
}

// Map returns the latest elements in the given bounding box.
func (ds *Datasource) Map(ctx context.Context, bounds *osm.Bounds, opts ...FeatureOption) (*osm.OSM, error) {
	params, err := featureOptions(opts)
	if err != nil {
		return nil, err
	}

	var scratch [64]byte
	bbox := append(scratch[:0], "bbox="...)
	bbox = strconv.AppendFloat(bbox, bounds.MinLon, 'f', 6, 64)
	bbox = append(bbox, ',')
	bbox = strconv.AppendFloat(bbox, bounds.MinLat, 'f', 6, 64)
	bbox = append(bbox, ',')
	bbox = strconv.AppendFloat(bbox, bounds.MaxLon, 'f', 6, 64)
	bbox = append(bbox, ',')
	bbox = strconv.AppendFloat(bbox, bounds.MaxLat, 'f', 6, 64)
	url := ds.baseURL() + "/map?" + string(bbox) + "&" + params
`},
		{Name: "notes-parameter-list-lazily-allocated", File: "osmapi/note.go",
			Find: `	params := make([]string, 0, 1+len(opts))
	params = append(params, fmt.Sprintf("bbox=%f,%f,%f,%f",
		bounds.MinLon, bounds.MinLat,
		bounds.MaxLon, bounds.MaxLat))
`,
			Replace: `	var params []string
	if len(opts) > 0 {
		params = make([]string, 0, 1+len(opts))
	}
	params = append(params, fmt.Sprintf("bbox=%f,%f,%f,%f",
		bounds.MinLon, bounds.MinLat,
		bounds.MaxLon, bounds.MaxLat))
`},
		{Name: "status-200-fast-path-then-error-helper", File: "osmapi/datasource.go",
			Find: `	if resp.StatusCode == http.StatusNotFound {
		return &NotFoundError{URL: url}
	}

	if resp.StatusCode == http.StatusForbidden {
		return &ForbiddenError{URL: url}
	}

	if resp.StatusCode == http.StatusGone {
		return &GoneError{URL: url}
	}

	if resp.StatusCode == http.StatusRequestURITooLong {
		return &RequestURITooLongError{URL: url}
	}

	if resp.StatusCode != http.StatusOK {
		return &UnexpectedStatusCodeError{
			Code: resp.StatusCode,
			URL:  url,
		}
	}

	return xml.NewDecoder(resp.Body).Decode(item)
}
`,
			Replace: `	// the common case first, everything else is an error.
	if resp.StatusCode == http.StatusOK {
		return xml.NewDecoder(resp.Body).Decode(item)
	}

	return statusErr(resp.StatusCode, url)
}

// statusErr maps a non 200 status code to its typed error.
func statusErr(code int, url string) error {
	switch code {
	case http.StatusNotFound:
		return &NotFoundError{URL: url}
	case http.StatusForbidden:
		return &ForbiddenError{URL: url}
	case http.StatusGone:
		return &GoneError{URL: url}
	case http.StatusRequestURITooLong:
		return &RequestURITooLongError{URL: url}
	}
	return &UnexpectedStatusCodeError{Code: code, URL: url}
}
`},
	}
}
