package rules

// c16_osm.go — abstract OSM inputs: ground-truth rings cut into ways, members, relations; the oracles derived
// from the ground truth.

import (
	"fmt"
	"go/types"
	"sort"
)

// c16Ground is the ground truth of a scenario: rings as cycles of point tokens (listed counter-clockwise, the
// closing point not repeated), and which outer ring each inner ring lies in.
type c16Ground struct {
	rings  [][]string
	inner  map[int]bool // ring index -> is a hole
	within map[int]int  // hole -> its outer ring
}

// dirOf: +1 when the closed chain runs along a ground-truth ring as listed (CCW), -1 against it; ring = its index.
func (g *c16Ground) dirOf(chain []string) (dir int64, ring int, ok bool) {
	if len(chain) < 3 || chain[0] != chain[len(chain)-1] {
		return 0, -1, false
	}
	open := chain[:len(chain)-1]
	for ri, r := range g.rings {
		if len(r) != len(open) {
			continue
		}
		for rot := range r {
			fwd, bwd := true, true
			for i := range open {
				if open[i] != r[(rot+i)%len(r)] {
					fwd = false
				}
				if open[i] != r[(rot-i+2*len(r))%len(r)] {
					bwd = false
				}
			}
			if fwd {
				return c16CCW, ri, true
			}
			if bwd {
				return c16CW, ri, true
			}
		}
	}
	return 0, -1, false
}

// wayDir: direction in which a way (a run of consecutive ring points, as stored) runs around its ring.
func (g *c16Ground) wayDir(toks []string) (int64, bool) {
	if len(toks) < 2 {
		return 0, false
	}
	for _, r := range g.rings {
		for i, t := range r {
			if t != toks[0] {
				continue
			}
			if len(r) == 2 {
				return 0, false
			}
			if r[(i+1)%len(r)] == toks[1] {
				return c16CCW, true
			}
			if r[(i-1+len(r))%len(r)] == toks[1] {
				return c16CW, true
			}
		}
	}
	return 0, false
}

// truthOracle answers orientation questions from the ground truth; a question about anything but a complete
// ring of the ground truth abandons the path (undecided).
func (g *c16Ground) truthOracle(m *c16M, chain []string) int64 {
	d, _, ok := g.dirOf(chain)
	if !ok {
		m.abort("orientation asked of %v, which is not a complete ring of the scenario", chain)
	}
	return d
}

// ---- osm values -----------------------------------------------------------------------------------------------

func (e *c16Env) osmType(name string) types.Type {
	t := c16Named(e.osm, name)
	if t == nil {
		e.r.Anchor("type osm." + name)
		e.ok = false
	}
	return t
}

func (e *c16Env) osmConst(name string) c16Val {
	if c, ok := e.osm.Types.Scope().Lookup(name).(*types.Const); ok {
		return c16FromConst(c.Val(), c.Type())
	}
	e.r.Anchor("const osm." + name)
	e.ok = false
	return ""
}

// c16Way is a way of a scenario: its node ids are derived from the point tokens.
type c16Way struct {
	id   int64
	toks []string
}

// c16Mem is a relation member of a scenario.
type c16Mem struct {
	kind   string // "node", "way", "relation"
	ref    int64
	role   string
	orient int64
}

// nodeID gives every point token a stable node id.
func c16NodeID(tok string) int64 {
	h := int64(0)
	for _, c := range tok {
		h = h*131 + int64(c)
	}
	return 1000 + h
}

// wayValue builds *osm.Way; onNodes=true puts the coordinates on the way nodes (annotated ways), false leaves
// them zero (the coordinates then come from node objects).
func (e *c16Env) wayValue(m *c16M, w c16Way, onNodes bool) c16Val {
	wayT, wnT := e.osmType("Way"), e.osmType("WayNode")
	v := c16Zero(wayT).(*c16Struct)
	v.f["ID"] = w.id
	v.f["Visible"] = true
	nodes := make([]c16Val, len(w.toks))
	for i, tk := range w.toks {
		n := c16Zero(wnT).(*c16Struct)
		n.f["ID"] = c16NodeID(tk)
		if onNodes {
			n.f["Lon"], n.f["Lat"] = c16Coord(tk)
			n.f["Version"] = int64(1)
		}
		nodes[i] = n
	}
	v.f["Nodes"] = c16NewSlice(e.osmType("WayNodes"), nodes)
	return m.newPtr(wayT, &c16Cell{v: v})
}

func (e *c16Env) nodeValue(m *c16M, tok string) c16Val {
	nodeT := e.osmType("Node")
	v := c16Zero(nodeT).(*c16Struct)
	v.f["ID"] = c16NodeID(tok)
	v.f["Lon"], v.f["Lat"] = c16Coord(tok)
	v.f["Version"], v.f["Visible"] = int64(1), true
	return m.newPtr(nodeT, &c16Cell{v: v})
}

func (e *c16Env) memberValue(mem c16Mem) c16Val {
	v := c16Zero(e.osmType("Member")).(*c16Struct)
	kind := map[string]string{"node": "TypeNode", "way": "TypeWay", "relation": "TypeRelation"}[mem.kind]
	v.f["Type"] = e.osmConst(kind)
	v.f["Ref"], v.f["Role"], v.f["Orientation"] = mem.ref, mem.role, mem.orient
	return v
}

func (e *c16Env) membersValue(mems []c16Mem) c16Slice {
	elems := make([]c16Val, len(mems))
	for i, mm := range mems {
		elems[i] = e.memberValue(mm)
	}
	return c16NewSlice(e.osmType("Members"), elems)
}

// wayMap builds map[osm.WayID]*osm.Way of type t.
func (e *c16Env) wayMap(m *c16M, t types.Type, ways []c16Way, onNodes bool) c16Val {
	mp := &c16Map{typ: t, m: map[string]c16Val{}, k: map[string]c16Val{}}
	for _, w := range ways {
		k, _ := c16Key(w.id)
		mp.m[k], mp.k[k] = e.wayValue(m, w, onNodes), w.id
	}
	return mp
}

// c16ReadMembers reads the Orientation of every member back.
func c16ReadMembers(v c16Val) ([]int64, bool) {
	s, ok := v.(c16Slice)
	if !ok {
		return nil, false
	}
	var out []int64
	for _, mv := range s.elems() {
		st, ok := mv.(*c16Struct)
		if !ok {
			return nil, false
		}
		o, ok := st.f["Orientation"].(int64)
		if !ok {
			return nil, false
		}
		out = append(out, o)
	}
	return out, true
}

func c16MemsText(mems []c16Mem, ways map[int64]c16Way) string {
	out := ""
	for i, mm := range mems {
		if i > 0 {
			out += " "
		}
		out += fmt.Sprintf("%d:%s/%d(%s,%d)", i, mm.kind, mm.ref, mm.role, mm.orient)
		if w, ok := ways[mm.ref]; ok && mm.kind == "way" {
			out += fmt.Sprint(w.toks)
		}
	}
	return out
}

func c16SortedKeys(m map[int64]c16Way) []int64 {
	var ks []int64
	for k := range m {
		ks = append(ks, k)
	}
	sort.Slice(ks, func(i, j int) bool { return ks[i] < ks[j] })
	return ks
}
