package rules

import (
	"fmt"

	"osmcheck/core"
)

// ---------------------------------------------------------------------------
// L4: (*Relation).Polygon

func c18L4(r *core.R) {
	pk := r.P.Pkg("")
	fi := findFunc(pk, "(*Relation).Polygon")
	if fi == nil || fi.Decl.Body == nil {
		r.Anchor("(*Relation).Polygon")
		return
	}
	tab, err := c18LoadTable()
	if err != nil {
		r.Anchor("tables/polygon-features.json: " + err.Error())
		return
	}
	fname := fi.Name()
	x := c18NewExec(r, pk, fi.Decl, nil)
	accept := map[string]bool{}
	for _, t := range tab.RelationTypes {
		accept[t] = true
	}
	vals := []string{"", "no", "yes", "route", "Multipolygon", "multipolygon ", c18Fresh}
	have := map[string]bool{}
	for _, v := range vals {
		have[v] = true
	}
	for _, v := range x.constStrings() {
		if !have[v] && !accept[v] {
			have[v] = true
			vals = append(vals, v)
		}
	}
	for _, t := range tab.RelationTypes {
		cl := &c18Clause{name: "type=" + t + "@" + fname, proof: "a relation with type=" + t + " is an area"}
		s := &c18Scen{n: -1, tags: map[string]string{"type": t}}
		cl.expect(s, x.run(c18ModePrefix, s), "true", "returns true")
		cl.emit(r, fi.Decl.Pos())
	}
	cl := &c18Clause{name: "others rejected@" + fname, proof: fmt.Sprintf("absent type and every other type value (%d probes, including each string constant of the function) return false", len(vals))}
	for _, v := range vals {
		s := &c18Scen{n: -1, tags: map[string]string{"type": v}}
		cl.expect(s, x.run(c18ModePrefix, s), "false", "returns false (only multipolygon and boundary relations are areas)")
	}
	cl.emit(r, fi.Decl.Pos())
	c18ReadScan(r, x, "reads only Tags.Find(\"type\")@"+fname, map[string]bool{"Tags": true}, "Tags.Find(\"type\")")
}
