package rules

// Hand-formatted times in the XML and JSON writers (C04.X8, C05.J8).
//
// A time.Time that encoding/xml / encoding/json (or an installed codec) writes itself goes through time.Time's own
// MarshalText / MarshalJSON: RFC 3339 with nanoseconds, read back without loss by time.Time's own unmarshalers. A
// writer that formats the time itself takes over that contract: the layout it formats with (a compile-time constant
// that reaches (time.Time).Format / AppendFormat on an explored path, through whatever constant, local or helper)
// must be one the corresponding reader parses, and - unless the format is an external one the library's own reader
// parses with the same layout - must keep fractional seconds. Likewise a time handed to the codec must be the value
// being marshalled, not a rounded copy. The observations come from the abstract interpreter of c03_eval.go: Format /
// Truncate / Round calls with their abstract receivers and arguments, and where their results flow.

import (
	"go/token"
	"go/types"
	"strings"

	"osmcheck/core"
)

// c04TimeFormat is one (time.Time).Format / AppendFormat call observed on a path.
type c04TimeFormat struct {
	ev     *c03Event
	layout *c03V
	result *c03V
	recv   *c03V
}

func c04IsTimeType(t types.Type) bool {
	return t != nil && namedPath(t) == "time.Time"
}

// c04TimeFormats lists the Format calls of a path.
func c04TimeFormats(pa *c03Path) []c04TimeFormat {
	var out []c04TimeFormat
	for i := range pa.St.Trace {
		e := &pa.St.Trace[i]
		if e.Kind != "call" || len(e.Results) == 0 {
			continue
		}
		switch {
		case isMethod(e.Fn, "time.Time", "Format") && len(e.Args) == 1:
			out = append(out, c04TimeFormat{ev: e, layout: e.Args[0], result: e.Results[0], recv: e.Recv})
		case isMethod(e.Fn, "time.Time", "AppendFormat") && len(e.Args) == 2:
			out = append(out, c04TimeFormat{ev: e, layout: e.Args[1], result: e.Results[0], recv: e.Recv})
		}
	}
	return out
}

// c04Reaches reports whether the value with refinement key `key` is v or part of what v was built from (conversions,
// call arguments, list elements, struct fields).
func c04Reaches(v *c03V, key string) bool {
	var walk func(v *c03V, d int) bool
	walk = func(v *c03V, d int) bool {
		if v == nil || d > 8 {
			return false
		}
		if v.Key != "" && v.Key == key {
			return true
		}
		if v.K == c03KInit && v.Root != nil && v.Root.Kind == "assert" && walk(v.Root.Of, d+1) {
			return true
		}
		for _, f := range v.From {
			if walk(f, d+1) {
				return true
			}
		}
		for _, e := range v.Elems {
			if walk(e, d+1) {
				return true
			}
		}
		for _, f := range v.Fields {
			if walk(f, d+1) {
				return true
			}
		}
		return walk(v.Base, d+1) || walk(v.LenOf, d+1)
	}
	return walk(v, 0)
}

// c04LayoutKeepsFraction: the layout has a nanosecond fractional-seconds field.
func c04LayoutKeepsFraction(layout string) bool {
	for _, f := range []string{".999999999", ".000000000", ",999999999", ",000000000"} {
		if strings.Contains(layout, f) {
			return true
		}
	}
	return false
}

// c04LayoutRFC3339Nano: text in this layout is what time.Time's own UnmarshalText / UnmarshalJSON read without loss.
func c04LayoutRFC3339Nano(layout string) bool {
	return layout == "2006-01-02T15:04:05.999999999Z07:00" || layout == "2006-01-02T15:04:05.000000000Z07:00"
}

// c04TimeProvenance classifies a time value handed to the writer: "" = the marshalled value's own time (possibly moved
// to another zone, which keeps the instant); otherwise what happened to it.
func c04TimeProvenance(v *c03V, depth int) (lossy, unknown string) {
	if v == nil || depth > 6 {
		return "", "a time of unknown origin"
	}
	switch {
	case v.K == c03KInit:
		return "", ""
	case v.K == c03KUnk && v.Fn != nil && namedPath(c04RecvTypeOf(v.Fn)) == "time.Time" && len(v.From) > 0:
		switch v.Fn.Name() {
		case "UTC", "Local", "In":
			return c04TimeProvenance(v.From[0], depth+1)
		case "Truncate", "Round":
			return "the result of " + v.Fn.Name() + "(" + c04ArgText(v.From[1:]) + ")", ""
		}
		return "", "the result of (time.Time)." + v.Fn.Name()
	}
	return "", "`" + v.String() + "`"
}

func c04ArgText(vs []*c03V) string {
	var s []string
	for _, v := range vs {
		s = append(s, v.String())
	}
	return strings.Join(s, ", ")
}

// c04ReaderLayouts returns the layouts the repository's own Unmarshal<codec> method of type t parses times with (nil
// when t has no such method declared in the repository: the text is then read back by time.Time's own unmarshaler).
func c04ReaderLayouts(p *core.Program, t types.Type, method string, run func(fi *FuncInfo) []*c03Path) (layouts []string, custom bool, pos token.Pos) {
	fi := c03FuncInfoOf(p, c03Method(t, method))
	if fi == nil {
		return nil, false, token.NoPos
	}
	seen := map[string]bool{}
	for _, pa := range run(fi) {
		for i := range pa.St.Trace {
			e := &pa.St.Trace[i]
			if e.Kind == "call" && (isPkgFunc(e.Fn, "time", "Parse") || isPkgFunc(e.Fn, "time", "ParseInLocation")) && len(e.Args) >= 2 && e.Args[0].K == c03KStr && !seen[e.Args[0].Str] {
				seen[e.Args[0].Str] = true
				layouts = append(layouts, e.Args[0].Str)
			}
		}
	}
	return layouts, true, fi.Decl.Pos()
}

// c04JudgeLayout decides one hand-formatted time. needFraction: the format is the library's own (not an external one
// with a fixed precision), so it must keep fractional seconds even when reader and writer agree.
func c04JudgeLayout(tf c04TimeFormat, readerLayouts []string, customReader, needFraction bool, what string) (status, msg string) {
	if tf.layout.K != c03KStr {
		return core.Undecided, "the layout `" + tf.layout.String() + "` the time is formatted with is not a constant"
	}
	l := tf.layout.Str
	switch {
	case !customReader && !c04LayoutRFC3339Nano(l):
		loss := "it is not the RFC 3339 nanosecond layout time.Time's own unmarshaler reads back"
		if !c04LayoutKeepsFraction(l) {
			loss = "the layout has no fractional-seconds field, so the sub-second part of the time is dropped"
		}
		return core.Violated, what + " is formatted by hand with layout \"" + l + "\" and read back by time.Time's own unmarshaler (RFC 3339, nanoseconds): " + loss + "; the written document does not give the value back (a time written by the codec itself uses time.RFC3339Nano)"
	case customReader && len(readerLayouts) == 0:
		return core.Undecided, what + " is formatted by hand with layout \"" + l + "\" but the type's own unmarshaler parses no time with a constant layout"
	case customReader && !c04LayoutReadByAny(l, readerLayouts):
		return core.Violated, what + " is formatted by hand with layout \"" + l + "\" but the type's own unmarshaler parses with \"" + strings.Join(readerLayouts, "\", \"") + "\": what is written is not read back (time.Parse accepts a fractional-seconds field the layout does not name only right after the seconds)"
	case customReader && needFraction && !c04LayoutKeepsFraction(l):
		if _, frac := c04SplitFraction(l); frac != "" {
			return core.Violated, what + " is formatted by hand with layout \"" + l + "\", whose fractional-seconds field `" + frac + "` is shorter than nanoseconds: the rest of the sub-second part of the time is dropped on marshalling"
		}
		return core.Violated, what + " is formatted by hand with layout \"" + l + "\", which has no fractional-seconds field: the sub-second part of the time is dropped on marshalling"
	}
	return core.Discharged, what + " is formatted with layout \"" + l + "\", which its reader parses"
}

func c04Contains(list []string, s string) bool {
	for _, x := range list {
		if x == s {
			return true
		}
	}
	return false
}

// c04X8: hand-formatted times in the XML writers.
func c04X8(r *core.R) {
	c03Init(r)
	var v c04Verdicts
	n := 0
	for _, root := range c04Roots(r.P) {
		trs, ab := c04Run(r.P, root, c04AllSet, "times")
		c := "time@" + root.name
		if ab != "" {
			v.unknown(c, root.fi.Decl.Pos(), "%s could not be explored completely: %s", root.name, ab)
			continue
		}
		run := func(fi *FuncInfo) []*c03Path {
			x := &c03Interp{P: r.P}
			return x.Run(fi, nil)
		}
		layouts, custom, _ := c04ReaderLayouts(r.P, root.T, "UnmarshalXML", run)
		for _, tr := range trs {
			// everything the path hands to the encoder
			var sinks []*c03V
			for _, em := range tr.emits {
				sinks = append(sinks, em.val)
				if c04IsTimeType(em.val.T) && em.path == nil {
					lossy, unk := c04TimeProvenance(em.val, 0)
					switch {
					case lossy != "":
						v.bad(c, em.ev.Node.Pos(), "%s encodes %s instead of the time itself: the rounded-off part is lost on marshalling", root.name, lossy)
					case unk != "":
						v.unknown(c, em.ev.Node.Pos(), "%s encodes a time that is %s", root.name, unk)
					}
				}
			}
			for _, t := range tr.tokens {
				sinks = append(sinks, t.tok)
			}
			for _, tf := range c04TimeFormats(tr.path) {
				flows := false
				for _, s := range sinks {
					if c04Reaches(s, tf.result.Key) {
						flows = true
					}
				}
				if !flows {
					continue
				}
				n++
				what := "the time `" + src(r.P.Fset, tf.ev.Call) + "` written by " + root.name
				// the reader accepts a fractional-seconds field after the seconds whatever its layout says (c04_layout.go),
				// so the writer has to keep the sub-second part of the time
				status, msg := c04JudgeLayout(tf, layouts, custom, true, what)
				v.put(status, c, tf.ev.Node.Pos(), "%s", msg)
			}
		}
	}
	v.emit(r)
	r.Stat("hand_formatted_xml_times", n)
	if n == 0 {
		r.Anchor("a time formatted by hand in an XML writer of package osm (Date.MarshalXML)")
	}
}
