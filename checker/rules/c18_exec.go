package rules

import (
	"fmt"
	"go/ast"
	"go/token"
	"go/types"

	"golang.org/x/tools/go/cfg"
	"golang.org/x/tools/go/packages"

	"osmcheck/core"
)

func c18NewExec(r *core.R, pk *packages.Package, fd *ast.FuncDecl, ctx *c18Ctx) *c18Exec {
	x := &c18Exec{r: r, pk: pk, info: pk.TypesInfo, fd: fd, ctx: ctx, cfgs: map[*ast.BlockStmt]*cfg.CFG{}, pkgC: map[types.Object]c18Val{}, loopSeen: map[ast.Stmt]bool{}, keyIdx: map[types.Object]*c18KeyIndex{}}
	x.funcs = c18FuncIndex(pk)
	if fd.Recv != nil && len(fd.Recv.List) == 1 && len(fd.Recv.List[0].Names) == 1 {
		x.recv = x.info.Defs[fd.Recv.List[0].Names[0]]
	}
	return x
}

// c18FuncIndex maps the function objects of a package to their declarations.
func c18FuncIndex(pk *packages.Package) map[*types.Func]*ast.FuncDecl {
	m := map[*types.Func]*ast.FuncDecl{}
	for _, fd := range c18FuncDecls(pk) {
		if fn, ok := pk.TypesInfo.Defs[fd.Name].(*types.Func); ok {
			m[fn] = fd
		}
	}
	return m
}

func (x *c18Exec) cfgOf(body *ast.BlockStmt) *cfg.CFG {
	if g, ok := x.cfgs[body]; ok {
		return g
	}
	g := newCFG(x.info, body)
	x.cfgs[body] = g
	return g
}

func (x *c18Exec) parent(n ast.Node) ast.Node {
	f := x.r.P.FileOf(x.pk, n.Pos())
	if f == nil {
		return nil
	}
	return x.r.P.Parents(f)[n]
}

func (x *c18Exec) stop(kind, format string, args ...interface{}) {
	panic(c18Stop{c18Out{kind: kind, pos: x.lastPos, note: fmt.Sprintf(format, args...)}})
}

func (x *c18Exec) src(n ast.Node) string { return src(x.r.P.Fset, n) }

// isFindPrimitive: Tags.Find of the module is the one primitive through which tags are read.
func c18IsFind(fn *types.Func) bool { return isMethod(fn, core.ModulePath+".Tags", "Find") }

// run executes the function on one abstract input.
func (x *c18Exec) run(mode int, s *c18Scen) (out c18Out) {
	x.s, x.mode = s, mode
	x.loopState, x.loopStmt, x.loopKey, x.loopVal, x.snap, x.snapFr = 0, nil, nil, nil, nil, nil
	x.steps, x.trace, x.stack, x.lastPos = 0, nil, nil, x.fd.Pos()
	defer func() {
		if e := recover(); e != nil {
			st, ok := e.(c18Stop)
			if !ok {
				panic(e)
			}
			out = st.out
		}
		out.trace = x.trace
		out.left = x.loopState == 3
		if !out.pos.IsValid() {
			out.pos = x.lastPos
		}
	}()
	fr := x.newFrame(x.fd.Body, nil, 0)
	if x.recv != nil {
		fr.env[x.recv] = c18Val{k: c18KRecv}
	}
	x.bindResults(fr, x.fd.Type)
	v := x.exec(fr)
	switch v.k {
	case c18KBool:
		out.kind = fmt.Sprint(v.b)
	case c18KVoid:
		out.kind = "end"
	default:
		out.kind, out.note = "unknown", "the result is not a decided boolean"
		if v.note != "" {
			out.note = v.note
		}
	}
	out.pos = x.lastPos
	return out
}

func (x *c18Exec) newFrame(body *ast.BlockStmt, parent *c18Frame, depth int) *c18Frame {
	return &c18Frame{env: map[types.Object]c18Val{}, parent: parent, body: body, depth: depth,
		tags: map[*ast.SwitchStmt]c18Val{}, rangeX: map[*ast.RangeStmt]c18Val{}, iter: map[ast.Stmt]int{}}
}

func (x *c18Exec) zero(t types.Type) c18Val {
	if t == nil {
		return c18Unk("value of unknown type")
	}
	if b, ok := t.Underlying().(*types.Basic); ok {
		switch {
		case b.Info()&types.IsString != 0:
			return c18Val{k: c18KStr, org: c18OConst}
		case b.Info()&types.IsInteger != 0:
			return c18Val{k: c18KInt}
		case b.Info()&types.IsBoolean != 0:
			return c18Val{k: c18KBool}
		}
	}
	switch t.Underlying().(type) {
	case *types.Pointer, *types.Slice, *types.Map, *types.Interface, *types.Signature, *types.Chan:
		return c18Val{k: c18KNil}
	}
	return c18Unk("zero value of %s is not modelled", t)
}

func (x *c18Exec) bindResults(fr *c18Frame, ft *ast.FuncType) {
	if ft.Results == nil {
		return
	}
	for _, fld := range ft.Results.List {
		for _, nm := range fld.Names {
			if o := x.info.Defs[nm]; o != nil {
				fr.env[o] = x.zero(o.Type())
				fr.named = append(fr.named, o)
			}
		}
	}
}

func (x *c18Exec) note(format string, args ...interface{}) {
	if len(x.trace) < 16 {
		x.trace = append(x.trace, fmt.Sprintf(format, args...))
	}
}

// exec walks the CFG of the frame's body until it returns.
func (x *c18Exec) exec(fr *c18Frame) c18Val {
	g := x.cfgOf(fr.body)
	b := g.Blocks[0]
	for {
		x.steps++
		if x.steps > 4000 {
			x.stop("unknown", "the evaluation does not terminate within the step budget (a loop other than the rule loop is on the path)")
		}
		// loop heads
		switch b.Kind {
		case cfg.KindRangeLoop:
			b = x.rangeHead(fr, b)
			continue
		case cfg.KindForLoop:
			if nb := x.forHead(fr, b); nb != nil {
				b = nb
				continue
			}
		case cfg.KindRangeDone, cfg.KindForDone:
			if x.loopState == 1 && b.Stmt == x.loopStmt {
				x.loopState = 3
				x.note("leaves the rule loop")
			}
		}
		isCond := len(b.Succs) == 2
		var next *cfg.Block
		for i, n := range b.Nodes {
			x.lastPos = n.Pos()
			if isCond && i == len(b.Nodes)-1 {
				ce, ok := n.(ast.Expr)
				if !ok {
					x.stop("unknown", "branch node `%s` is not an expression", x.src(n))
				}
				val := x.branch(fr, ce)
				if _, isCase := x.parent(ce).(*ast.CaseClause); isCase {
					x.note("case `%s` %s", x.src(ce), map[bool]string{true: "matches", false: "does not match"}[val])
				} else {
					x.note("`%s` is %v", x.src(ce), val)
				}
				if val {
					next = b.Succs[0]
				} else {
					next = b.Succs[1]
				}
				break
			}
			switch n := n.(type) {
			case *ast.ReturnStmt:
				return x.doReturn(fr, n)
			case *ast.AssignStmt:
				x.assign(fr, n)
			case *ast.ValueSpec:
				x.valueSpec(fr, n)
			case *ast.IncDecStmt:
				x.incDec(fr, n)
			case *ast.ExprStmt:
				x.eval(fr, n.X)
			case *ast.EmptyStmt:
			case ast.Expr:
				switch p := x.parent(n).(type) {
				case *ast.SwitchStmt:
					if p.Tag == n {
						fr.tags[p] = x.eval(fr, n)
					}
				case *ast.RangeStmt:
					if p.X == n {
						fr.rangeX[p] = x.eval(fr, n)
					}
				default:
					x.eval(fr, n)
				}
			default:
				x.stop("unknown", "statement `%s` (%T) is not modelled", x.src(n), n)
			}
		}
		if next != nil {
			b = next
			continue
		}
		switch len(b.Succs) {
		case 0:
			if c18IsPanicExit(x.info, b) {
				x.stop("panic", "explicit panic")
			}
			if len(fr.named) > 0 {
				return x.namedResult(fr)
			}
			return c18Val{k: c18KVoid}
		case 1:
			b = b.Succs[0]
		default:
			x.stop("unknown", "a select or type switch is on the path")
		}
	}
}

func (x *c18Exec) namedResult(fr *c18Frame) c18Val {
	if len(fr.named) == 1 {
		v, _ := fr.lookup(fr.named[0])
		return v
	}
	t := c18Val{k: c18KTuple}
	for _, o := range fr.named {
		v, _ := fr.lookup(o)
		t.elems = append(t.elems, v)
	}
	return t
}

func (x *c18Exec) doReturn(fr *c18Frame, ret *ast.ReturnStmt) c18Val {
	switch len(ret.Results) {
	case 0:
		if len(fr.named) > 0 {
			return x.namedResult(fr)
		}
		return c18Val{k: c18KVoid}
	case 1:
		return x.eval(fr, ret.Results[0])
	}
	t := c18Val{k: c18KTuple}
	for _, e := range ret.Results {
		t.elems = append(t.elems, x.eval(fr, e))
	}
	return t
}

// branch evaluates the condition terminating a block: an if/for condition, or one case expression of a switch.
func (x *c18Exec) branch(fr *c18Frame, ce ast.Expr) bool {
	var v c18Val
	if cc, isCase := x.parent(ce).(*ast.CaseClause); isCase {
		var sw *ast.SwitchStmt
		if blk, ok := x.parent(cc).(*ast.BlockStmt); ok {
			sw, _ = x.parent(blk).(*ast.SwitchStmt)
		}
		switch {
		case sw == nil:
			x.stop("unknown", "case clause `%s` outside an expression switch", x.src(ce))
		case sw.Tag == nil:
			v = x.eval(fr, ce)
		default:
			tag, ok := fr.tags[sw]
			if !ok {
				tag = x.eval(fr, sw.Tag)
			}
			v = x.compare(token.EQL, tag, x.eval(fr, ce), ce)
			if v.k == c18KUnknown {
				v.note = fmt.Sprintf("switch on `%s` with case `%s`: %s", x.src(sw.Tag), x.src(ce), v.note)
			}
		}
	} else {
		v = x.eval(fr, ce)
	}
	return x.truth(v, ce)
}

func (x *c18Exec) truth(v c18Val, e ast.Expr) bool {
	if v.k != c18KBool {
		why := v.note
		if why == "" {
			why = "not a boolean"
		}
		x.stop("unknown", "condition `%s` cannot be decided: %s", x.src(e), why)
	}
	return v.b
}

// ---- statements
