package rules

// c16_rules_annot.go — rule A1: annotating a multipolygon marks every way member with the direction in which that
// way, as stored, runs around its ring. The function is found by role: the function of package annotate that calls
// mputil.Group (orientation today); it is evaluated on ground-truth rings cut into ways, the computed orientation
// of an assembled ring answered from the ground truth.

import (
	"fmt"
	"go/ast"
	"go/types"

	"osmcheck/core"
)

// c16GroupCaller finds the function of pk that calls mputil.Group.
func (e *c16Env) groupCaller() *FuncInfo {
	var found *FuncInfo
	for _, fi := range allFuncs(e.an) {
		ast.Inspect(fi.Decl.Body, func(n ast.Node) bool {
			if call, ok := n.(*ast.CallExpr); ok && callee(e.an.TypesInfo, call) == e.group.Obj && found == nil {
				found = fi
			}
			return true
		})
	}
	return found
}

// c16AnnotScenario: two rings cut into ways, with members that are not ways of a ring in between.
func c16AnnotScenario() (*c16Ground, map[int64]c16Way, []c16Mem) {
	g := &c16Ground{rings: [][]string{{"a", "b", "c", "d", "e", "f"}, {"p", "q", "r", "s"}}}
	ways := map[int64]c16Way{
		11: {id: 11, toks: []string{"a", "b", "c"}}, // with the ring
		12: {id: 12, toks: []string{"e", "d", "c"}}, // against it
		13: {id: 13, toks: []string{"e", "f", "a"}},
		21: {id: 21, toks: []string{"p", "q", "r"}},
		22: {id: 22, toks: []string{"p", "s", "r"}}, // against it
	}
	mems := []c16Mem{
		{kind: "way", ref: 11, role: "outer"}, {kind: "way", ref: 12, role: "outer"}, {kind: "way", ref: 13, role: "outer"},
		{kind: "way", ref: 21, role: "inner"}, {kind: "way", ref: 22, role: "inner"},
	}
	return g, ways, mems
}

func c16A1(r *core.R) {
	e := c16NewEnv(r)
	if !e.ok {
		return
	}
	fi := e.groupCaller()
	if fi == nil {
		r.Anchor("the function of package annotate that calls mputil.Group")
		return
	}
	sig := fi.Obj.Type().(*types.Signature)
	hasMembers, hasWays := false, false
	for i := 0; i < sig.Params().Len(); i++ {
		t := sig.Params().At(i).Type()
		hasMembers = hasMembers || namedPath(t) == core.ModulePath+".Members"
		_, isMap := t.Underlying().(*types.Map)
		hasWays = hasWays || isMap
	}
	if !hasMembers || !hasWays || sig.Params().Len() > 3 {
		r.Unknown("annotate[entry]", fi.Decl.Pos(), "%s calls mputil.Group but does not take (members, ways, time): the rule has no abstract input for it and cannot vouch for the annotation", fi.Name())
		return
	}
	g, ways, base := c16AnnotScenario()
	var wl []c16Way
	for _, k := range c16SortedKeys(ways) {
		wl = append(wl, ways[k])
	}
	// noise members: their position shifts the index of the way members behind them
	noise := []c16Mem{{kind: "node", ref: 900, role: "outer"}, {kind: "way", ref: 901, role: "outer"}, {kind: "relation", ref: 902, role: "inner"}, {kind: "way", ref: 903, role: ""}}
	patterns := []struct {
		name string
		pre  func(truth int64) int64
	}{
		{"annotate[members not annotated]", func(int64) int64 { return 0 }},
		{"annotate[members annotated]", func(t int64) int64 { return t }},
		{"annotate[members annotated wrongly]", func(t int64) int64 { return -t }},
	}
	for _, pat := range patterns {
		n := 0
		done := false
		for pi, perm := range c16Perms(len(base)) {
			if done {
				break
			}
			var mems []c16Mem
			for i, k := range perm {
				if (i+pi)%2 == 0 {
					mems = append(mems, noise[(i+pi)%len(noise)])
				}
				mm := base[k]
				truth, _ := g.wayDir(ways[mm.ref].toks)
				mm.orient = pat.pre(truth)
				mems = append(mems, mm)
			}
			var log []c16Ask
			var after c16Val
			_, v := e.single(e.orientHooks(g.truthOracle, &log), func(m *c16M) c16Val {
				mv := e.membersValue(mems)
				after = mv
				var args []c16Val
				for i := 0; i < sig.Params().Len(); i++ {
					t := sig.Params().At(i).Type()
					switch {
					case namedPath(t) == core.ModulePath+".Members":
						args = append(args, mv)
					case func() bool { _, ok := t.Underlying().(*types.Map); return ok }():
						args = append(args, e.wayMap(m, t, wl, true))
					default:
						args = append(args, c16Zero(t))
					}
				}
				return m.callFunc(fi, nil, args...)
			})
			text := fi.Name() + "(" + c16MemsText(mems, ways) + ")"
			got, ok := c16ReadMembers(after)
			switch {
			case v.undecided != "":
				r.Unknown(pat.name, fi.Decl.Pos(), "%s could not be evaluated: %s", text, v.undecided)
				done = true
			case v.bad != "":
				r.Bad(pat.name, fi.Decl.Pos(), "%s: %s", text, v.bad)
				done = true
			case !ok:
				r.Unknown(pat.name, fi.Decl.Pos(), "%s: the member annotations are not concrete afterwards", text)
				done = true
			}
			for i := 0; !done && i < len(mems); i++ {
				mm := mems[i]
				want := mm.orient // members that are not ways of a ring keep what they had
				what := "is not a way of a ring and must keep its annotation"
				if w, isWay := ways[mm.ref]; isWay && mm.kind == "way" {
					want, _ = g.wayDir(w.toks)
					what = fmt.Sprintf("is the way %v, which runs %s around its ring", w.toks, c16Dir(want))
				}
				if got[i] != want {
					r.Bad(pat.name, fi.Decl.Pos(), "%s: member %d %s, but is annotated %s afterwards (want %s)", text, i, what, c16Dir(got[i]), c16Dir(want))
					done = true
				}
			}
			n++
		}
		if !done {
			r.Stat("annotate scenarios", n)
			r.OK(pat.name, fi.Decl.Pos(), "%d member orders of two rings cut into 5 ways, other members in between: every way member ends up annotated with the direction in which it runs around its ring, nothing else is touched", n)
		}
	}
	c16A1Rings(e, fi, sig)
}
