package rules

import (
	"fmt"
	"go/ast"
	"go/token"
	"go/types"
	"strings"

	"osmcheck/core"
)

// ---------------------------------------------------------------- paths

type c15Step struct {
	field *types.Var // field selection
	idx   *c15Path   // index by a variable path
	k     int64      // constant index (isK)
	isK   bool
}

type c15Path struct {
	root  types.Object
	steps []c15Step
}

func (p *c15Path) with(s c15Step) *c15Path {
	q := &c15Path{root: p.root, steps: make([]c15Step, 0, len(p.steps)+1)}
	q.steps = append(q.steps, p.steps...)
	q.steps = append(q.steps, s)
	return q
}

func (p *c15Path) eq(q *c15Path) bool {
	if p == nil || q == nil || p.root != q.root || len(p.steps) != len(q.steps) {
		return false
	}
	for i := range p.steps {
		a, b := p.steps[i], q.steps[i]
		switch {
		case a.field != nil || b.field != nil:
			if a.field != b.field {
				return false
			}
		case a.isK || b.isK:
			if a.isK != b.isK || a.k != b.k {
				return false
			}
		default:
			if !a.idx.eq(b.idx) {
				return false
			}
		}
	}
	return true
}

// prefix returns the path without its last n steps.
func (p *c15Path) prefix(n int) *c15Path {
	if p == nil || len(p.steps) < n {
		return nil
	}
	return &c15Path{root: p.root, steps: p.steps[:len(p.steps)-n]}
}

func (p *c15Path) last() *c15Step {
	if p == nil || len(p.steps) == 0 {
		return nil
	}
	return &p.steps[len(p.steps)-1]
}

// String renders a path for diagnostics and construct keys. A root that is a receiver/parameter is rendered by its
// type ("Way.Nodes"), a local root by its type only ("local orb.LineString"): names of locals never enter a key.
func (p *c15Path) String() string {
	if p == nil {
		return "?"
	}
	var b strings.Builder
	t := p.root.Type()
	if pt, ok := t.(*types.Pointer); ok {
		t = pt.Elem()
	}
	tn := types.TypeString(t, func(pk *types.Package) string {
		if pk.Path() == core.ModulePath {
			return ""
		}
		return pk.Name()
	})
	b.WriteString(tn)
	for _, s := range p.steps {
		switch {
		case s.field != nil:
			b.WriteString("." + s.field.Name())
		case s.isK:
			fmt.Fprintf(&b, "[%d]", s.k)
		default:
			b.WriteString("[" + s.idx.String() + "]")
		}
	}
	return b.String()
}

func c15RefType(t types.Type) bool {
	switch t.Underlying().(type) {
	case *types.Pointer, *types.Slice, *types.Map:
		return true
	}
	return false
}

// pathOf normalises e (written in env.fn) to a path rooted in a variable of the outermost function of env.
// write=true is for assignment targets: a by-value copy of a struct/array (`n := w.Nodes[i]`, a by-value parameter)
// is then a different object and is not looked through; pointers, `&E` aliases, slices and maps are.
func (w *c15World) pathOf(env *c15Env, e ast.Expr, write bool) *c15Path {
	return w.pathOfD(env, e, write, 0)
}

func (w *c15World) pathOfD(env *c15Env, e ast.Expr, write bool, depth int) *c15Path {
	if depth > 16 || e == nil {
		return nil
	}
	for {
		switch x := e.(type) {
		case *ast.ParenExpr:
			e = x.X
			continue
		case *ast.StarExpr:
			e = x.X
			continue
		case *ast.UnaryExpr:
			if x.Op == token.AND {
				e = x.X
				continue
			}
			return nil
		}
		break
	}
	switch x := e.(type) {
	case *ast.Ident:
		o := objOf(w.info, x)
		v, isVar := o.(*types.Var)
		if !isVar {
			return nil
		}
		if env != nil {
			env = env.scope(o)
			if b, ok := env.lookup(o); ok {
				if !write || c15RefType(v.Type()) {
					if p := w.pathOfD(b.env, b.expr, write, depth+1); p != nil {
						return p
					}
				}
				return &c15Path{root: o}
			}
			if d := env.fn.singleDef(o); d != nil {
				rhs := ast.Unparen(d)
				_, isAddr := rhs.(*ast.UnaryExpr)
				if isAddr || !write || c15RefType(v.Type()) {
					if p := w.pathOfD(env, rhs, write, depth+1); p != nil {
						return p
					}
				}
			}
		}
		return &c15Path{root: o}
	case *ast.SelectorExpr:
		if f := selField(w.info, x); f != nil {
			p := w.pathOfD(env, x.X, write, depth+1)
			if p == nil {
				return nil
			}
			return p.with(c15Step{field: f})
		}
		if v, ok := w.info.Uses[x.Sel].(*types.Var); ok && !v.IsField() {
			return &c15Path{root: v} // package-qualified variable
		}
		return nil
	case *ast.IndexExpr:
		p := w.pathOfD(env, x.X, write, depth+1)
		if p == nil {
			return nil
		}
		if k, ok := constInt(w.info, x.Index); ok {
			return p.with(c15Step{k: k, isK: true})
		}
		ip := w.pathOfD(env, x.Index, false, depth+1)
		if ip == nil {
			return nil
		}
		return p.with(c15Step{idx: ip})
	}
	return nil
}

// c15IsUpdateField reports whether step s selects the named field of osm.Update.
func c15IsUpdateField(s *c15Step, name string) bool {
	if s == nil || s.field == nil || s.field.Name() != name {
		return false
	}
	return s.field.Pkg() != nil && s.field.Pkg().Path() == core.ModulePath && c15FieldOwnerIsUpdate(s.field)
}

// c15FieldOwnerIsUpdate: the field object is one of the fields of struct type osm.Update.
func c15FieldOwnerIsUpdate(f *types.Var) bool {
	obj := f.Pkg().Scope().Lookup("Update")
	if obj == nil {
		return false
	}
	st, ok := obj.Type().Underlying().(*types.Struct)
	if !ok {
		return false
	}
	for i := 0; i < st.NumFields(); i++ {
		if st.Field(i) == f {
			return true
		}
	}
	return false
}

// c15IsUpdateIndexPath reports whether p is `<update value>.Index`.
func c15IsUpdateIndexPath(p *c15Path) bool { return c15IsUpdateField(p.last(), "Index") }

// ---------------------------------------------------------------- purity / effects

// pureExpr: evaluating e has no side effect (builtins len/cap/min/max, conversions, methods of time.Time, and
// single-expression helpers of package osm that are themselves pure).
func (w *c15World) pureExpr(e ast.Node, depth int) bool {
	if e == nil {
		return true
	}
	ok := true
	ast.Inspect(e, func(n ast.Node) bool {
		if !ok {
			return false
		}
		switch x := n.(type) {
		case *ast.FuncLit:
			ok = false
		case *ast.UnaryExpr:
			if x.Op == token.ARROW {
				ok = false
			}
		case *ast.CallExpr:
			if tv, found := w.info.Types[x.Fun]; found && tv.IsType() {
				return true
			}
			switch builtinName(w.info, x) {
			case "len", "cap", "min", "max":
				return true
			case "":
			default:
				ok = false
				return false
			}
			fn := callee(w.info, x)
			if fn == nil {
				ok = false
				return false
			}
			if recv := fn.Type().(*types.Signature).Recv(); recv != nil && namedPath(recv.Type()) == "time.Time" {
				return true
			}
			if f := w.samePkgCallee(x); f != nil && depth < 4 {
				if ret := w.predicateExpr(f); ret != nil && w.pureExpr(ret, depth+1) {
					return true
				}
			}
			ok = false
		}
		return ok
	})
	return ok
}

// isEffect reports whether CFG node n changes state that outlives the region given by scope (a loop body or a
// function body): anything but pure conditions and pure definitions of locals declared inside scope.
func (w *c15World) isEffect(scope ast.Node, n ast.Node) bool {
	localIn := func(e ast.Expr) bool {
		id, ok := ast.Unparen(e).(*ast.Ident)
		if !ok {
			return false
		}
		if id.Name == "_" {
			return true
		}
		o := objOf(w.info, id)
		return o != nil && scope != nil && scope.Pos() <= o.Pos() && o.Pos() < scope.End()
	}
	switch x := n.(type) {
	case ast.Expr:
		return !w.pureExpr(x, 0)
	case *ast.AssignStmt:
		for _, l := range x.Lhs {
			if !localIn(l) {
				return true
			}
		}
		for _, rh := range x.Rhs {
			if !w.pureExpr(rh, 0) {
				return true
			}
		}
		return false
	case *ast.IncDecStmt:
		return !localIn(x.X)
	case *ast.DeclStmt:
		return !w.pureExpr(x, 0)
	case *ast.ExprStmt:
		return !w.pureExpr(x.X, 0)
	case *ast.ReturnStmt, *ast.EmptyStmt, *ast.LabeledStmt, *ast.BranchStmt:
		return false
	}
	return true
}
