package rules

import "osmcheck/core"

const (
	c10SrcParseFeatureHead = "\tparts := strings.Split(s, \"/\")\n\tif len(parts) != 2 {\n\t\treturn 0, fmt.Errorf(\"invalid feature id: %v\", s)\n\t}\n\n\tn, err := strconv.ParseInt(parts[1], 10, 64)\n\tif err != nil {\n\t\treturn 0, fmt.Errorf(\"invalid feature id: %v: %v\", s, err)\n\t}\n\n\tid, err := Type(parts[0]).FeatureID(n)\n"
	c10SrcObjectColonSplit = "\tparts2 := strings.Split(parts[1], \":\")\n\tif l := len(parts2); l == 0 || l > 2 {\n\t\treturn 0, fmt.Errorf(\"invalid element id: %v\", s)\n\t}\n\n\tvar version int\n\tref, err := strconv.ParseInt(parts2[0], 10, 64)\n\tif err != nil {\n\t\treturn 0, fmt.Errorf(\"invalid element id: %v: %v\", s, err)\n\t}\n\n\tif len(parts2) == 2 && parts2[1] != \"-\" {\n\t\tv, e := strconv.ParseInt(parts2[1], 10, 64)\n"
)

// c10BenignIndex: parsers built on strings.Index* and slicing instead of strings.Split, and sorts through
// sort.Slice closures (the sort.Interface adapter types may stay behind unused or be gone).
var c10BenignIndex = []core.Mutant{
	{Name: "parsefeature-indexbyte-split", File: "feature.go", Find: c10SrcParseFeatureHead,
		Replace: "\ti := strings.IndexByte(s, '/')\n\tif i < 0 || strings.IndexByte(s[i+1:], '/') >= 0 {\n\t\treturn 0, fmt.Errorf(\"invalid feature id: %v\", s)\n\t}\n\tkind, number := Type(s[:i]), s[i+1:]\n\n\tn, err := strconv.ParseInt(number, 10, 64)\n\tif err != nil {\n\t\treturn 0, fmt.Errorf(\"invalid feature id: %v: %v\", s, err)\n\t}\n\n\tid, err := kind.FeatureID(n)\n"},
	{Name: "parsefeature-first-equals-last-slash", File: "feature.go", Find: c10SrcParseFeatureHead,
		Replace: "\tfirst, last := strings.Index(s, \"/\"), strings.LastIndex(s, \"/\")\n\tif first == -1 || first != last {\n\t\treturn 0, fmt.Errorf(\"invalid feature id: %v\", s)\n\t}\n\n\tn, err := strconv.ParseInt(s[last+1:len(s)], 10, 64)\n\tif err != nil {\n\t\treturn 0, fmt.Errorf(\"invalid feature id: %v: %v\", s, err)\n\t}\n\n\tid, err := Type(s[0:first]).FeatureID(n)\n"},
	{Name: "parseobject-colon-by-index", File: "object.go", Find: c10SrcObjectColonSplit,
		Replace: "\trefText, verText, hasVer := parts[1], \"\", false\n\tif c := strings.IndexByte(parts[1], ':'); c >= 0 {\n\t\trefText, verText, hasVer = parts[1][:c], parts[1][c+1:], true\n\t\tif strings.IndexByte(verText, ':') != -1 {\n\t\t\treturn 0, fmt.Errorf(\"invalid element id: %v\", s)\n\t\t}\n\t}\n\n\tvar version int\n\tref, err := strconv.ParseInt(refText, 10, 64)\n\tif err != nil {\n\t\treturn 0, fmt.Errorf(\"invalid element id: %v: %v\", s, err)\n\t}\n\n\tif hasVer && verText != \"-\" {\n\t\tv, e := strconv.ParseInt(verText, 10, 64)\n"},
	{Name: "featureids-sort-slice-closure-locals", File: "feature.go", Find: c10SrcFeatureIDsSort,
		Replace: "func (ids FeatureIDs) Sort() {\n\tsort.Slice(ids, func(a, b int) bool {\n\t\tleft, right := ids[a], ids[b]\n\t\treturn right > left\n\t})\n}"},
	{Name: "elementids-sort-slicestable-named-less", File: "element.go", Find: c10SrcElementIDsSort,
		Replace: "func (ids ElementIDs) Sort() {\n\tbefore := func(i, j int) bool { return ids[i] < ids[j] }\n\tsort.SliceStable(ids, before)\n}"},
}

// c10MutantsIndex: defects in those shapes.
var c10MutantsIndex = []core.Mutant{
	{Name: "parsefeature-index-split-ignores-extra-slash", File: "feature.go", Find: c10SrcParseFeatureHead,
		Replace:    "\ti := strings.IndexByte(s, '/')\n\tif i < 0 {\n\t\treturn 0, fmt.Errorf(\"invalid feature id: %v\", s)\n\t}\n\tkind, number := Type(s[:i]), s[i+1:]\n\tif j := strings.IndexByte(number, '/'); j >= 0 {\n\t\tnumber = number[:j]\n\t}\n\n\tn, err := strconv.ParseInt(number, 10, 64)\n\tif err != nil {\n\t\treturn 0, fmt.Errorf(\"invalid feature id: %v: %v\", s, err)\n\t}\n\n\tid, err := kind.FeatureID(n)\n",
		ExpectRule: "K5", ExpectConstruct: "arity@ParseFeatureID split on /"},
	{Name: "parsefeature-index-split-keeps-slash", File: "feature.go", Find: c10SrcParseFeatureHead,
		Replace:    "\ti := strings.IndexByte(s, '/')\n\tif i < 0 || strings.IndexByte(s[i+1:], '/') >= 0 {\n\t\treturn 0, fmt.Errorf(\"invalid feature id: %v\", s)\n\t}\n\tkind, number := Type(s[:i]), s[i:]\n\n\tn, err := strconv.ParseInt(number, 10, 64)\n\tif err != nil {\n\t\treturn 0, fmt.Errorf(\"invalid feature id: %v: %v\", s, err)\n\t}\n\n\tid, err := kind.FeatureID(n)\n",
		ExpectRule: "K5", ExpectConstruct: "roundtrip@ParseFeatureID"},
	{Name: "parsefeature-index-split-panics-without-slash", File: "feature.go", Find: c10SrcParseFeatureHead,
		Replace:    "\ti := strings.IndexByte(s, '/')\n\tkind, number := Type(s[:i]), s[i+1:]\n\tif strings.IndexByte(number, '/') >= 0 {\n\t\treturn 0, fmt.Errorf(\"invalid feature id: %v\", s)\n\t}\n\n\tn, err := strconv.ParseInt(number, 10, 64)\n\tif err != nil {\n\t\treturn 0, fmt.Errorf(\"invalid feature id: %v: %v\", s, err)\n\t}\n\n\tid, err := kind.FeatureID(n)\n",
		ExpectRule: "K5", ExpectConstruct: "arity@ParseFeatureID split on /"},
	{Name: "parseobject-colon-by-lastindex-accepts-three", File: "object.go", Find: c10SrcObjectColonSplit,
		Replace:    "\trefText, verText, hasVer := parts[1], \"\", false\n\tif c := strings.IndexByte(parts[1], ':'); c >= 0 {\n\t\trefText, verText, hasVer = parts[1][:c], parts[1][strings.LastIndexByte(parts[1], ':')+1:], true\n\t}\n\n\tvar version int\n\tref, err := strconv.ParseInt(refText, 10, 64)\n\tif err != nil {\n\t\treturn 0, fmt.Errorf(\"invalid element id: %v: %v\", s, err)\n\t}\n\n\tif hasVer && verText != \"-\" {\n\t\tv, e := strconv.ParseInt(verText, 10, 64)\n",
		ExpectRule: "K5", ExpectConstruct: "arity@ParseObjectID split on :"},
	{Name: "elementids-sort-slice-closure-ref-only", File: "element.go", Find: c10SrcElementIDsSort,
		Replace:    "func (ids ElementIDs) Sort() {\n\tsort.Slice(ids, func(i, j int) bool { return ids[i].Ref() < ids[j].Ref() })\n}",
		ExpectRule: "K4", ExpectConstruct: "comparator@ElementIDs.Sort less"},
	{Name: "featureids-sort-slice-closure-descending", File: "feature.go", Find: c10SrcFeatureIDsSort,
		Replace:    "func (ids FeatureIDs) Sort() {\n\tsort.Slice(ids, func(i, j int) bool { return ids[j] < ids[i] })\n}",
		ExpectRule: "K4", ExpectConstruct: "comparator@FeatureIDs.Sort less"},
	{Name: "elementids-sort-slice-sorts-a-copy", File: "element.go", Find: c10SrcElementIDsSort,
		Replace:    "func (ids ElementIDs) Sort() {\n\tcp := append(ElementIDs{}, ids...)\n\tsort.Slice(cp, func(i, j int) bool { return cp[i] < cp[j] })\n}",
		ExpectRule: "K4", ExpectConstruct: "sorted@ElementIDs.Sort"},
}

// c10BenignText: other ways to build and take apart the textual form.
var c10BenignText = []core.Mutant{
	{Name: "objectid-string-builder", File: "object.go",
		Find:    "\tif id.Version() == 0 {\n\t\treturn fmt.Sprintf(\"%s/%d:-\", id.Type(), id.Ref())\n\t}\n\n\treturn fmt.Sprintf(\"%s/%d:%d\", id.Type(), id.Ref(), id.Version())",
		Replace: "\tvar b strings.Builder\n\tb.Grow(24)\n\tb.WriteString(string(id.Type()))\n\tb.WriteByte('/')\n\tb.WriteString(strconv.FormatInt(id.Ref(), 10))\n\tb.WriteByte(':')\n\tif v := id.Version(); v != 0 {\n\t\tfmt.Fprintf(&b, \"%d\", v)\n\t} else {\n\t\tb.WriteByte('-')\n\t}\n\treturn b.String()"},
	{Name: "featureid-string-join", File: "feature.go",
		Find:    "\treturn fmt.Sprintf(\"%s/%d\", t, id.Ref())",
		Replace: "\treturn strings.Join([]string{string(t), strconv.FormatInt(id.Ref(), 10)}, \"/\")"},
	{Name: "constructors-multiply-instead-of-shift", File: "node.go",
		Find:    "return FeatureID(nodeMask | (id << versionBits))",
		Replace: "return FeatureID(nodeMask + id*(1<<versionBits))"},
	{Name: "ref-by-division", File: "element.go",
		Find:    "return int64((id & refMask) >> versionBits)",
		Replace: "return int64(id&refMask) / (versionMask + 1)"},
	{Name: "parsefeature-typed-error", File: "feature.go",
		Find:    "func ParseFeatureID(s string) (FeatureID, error) {\n\tparts := strings.Split(s, \"/\")\n\tif len(parts) != 2 {\n\t\treturn 0, fmt.Errorf(\"invalid feature id: %v\", s)\n\t}\n",
		Replace: "type featureIDError struct{ text string }\n\nfunc (e *featureIDError) Error() string { return fmt.Sprintf(\"invalid feature id: %v\", e.text) }\n\nfunc ParseFeatureID(s string) (FeatureID, error) {\n\tparts := strings.Split(s, \"/\")\n\tif len(parts) != 2 {\n\t\treturn 0, &featureIDError{text: s}\n\t}\n"},
}

// c10MutantsText: defects in those shapes.
var c10MutantsText = []core.Mutant{
	{Name: "objectid-string-builder-wrong-separator", File: "object.go",
		Find:       "\tif id.Version() == 0 {\n\t\treturn fmt.Sprintf(\"%s/%d:-\", id.Type(), id.Ref())\n\t}\n\n\treturn fmt.Sprintf(\"%s/%d:%d\", id.Type(), id.Ref(), id.Version())",
		Replace:    "\tvar b strings.Builder\n\tb.WriteString(string(id.Type()))\n\tb.WriteByte('/')\n\tb.WriteString(strconv.FormatInt(id.Ref(), 10))\n\tb.WriteByte('/')\n\tif v := id.Version(); v != 0 {\n\t\tfmt.Fprintf(&b, \"%d\", v)\n\t} else {\n\t\tb.WriteByte('-')\n\t}\n\treturn b.String()",
		ExpectRule: "K5", ExpectConstruct: "format@ObjectID.String"},
	{Name: "ref-by-division-off-by-one", File: "element.go",
		Find:       "return int64((id & refMask) >> versionBits)",
		Replace:    "return int64(id&refMask) / (versionMask + 1) / 2",
		ExpectRule: "K3", ExpectConstruct: "decode@ElementID.Ref"},
}
