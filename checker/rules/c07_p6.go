package rules

import (
	"fmt"
	"go/ast"
	"go/token"
	"go/types"
	"sort"
	"strings"

	"golang.org/x/tools/go/packages"

	"osmcheck/core"
)

// ---------------------------------------------------------------- P6

// errStep is one `COND -> return V` step of an Err method (canonical form derived from its decision table).
type errStep struct{ cond, ret string }

// c07SingleDef returns the defining expression of a local that is assigned exactly once in body.
func c07SingleDef(info *types.Info, body ast.Node, o types.Object) ast.Expr {
	def, _ := c07SingleDefStmt(info, body, o)
	return def
}

// c07AssignsField reports whether body assigns field f.
func c07AssignsField(info *types.Info, body ast.Node, f *types.Var) bool {
	found := false
	ast.Inspect(body, func(x ast.Node) bool {
		if as, ok := x.(*ast.AssignStmt); ok {
			for _, l := range as.Lhs {
				if fieldOf(info, l) == f && f != nil {
					found = true
				}
			}
		}
		return !found
	})
	return found
}

// c07SingleDefStmt is c07SingleDef that also returns the defining statement.
func c07SingleDefStmt(info *types.Info, body ast.Node, o types.Object) (ast.Expr, ast.Node) {
	var def ast.Expr
	var defStmt ast.Node
	n := 0
	ast.Inspect(body, func(x ast.Node) bool {
		switch s := x.(type) {
		case *ast.AssignStmt:
			for i, l := range s.Lhs {
				if id, ok := ast.Unparen(l).(*ast.Ident); ok && (info.Defs[id] == o || info.Uses[id] == o) {
					n++
					if len(s.Lhs) == len(s.Rhs) && (s.Tok == token.DEFINE || s.Tok == token.ASSIGN) {
						def, defStmt = s.Rhs[i], s
					} else {
						n++
					}
				}
			}
		case *ast.ValueSpec:
			for i, nm := range s.Names {
				if info.Defs[nm] == o {
					n++
					if len(s.Values) == len(s.Names) {
						def, defStmt = s.Values[i], s
					} else {
						n++
					}
				}
			}
		case *ast.IncDecStmt:
			if objOf(info, s.X) == o {
				n += 2
			}
		case *ast.UnaryExpr:
			if s.Op == token.AND && objOf(info, s.X) == o {
				n += 2
			}
		}
		return true
	})
	if n != 1 {
		return nil, nil
	}
	return def, defStmt
}

// c07Term classifies an operand of a Scanner guard: "err" (the stored error field), "nil", "EOF" (io.EOF),
// "ctxErr" (Err() of the scanner's context), "closed" (the closed flag), "closedErr" (osm.ErrScannerClosed), or "".
// Locals assigned once are looked through.
func (sc *c07Scanner) term(body ast.Node, e ast.Expr, depth int) string {
	info := sc.pk.TypesInfo
	e = ast.Unparen(e)
	if isNilIdent(e) {
		return "nil"
	}
	if f := fieldOf(info, e); f != nil {
		switch {
		case f == sc.errField && namedPath(selRecv(info, e)) == namedPath(sc.T):
			return "err"
		case sc.closedField != nil && f == sc.closedField:
			return "closed"
		}
	}
	if sel, ok := e.(*ast.SelectorExpr); ok {
		if o := info.Uses[sel.Sel]; o != nil && o.Pkg() != nil {
			switch {
			case o.Pkg().Path() == "io" && o.Name() == "EOF":
				return "EOF"
			case o.Pkg().Path() == core.ModulePath && o.Name() == "ErrScannerClosed":
				return "closedErr"
			}
		}
	}
	if call, ok := e.(*ast.CallExpr); ok && isMethod(callee(info, call), "context.Context", "Err") {
		if s, ok := call.Fun.(*ast.SelectorExpr); ok && sc.isScannerCtx(body, s.X, 0) {
			return "ctxErr"
		}
	}
	if id, ok := e.(*ast.Ident); ok && depth < 3 {
		if o, ok := objOf(info, id).(*types.Var); ok && !o.IsField() {
			if v, tracked := sc.localVal[o]; tracked {
				return v // assigned on the path being evaluated
			}
			// a local stands for its single definition when that cannot be stale: it is defined in the init clause of
			// the if / switch that tests it, or it copies a field that the function never assigns
			if def, stmt := c07SingleDefStmt(info, body, o); def != nil {
				t := sc.term(body, def, depth+1)
				fresh := pbfIsInitStmt(sc.view.parentsOfNode(body), stmt)
				if !fresh && (t == "err" || t == "closed") {
					f := sc.errField
					if t == "closed" {
						f = sc.closedField
					}
					fresh = !c07AssignsField(info, body, f)
				}
				if fresh {
					return t
				}
			}
		}
	}
	return ""
}

// isScannerCtx: e denotes the scanner's context: the context field of the scanner itself, or an ALIAS of it - a local
// with a single definition that copies such a value (`ctx := s.ctx`, `ctx, dec := s.ctx, s.decoder`) in a function
// that never assigns the field, so the local and the field are the same context for the whole call. An alias taken
// in a function that also assigns the field (before or after) is not resolved: it may be stale.
func (sc *c07Scanner) isScannerCtx(body ast.Node, e ast.Expr, depth int) bool {
	info := sc.pk.TypesInfo
	e = ast.Unparen(e)
	if f := fieldOf(info, e); f != nil {
		return namedPath(f.Type()) == "context.Context" && namedPath(selRecv(info, e)) == namedPath(sc.T)
	}
	id, ok := e.(*ast.Ident)
	if !ok || depth > 3 || body == nil {
		return false
	}
	o, ok := objOf(info, id).(*types.Var)
	if !ok || o.IsField() || namedPath(o.Type()) != "context.Context" {
		return false
	}
	def, _ := c07SingleDefStmt(info, body, o)
	if def == nil || !sc.isScannerCtx(body, def, depth+1) {
		return false
	}
	return !c07AssignsField(info, body, fieldOf(info, sc.aliasRoot(body, def, 0)))
}

// aliasRoot follows single-definition locals to the field selector they copy.
func (sc *c07Scanner) aliasRoot(body ast.Node, e ast.Expr, depth int) ast.Expr {
	info := sc.pk.TypesInfo
	e = ast.Unparen(e)
	if id, ok := e.(*ast.Ident); ok && depth < 4 {
		if o, ok := objOf(info, id).(*types.Var); ok && !o.IsField() {
			if def, _ := c07SingleDefStmt(info, body, o); def != nil {
				return sc.aliasRoot(body, def, depth+1)
			}
		}
	}
	return e
}

// c07Input is one abstract input of Err / Scan: the stored error (0 nil, 1 io.EOF, 2 another error), the closed flag,
// whether the context is cancelled.
type c07Input struct {
	err    int
	closed bool
	ctx    bool
}

// atom evaluates an atomic guard under an abstract input.
func (sc *c07Scanner) atom(body ast.Node, e ast.Expr, in c07Input) tri {
	info := sc.pk.TypesInfo
	b2t := func(b bool) tri {
		if b {
			return triT
		}
		return triF
	}
	e = ast.Unparen(e)
	if sc.term(body, e, 0) == "closed" {
		return b2t(in.closed)
	}
	if call, ok := e.(*ast.CallExpr); ok {
		fn := callee(info, call)
		if isPkgFunc(fn, "errors", "Is") && len(call.Args) == 2 && sc.term(body, call.Args[0], 0) == "err" && sc.term(body, call.Args[1], 0) == "EOF" {
			return b2t(in.err == 1)
		}
		if fn != nil {
			if ret := singleReturnExpr(sc.view.funcs[fn]); ret != nil {
				return evalTri(ret, func(a ast.Expr) tri { return sc.atom(sc.view.funcs[fn].Decl.Body, a, in) })
			}
		}
		return triU
	}
	l, op, r, ok := cmpNorm(e)
	if !ok || (op != token.EQL && op != token.NEQ) {
		return triU
	}
	a, b := sc.term(body, l, 0), sc.term(body, r, 0)
	if a > b {
		a, b = b, a
	}
	var eq tri
	switch a + "/" + b {
	case "err/nil":
		eq = b2t(in.err == 0)
	case "EOF/err":
		eq = b2t(in.err == 1)
	case "ctxErr/nil":
		eq = b2t(!in.ctx)
	default:
		return triU
	}
	if op == token.NEQ {
		return triNot(eq)
	}
	return eq
}

// c07ErrTable evaluates Err for every abstract input by walking its CFG (through helpers) with each branch taken
// according to the value of its atoms, and returns input -> abstract result ("nil", "EOF", "other", "closed", "ctxerr").
func (sc *c07Scanner) errTable(fi *FuncInfo) (map[c07Input]string, string) {
	info := sc.pk.TypesInfo
	table := map[c07Input]string{}
	for errV := 0; errV < 3; errV++ {
		for _, closed := range []bool{false, true} {
			for _, ctx := range []bool{false, true} {
				in := c07Input{errV, closed, ctx}
				why := ""
				results := map[string]bool{}
				t := sc.view.newTracer()
				t.Edge = func(st int, cond ast.Expr, val bool, f *FuncInfo) (int, bool) {
					v := evalTri(cond, func(a ast.Expr) tri { return sc.atom(f.Decl.Body, a, in) })
					if v == triU {
						why = "condition `" + src(sc.view.fset, cond) + "` is not a test of the stored error, the closed flag or the context"
						return st, true
					}
					return st, (v == triT) == val
				}
				sc.localVal = map[types.Object]string{}
				t.Event = func(st int, ev *pbfEvent) int {
					if ev.kind == "node" {
						sc.c07TrackLocals(ev)
					}
					if ev.kind != "return" || ev.depth != 0 {
						return st
					}
					ret, _ := ev.n.(*ast.ReturnStmt)
					if ret == nil || len(ret.Results) != 1 {
						why = "return without a single result"
						return st
					}
					switch sc.term(ev.fi.Decl.Body, ret.Results[0], 0) {
					case "nil":
						results["nil"] = true
					case "err":
						results[[]string{"nil", "EOF", "other"}[in.err]] = true
					case "closedErr":
						results["closed"] = true
					case "ctxErr":
						results[map[bool]string{true: "ctxerr", false: "nil"}[in.ctx]] = true
					default:
						why = "returns `" + src(sc.view.fset, ret.Results[0]) + "`, which is none of nil, the stored error, ErrScannerClosed, the context's error"
					}
					return st
				}
				t.Run(fi, fi.Decl.Body, 0)
				sc.localVal = nil
				if why == "" && len(t.incomplete) > 0 {
					why = strings.Join(t.incomplete, "; ")
				}
				if why == "" && len(results) != 1 {
					why = fmt.Sprintf("%d different results for one input", len(results))
				}
				if why != "" {
					return nil, why
				}
				for k := range results {
					table[in] = k
				}
			}
		}
	}
	_ = info
	return table, ""
}

func c07WantErr(in c07Input) string {
	switch {
	case in.err == 1:
		return "nil"
	case in.err == 2:
		return "other"
	case in.closed:
		return "closed"
	case in.ctx:
		return "ctxerr"
	}
	return "nil"
}

func c07InputString(in c07Input) string {
	return fmt.Sprintf("stored error %s, closed=%v, context cancelled=%v", []string{"nil", "io.EOF", "non-EOF"}[in.err], in.closed, in.ctx)
}

// parseErrChain returns the canonical precedence chain of an Err method, derived from its decision table (so it does
// not depend on whether Err is written as an if chain, a switch, nested tests or through helpers):
// [{err==EOF, r1}, {err!=nil, r2}, {closed, r3}, {"", r4}] where rK is what Err returns in that case.
func parseErrChain(pk *packages.Package, fi *FuncInfo) ([]errStep, string) {
	sc := c07LoadScannerPkg(pk)
	if sc == nil {
		return nil, "Scanner type not found"
	}
	table, why := sc.errTable(fi)
	if why != "" {
		return nil, why
	}
	name := func(ins ...c07Input) string {
		set := map[string]bool{}
		for _, in := range ins {
			set[map[string]string{"nil": "nil", "EOF": "err", "other": "err", "closed": "ErrScannerClosed", "ctxerr": "ctx.Err()"}[table[in]]] = true
		}
		var ks []string
		for k := range set {
			ks = append(ks, k)
		}
		sort.Strings(ks)
		return strings.Join(ks, "|")
	}
	var eof, other []c07Input
	for _, closed := range []bool{false, true} {
		for _, ctx := range []bool{false, true} {
			eof = append(eof, c07Input{1, closed, ctx})
			other = append(other, c07Input{2, closed, ctx})
		}
	}
	last := name(c07Input{0, false, true})
	if table[c07Input{0, false, false}] != "nil" {
		last = name(c07Input{0, false, false}, c07Input{0, false, true})
	}
	return []errStep{
		{"err==EOF", name(eof...)},
		{"err!=nil", name(other...)},
		{"closed", name(c07Input{0, true, false}, c07Input{0, true, true})},
		{"", last},
	}, ""
}

func c07P6(r *core.R) {
	var tables []map[c07Input]string
	var names []string
	for _, rel := range []string{"osmpbf", "osmxml"} {
		sc := c07LoadScanner(r.P, rel)
		if sc == nil {
			r.Anchor("package " + rel)
			continue
		}
		if sc.errField == nil || sc.ctxFld == nil {
			r.Anchor(rel + ".Scanner stored-error / context fields")
			continue
		}
		// ---- Err
		errFi := findFunc(sc.pk, "(*Scanner).Err")
		if errFi == nil {
			r.Anchor(rel + ".(*Scanner).Err")
		} else {
			c := rel + ".(*Scanner).Err"
			table, why := sc.errTable(errFi)
			if why != "" {
				r.Unknown(c, errFi.Decl.Pos(), "Err could not be evaluated for every combination of stored error / closed / context: %s", why)
			} else {
				var bad []string
				for in, got := range table {
					if want := c07WantErr(in); got != want {
						bad = append(bad, fmt.Sprintf("with %s it returns %s, not %s", c07InputString(in), got, want))
					}
				}
				sort.Strings(bad)
				if len(bad) == 0 {
					r.OK(c, errFi.Decl.Pos(), "evaluated for all 12 combinations of stored error {nil, io.EOF, other} x closed x context cancelled: stored EOF → nil, stored error → it, closed → ErrScannerClosed, else the context's error")
				} else {
					r.Bad(c, errFi.Decl.Pos(), "Err does not follow the documented precedence (an earlier recorded error wins over closed, closed over the context's error, nil only for a complete scan): %s", strings.Join(bad, "; "))
				}
				tables = append(tables, table)
				names = append(names, c)
			}
		}
		// ---- Scan
		c07ScanGuards(r, sc)
		c07StickyError(r, sc)
	}
	if len(tables) == 2 {
		var diff []string
		for in, a := range tables[0] {
			if b := tables[1][in]; a != b {
				diff = append(diff, fmt.Sprintf("with %s: %s returns %s, %s returns %s", c07InputString(in), names[0], a, names[1], b))
			}
		}
		sort.Strings(diff)
		r.Check(len(diff) == 0, "sibling Err osmpbf~osmxml", token.NoPos, "both scanners' Err methods have the same decision table", "the two scanners disagree: "+strings.Join(diff, "; "))
	}
}

// c07ScanGuards checks, on every path of Scan and through its helpers, that the input is only touched while the
// most recent tests of the stored error, the closed flag (osmpbf) and the scanner's context were negative, and (osmxml)
// that the context is re-tested before every token read.
func c07ScanGuards(r *core.R, sc *c07Scanner) {
	rel := sc.rel
	info := sc.pk.TypesInfo
	scanFi := findFunc(sc.pk, "(*Scanner).Scan")
	if scanFi == nil {
		r.Anchor(rel + ".(*Scanner).Scan")
		return
	}
	const (
		errOK = 1 << iota
		closedOK
		ctxOK
		ctxSeen
	)
	var m *pbfModel
	if rel == "osmpbf" {
		m = getPBFModel(r.P)
		if m.next == nil || m.start == nil {
			r.Anchor("osmpbf pipeline model (next-object method)")
			return
		}
	}
	// touch classifies an input-consuming call: "next" (osmpbf decoder), "token", "decode" (xml.Decoder)
	touch := func(call *ast.CallExpr) string {
		fn := callee(info, call)
		if fn == nil {
			return ""
		}
		if rel == "osmpbf" {
			if fn == m.next.Obj {
				return "next"
			}
			if fn == m.start.Obj {
				return "start"
			}
			return ""
		}
		switch {
		case isMethod(fn, "encoding/xml.Decoder", "Token"), isMethod(fn, "encoding/xml.Decoder", "RawToken"):
			return "token"
		case isMethod(fn, "encoding/xml.Decoder", "DecodeElement"), isMethod(fn, "encoding/xml.Decoder", "Decode"), isMethod(fn, "encoding/xml.Decoder", "Skip"):
			return "decode"
		}
		return ""
	}
	what := map[string]string{"next": "the decoder's next-object call", "token": "xml.Decoder.Token", "decode": "xml.Decoder.DecodeElement"}
	need := map[string]int{"start": closedOK | ctxOK, "next": errOK | closedOK | ctxOK, "token": errOK | ctxOK, "decode": errOK | ctxSeen}
	bitName := func(b int) []string {
		var out []string
		for _, x := range []struct {
			b int
			s string
		}{{errOK, "stored error"}, {closedOK, "closed flag"}, {ctxOK, "context"}, {ctxSeen, "context"}} {
			if b&x.b != 0 {
				out = append(out, x.s)
			}
		}
		return out
	}
	type res struct {
		n       int
		missing int
		pos     token.Pos
		cycle   token.Pos
	}
	found := map[string]*res{}
	startMiss := map[*ast.CallExpr]int{} // per call of the decoder's Start reached from Scan: the missing stop tests
	t := sc.view.newTracer()
	if m != nil {
		t.NoInline = func(fn *types.Func) bool { return fn == m.next.Obj || fn == m.start.Obj }
	}
	t.Edge = func(st int, cond ast.Expr, val bool, f *FuncInfo) (int, bool) {
		var facts []guardFact
		splitFacts(cond, val, nil, &facts)
		for _, ft := range facts {
			// the fact holds: which "not stopped" knowledge does it give?
			for _, probe := range []struct {
				in  c07Input
				bit int
			}{{c07Input{err: 2}, errOK}, {c07Input{closed: true}, closedOK}, {c07Input{ctx: true}, ctxOK | ctxSeen}} {
				// the atom distinguishes the stop condition if it has opposite values with / without it, and the
				// established value is the one of "not stopped"
				with := sc.atom(f.Decl.Body, ft.expr, probe.in)
				without := sc.atom(f.Decl.Body, ft.expr, c07Input{})
				if with != triU && without != triU && with != without && (without == triT) == ft.val {
					st |= probe.bit
				}
			}
		}
		return st, true
	}
	t.Event = func(st int, ev *pbfEvent) int {
		switch ev.kind {
		case "node":
			if as, ok := ev.n.(*ast.AssignStmt); ok {
				for _, l := range as.Lhs {
					switch f := fieldOf(info, l); {
					case f == nil:
					case f == sc.errField:
						st &^= errOK
					case f == sc.closedField:
						st &^= closedOK
					case f == sc.ctxFld:
						st &^= ctxOK | ctxSeen
					}
				}
			}
		case "call", "enter":
			call := ev.n.(*ast.CallExpr)
			k := touch(call)
			if k == "" {
				return st
			}
			if k == "start" {
				startMiss[call] |= need[k] &^ st
				return st
			}
			rs := found[k]
			if rs == nil {
				rs = &res{}
				found[k] = rs
			}
			rs.n++
			if miss := need[k] &^ st; miss != 0 {
				if k == "token" && miss == ctxOK && st&ctxSeen != 0 {
					rs.cycle = call.Pos()
				} else {
					rs.missing |= miss
					rs.pos = call.Pos()
				}
			}
			if k == "token" {
				st &^= ctxOK
			}
		}
		return st
	}
	t.Run(scanFi, scanFi.Decl.Body, 0)
	if len(t.incomplete) > 0 {
		r.Unknown(rel+".(*Scanner).Scan guards", scanFi.Decl.Pos(), "Scan could not be followed on every path: %s", strings.Join(t.incomplete, "; "))
		return
	}
	if rel == "osmpbf" {
		c07StopBeforeStart(r, sc, scanFi, startMiss, bitName)
	}
	kinds := []string{"next"}
	if rel == "osmxml" {
		kinds = []string{"token", "decode"}
	}
	for _, k := range kinds {
		c := rel + ".(*Scanner).Scan guard before " + what[k]
		rs := found[k]
		if rs == nil {
			r.Anchor(rel + ".(*Scanner).Scan input-consuming call (" + what[k] + ")")
			continue
		}
		if rs.missing == 0 {
			r.OK(c, scanFi.Decl.Pos(), "on every path to it the latest tests of %v were negative (tests whose positive edge returns without touching the input)", bitName(need[k]))
		} else {
			r.Bad(c, rs.pos, "the input is touched on a path without a (still valid) negative test of %v: Scan does work (and may block) after Close/cancel or after an error", bitName(rs.missing))
		}
		if k == "token" {
			c := "osmxml.(*Scanner).Scan ctx test on every cycle"
			if rs.cycle.IsValid() || rs.missing&ctxOK != 0 {
				pos := rs.cycle
				if !pos.IsValid() {
					pos = rs.pos
				}
				r.Bad(c, pos, "a token is read without re-testing the context since the previous token: a cancelled scan keeps consuming tokens until the next element")
			} else {
				r.OK(c, scanFi.Decl.Pos(), "every token read is preceded, since the previous token read, by a negative test of the scanner's context")
			}
		}
	}
}
