package rules

import (
	"strings"

	"osmcheck/core"
)

// Fifth part of the C15 suites (round 8, allocation-motivated rewrites): the pending list allocated lazily on first
// use, or sized exactly by a counting pre-pass (inline or in a helper); index loops with an element pointer; a
// filter result sized exactly with an early `return nil` when nothing is due.

// c15WayScan: LIST is how notApplied is declared / sized before the scan, LATE what happens with an update after t.
const c15WayScan = `func (w *Way) ApplyUpdatesUpTo(t time.Time) error {
	updates := w.Updates
LIST
	for i := range updates {
		u := &updates[i]
		if u.Timestamp.After(t) {
LATE
			continue
		}

		if err := w.applyUpdate(*u); err != nil {
			return err
		}
	}

	w.Updates = notApplied
	return nil
}`

func c15Scan(list, late string) string {
	return strings.NewReplacer("LIST", list, "LATE", late).Replace(c15WayScan)
}

const (
	c15LateAppend = "\t\t\tnotApplied = append(notApplied, *u)"
	c15LateLazy   = "\t\t\tif notApplied == nil {\n\t\t\t\tnotApplied = make([]Update, 0, len(updates)-i)\n\t\t\t}\n\n" + c15LateAppend
	c15CountInl   = "\tpending := 0\n\tfor i := range updates {\n\t\tif updates[i].Timestamp.After(t) {\n\t\t\tpending++\n\t\t}\n\t}\n\n\tvar notApplied []Update\n\tif pending > 0 {\n\t\tnotApplied = make([]Update, 0, pending)\n\t}\n"
	c15CountHelp  = "func (us Updates) countAfter(t time.Time) int {\n\tcount := 0\n\tfor i := range us {\n\t\tif us[i].Timestamp.After(t) {\n\t\t\tcount++\n\t\t}\n\t}\n\n\treturn count\n}\n\n"
	c15UpToOld    = "\tvar result Updates\n\n\tfor _, u := range us {\n\t\tif u.Timestamp.After(t) {\n\t\t\tcontinue\n\t\t}\n\n\t\tresult = append(result, u)\n\t}\n\n\treturn result\n}"
)

// c15UpToCounted: COND is the test of the counting pass.
func c15UpToCounted(cond string) string {
	return "\tcount := 0\n\tfor i := range us {\n\t\tif " + cond + " {\n\t\t\tcount++\n\t\t}\n\t}\n\n\tif count == 0 {\n\t\treturn nil\n\t}\n\n\tresult := make(Updates, 0, count)\n\tfor i := range us {\n\t\tif u := &us[i]; !u.Timestamp.After(t) {\n\t\t\tresult = append(result, *u)\n\t\t}\n\t}\n\n\treturn result\n}"
}

var c15Benign5 = []core.Mutant{
	// allocated on first use
	{Name: "way-pending-lazy", File: "way.go", Find: c15WayApplyOld, Replace: c15Scan("\tvar notApplied []Update", c15LateLazy)},
	{Name: "way-pending-lazy-len-test", File: "way.go", Find: c15WayApplyOld,
		Replace: c15Scan("\tvar notApplied []Update", strings.Replace(c15LateLazy, "if notApplied == nil {", "if len(notApplied) == 0 {", 1))},
	// sized exactly by a counting pre-pass, inline and through a helper
	{Name: "way-pending-counted", File: "way.go", Find: c15WayApplyOld, Replace: c15Scan(c15CountInl, c15LateAppend)},
	{Name: "way-pending-counted-helper", File: "way.go", Find: c15WayApplyOld,
		Replace: c15CountHelp + c15Scan("\tvar notApplied []Update\n\tif pending := updates.countAfter(t); pending > 0 {\n\t\tnotApplied = make([]Update, 0, pending)\n\t}\n", c15LateAppend)},
	// filter result sized exactly, nil when nothing is due
	{Name: "upto-counted", File: "update.go", Find: c15UpToOld, Replace: c15UpToCounted("!us[i].Timestamp.After(t)")},
	{Name: "upto-counted-len-minus-after", File: "update.go", Find: c15UpToOld,
		Replace: "\tlater := 0\n\tfor i := range us {\n\t\tif us[i].Timestamp.After(t) {\n\t\t\tlater++\n\t\t}\n\t}\n\n\tn := len(us) - later\n\tif n == 0 {\n\t\treturn nil\n\t}\n\n\tresult := make(Updates, 0, n)\n\tfor i := range us {\n\t\tif !us[i].Timestamp.After(t) {\n\t\t\tresult = append(result, us[i])\n\t\t}\n\t}\n\n\treturn result\n}"},
}

var c15Mutants5 = []core.Mutant{
	// the "lazy" allocation happens for every late update: only the last one stays pending
	{Name: "lazy-reallocated-each-time", File: "way.go", Find: c15WayApplyOld,
		Replace:    c15Scan("\tvar notApplied []Update", "\t\t\tnotApplied = make([]Update, 0, len(updates)-i)\n"+c15LateAppend),
		ExpectRule: "U2", ExpectConstruct: "pending@(*Way).ApplyUpdatesUpTo"},
	// the lazily allocated list is dropped on the path of an applied update
	{Name: "lazy-dropped-on-apply", File: "way.go", Find: c15WayApplyOld,
		Replace:    strings.Replace(c15Scan("\tvar notApplied []Update", c15LateLazy), "\t\tif err := w.applyUpdate(*u); err != nil {", "\t\tnotApplied = nil\n\t\tif err := w.applyUpdate(*u); err != nil {", 1),
		ExpectRule: "U2", ExpectConstruct: "pending@(*Way).ApplyUpdatesUpTo"},
	// lazy allocation under the wrong test: the list is replaced when it is NOT empty
	{Name: "lazy-wrong-test", File: "way.go", Find: c15WayApplyOld,
		Replace:    c15Scan("\tvar notApplied []Update", strings.Replace(c15LateLazy, "if notApplied == nil {", "if notApplied != nil {", 1)),
		ExpectRule: "U2", ExpectConstruct: "pending@(*Way).ApplyUpdatesUpTo"},
	// fast path taken where its precondition is false: the counting pass counts the later updates
	{Name: "upto-fast-path-wrong-count", File: "update.go", Find: c15UpToOld, Replace: c15UpToCounted("us[i].Timestamp.After(t)"),
		ExpectRule: "U5", ExpectConstruct: "complete@Updates.UpTo"},
	// counting pass and real pass disagree about an update stamped exactly at t
	{Name: "upto-count-excludes-equal", File: "update.go", Find: c15UpToOld, Replace: c15UpToCounted("us[i].Timestamp.Before(t)"),
		ExpectRule: "", ExpectConstruct: "Updates.UpTo"},
	// ApplyUpdatesUpTo skips the scan when nothing stays pending (the due updates are then not applied)
	{Name: "apply-fast-path-no-pending", File: "way.go", Find: c15WayApplyOld,
		Replace:    c15CountHelp + strings.Replace(c15Scan("\tvar notApplied []Update", c15LateAppend), "\tupdates := w.Updates\n", "\tupdates := w.Updates\n\tif updates.countAfter(t) == 0 {\n\t\treturn nil\n\t}\n", 1),
		ExpectRule: "U5", ExpectConstruct: "complete@(*Way).ApplyUpdatesUpTo"},
	// counting pass only; the real pass forgets the later updates
	{Name: "counted-but-not-collected", File: "way.go", Find: c15WayApplyOld, Replace: c15Scan(c15CountInl, ""),
		ExpectRule: "U2", ExpectConstruct: "pending@(*Way).ApplyUpdatesUpTo"},
}
