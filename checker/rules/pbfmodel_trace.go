package rules

import (
	"go/ast"
	"go/constant"
	"go/token"
	"go/types"

	"golang.org/x/tools/go/cfg"
)

// pbfTracer is a small typestate checker: it runs a finite automaton supplied by a rule over EVERY path of a function
// body, on the control-flow graph (so the surface form of the control flow - if/else chains, switches, inverted
// branches, early returns, merged guards - does not matter) and THROUGH calls to functions declared in the package
// (so extracting or inlining a helper does not matter). The automaton state is an int; the rule's Event callback maps
// (state, event) to the next state and records violations; the analysis is a forward data-flow over sets of states, so
// loops are handled by fixpoint and the result covers all paths.
//
// Events, in execution order:
//
//	"head"   a loop head is passed (n = *ast.ForStmt / *ast.RangeStmt), also on first entry
//	"range"  a range body is entered, i.e. an element was received/taken (n = *ast.RangeStmt)
//	"comm"   a select clause was chosen (n = *ast.CommClause)
//	"call"   a call that is not inlined is executed (n = *ast.CallExpr), after its arguments
//	"enter"  an inlined callee is entered (n = *ast.CallExpr), "leave" when it returns
//	"node"   a simple statement or a branch condition is executed (n = the statement / expression), after the calls inside it
//	"return" the traced function (depth 0) or an inlined callee returns (n = *ast.ReturnStmt, or nil when falling off the end)
//
// The comm statements of a select are not reported as "node" events (go/cfg lists all of them before the dispatch);
// only the chosen clause is reported. The calls of go and defer statements are not executed at the statement: the
// statement is reported as a "node" event, after the evaluation of the call's arguments.
//
// Branch pruning: when an inlined callee returns a constant boolean, a branch condition in the caller that consists of
// that call (directly, or through a local assigned from it in the same basic block) only takes the matching edge. The
// optional Edge callback lets a rule prune or update the state on the edges of any other condition.
type pbfTracer struct {
	v        *pbfPkgView
	Event    func(st int, ev *pbfEvent) int
	Edge     func(st int, cond ast.Expr, val bool, fi *FuncInfo) (int, bool)
	NoInline func(fn *types.Func) bool // functions to report as "call" instead of entering them
	// RangeExit, when set, is asked on the edge that leaves a range loop because it has no (more) elements; it can
	// update the state or declare the edge infeasible (a range over a collection known to be non-empty cannot be
	// left before its first iteration).
	RangeExit func(st int, rs *ast.RangeStmt, fi *FuncInfo) (int, bool)
	MaxDepth  int

	incomplete []string // reasons why some path could not be followed (recursion, depth)
	memo       map[pbfMemoKey][]pbfExit
	active     map[pbfMemoKey]bool
}

// pbfDead is the state of an abandoned path.
const pbfDead = -1

type pbfEvent struct {
	kind  string
	n     ast.Node
	fi    *FuncInfo // function that lexically contains n
	body  *ast.BlockStmt
	blk   *cfg.Block
	depth int
	calls []*ast.CallExpr // inlined calls leading from the traced function to fi
}

// pbfExit is one way a traced body can return: the automaton state and the return statement reached.
type pbfExit struct {
	st  int
	ret *ast.ReturnStmt
}

// pbfResKey names the i-th result of an inlined call.
type pbfResKey struct {
	call *ast.CallExpr
	idx  int
}

type pbfMemoKey struct {
	body *ast.BlockStmt
	st   int
	call *ast.CallExpr // innermost inlined call: what a parameter is bound to depends on it
}

func (v *pbfPkgView) newTracer() *pbfTracer {
	return &pbfTracer{v: v, MaxDepth: 12, memo: map[pbfMemoKey][]pbfExit{}, active: map[pbfMemoKey]bool{}}
}

func (m *pbfModel) newTracer() *pbfTracer { return m.view.newTracer() }

// Run traces body (of fi) from the given start states and returns the exits.
func (t *pbfTracer) Run(fi *FuncInfo, body *ast.BlockStmt, start ...int) []pbfExit {
	var out []pbfExit
	seen := map[pbfExit]bool{}
	for _, s := range start {
		for _, x := range t.runBody(fi, body, s, 0, nil) {
			if !seen[x] {
				seen[x] = true
				out = append(out, x)
			}
		}
	}
	return out
}

// pbfPath is the per-path context inside one basic block: automaton state plus the known boolean values of calls and
// locals (for branch pruning).
type pbfPath struct {
	st    int
	vals  map[interface{}]tri        // *ast.CallExpr, pbfResKey or types.Object -> known constant value
	exprs map[interface{}]pbfRetExpr // same keys -> the (non-constant) boolean expression the callee returned on this path
}

// pbfRetExpr is a boolean result expression of an inlined callee, with the function it belongs to.
type pbfRetExpr struct {
	e  ast.Expr
	fi *FuncInfo
}

func (p pbfPath) with(k interface{}, v tri) pbfPath {
	nv := map[interface{}]tri{}
	for a, b := range p.vals {
		nv[a] = b
	}
	nv[k] = v
	return pbfPath{st: p.st, vals: nv, exprs: p.exprs}
}

func (p pbfPath) withExpr(k interface{}, e pbfRetExpr) pbfPath {
	ne := map[interface{}]pbfRetExpr{}
	for a, b := range p.exprs {
		ne[a] = b
	}
	ne[k] = e
	return pbfPath{st: p.st, vals: p.vals, exprs: ne}
}

func (p pbfPath) without(k interface{}) pbfPath {
	if _, ok := p.exprs[k]; !ok {
		return p
	}
	ne := map[interface{}]pbfRetExpr{}
	for a, b := range p.exprs {
		if a != k {
			ne[a] = b
		}
	}
	return pbfPath{st: p.st, vals: p.vals, exprs: ne}
}

func (t *pbfTracer) emit(st int, ev *pbfEvent) int {
	if st == pbfDead || t.Event == nil {
		return st
	}
	defer t.v.withCalls(ev.calls)()
	return t.Event(st, ev)
}

func (t *pbfTracer) runBody(fi *FuncInfo, body *ast.BlockStmt, st0 int, depth int, calls []*ast.CallExpr) []pbfExit {
	key := pbfMemoKey{body: body, st: st0}
	if len(calls) > 0 {
		key.call = calls[len(calls)-1]
	}
	if r, ok := t.memo[key]; ok {
		return r
	}
	if t.active[key] {
		t.incomplete = append(t.incomplete, "recursion through "+fi.Name())
		return nil
	}
	t.active[key] = true
	defer delete(t.active, key)

	m := t.v
	c := m.cfgOf(body)
	par := m.parents(fi)
	type item struct {
		b  *cfg.Block
		st int
	}
	done := map[item]bool{}
	var exits []pbfExit
	exitSeen := map[pbfExit]bool{}
	work := []item{{c.g.Blocks[0], st0}}
	for len(work) > 0 {
		it := work[len(work)-1]
		work = work[:len(work)-1]
		if done[it] || it.st == pbfDead {
			continue
		}
		done[it] = true
		b := it.b
		mk := func(kind string, n ast.Node) *pbfEvent {
			return &pbfEvent{kind: kind, n: n, fi: fi, body: body, blk: b, depth: depth, calls: calls}
		}
		st := it.st
		// block-entry events
		switch b.Kind {
		case cfg.KindSelectCaseBody:
			st = t.emit(st, mk("comm", b.Stmt))
		case cfg.KindRangeBody:
			st = t.emit(st, mk("range", b.Stmt))
		case cfg.KindForLoop, cfg.KindRangeLoop:
			st = t.emit(st, mk("head", b.Stmt))
		case cfg.KindForBody:
			if fs, ok := b.Stmt.(*ast.ForStmt); ok && fs.Cond == nil {
				st = t.emit(st, mk("head", b.Stmt))
			}
		}
		paths := []pbfPath{{st: st}}
		var lastRet *ast.ReturnStmt
		noReturn := false
		// a branch condition with conditionally evaluated calls is executed with short-circuit semantics below
		var scCond ast.Expr
		if len(b.Succs) == 2 && len(b.Nodes) > 0 && b.Succs[0].Kind != cfg.KindSwitchCaseBody {
			if e, ok := b.Nodes[len(b.Nodes)-1].(ast.Expr); ok && t.branchCond(b, par) == e && pbfNeedsShortCircuit(e) {
				scCond = e
			}
		}
		for _, n := range b.Nodes {
			if cc, ok := par[n].(*ast.CommClause); ok && cc.Comm == n {
				continue // comm statement of a select: reported through the chosen clause
			}
			if scCond != nil && n == ast.Node(scCond) {
				continue
			}
			var next []pbfPath
			for _, p := range paths {
				next = append(next, t.execNode(p, n, mk, fi, depth, calls)...)
			}
			paths = pbfDedup(next)
			if ret, ok := n.(*ast.ReturnStmt); ok {
				lastRet = ret
			}
			if es, ok := n.(*ast.ExprStmt); ok {
				if call, ok := es.X.(*ast.CallExpr); ok && builtinName(m.info, call) == "panic" {
					noReturn = true
				}
			}
		}
		if len(b.Succs) == 0 {
			if noReturn || b.Kind == cfg.KindSelectAfterCase {
				continue // a panic, or the fall-through of a select without default (it blocks until a case is ready)
			}
			for _, p := range paths {
				s := p.st
				if lastRet == nil {
					s = t.emit(s, mk("return", nil))
				}
				if s == pbfDead {
					continue
				}
				// the deferred calls of this body run now, last deferred first
				for _, ds := range t.runDefers(fi, body, s, depth, calls) {
					x := pbfExit{st: ds, ret: lastRet}
					if !exitSeen[x] {
						exitSeen[x] = true
						exits = append(exits, x)
					}
				}
			}
			continue
		}
		if len(b.Succs) == 1 {
			for _, p := range paths {
				work = append(work, item{b.Succs[0], p.st})
			}
			continue
		}
		if scCond != nil {
			tp, fp := t.evalCond(paths, scCond, mk, fi, depth, calls)
			for _, p := range tp {
				work = append(work, item{b.Succs[0], p.st})
			}
			for _, p := range fp {
				work = append(work, item{b.Succs[1], p.st})
			}
			continue
		}
		// two successors: condition (boolean expression, or `tag == case` of a tagged switch), or a dispatch without condition
		cond := t.branchCond(b, par)
		for _, p := range paths {
			v := triU
			if cond != nil {
				v = evalTri(cond, func(a ast.Expr) tri { return pbfKnownAtom(m.info, p, a) })
			}
			for i, val := range []bool{true, false} {
				if (val && v == triF) || (!val && v == triT) {
					continue
				}
				s, ok := p.st, true
				if cond == nil && !val && t.RangeExit != nil && b.Kind == cfg.KindRangeLoop {
					// the edge that leaves a range loop (no more elements): a rule may know it cannot be taken yet
					if rs, isRange := b.Stmt.(*ast.RangeStmt); isRange {
						s, ok = t.rangeExit(calls, p.st, rs, fi)
					}
				}
				if cond != nil && t.Edge != nil {
					s, ok = t.edge(calls, p.st, cond, val, fi)
					// what the edge says about the results of inlined helpers: `if h() {` taken means the expression h
					// returned on this path is true, and so on for negations / conjunctions
					if ok && len(p.exprs) > 0 {
						var facts []guardFact
						splitFacts(cond, val, nil, &facts)
						for _, ft := range facts {
							var key interface{}
							switch x := ast.Unparen(ft.expr).(type) {
							case *ast.CallExpr:
								key = x
							case *ast.Ident:
								if o := objOf(m.info, x); o != nil {
									key = o
								}
							}
							if re, found := p.exprs[key]; found && key != nil && ok {
								s, ok = t.edge(calls, s, re.e, ft.val, re.fi)
							}
						}
					}
				}
				if ok && s != pbfDead {
					work = append(work, item{b.Succs[i], s})
				}
			}
		}
	}
	t.memo[key] = exits
	return exits
}

func pbfDedup(ps []pbfPath) []pbfPath {
	if len(ps) < 2 {
		return ps
	}
	var out []pbfPath
outer:
	for _, p := range ps {
		if p.st == pbfDead {
			continue
		}
		for _, q := range out {
			if q.st == p.st && len(q.vals) == len(p.vals) && len(q.exprs) == len(p.exprs) {
				same := true
				for k, v := range p.exprs {
					if w, ok := q.exprs[k]; !ok || w != v {
						same = false
					}
				}
				for k, v := range p.vals {
					if w, ok := q.vals[k]; !ok || w != v {
						same = false
					}
				}
				if same {
					continue outer
				}
			}
		}
		out = append(out, p)
	}
	return out
}

// pbfKnownAtom evaluates an atom of a branch condition from the path's known call results / locals and constants.
func pbfKnownAtom(info *types.Info, p pbfPath, a ast.Expr) tri {
	a = ast.Unparen(a)
	if tv, ok := info.Types[a]; ok && tv.Value != nil && tv.Value.Kind() == constant.Bool {
		if constant.BoolVal(tv.Value) {
			return triT
		}
		return triF
	}
	switch x := a.(type) {
	case *ast.CallExpr:
		if v, ok := p.vals[x]; ok {
			return v
		}
	case *ast.Ident:
		if o := objOf(info, x); o != nil {
			if v, ok := p.vals[o]; ok {
				return v
			}
		}
	}
	return triU
}

// branchCond returns the condition on which block b branches (Succs[0] when true), or nil.
func (t *pbfTracer) branchCond(b *cfg.Block, par map[ast.Node]ast.Node) ast.Expr {
	if len(b.Nodes) == 0 {
		return nil
	}
	e, ok := b.Nodes[len(b.Nodes)-1].(ast.Expr)
	if !ok {
		return nil
	}
	// tagged switch: the node is the case expression; the condition is tag == expr
	if b.Succs[0].Kind == cfg.KindSwitchCaseBody {
		if cc, ok := b.Succs[0].Stmt.(*ast.CaseClause); ok {
			if blk, ok := par[cc].(*ast.BlockStmt); ok {
				if sw, ok := par[blk].(*ast.SwitchStmt); ok && sw.Tag != nil {
					return &ast.BinaryExpr{X: sw.Tag, Op: token.EQL, Y: e, OpPos: e.Pos()}
				}
			}
		}
	}
	if tp := t.v.info.TypeOf(e); tp != nil {
		if bt, ok := tp.Underlying().(*types.Basic); ok && bt.Info()&types.IsBoolean != 0 {
			return e
		}
	}
	return nil
}

// execNode executes one CFG node on one path: the calls inside it (inlining declared functions), then the node itself.
func (t *pbfTracer) execNode(p pbfPath, n ast.Node, mk func(string, ast.Node) *pbfEvent, fi *FuncInfo, depth int, calls []*ast.CallExpr) []pbfPath {
	m := t.v
	paths := []pbfPath{p}
	// calls in evaluation order (arguments before the call); not into function literals
	var order []*ast.CallExpr
	var skip *ast.CallExpr // the call of a go / defer statement is not executed here
	switch s := n.(type) {
	case *ast.GoStmt:
		skip = s.Call
	case *ast.DeferStmt:
		skip = s.Call
	}
	var visit func(x ast.Node)
	visit = func(x ast.Node) {
		ast.Inspect(x, func(y ast.Node) bool {
			if y == nil {
				return true
			}
			if _, ok := y.(*ast.FuncLit); ok {
				return false
			}
			if call, ok := y.(*ast.CallExpr); ok {
				visit(call.Fun)
				for _, a := range call.Args {
					visit(a)
				}
				if call != skip {
					order = append(order, call)
				}
				return false
			}
			return true
		})
	}
	visit(n)
	for _, call := range order {
		fn := callee(m.info, call)
		var tf *FuncInfo
		if fn != nil {
			tf = m.funcs[fn]
		}
		inline := tf != nil && !m.goBody[fn] && (t.NoInline == nil || !t.NoInline(fn))
		if inline && depth >= t.MaxDepth {
			t.incomplete = append(t.incomplete, "call depth exceeded at "+tf.Name())
			inline = false
		}
		var next []pbfPath
		for _, q := range paths {
			if !inline {
				q.st = t.emit(q.st, mk("call", call))
				next = append(next, q)
				continue
			}
			s := t.emit(q.st, mk("enter", call))
			if s == pbfDead {
				continue
			}
			for _, x := range t.runBody(tf, tf.Decl.Body, s, depth+1, append(append([]*ast.CallExpr{}, calls...), call)) {
				r := q
				r.st = t.emit(x.st, mk("leave", call))
				if x.ret != nil {
					// remember constant boolean results of this path: call -> value (single result), (call, i) -> value
					for i, res := range x.ret.Results {
						if tv, ok := m.info.Types[res]; ok && tv.Value != nil && tv.Value.Kind() == constant.Bool {
							v := triF
							if constant.BoolVal(tv.Value) {
								v = triT
							}
							if len(x.ret.Results) == 1 {
								r = r.with(call, v)
							} else {
								r = r.with(pbfResKey{call, i}, v)
							}
						} else if bt, ok := m.info.TypeOf(res).(*types.Basic); ok && bt.Info()&types.IsBoolean != 0 {
							// a computed boolean: a caller that branches on this result learns the expression's value
							if len(x.ret.Results) == 1 {
								r = r.withExpr(call, pbfRetExpr{res, tf})
							} else {
								r = r.withExpr(pbfResKey{call, i}, pbfRetExpr{res, tf})
							}
						}
					}
				}
				next = append(next, r)
			}
		}
		paths = pbfDedup(next)
	}
	// the node itself
	var out []pbfPath
	for _, q := range paths {
		kind := "node"
		if _, ok := n.(*ast.ReturnStmt); ok {
			kind = "return"
		}
		q.st = t.emit(q.st, mk(kind, n))
		if q.st == pbfDead {
			continue
		}
		// b := f()  /  b = f()  /  v, b := f(): remember a known boolean result under the local
		if as, ok := n.(*ast.AssignStmt); ok {
			for i, l := range as.Lhs {
				o := objOf(m.info, l)
				if o == nil {
					continue
				}
				var key interface{}
				if len(as.Lhs) == len(as.Rhs) {
					if call, ok := ast.Unparen(as.Rhs[i]).(*ast.CallExpr); ok {
						key = call
					}
				} else if len(as.Rhs) == 1 {
					if call, ok := ast.Unparen(as.Rhs[0]).(*ast.CallExpr); ok {
						key = pbfResKey{call, i}
					}
				}
				if key != nil {
					if v, ok := q.vals[key]; ok {
						q = q.with(o, v)
						continue
					}
					if re, ok := q.exprs[key]; ok {
						q = q.withExpr(o, re)
						continue
					}
				}
				q = q.without(o)
				if _, ok := q.vals[o]; ok {
					q = q.with(o, triU)
				}
			}
		}
		out = append(out, q)
	}
	return out
}

// ---- small helpers for automata ----

// pbfCalleeIs reports whether the event is a call (inlined or not) of fn.
func (ev *pbfEvent) calleeIs(info *types.Info, fn *types.Func) bool {
	if ev.kind != "call" && ev.kind != "enter" {
		return false
	}
	call, ok := ev.n.(*ast.CallExpr)
	return ok && fn != nil && callee(info, call) == fn
}

// inlineOnly restricts inlining to the functions that (transitively) contain something the automaton reacts to;
// every other call is reported as a "call" event. interesting is evaluated per unit.
func (t *pbfTracer) inlineOnly(m *pbfModel, interesting func(u *unit) bool) {
	memo := map[*types.Func]bool{}
	t.NoInline = func(fn *types.Func) bool {
		if v, ok := memo[fn]; ok {
			return v
		}
		v := !m.unitReaches(m.byDecl[fn], interesting)
		memo[fn] = v
		return v
	}
}

// hasChanOp reports whether the unit lexically contains a channel operation.
func (m *pbfModel) hasChanOp(u *unit) bool {
	for _, op := range m.chanOps() {
		if op.u.base() == u {
			return true
		}
	}
	return false
}

// factsAt returns the atomic facts established by the branch conditions that control the block containing pos in body:
// like the generic factsAt, and in addition a case of a tagged switch contributes `tag == caseExpr` (true on the edge
// into the case body, false on the edge to the next case).
func (v *pbfPkgView) factsAt(fi *FuncInfo, body *ast.BlockStmt, pos token.Pos) []guardFact {
	c := v.cfgOf(body)
	target, _ := blockOf(c.g, pos)
	if target == nil {
		return nil
	}
	par := v.parents(fi)
	t := &pbfTracer{v: v}
	var out []guardFact
	for _, b := range c.g.Blocks {
		if !b.Live || b == target || !c.dom[target][b] || len(b.Succs) != 2 {
			continue
		}
		cond := t.branchCond(b, par)
		if cond == nil {
			continue
		}
		viaT := reachableFrom([]*cfg.Block{b.Succs[0]}, func(x *cfg.Block) bool { return x == b })[target]
		viaF := reachableFrom([]*cfg.Block{b.Succs[1]}, func(x *cfg.Block) bool { return x == b })[target]
		switch {
		case viaT && !viaF:
			splitFacts(cond, true, b, &out)
		case viaF && !viaT:
			splitFacts(cond, false, b, &out)
		}
	}
	return out
}

// runDefers executes, at an exit of body, the calls deferred by the defer statements of body that run on every
// execution (their statement dominates every exit and is not in a loop), in reverse order. A conditional defer is not
// simulated; it is recorded as a reason why the trace is incomplete.
func (t *pbfTracer) runDefers(fi *FuncInfo, body *ast.BlockStmt, st int, depth int, calls []*ast.CallExpr) []int {
	v := t.v
	var defers []*ast.DeferStmt
	ast.Inspect(body, func(n ast.Node) bool {
		switch x := n.(type) {
		case *ast.FuncLit:
			return false
		case *ast.DeferStmt:
			defers = append(defers, x)
		}
		return true
	})
	states := []int{st}
	for i := len(defers) - 1; i >= 0; i-- {
		ds := defers[i]
		if !v.mustExec(body, ds) {
			t.incomplete = append(t.incomplete, "conditional defer at "+v.rel(ds.Pos()))
			continue
		}
		var next []int
		seen := map[int]bool{}
		add := func(s int) {
			if s != pbfDead && !seen[s] {
				seen[s] = true
				next = append(next, s)
			}
		}
		for _, s := range states {
			mk := func(kind string, n ast.Node) *pbfEvent {
				return &pbfEvent{kind: kind, n: n, fi: fi, body: body, depth: depth, calls: calls}
			}
			if lit, ok := ast.Unparen(ds.Call.Fun).(*ast.FuncLit); ok {
				for _, x := range t.runBody(fi, lit.Body, s, depth, calls) {
					add(x.st)
				}
				continue
			}
			// a deferred call of a function: execute it like a call statement
			for _, p := range t.execNode(pbfPath{st: s}, &ast.ExprStmt{X: ds.Call}, mk, fi, depth, calls) {
				add(p.st)
			}
		}
		states = next
	}
	return states
}
