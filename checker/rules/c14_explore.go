package rules

import (
	"fmt"
	"go/ast"
	"go/token"
	"go/types"
	"strings"

	"golang.org/x/tools/go/cfg"
)

func (e *c14Eng) explore(name string, fn *c14Fn, parent *c14Ctx, call *ast.CallExpr, callNode *c14Node) *c14Graph {
	g := &c14Graph{e: e, name: name, nodes: map[c14NodeKey]*c14Node{}, states: map[string]*c14State{}, byNode: map[*c14Node][]*c14State{},
		byAst: map[ast.Node][]*c14Node{}, ctxs: map[c14CtxKey]*c14Ctx{}, calls: map[*ast.CallExpr]*c14Node{}, valMemo: map[string]*c14Val{}}
	e.nctx++
	g.root = &c14Ctx{id: e.nctx, g: g, fn: fn, parent: parent, call: call, callNode: callNode}
	g.ctxList = append(g.ctxList, g.root)
	g.entry = g.state(g.at(g.root, fn.g.Blocks[0], 0), c14EmptyStore)
	for len(g.work) > 0 {
		s := g.work[len(g.work)-1]
		g.work = g.work[:len(g.work)-1]
		if len(g.stateList) > c14MaxStates {
			g.truncated = true
			break
		}
		g.expand(s)
	}
	return g
}

func (g *c14Graph) state(n *c14Node, st *c14Store) *c14State {
	k := fmt.Sprintf("%d#%s", n.id, st.key)
	if s := g.states[k]; s != nil {
		return s
	}
	s := &c14State{id: len(g.stateList), n: n, store: st}
	g.states[k] = s
	g.stateList = append(g.stateList, s)
	g.byNode[n] = append(g.byNode[n], s)
	g.work = append(g.work, s)
	return s
}

func (g *c14Graph) link(from *c14State, to *c14Node, st *c14Store, e c14Edge) {
	t := g.state(to, st)
	e.to = t
	from.out = append(from.out, e)
	t.in = append(t.in, from)
}

func c14Leftmost(e ast.Expr) ast.Expr {
	for {
		switch x := e.(type) {
		case *ast.ParenExpr:
			e = x.X
			continue
		case *ast.UnaryExpr:
			if x.Op == token.NOT {
				e = x.X
				continue
			}
		case *ast.BinaryExpr:
			if x.Op == token.LAND || x.Op == token.LOR {
				e = x.X
				continue
			}
		}
		return e
	}
}

// condOfBlock returns the terminating condition of a block (boolean expression, or case expression of a switch).
func c14CondOfBlock(b *cfg.Block) ast.Expr {
	if len(b.Succs) != 2 || len(b.Nodes) == 0 || b.Kind == cfg.KindRangeLoop {
		return nil
	}
	e, _ := b.Nodes[len(b.Nodes)-1].(ast.Expr)
	return e
}

// at returns the first node to execute when control reaches index idx of blk.
func (g *c14Graph) at(ctx *c14Ctx, blk *cfg.Block, idx int) *c14Node {
	if idx == len(blk.Nodes)-1 {
		if c := c14CondOfBlock(blk); c != nil {
			a := c
			if ctx.fn.swTag[c] == nil {
				a = c14Leftmost(c)
			}
			return g.node(c14NodeKey{ctx: ctx, blk: blk, idx: idx, atom: a})
		}
	}
	return g.node(c14NodeKey{ctx: ctx, blk: blk, idx: idx})
}

func (g *c14Graph) node(k c14NodeKey) *c14Node {
	if n := g.nodes[k]; n != nil {
		return n
	}
	n := &c14Node{id: len(g.nodeList), ctx: k.ctx, blk: k.blk, idx: k.idx, step: k.step, atom: k.atom}
	switch {
	case k.atom != nil:
		n.ast = k.atom
	case k.idx < len(k.blk.Nodes):
		n.ast = k.blk.Nodes[k.idx]
	}
	if k.step == 0 {
		n.inl, n.inlFn = g.followed(k.ctx, n.ast)
	} else {
		z := k
		z.step = 0
		n0 := g.node(z)
		n.inl, n.inlFn = n0.inl, n0.inlFn
	}
	g.nodes[k] = n
	g.nodeList = append(g.nodeList, n)
	if n.exec() && n.atom == nil && n.ast != nil {
		n.fork = c14ForkExpr(k.ctx, n.ast)
	}
	if n.exec() && n.ast != nil {
		g.byAst[n.ast] = append(g.byAst[n.ast], n)
		switch n.ast.(type) {
		case *ast.DeferStmt:
			g.defers = append(g.defers, n)
		case *ast.GoStmt:
			g.gos = append(g.gos, n)
		}
		ast.Inspect(n.ast, func(x ast.Node) bool {
			if _, ok := x.(*ast.FuncLit); ok {
				return false
			}
			if c, ok := x.(*ast.CallExpr); ok {
				g.calls[c] = n
			}
			return true
		})
	}
	return n
}

// c14ForkExpr returns the first non-constant boolean expression a plain node stores into a local variable or returns.
func c14ForkExpr(ctx *c14Ctx, node ast.Node) ast.Expr {
	info := ctx.fn.info
	isBool := func(e ast.Expr) bool {
		tv, ok := info.Types[e]
		if !ok || tv.Value != nil || tv.Type == nil {
			return false
		}
		b, ok := tv.Type.Underlying().(*types.Basic)
		return ok && b.Info()&types.IsBoolean != 0
	}
	switch x := node.(type) {
	case *ast.ReturnStmt:
		if len(x.Results) == ctx.fn.nres {
			for _, e := range x.Results {
				if isBool(e) {
					return ast.Unparen(e)
				}
			}
		}
	case *ast.AssignStmt:
		if (x.Tok == token.ASSIGN || x.Tok == token.DEFINE) && len(x.Lhs) == len(x.Rhs) {
			for i, e := range x.Rhs {
				if _, isIdent := ast.Unparen(x.Lhs[i]).(*ast.Ident); isIdent && isBool(e) {
					return ast.Unparen(e)
				}
			}
		}
	case *ast.ValueSpec:
		if len(x.Names) == len(x.Values) {
			for _, e := range x.Values {
				if isBool(e) {
					return ast.Unparen(e)
				}
			}
		}
	}
	return nil
}

func (g *c14Graph) stepNode(n *c14Node, step int) *c14Node {
	return g.node(c14NodeKey{ctx: n.ctx, blk: n.blk, idx: n.idx, step: step, atom: n.atom})
}

// followed lists, in evaluation order, the calls inside node that the engine follows into their bodies.
func (g *c14Graph) followed(ctx *c14Ctx, node ast.Node) ([]*ast.CallExpr, []*c14Fn) {
	if node == nil {
		return nil, nil
	}
	switch node.(type) {
	case *ast.GoStmt, *ast.DeferStmt:
		return nil, nil
	}
	var calls []*ast.CallExpr
	var fns []*c14Fn
	var stack []ast.Node
	ast.Inspect(node, func(x ast.Node) bool {
		if x == nil {
			top := stack[len(stack)-1]
			stack = stack[:len(stack)-1]
			if call, ok := top.(*ast.CallExpr); ok {
				if fn := g.inlinable(ctx, call); fn != nil {
					calls = append(calls, call)
					fns = append(fns, fn)
				}
			}
			return true
		}
		if _, ok := x.(*ast.FuncLit); ok {
			return false
		}
		stack = append(stack, x)
		return true
	})
	return calls, fns
}

func (g *c14Graph) inlinable(ctx *c14Ctx, call *ast.CallExpr) *c14Fn {
	fo := callee(ctx.fn.info, call)
	var fn *c14Fn
	switch {
	case fo != nil && !g.e.noInline[fo.Origin()]:
		fn = g.e.declFn(fo)
	case fo == nil:
		fn = g.closureOf(ctx, call)
	}
	if fn == nil {
		return nil
	}
	for c := ctx; c != nil && c.g == g; c = c.parent {
		if c.fn == fn {
			g.recursive = append(g.recursive, call)
			return nil
		}
	}
	if ctx.depth >= c14MaxDepth {
		g.recursive = append(g.recursive, call)
		return nil
	}
	return fn
}

// closureOf resolves `func(){…}()` and `f()` for a local f defined exactly once as a function literal (and never
// assigned again): the literal is walked like a declared helper, its free variables belong to the enclosing activation.
func (g *c14Graph) closureOf(ctx *c14Ctx, call *ast.CallExpr) *c14Fn {
	info := ctx.fn.info
	switch f := ast.Unparen(call.Fun).(type) {
	case *ast.FuncLit:
		return g.e.fnOfLit(ctx.fn.pk, f)
	case *ast.Ident:
		o, ok := objOf(info, f).(*types.Var)
		if !ok || o.IsField() || !ctx.owns(o.Pos()) {
			return nil
		}
		// a function-typed parameter of a followed helper whose argument is a function literal (callback)
		for c := ctx; c != nil && c.g == g && c.call != nil && c.parent != nil; c = c.parent {
			arg := c14Bindings(c.fn, c.call)[o]
			if arg == nil {
				break
			}
			if lit, ok := ast.Unparen(arg).(*ast.FuncLit); ok {
				return g.e.fnOfLit(c.parent.fn.pk, lit)
			}
			po, ok := objOf(c.parent.fn.info, arg).(*types.Var)
			if !ok {
				break
			}
			o = po // handed on from the caller's own parameter
		}
		ws := c14Writes(info, ctx.fn.body, o)
		if len(ws) != 1 {
			return nil
		}
		if as, ok := ws[0].(*ast.AssignStmt); ok && len(as.Lhs) == len(as.Rhs) {
			for i, l := range as.Lhs {
				if objOf(info, l) == types.Object(o) {
					if lit, ok := ast.Unparen(as.Rhs[i]).(*ast.FuncLit); ok {
						return g.e.fnOfLit(ctx.fn.pk, lit)
					}
				}
			}
		}
	}
	return nil
}

func (g *c14Graph) ctxFor(parent *c14Ctx, call *ast.CallExpr, at *c14Node, fn *c14Fn) *c14Ctx {
	k := c14CtxKey{parent, call}
	if c := g.ctxs[k]; c != nil {
		return c
	}
	g.e.nctx++
	c := &c14Ctx{id: g.e.nctx, g: g, fn: fn, parent: parent, call: call, callNode: at, depth: parent.depth + 1}
	g.ctxs[k] = c
	g.ctxList = append(g.ctxList, c)
	return c
}

func c14VarKey(ctx *c14Ctx, e *c14Eng, o types.Object) string {
	id := 0
	if ctx != nil {
		id = ctx.id
	}
	return fmt.Sprintf("v%d.%d;", id, e.oid(o))
}

func c14RetKey(ctx *c14Ctx, i int) string { return fmt.Sprintf("r%d.%d;", ctx.id, i) }

// trackable returns the store key of a local variable the store may hold a value for.
func (g *c14Graph) trackable(ctx *c14Ctx, o types.Object) (string, bool) {
	v, ok := o.(*types.Var)
	if !ok || v.IsField() {
		return "", false
	}
	oc := c14OwnerCtx(ctx, o)
	if oc == nil || oc.g != g || oc.fn.untrack[o] {
		return "", false
	}
	return c14VarKey(oc, g.e, o), true
}

func c14Kill(m map[string]int8, token string) {
	for k := range m {
		if strings.Contains(k, token) {
			delete(m, k)
		}
	}
}

// argsOf pairs the parameters (receiver first) of a followed callee with the argument expressions of the call.
func c14Bindings(fn *c14Fn, call *ast.CallExpr) map[types.Object]ast.Expr {
	out := map[types.Object]ast.Expr{}
	if fn.recv != nil {
		if sel, ok := ast.Unparen(call.Fun).(*ast.SelectorExpr); ok {
			out[fn.recv] = sel.X
		}
	}
	if len(call.Args) == len(fn.params) && !call.Ellipsis.IsValid() {
		variadic := false
		if fn.ftype.Params != nil && len(fn.ftype.Params.List) > 0 {
			_, variadic = fn.ftype.Params.List[len(fn.ftype.Params.List)-1].Type.(*ast.Ellipsis)
		}
		for i, p := range fn.params {
			if p != nil && !(variadic && i == len(fn.params)-1) {
				out[p] = call.Args[i]
			}
		}
	}
	return out
}

func (g *c14Graph) expand(s *c14State) {
	n := s.n
	ctx := n.ctx
	// followed call
	if n.step < len(n.inl) {
		call, fn := n.inl[n.step], n.inlFn[n.step]
		cc := g.ctxFor(ctx, call, n, fn)
		binds := c14Bindings(fn, call)
		st := s.store.with(func(m map[string]int8) {
			for p, a := range binds {
				if k, ok := g.trackable(cc, p); ok {
					delete(m, k)
					if v := g.absval(s.store, ctx, a); v != 0 {
						m[k] = v
					}
				}
			}
			for _, ro := range fn.results { // named results start at their zero value
				if ro == nil {
					continue
				}
				if k, ok := g.trackable(cc, ro); ok {
					delete(m, k)
					if v := c14ZeroVal(ro.Type()); v != 0 {
						m[k] = v
					}
				}
			}
		})
		g.link(s, g.at(cc, fn.g.Blocks[0], 0), st, c14Edge{kind: 'c'})
		return
	}
	consumed := func(m map[string]int8) {
		for _, c := range n.inl {
			if cc := g.ctxs[c14CtxKey{ctx, c}]; cc != nil {
				c14Kill(m, fmt.Sprintf("r%d.", cc.id))
			}
		}
	}
	// tail of a block
	if n.tail() {
		succs := n.blk.Succs
		switch len(succs) {
		case 0:
			s.dead = true
		case 1:
			g.link(s, g.at(ctx, succs[0], 0), s.store, c14Edge{})
		default:
			if n.blk.Kind == cfg.KindRangeLoop {
				st := s.store
				if rs, ok := n.blk.Stmt.(*ast.RangeStmt); ok {
					st = st.with(func(m map[string]int8) {
						for _, kv := range []ast.Expr{rs.Key, rs.Value} {
							if kv == nil {
								continue
							}
							if o := objOf(ctx.fn.info, kv); o != nil {
								c14Kill(m, c14VarKey(c14OwnerCtx(ctx, o), g.e, o))
							}
						}
					})
				}
				g.link(s, g.at(ctx, succs[0], 0), st, c14Edge{loop: 1})
				g.link(s, g.at(ctx, succs[1], 0), st, c14Edge{loop: -1})
				return
			}
			for _, sb := range succs {
				e := c14Edge{}
				if sb.Kind == cfg.KindSelectCaseBody {
					e.sel, _ = sb.Stmt.(*ast.CommClause)
				}
				g.link(s, g.at(ctx, sb, 0), s.store, e)
			}
		}
		return
	}
	// one atom of the terminating condition
	if n.atom != nil {
		expr := n.evalExpr()
		v := g.absval(s.store, ctx, expr)
		base := s.store.with(consumed)
		for _, val := range []bool{true, false} {
			if (v == c14True && !val) || (v == c14False && val) {
				continue
			}
			st := base
			if v == 0 {
				st = g.learn(base, ctx, expr, val)
			}
			next, leaves := g.afterAtom(n, val)
			e := c14Edge{val: 1}
			if !val {
				e.val = -1
			}
			if leaves != 0 && n.blk.Kind == cfg.KindForLoop {
				e.loop = leaves
			}
			g.link(s, next, st, e)
		}
		return
	}
	// plain node; one that computes a boolean splits on its value
	if n.fork != nil {
		v := g.absval(s.store, ctx, n.fork)
		for _, val := range []bool{true, false} {
			if (v == c14True && !val) || (v == c14False && val) {
				continue
			}
			st0 := s.store
			if v == 0 {
				st0 = g.learn(s.store, ctx, n.fork, val)
			}
			g.forced, g.forcedVal = n.fork, c14Bool(val)
			ev := int8(1)
			if !val {
				ev = -1
			}
			g.execPlain(s, st0, consumed, ev)
			g.forced = nil
		}
		return
	}
	g.execPlain(s, s.store, consumed, 0)
}

// execPlain executes a plain node from state s with store st0.
func (g *c14Graph) execPlain(s *c14State, st0 *c14Store, consumed func(map[string]int8), edgeVal int8) {
	n := s.n
	ctx := n.ctx
	st := g.transfer(st0, n).with(consumed)
	if ret, ok := n.ast.(*ast.ReturnStmt); ok {
		if ctx == g.root {
			s.exit = true
			return
		}
		vals := g.returnVals(st0, ctx, ret)
		fieldVals := map[int]map[*types.Var]int8{} // struct-valued results, field by field
		if len(ret.Results) == ctx.fn.nres {
			for i, e := range ret.Results {
				if fv, ok := g.structVals(st0, ctx, e); ok {
					fieldVals[i] = fv
				}
			}
		}
		st = st.with(func(m map[string]int8) {
			c14Kill(m, fmt.Sprintf("v%d.", ctx.id))
			for i, v := range vals {
				if v != 0 {
					m[c14RetKey(ctx, i)] = v
				}
			}
			for i, fv := range fieldVals {
				for f, v := range fv {
					if v != 0 {
						m[g.fkey(c14RetKey(ctx, i), f)] = v
					}
				}
			}
		})
		g.link(s, g.stepNode(ctx.callNode, ctx.callNode.step+1), st, c14Edge{kind: 'r', val: edgeVal})
		return
	}
	g.link(s, g.at(ctx, n.blk, n.idx+1), st, c14Edge{val: edgeVal})
}

// returnVals evaluates the results of a return statement in the store.
func (g *c14Graph) returnVals(st *c14Store, ctx *c14Ctx, ret *ast.ReturnStmt) []int8 {
	vals := make([]int8, ctx.fn.nres)
	switch {
	case len(ret.Results) == ctx.fn.nres:
		for i, e := range ret.Results {
			vals[i] = g.absval(st, ctx, e)
		}
	case len(ret.Results) == 0:
		// bare return: the named results
		for i, o := range ctx.fn.results {
			if o != nil && i < len(vals) {
				if k, ok := g.trackable(ctx, o); ok {
					vals[i] = st.m[k]
				}
			}
		}
	case len(ret.Results) == 1:
		if call, ok := ast.Unparen(ret.Results[0]).(*ast.CallExpr); ok {
			if cc := g.ctxs[c14CtxKey{ctx, call}]; cc != nil {
				for i := range vals {
					vals[i] = st.m[c14RetKey(cc, i)]
				}
			}
		}
	}
	return vals
}

// afterAtom returns the node reached once atom n evaluated to val: the next atom of the condition, or the head
// of the successor block (then leaves is +1 for the true successor, -1 for the false successor).
func (g *c14Graph) afterAtom(n *c14Node, val bool) (*c14Node, int8) {
	ctx, blk := n.ctx, n.blk
	root := blk.Nodes[len(blk.Nodes)-1].(ast.Expr)
	cur := ast.Expr(n.atom)
	for cur != root {
		p, _ := ctx.fn.par[cur].(ast.Expr)
		if p == nil {
			break
		}
		switch x := p.(type) {
		case *ast.UnaryExpr:
			if x.Op == token.NOT {
				val = !val
			}
		case *ast.BinaryExpr:
			if (x.Op == token.LAND || x.Op == token.LOR) && cur == x.X {
				short := (x.Op == token.LAND && !val) || (x.Op == token.LOR && val)
				if !short {
					return g.node(c14NodeKey{ctx: ctx, blk: blk, idx: n.idx, atom: c14Leftmost(x.Y)}), 0
				}
			}
		}
		cur = p
	}
	if val {
		return g.at(ctx, blk.Succs[0], 0), 1
	}
	return g.at(ctx, blk.Succs[1], 0), -1
}

// ---------------------------------------------------------------------------
