package rules

import (
	"go/ast"

	"osmcheck/core"
)

// shape: the constructs the exploration engine does not model must not occur in the explored functions, otherwise the
// path arguments of the other rules are incomplete:
//   - defer and go statements inside the DFS (a deferred call runs after the paths the rules look at, a goroutine beside them);
//   - defer statements in Next (Close has its own rule) and go statements inside the producer, Next or Close;
//   - a call that re-enters a function that is already being walked other than through the DFS itself;
//   - a function literal inside the DFS that is called rather than merely defined is covered by the package-wide scans
//     (a send, a store into the visited set or a call of the DFS inside it is reported as lying outside the DFS).
func (m *c14Model) shape(r *core.R) {
	c := "unmodelled-control@dfs"
	bad := false
	live := func(g *c14Graph, ns []*c14Node) []*c14Node {
		var out []*c14Node
		for _, n := range ns {
			if len(g.byNode[n]) > 0 {
				out = append(out, n)
			}
		}
		return out
	}
	type item struct {
		g      *c14Graph
		defers bool
		gos    bool
	}
	for _, it := range []item{{m.wg, true, true}, {m.pg, false, true}, {m.ng, true, true}, {m.xg, false, true}} {
		g := it.g
		if g == nil {
			continue
		}
		var ns []*c14Node
		if it.defers {
			ns = append(ns, live(g, g.defers)...)
		}
		if it.gos {
			ns = append(ns, live(g, g.gos)...)
		}
		for _, n := range ns {
			bad = true
			r.Unknown(c, n.pos(), "`%s` in %s (explored from %s): deferred calls and goroutines started here are not part of the paths the C14 rules reason about", m.nodeSrc(n), n.ctx.fn.name, g.name)
		}
		seen := map[*ast.CallExpr]bool{}
		for _, call := range g.recursive {
			if g == m.wg || seen[call] {
				continue // reported by W3 recursion@dfs
			}
			seen[call] = true
			bad = true
			r.Unknown(c, call.Pos(), "`%s` (explored from %s) re-enters a function that is already being walked, or exceeds the call depth the exploration follows: the callee's effects are not modelled", src(m.p.Fset, call), g.name)
		}
	}
	if !bad {
		n := 0
		for _, g := range []*c14Graph{m.wg, m.cg, m.pg, m.ng, m.xg} {
			if g != nil {
				n += len(g.ctxList)
			}
		}
		r.OKTrivial(c, m.walk.Decl.Pos(), "no defer/go statement inside the DFS, no go statement in the producer, Next or Close, no unmodelled recursion (%d function activations explored)", n)
	}
}
