package rules

import (
	"go/types"

	"osmcheck/core"
)

// H5 result@ / single@: every path returning a nil error returns the table's field of the fresh, empty document that
// was the decode target of the request; a single-element call returns element [0] only on paths on which the
// tests passed imply that the field holds exactly one element.
func (cx *c20Ctx) resultEP(fi *FuncInfo, tab *c20Table) {
	r := cx.r
	ep := tab.endpoint(fi.Obj.Name())
	if ep == nil {
		return // reported by H4
	}
	c := "result@" + fi.Name()
	cs := "single@" + fi.Name()
	run := cx.runEndpoint(fi, tab.OptionSeparator)
	if why, a := run.abortText(cx); why != "" {
		r.Unknown(c, a.whyAt.Pos(), "%s could not be executed symbolically: %s", fi.Name(), why)
		return
	}
	nSucc := 0
	singleOK, singleBad := 0, ""
	pos := fi.Decl.Pos()
	for _, st := range run.rets {
		if !c20IsSuccess(st) {
			continue
		}
		reqs := st.eventsOf("request")
		if len(reqs) != 1 || len(st.ret) != 2 {
			continue // reported by H1
		}
		nSucc++
		ev := reqs[0]
		pos = ev.call.Pos()
		doc := c20Target(ev, cx.get.item)
		if doc.k != c20kObj || doc.tag != "doc" {
			r.Unknown(c, ev.call.Pos(), "decode target `%s` is not (the address of a local holding) a document allocated in the call: %s", src(r.P.Fset, ev.call), doc.String())
			return
		}
		if nt, ok := doc.typ.(*types.Named); !ok || nt.Obj().Pkg() == nil || nt.Obj().Pkg().Path() != core.ModulePath || doc.name != ep.Document {
			r.Bad(c, ev.call.Pos(), "the response is decoded into %s; the API returns an %s document for this call", doc.typ, ep.Document)
			return
		}
		if !doc.b {
			r.Bad(c, ev.call.Pos(), "decode target of `%s` is not a freshly allocated empty document (`&osm.%s{}`): elements not sent by the server could be returned", src(r.P.Fset, ev.call), ep.Document)
			return
		}
		res := st.ret[0]
		if res.k == c20kRef { // `return &o` for a document declared as a value
			if t, ok := st.env[res.obj]; ok {
				res = t
			}
		}
		retText := src(r.P.Fset, st.retAt)
		var field c20V
		if ep.Single {
			if res.k != c20kIdx {
				r.Bad(c, cx.posOf(st, pos), "`%s` returns %s: a single-element call must return element [0] of the decoded document's %s", retText, res.String(), ep.Result)
				return
			}
			field = *res.base
		} else {
			field = res
		}
		if ep.Result == "*" {
			if !(field.k == c20kObj && field.id == doc.id) {
				r.Bad(c, cx.posOf(st, pos), "`%s` returns %s, not the decoded document itself: the call must return exactly what the server sent", retText, res.String())
				return
			}
			continue
		}
		if field.k != c20kSel || !(field.base.k == c20kObj && field.base.id == doc.id) {
			r.Bad(c, cx.posOf(st, pos), "`%s` returns %s, not a field of the document decoded from the response", retText, res.String())
			return
		}
		if field.name != ep.Result {
			r.Bad(c, cx.posOf(st, pos), "`%s` returns the document's %s; %s answers with %s elements", retText, field.name, ep.Doc, ep.Result)
			return
		}
		if ep.Single {
			lo, hi, exact := st.interval("len:"+field.String(), 0, 1<<40)
			switch {
			case res.n != 0:
				singleBad = "`" + retText + "` does not return element 0"
			case lo == 1 && hi == 1 && exact:
				singleOK++
			default:
				hs := "any"
				if hi < 1<<40 {
					hs = c20Itoa(hi)
				}
				singleBad = "`" + retText + "` is reached with " + c20Itoa(lo) + ".." + hs + " elements in " + ep.Result + " (tests passed on the path: " + st.factText() + "); it must be reached only with exactly 1"
			}
		}
	}
	if nSucc == 0 {
		r.Unknown(c, fi.Decl.Pos(), "no path of %s returns a nil error after one request", fi.Name())
		return
	}
	what := "field " + ep.Result
	if ep.Result == "*" {
		what = "the document itself"
	} else if ep.Single {
		what += "[0]"
	}
	r.OK(c, pos, "%s returning a nil error return %s of the fresh empty *osm.%s that is the decode target of the one request", c20Plural(nSucc, "path"), what, ep.Document)
	if !ep.Single {
		return
	}
	if singleBad != "" {
		r.Bad(cs, pos, "%s — a response with 0 elements panics and one with several silently returns the first instead of being rejected", singleBad)
	} else {
		r.OK(cs, pos, "on each of the %s returning element [0] the tests passed imply len(%s) == 1; every other length ends in an error return", c20Plural(singleOK, "path"), ep.Result)
	}
}

func c20Itoa(n int64) string {
	neg := n < 0
	if neg {
		n = -n
	}
	if n == 0 {
		return "0"
	}
	var b []byte
	for n > 0 {
		b = append([]byte{byte('0' + n%10)}, b...)
		n /= 10
	}
	if neg {
		return "-" + string(b)
	}
	return string(b)
}
