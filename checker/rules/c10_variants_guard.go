package rules

import "osmcheck/core"

const (
	c10SrcNodeGuard     = "\tif id&typeMask != nodeMask {\n\t\tpanic(fmt.Sprintf(\"not a node: %v\", id))\n\t}\n\n\treturn NodeID(id.Ref())\n}"
	c10SrcWayGuard      = "\tif id&typeMask != wayMask {\n\t\tpanic(fmt.Sprintf(\"not a way: %v\", id))\n\t}\n\n\treturn WayID(id.Ref())\n}"
	c10SrcRelGuardElem  = "\tif int64(id)&relationMask != relationMask {"
	c10SrcRelGuardFeat  = "\tif id&relationMask != relationMask {"
	c10SrcNodeGuardCond = "id&typeMask != nodeMask"
	c10SrcWayGuardCond  = "id&typeMask != wayMask"
)

// c10MutantsGuard: kind guards of the typed conversions that are not true exactly for their kind (the defect
// repaired in /repo 9a2e935 and other spellings of it).
var c10MutantsGuard = []core.Mutant{
	{Name: "elementid-nodeid-single-bit-guard", File: "element.go", Find: c10SrcNodeGuardCond, Replace: "id&nodeMask != nodeMask",
		ExpectRule: "K7", ExpectConstruct: "kind-guard@ElementID.NodeID"},
	{Name: "featureid-nodeid-single-bit-guard", File: "feature.go", Find: c10SrcNodeGuardCond, Replace: "id&nodeMask != nodeMask",
		ExpectRule: "K7", ExpectConstruct: "kind-guard@FeatureID.NodeID"},
	{Name: "featureid-wayid-bit-is-zero-guard", File: "feature.go", Find: c10SrcWayGuardCond, Replace: "id&wayMask == 0",
		ExpectRule: "K7", ExpectConstruct: "kind-guard@FeatureID.WayID"},
	{Name: "elementid-wayid-shifted-bit-guard", File: "element.go", Find: c10SrcWayGuardCond, Replace: "(id>>60)&2 == 0",
		ExpectRule: "K7", ExpectConstruct: "kind-guard@ElementID.WayID"},
	{Name: "featureid-nodeid-helper-bit-guard", File: "feature.go", Find: c10SrcNodeGuard,
		Replace:    "\tif !hasKindBits(int64(id), nodeMask) {\n\t\tpanic(fmt.Sprintf(\"not a node: %v\", id))\n\t}\n\n\treturn NodeID(id.Ref())\n}\n\nfunc hasKindBits(packed, bits int64) bool { return packed&bits == bits }",
		ExpectRule: "K7", ExpectConstruct: "kind-guard@FeatureID.NodeID"},
	{Name: "elementid-relationid-any-bit-guard", File: "element.go", Find: c10SrcRelGuardElem, Replace: "\tif int64(id)&relationMask == 0 {",
		ExpectRule: "K7", ExpectConstruct: "kind-guard@ElementID.RelationID"},
	{Name: "featureid-relationid-guard-dropped", File: "feature.go", Find: c10SrcRelGuardFeat, Replace: "\tif id&typeMask == 0 {",
		ExpectRule: "K7", ExpectConstruct: "kind-guard@FeatureID.RelationID"},
	{Name: "featureid-wayid-guard-any-element", File: "feature.go", Find: c10SrcWayGuardCond, Replace: "id.Type() == \"\"",
		ExpectRule: "K7", ExpectConstruct: "kind-guard@FeatureID.WayID"},
}

// c10BenignGuard: correct spellings of the same guards.
var c10BenignGuard = []core.Mutant{
	{Name: "elementid-nodeid-inverted-early-return", File: "element.go", Find: c10SrcNodeGuard,
		Replace: "\tif id&typeMask == nodeMask {\n\t\treturn NodeID(id.Ref())\n\t}\n\n\tpanic(fmt.Sprintf(\"not a node: %v\", id))\n}"},
	{Name: "featureid-nodeid-type-guard", File: "feature.go", Find: c10SrcNodeGuardCond, Replace: "id.Type() != TypeNode"},
	{Name: "featureid-wayid-helper-predicate", File: "feature.go", Find: c10SrcWayGuard,
		Replace: "\tif !isKind(int64(id), wayMask) {\n\t\tpanic(fmt.Sprintf(\"not a way: %v\", id))\n\t}\n\n\treturn WayID(id.Ref())\n}\n\nfunc isKind(packed, kind int64) bool {\n\ttag := packed & typeMask\n\treturn tag == kind\n}"},
	{Name: "elementid-wayid-switch-guard", File: "element.go", Find: c10SrcWayGuard,
		Replace: "\tswitch id & typeMask {\n\tcase wayMask:\n\t\treturn WayID(id.Ref())\n\tdefault:\n\t\tpanic(fmt.Sprintf(\"not a way: %v\", id))\n\t}\n}"},
	{Name: "elementid-wayid-table-guard", File: "element.go", Find: c10SrcWayGuard,
		Replace: "\tif kindNames[(id&typeMask)>>56] != TypeWay {\n\t\tpanic(fmt.Sprintf(\"not a way: %v\", id))\n\t}\n\n\treturn WayID(id.Ref())\n}\n\nvar kindNames = [128]Type{nodeMask >> 56: TypeNode, wayMask >> 56: TypeWay, relationMask >> 56: TypeRelation}"},
	{Name: "featureid-wayid-xor-guard", File: "feature.go", Find: c10SrcWayGuardCond, Replace: "(id&typeMask)^wayMask != 0"},
}
