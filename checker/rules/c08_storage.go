package rules

import (
	"go/ast"
	"go/token"
	"go/types"

	"osmcheck/core"
)

// c08StorageDefsZeroed decides whether the slice expression x (indexed for a partial element write in fi) only ever
// holds storage whose elements are zeroed or written as a whole: every definition of it is a zeroed make (possibly
// through an allocation helper), nil, a `[:0]` re-slice or an append of whole elements. For a slice field of an osm
// element the definitions are all stores into that field anywhere in the worker role (including keyed composite
// literals), so it does not matter in which function or helper the allocation lives.
func c08StorageDefsZeroed(r *core.R, m *pbfModel, fi *FuncInfo, x ast.Expr) (bool, string) {
	info := m.info
	fs := r.P.Fset
	target := c01Chain(info, fi.Decl.Body, x)
	var okDef func(scope *FuncInfo, rhs ast.Expr, depth int) bool
	okDef = func(scope *FuncInfo, rhs ast.Expr, depth int) bool {
		rhs = ast.Unparen(rhs)
		if depth > 3 {
			return false
		}
		if isNilIdent(rhs) {
			return true
		}
		switch v := rhs.(type) {
		case *ast.CallExpr:
			if builtinName(info, v) == "append" && len(v.Args) >= 1 && !v.Ellipsis.IsValid() {
				return okDef(scope, v.Args[0], depth+1) || c08IsElemSlice(info.TypeOf(v.Args[0]))
			}
			return c08IsZeroedMake(m, v, 0)
		case *ast.SliceExpr:
			if v.Low == nil && v.High != nil && v.Max == nil {
				if hv, okc := constInt(info, v.High); okc && hv == 0 {
					return true
				}
			}
			return false
		case *ast.Ident:
			o := objOf(info, v)
			ds := c01Defs(info, scope.Decl.Body, o)
			if len(ds) == 0 {
				return false
			}
			for _, d := range ds {
				if d.rhs == nil || d.index > 0 || !okDef(scope, d.rhs, depth+1) {
					return false
				}
			}
			return true
		}
		return false
	}
	if fld := c01FieldOfChain(info, target); fld != nil {
		n := 0
		bad := ""
		for _, g := range c01RoleFuncs(m, "worker") {
			g := g
			ast.Inspect(g.Decl.Body, func(y ast.Node) bool {
				switch s := y.(type) {
				case *ast.AssignStmt:
					for i, l := range s.Lhs {
						if c01FieldOfChain(info, c01Chain(info, g.Decl.Body, l)) != fld {
							continue
						}
						if _, isSel := stripDerefParen(c01Chain(info, g.Decl.Body, l)).(*ast.SelectorExpr); !isSel {
							continue // an element store x.F[i] = v, not a definition of the slice
						}
						n++
						var rhs ast.Expr
						switch {
						case len(s.Rhs) == len(s.Lhs):
							rhs = s.Rhs[i]
						case len(s.Rhs) == 1 && i == 0:
							rhs = s.Rhs[0]
						}
						if rhs == nil || s.Tok != token.ASSIGN && s.Tok != token.DEFINE || !okDef(g, rhs, 0) {
							bad = "`" + src(fs, s) + "` in " + g.Name()
						}
					}
				case *ast.KeyValueExpr:
					if id, ok := s.Key.(*ast.Ident); ok && info.Uses[id] == types.Object(fld) {
						n++
						if !okDef(g, s.Value, 0) {
							bad = "`" + src(fs, s) + "` in " + g.Name()
						}
					}
				}
				return true
			})
		}
		if bad != "" {
			return false, bad + " stores something else into " + fld.Name()
		}
		if n == 0 {
			return false, "no definition of " + fld.Name() + " found in the worker role"
		}
		return true, ""
	}
	if o := objOf(info, ast.Unparen(target)); o != nil {
		if okDef(fi, ast.Unparen(target), 0) {
			return true, ""
		}
		return false, "a definition of `" + o.Name() + "` is not a zeroed make"
	}
	return false, "`" + src(fs, x) + "` is neither a slice field of an element nor a local slice"
}
