package rules

// The model of core.Compute used by C11.A1, A2 (error returns) and A5: Compute is executed by the path
// interpreter with every unexported function of package core inlined (so it does not matter whether a piece
// of the algorithm lives in Compute or in a helper, nor how helpers are named), and the rules are stated on
// the resulting paths: which calls / stores happen under which decisions, on which terms.
//
// Roles are terms, not names:
//   parents, histories, opts      the parameters of Compute, by type ([]Parent, Datasourcer, *Options)
//   child, err, fid               results / argument of the histories.Get call
//   I (the parent of the group)   the index X of the `parents[X].Visible()` decision taken on the path
//   cur (the current child)       child.FindVisible(parents[I].ChangesetID(), ...)
//   k, the window loop            the index of the child[k].Update() call; a havoc symbol of the loop that assigns it

import (
	"go/ast"
	"go/token"
	"go/types"
	"sort"
	"strings"
	"sync"

	"golang.org/x/tools/go/packages"

	"osmcheck/core"
)

type c11Model struct {
	r     *core.R
	pk    *packages.Package
	fi    *FuncInfo
	it    *c11Interp
	paths []c11Out
	notes []string

	P, H, O            *c11V // parameters by type
	pObj, hObj, oObj   types.Object
	childT, errT, fidT *c11V
	alias              [][2]string

	a5winKey string // set by a5Window
	a5kSym   *c11V
}

var (
	c11ModelCache = map[*core.Program]*c11Model{}
	c11ModelMu    sync.Mutex
)

// c11GetModel builds (once per loaded program) the path model of core.Compute; unresolved anchors are reported on r.
func c11GetModel(r *core.R) *c11Model {
	c11ModelMu.Lock()
	defer c11ModelMu.Unlock()
	if m, ok := c11ModelCache[r.P]; ok && m != nil {
		m.r = r
		return m
	}
	pk := r.P.Pkg("annotate/internal/core")
	fi := findFunc(pk, "Compute")
	if fi == nil || fi.Decl.Body == nil {
		r.Anchor("annotate/internal/core.Compute")
		return nil
	}
	m := &c11Model{r: r, pk: pk, fi: fi}
	sig := fi.Obj.Type().(*types.Signature)
	for i := 0; i < sig.Params().Len(); i++ {
		p := sig.Params().At(i)
		switch t := p.Type().(type) {
		case *types.Slice:
			if namedPath(t.Elem()) == c11CorePath+".Parent" {
				m.pObj = p
			}
		case *types.Pointer:
			if namedPath(t) == c11CorePath+".Options" {
				m.oObj = p
			}
		default:
			if namedPath(t) == c11CorePath+".Datasourcer" {
				m.hObj = p
			}
		}
	}
	if m.pObj == nil || m.hObj == nil || m.oObj == nil {
		r.Anchor("parameters ([]Parent, Datasourcer, *Options) of core.Compute")
		return nil
	}
	m.P, m.H, m.O = c11Param(m.pObj), c11Param(m.hObj), c11Param(m.oObj)
	// Inlining policy (roles, not names). Inlined: unexported functions and methods, and exported-name methods
	// of unexported receiver types (internal to the package). Kept opaque: the "child version selectors"
	// (ChildList, ...) -> *shared.Child (FindVisible / VersionBefore, whatever they are called and whether
	// they are methods or functions: their arithmetic is NOT decided) and the grouping method (the method
	// called on the locations of a child that yields the groups; it is checked on its own by group@).
	keep := map[*types.Func]bool{}
	policy := func(internalMethods bool) func(fn *types.Func) bool {
		return func(fn *types.Func) bool {
			sig := fn.Type().(*types.Signature)
			if keep[fn] {
				return false
			}
			if c11IsSelectorSig(sig) {
				// a selector proper searches the list (it has a loop); a loop-free function of that signature
				// only forwards to one and is inlined like any other helper
				hasLoop := true
				if fi := m.it.funcs[fn]; fi != nil && fi.Decl.Body != nil {
					hasLoop = false
					ast.Inspect(fi.Decl.Body, func(n ast.Node) bool {
						switch n.(type) {
						case *ast.ForStmt, *ast.RangeStmt:
							hasLoop = true
						}
						return !hasLoop
					})
				}
				if hasLoop {
					return false
				}
			}
			if !fn.Exported() {
				return true
			}
			if rv := sig.Recv(); internalMethods && rv != nil {
				t := rv.Type()
				if pt, ok := t.(*types.Pointer); ok {
					t = pt.Elem()
				}
				if nt, ok := t.(*types.Named); ok && !nt.Obj().Exported() {
					return true
				}
			}
			return false
		}
	}
	m.it = c11NewInterp(pk)
	m.it.recordIndex = true
	m.it.inline = policy(false)
	m.paths = c11AllPaths(m.it, fi, nil)
	// exported-name methods of unexported types that were called: the one called on an element of the
	// location map is the grouping method; if there are others, run again with those inlined
	others := false
	for _, p := range m.paths {
		for _, ev := range p.st.ev {
			if ev.kind != "call" || ev.call.k != "call" || !ev.call.recv || ev.call.fn == nil || !policy(true)(ev.call.fn) {
				continue
			}
			rv := ev.call.xs[0]
			if _, isKey := c11IsIterKey(rv.xs1()); rv.k == "index" && isKey { // an element of the map being ranged over, wherever that map comes from
				keep[ev.call.fn] = true
			} else {
				others = true
			}
		}
	}
	if others {
		m.it = c11NewInterp(pk)
		m.it.recordIndex = true
		m.it.inline = policy(true)
		m.paths = c11AllPaths(m.it, fi, nil)
	}
	m.notes = c11PathNotes(m.it, m.paths)
	c11Dump(r, "Compute", m.paths)
	// the Get call
	for _, p := range m.paths {
		for _, ev := range p.st.ev {
			if ev.kind != "call" {
				continue
			}
			rv, args, ok := ev.call.isMethodCall(c11CorePath+".Datasourcer", "Get")
			if !ok || rv.key() != m.H.key() || len(args) != 2 {
				continue
			}
			if m.childT != nil && m.fidT.key() != args[1].key() {
				r.Anchor("a single `child, err := histories.Get(ctx, fid)` in core.Compute")
				return nil
			}
			m.childT = &c11V{k: "res", xs: []*c11V{ev.call}, id: 0}
			m.errT = &c11V{k: "res", xs: []*c11V{ev.call}, id: 1}
			m.fidT = args[1]
		}
	}
	if m.childT == nil {
		r.Anchor("`child, err := histories.Get(ctx, fid)` in core.Compute")
		return nil
	}
	m.alias = [][2]string{{m.childT.key(), "child"}, {m.errT.key(), "err"}, {m.fidT.key(), "fid"}, {m.P.key(), "parents"}, {m.H.key(), "histories"}, {m.O.key(), "opts"}}
	c11ModelCache[r.P] = m
	return m
}

// short renders a term for messages: role terms are replaced by their names, package paths are dropped.
func (m *c11Model) short(v *c11V) string { return m.shortKey(v.key()) }

func (m *c11Model) shortKey(s string) string {
	al := append([][2]string(nil), m.alias...)
	sort.SliceStable(al, func(i, j int) bool { return len(al[i][0]) > len(al[j][0]) })
	for _, a := range al {
		s = strings.ReplaceAll(s, a[0], a[1])
	}
	s = strings.ReplaceAll(s, c11CorePath+".", "")
	s = strings.ReplaceAll(s, c11SharedPath+".", "shared.")
	s = strings.ReplaceAll(s, core.ModulePath+".", "osm.")
	s = strings.ReplaceAll(s, "$param ", "")
	if len(s) > 220 {
		s = s[:217] + "..."
	}
	return s
}

func (m *c11Model) addAlias(v *c11V, name string) {
	if v == nil {
		return
	}
	k := v.key()
	for _, a := range m.alias {
		if a[0] == k {
			return
		}
	}
	m.alias = append(m.alias, [2]string{k, name})
}

// isParent recognises parents[X]; returns X.
func (m *c11Model) isParent(v *c11V) (*c11V, bool) {
	if v != nil && v.k == "index" && v.xs[0].key() == m.P.key() {
		return v.xs[1], true
	}
	return nil, false
}

// visibleIdx returns the indices X with `parents[X].Visible()` decided true among the first upto assumptions.
func (m *c11Model) visibleIdx(st *c11St, upto int) []*c11V {
	if upto < 0 || upto > len(st.as) {
		upto = len(st.as)
	}
	var out []*c11V
	seen := map[string]bool{}
	for _, a := range st.as[:upto] {
		rv, _, ok := a.atom.isMethodCall(c11CorePath+".Parent", "Visible")
		if !ok || !a.val {
			continue
		}
		if x, ok := m.isParent(rv); ok && !seen[x.key()] {
			seen[x.key()] = true
			out = append(out, x)
		}
	}
	return out
}

// groupIdx is the parent index I of the path: the unique X with parents[X].Visible() decided true.
func (m *c11Model) groupIdx(st *c11St, upto int) *c11V {
	xs := m.visibleIdx(st, upto)
	if len(xs) == 1 {
		return xs[0]
	}
	return nil
}

// optIs evaluates option field `name` at a point of the path: the decision taken on opts.<name>, or the
// constant it has when Compute itself built the Options value (opts == nil).
func (m *c11Model) optIs(st *c11St, upto int, name string) c11Tri {
	t := st.decided(upto, func(a *c11V) bool { return a.isFieldOf(m.O.key(), name) })
	if t != c11U {
		return t
	}
	if st.isNil(m.O, upto) == c11T {
		for _, o := range st.heap {
			if namedPath(o.typ) == c11CorePath+".Options" {
				v, ok := o.f[name]
				if !ok {
					return c11F
				}
				if b, ok := v.constBool(); ok {
					if b {
						return c11T
					}
					return c11F
				}
			}
		}
	}
	return c11U
}

// curOf finds, on a path, the current child of parent index I: child.FindVisible(parents[I].ChangesetID(), ...).
func (m *c11Model) curOf(st *c11St, I *c11V) *c11V {
	if I == nil {
		return nil
	}
	for _, ev := range st.ev {
		if ev.kind != "call" {
			continue
		}
		args, ok := m.selector(ev.call)
		if !ok {
			continue
		}
		for _, a := range args {
			prv, _, ok := a.isMethodCall(c11CorePath+".Parent", "ChangesetID")
			if !ok {
				continue
			}
			if x, ok := m.isParent(prv); ok && x.key() == I.key() {
				return ev.call
			}
		}
	}
	return nil
}

// c11IsSelectorSig: a "child version selector": (ChildList, ...) -> *shared.Child, as method or function.
func c11IsSelectorSig(sig *types.Signature) bool {
	if sig.Results().Len() != 1 {
		return false
	}
	pt, ok := sig.Results().At(0).Type().(*types.Pointer)
	if !ok || namedPath(pt) != c11SharedPath+".Child" {
		return false
	}
	if rv := sig.Recv(); rv != nil {
		return namedPath(rv.Type()) == c11CorePath+".ChildList"
	}
	return sig.Params().Len() >= 1 && namedPath(sig.Params().At(0).Type()) == c11CorePath+".ChildList"
}

// selector recognises a call of a child version selector on the fetched child list; returns its other arguments.
func (m *c11Model) selector(v *c11V) ([]*c11V, bool) {
	if v == nil || v.k != "call" || v.fn == nil || len(v.xs) < 1 || !c11IsSelectorSig(v.fn.Type().(*types.Signature)) {
		return nil, false
	}
	if v.xs[0].key() != m.childT.key() {
		return nil, false
	}
	return v.xs[1:], true
}

// selectorBefore finds, on a path, the selector call that takes only a time derived from parents[I]
// (VersionBefore(<time of this parent>)) made while the first upto assumptions were in force.
func (m *c11Model) selectorBefore(st *c11St, I *c11V, upto int) *c11V {
	var vb *c11V
	next := c11Bin(token.ADD, I, c11Int(1)).key()
	for _, ev := range st.ev {
		if ev.kind != "call" || ev.nas > upto {
			continue
		}
		if args, ok := m.selector(ev.call); ok && len(args) == 1 && args[0].mentions(I.key()) && !args[0].mentions(next) {
			vb = ev.call
		}
	}
	return vb
}

func (m *c11Model) unknownIfNotes(c string) bool {
	if len(m.notes) > 0 {
		m.r.Unknown(c, m.fi.Decl.Pos(), "core.Compute (with its helpers inlined) could not be followed on every path: %s", strings.Join(m.notes, "; "))
		return true
	}
	return false
}

func c11Pos(n ast.Node) token.Pos {
	if n == nil {
		return token.NoPos
	}
	return n.Pos()
}

// ---------------------------------------------------------------------------
// A1 deleted parents get no annotations
// ---------------------------------------------------------------------------

func c11A1(r *core.R) {
	m := c11GetModel(r)
	if m == nil {
		return
	}
	if m.unknownIfNotes("setchild@Compute") {
		return
	}
	// SetChild
	nSet := 0
	var bad []string
	pos := m.fi.Decl.Pos()
	for _, p := range m.paths {
		for _, ev := range p.st.ev {
			if ev.kind != "call" {
				continue
			}
			rv, _, ok := ev.call.isMethodCall(c11CorePath+".Parent", "SetChild")
			if !ok {
				continue
			}
			nSet++
			pos = ev.node.Pos()
			x, isP := m.isParent(rv)
			if !isP {
				bad = append(bad, "`"+src(r.P.Fset, ev.node)+"` is called on "+m.short(rv)+", not on an element of parents")
				continue
			}
			switch p.st.decided(ev.nas, func(a *c11V) bool {
				r2, _, ok := a.isMethodCall(c11CorePath+".Parent", "Visible")
				return ok && r2.key() == rv.key()
			}) {
			case c11T:
			case c11F:
				bad = append(bad, "`"+src(r.P.Fset, ev.node)+"` ("+r.P.Rel(ev.node.Pos())+") is reached on a path where parents["+m.short(x)+"].Visible() is false")
			default:
				bad = append(bad, "`"+src(r.P.Fset, ev.node)+"` ("+r.P.Rel(ev.node.Pos())+") is reached on a path that has not decided parents["+m.short(x)+"].Visible()")
			}
		}
	}
	switch {
	case nSet == 0:
		r.Anchor("call of Parent.SetChild in core.Compute")
	case len(bad) > 0:
		r.Bad("setchild@Compute", pos, "%s: a deleted parent version would get its children annotated", strings.Join(c11Uniq(bad), "; "))
	default:
		r.OK("setchild@Compute", pos, "on every path, every Parent.SetChild call is on parents[X] after the decision parents[X].Visible() == true (%d call events)", nSet)
	}
	// appends to update lists
	nApp := 0
	bad = nil
	for _, p := range m.paths {
		for _, ev := range p.st.ev {
			if ev.kind != "call" || ev.call.name != "append" || namedPath(ev.call.typ) != core.ModulePath+".Updates" {
				continue
			}
			if len(ev.call.xs) == 2 && ev.call.xs[1].k == "nil" {
				continue // append(list, nil...): nothing is appended (the elements are structs, so nil is an empty slice)
			}
			if a1 := ev.call.xs1(); a1 != nil && a1.k == "index" && a1.xs[0].k == "call" && strings.HasPrefix(a1.xs[0].name, "make@") && !a1.xs[0].mentions(m.childT.key()) {
				if sl, ok := a1.xs[0].typ.(*types.Slice); ok && namedPath(sl.Elem()) == core.ModulePath+".Updates" {
					continue // append(fresh, results[i]...): the updates already stored for a parent are copied, none is produced
				}
			}
			nApp++
			pos = ev.node.Pos()
			xs := m.visibleIdx(p.st, ev.nas)
			switch {
			case len(xs) == 0:
				bad = append(bad, "`"+src(r.P.Fset, ev.node)+"` ("+r.P.Rel(ev.node.Pos())+") is reached on a path without the decision parents[X].Visible() == true")
				continue
			case len(xs) > 1:
				bad = append(bad, "`"+src(r.P.Fset, ev.node)+"` ("+r.P.Rel(ev.node.Pos())+") is reached after Visible() decisions on several parents: cannot tell whose list it is")
				continue
			}
			// a list stored per parent index must be the one of the visible parent
			if a0 := ev.call.xs[0]; a0.k == "index" && !a0.xs[0].mentions(m.P.key()) {
				if a0.xs[1].key() != xs[0].key() {
					bad = append(bad, "`"+src(r.P.Fset, ev.node)+"` ("+r.P.Rel(ev.node.Pos())+") appends to the list at index "+m.short(a0.xs[1])+" while the parent tested visible is parents["+m.short(xs[0])+"]")
				}
			}
		}
	}
	switch {
	case nApp == 0:
		r.Anchor("append to an osm.Updates list in core.Compute")
	case len(bad) > 0:
		r.Bad("append@Compute", pos, "%s: a deleted parent version would receive updates", strings.Join(c11Uniq(bad), "; "))
	default:
		r.OK("append@Compute", pos, "on every path, every append to an osm.Updates list follows the decision parents[I].Visible() == true for exactly one I, and a list indexed per parent is indexed by that I (%d append events)", nApp)
	}
}

// ---------------------------------------------------------------------------
// A2 (Compute part): every error return is one of the documented kinds and gated by its option
// ---------------------------------------------------------------------------

func c11A2Compute(r *core.R) {
	m := c11GetModel(r)
	if m == nil {
		return
	}
	if m.unknownIfNotes("return@Compute") {
		return
	}
	why := map[string]string{
		"datasource-error":    "a datasource failure that is not a not-found must reach the caller unchanged, and a not-found must be handled by the IgnoreMissingChildren logic instead",
		"NoHistoryError":      "a missing child history must produce *NoHistoryError exactly when the datasource reports not-found and IgnoreMissingChildren is not set",
		"NoVisibleChildError": "a parent whose child has no visible version must produce *NoVisibleChildError exactly when IgnoreInconsistency is not set",
		"inconsistency":       "the \"child deleted between parent versions\" error must be produced only for a non-visible child version inside the update window and only when IgnoreInconsistency is not set",
	}
	notFound := func(st *c11St) c11Tri {
		return st.decided(-1, func(a *c11V) bool {
			rv, args, ok := a.isMethodCall(c11CorePath+".Datasourcer", "NotFound")
			return ok && rv.key() == m.H.key() && len(args) == 1 && args[0].key() == m.errT.key()
		})
	}
	childInvisible := func(st *c11St) bool { // some child[k].Visible decided false
		for _, a := range st.as {
			if !a.val && a.atom.k == "field" && a.atom.obj.Name() == "Visible" {
				if _, ok := m.childAt(a.atom.xs[0]); ok {
					return true
				}
			}
		}
		return false
	}
	type agg struct {
		n       int
		missing []string
		pos     token.Pos
		proof   string
	}
	kinds := map[string]*agg{}
	get := func(k string) *agg {
		if kinds[k] == nil {
			kinds[k] = &agg{}
		}
		return kinds[k]
	}
	for _, p := range m.paths {
		if p.ctl != c11Return || len(p.res) == 0 {
			continue
		}
		e := p.res[len(p.res)-1]
		if e.k == "nil" {
			continue
		}
		st := p.st
		var missing []string
		req := func(ok bool, what string) {
			if !ok {
				missing = append(missing, what)
			}
		}
		kind := ""
		b := c11StripPtr(e)
		switch {
		case e.key() == m.errT.key():
			kind = "datasource-error"
			req(st.isNil(m.errT, -1) == c11F, "err != nil")
			req(notFound(st) == c11F, "!NotFound(err)")
		case b.k == "struct" && strings.HasPrefix(namedPath(b.typ), c11CorePath+"."):
			kind = strings.TrimPrefix(namedPath(b.typ), c11CorePath+".")
			switch kind {
			case "NoHistoryError":
				req(st.isNil(m.errT, -1) == c11F, "err != nil")
				req(notFound(st) == c11T, "NotFound(err)")
				req(m.optIs(st, -1, "IgnoreMissingChildren") == c11F, "!opts.IgnoreMissingChildren")
			case "NoVisibleChildError":
				cur := m.curOf(st, m.groupIdx(st, -1))
				req(cur != nil && st.isNil(cur, -1) == c11T, "child.FindVisible(<this parent>) == nil (no visible child found)")
				req(m.optIs(st, -1, "IgnoreInconsistency") == c11F, "!opts.IgnoreInconsistency")
			default:
				r.Unknown("return@Compute "+kind, c11Pos(p.ret), "`%s` returns a typed error that is not among the documented ones (NoHistoryError, NoVisibleChildError)", src(r.P.Fset, p.ret))
				continue
			}
			if o := st.heap[b.id]; o == nil || o.f["ChildID"] == nil || o.f["ChildID"].key() != m.fidT.key() {
				missing = append(missing, "ChildID set from the id whose history was requested")
			}
		default:
			kind = "inconsistency"
			req(childInvisible(st), "!child[k].Visible")
			req(m.optIs(st, -1, "IgnoreInconsistency") == c11F, "!opts.IgnoreInconsistency")
		}
		a := get(kind)
		a.n++
		a.pos = c11Pos(p.ret)
		if len(missing) > 0 {
			a.missing = append(a.missing, "`"+src(r.P.Fset, p.ret)+"` ("+r.P.Rel(a.pos)+") is reached on a path that has not decided / does not carry: "+strings.Join(missing, "; "))
		}
	}
	for _, k := range []string{"datasource-error", "NoHistoryError", "NoVisibleChildError", "inconsistency"} {
		c := "return@Compute " + k
		a := kinds[k]
		switch {
		case a == nil:
			r.Bad(c, m.fi.Decl.Pos(), "core.Compute has no %s return: %s", k, why[k])
		case len(a.missing) > 0:
			r.Bad(c, a.pos, "%s. %s", strings.Join(c11Uniq(a.missing), "; "), why[k])
		default:
			r.OK(c, a.pos, "every one of the %d paths returning it has taken the required decisions (%s)", a.n, why[k])
		}
	}
}
