package rules

import "osmcheck/core"

// Representation changes of ObjectID.Type (C05.J3 reads the Type constant of each element type by evaluation, so the
// rule must not care how the kind bits are mapped back to a Type): a map keyed by the mask, a table indexed by the
// tag bits. c05J3Benign must be silent; c05J3Mutants put a wrong entry into the same tables.

const c05ObjectIDType = "func (id ObjectID) Type() Type {\n\tswitch id & typeMask {\n\tcase nodeMask:\n\t\treturn TypeNode\n\tcase wayMask:\n\t\treturn TypeWay\n\tcase relationMask:\n\t\treturn TypeRelation\n\tcase changesetMask:\n\t\treturn TypeChangeset\n\tcase noteMask:\n\t\treturn TypeNote\n\tcase userMask:\n\t\treturn TypeUser\n\tcase boundsMask:\n\t\treturn TypeBounds\n\t}\n\n\tpanic(\"unknown type\")\n}\n"

func c05TypeByMap(way string) string {
	return "var typeOfMask = map[ObjectID]Type{\n\tnodeMask:      TypeNode,\n\twayMask:       " + way + ",\n\trelationMask:  TypeRelation,\n\tchangesetMask: TypeChangeset,\n\tnoteMask:      TypeNote,\n\tuserMask:      TypeUser,\n\tboundsMask:    TypeBounds,\n}\n\n// Type returns the Type of the object.\nfunc (id ObjectID) Type() Type {\n\tif t, ok := typeOfMask[id&typeMask]; ok {\n\t\treturn t\n\t}\n\n\tpanic(\"unknown type\")\n}\n"
}

func c05TypeByTable(note string) string {
	return "const typeTagShift = 56\n\nvar typeByTag = [typeMask>>typeTagShift + 1]Type{\n\tboundsMask >> typeTagShift:    TypeBounds,\n\tnodeMask >> typeTagShift:      TypeNode,\n\twayMask >> typeTagShift:       TypeWay,\n\trelationMask >> typeTagShift:  TypeRelation,\n\tchangesetMask >> typeTagShift: TypeChangeset,\n\tnoteMask >> typeTagShift:      " + note + ",\n\tuserMask >> typeTagShift:      TypeUser,\n}\n\n// Type returns the Type of the object.\nfunc (id ObjectID) Type() Type {\n\tt := typeByTag[int64(id&typeMask)>>typeTagShift]\n\tif t == \"\" {\n\t\tpanic(\"unknown type\")\n\t}\n\n\treturn t\n}\n"
}

var c05J3Benign = []core.Mutant{
	{Name: "j3-type-from-map-by-mask", File: "object.go", Find: c05ObjectIDType, Replace: c05TypeByMap("TypeWay")},
	{Name: "j3-type-from-table-by-tag-bits", File: "object.go", Find: c05ObjectIDType, Replace: c05TypeByTable("TypeNote")},
}

var c05J3Mutants = []core.Mutant{
	{Name: "j3-map-entry-of-other-type", File: "object.go", Find: c05ObjectIDType, Replace: c05TypeByMap("TypeRelation"), ExpectRule: "J3", ExpectConstruct: "name@Way"},
	{Name: "j3-table-entry-of-other-type", File: "object.go", Find: c05ObjectIDType, Replace: c05TypeByTable("TypeUser"), ExpectRule: "J3", ExpectConstruct: "name@Note"},
}
