package rules

import (
	"encoding/json"
	"fmt"
	"go/ast"
	"go/token"
	"go/types"
	"strings"

	"golang.org/x/tools/go/cfg"

	"osmcheck/core"
)

// Unexported identifiers the C05 rules are keyed on: none by name. The codec helpers are found by role
// (package-level functions of package osm that consult the exported variables CustomJSONMarshaler /
// CustomJSONUnmarshaler; today marshalJSON and unmarshalJSON), the type reader as the function whose result the
// dispatch switch of OSM.UnmarshalJSON switches on (today findType), the flattening as the expression that
// feeds the `elements` key of the struct OSM.MarshalJSON marshals (today o.Objects()).

func init() {
	register(&core.Property{
		ID:    "C05",
		Title: "OSM JSON output is osmjson-shaped and round-trips up to tag order",
		Explanation: "Structural necessary conditions on the hand-written JSON codec of package osm: " +
			"(J1) every exported field of osm.OSM is written by OSM.MarshalJSON, under a top-level key or through the flattening that feeds the `elements` key, and every Go type that flattening can append has a field with JSON key `type` whose type's MarshalJSON returns one string literal L(T); " +
			"(J2) OSM.UnmarshalJSON switches on the `type` key, has for every L(T) a case that unmarshals into a new T and stores it into the OSM field holding *T, ends in an error default, and reads every top-level key OSM.MarshalJSON writes back into the field it was written from; " +
			"(J3) L(T) equals T's XML element name and the osm.Type constant T's object id decodes to; " +
			"(J4) in every UnmarshalJSON method, a decoded shim field of interface or pointer type reaches a formatting/conversion call (fmt, strconv, unchecked type assertion, dereference) only on paths where it was tested non-nil (go/cfg dominance), so an absent key stays empty; " +
			"(J5) shapes: Tags marshal as map[string]string, WayNodes as []int64 built from ID, Relation.Members is never omitted and the empty branch of Members.MarshalJSON returns `[]`, a zero Date marshals as null, the osmjson keys of tables/osmjson.json are carried by the documented fields; every (un)marshal operation of the codec goes through the helpers that consult the installed codec (a direct encoding/json call is accepted only on operands whose JSON form involves no Go-level convention: basic types, slices and string-keyed maps of them). " +
			"NOT decided: equality of round-tripped values, tag order, and whether a user-installed codec implements JSON and Go's struct-tag conventions the way encoding/json does (a run-time configuration).",
		Assumptions: []string{"go/types, go/cfg (x/tools v0.29.0)", "documented naming rules of encoding/json (struct tags, omitempty, Marshaler/Unmarshaler in the method set)", "tables/osmjson.json transcribes the osmjson documentation correctly"},
		LevelText:   "Structural necessary conditions of the osmjson shape and of the JSON round trip: the writer's flattening and the reader's dispatch table agree type by type on one literal per type, which equals the XML name and the Type constant; optional decoded fields are nil-tested on every path before being formatted; container shapes and key names match osmjson; the codec helpers cannot be bypassed. Value equality and third-party codec behaviour are not decided.",
		LevelNote:   "Trusts the type checker, go/cfg dominance and the documented naming rules of encoding/json; covers package osm's hand-written MarshalJSON/UnmarshalJSON methods and the functions they call.",
		Technique:   "type-resolved writer/reader table agreement (flattening vs dispatch switch), struct-tag model of encoding/json, CFG dominance of nil tests over formatting calls, call-site routing rule for the codec helpers",
		DesignRef:   "DESIGN.md §5 C05, §3.3",
		Rules: []*core.Rule{
			{ID: "J1", Floor: 19, Doc: "every field of OSM is carried into the document; every flattened element type carries a literal JSON `type` (flattening anchor + 12 fields + 6 element types)", Run: c05J1},
			{ID: "J2", Floor: 13, Doc: "reader table: type key, one well-formed case per L(T), error default, top-level keys read back", Run: c05J2},
			{ID: "J3", Floor: 6, Doc: "L(T) = XML name of T = Type constant of T's object id", Run: c05J3},
			{ID: "J4", Floor: 3, Doc: "nilable shim fields are nil-tested on every path to a formatting/conversion call", Run: c05J4},
			{ID: "J5", Floor: 56, Doc: "shapes (tags object, node id array, members never null, null date), osmjson key names, codec routing", Run: c05J5},
			{ID: "J6", Floor: 1, Doc: "interface-typed shim fields (version: number or string) are converted totally over dynamic types", Run: c05J6},
		},
		Mutants: []core.Mutant{
			{Name: "j6-version-type-switch-no-default", File: "osm.go", Find: "\tif s.Version != nil {\n\t\to.Version = fmt.Sprintf(\"%v\", s.Version)\n\t}", Replace: "\tswitch v := s.Version.(type) {\n\tcase string:\n\t\to.Version = v\n\tcase float64:\n\t\to.Version = fmt.Sprint(v)\n\t}", ExpectRule: "J6", ExpectConstruct: "Version"},
			{Name: "way-type-key-renamed", File: "way.go", Find: "xmlNameJSONTypeWay `xml:\"way\" json:\"type\"`", Replace: "xmlNameJSONTypeWay `xml:\"way\" json:\"kind\"`", ExpectRule: "J1", ExpectConstruct: "type@Way"},
			{Name: "license-not-written", File: "osm.go", Find: "}{o.Version, o.Generator, o.Copyright, o.Attribution, o.License, o.Objects()}", Replace: "}{o.Version, o.Generator, o.Copyright, o.Attribution, \"\", o.Objects()}", ExpectRule: "J1", ExpectConstruct: "carried@OSM.License"},
			{Name: "note-type-not-literal", File: "json.go", Find: "func (x xmlNameJSONTypeNote) MarshalJSON() ([]byte, error) {\n\treturn []byte(`\"note\"`), nil", Replace: "func (x xmlNameJSONTypeNote) MarshalJSON() ([]byte, error) {\n\treturn marshalJSON(x.Local)", ExpectRule: "J1", ExpectConstruct: "type@Note"},
			{Name: "reader-no-user-case", File: "osm.go", Find: "\t\tcase \"user\":\n\t\t\tu := &User{}\n\t\t\terr = unmarshalJSON(data, u)\n\t\t\tif err != nil {\n\t\t\t\treturn err\n\t\t\t}\n\t\t\to.Users = append(o.Users, u)\n", Replace: "", ExpectRule: "J2", ExpectConstruct: "case \"user\""},
			{Name: "reader-changeset-label", File: "osm.go", Find: "\t\tcase \"changeset\":\n\t\t\tcs := &Changeset{}", Replace: "\t\tcase \"changesets\":\n\t\t\tcs := &Changeset{}", ExpectRule: "J2", ExpectConstruct: "case \"changeset\""},
			{Name: "reader-default-ignores", File: "osm.go", Find: "\t\tdefault:\n\t\t\treturn fmt.Errorf(\"unknown type of '%s' for element index %d\", t, index)", Replace: "\t\tdefault:\n\t\t\tcontinue", ExpectRule: "J2", ExpectConstruct: "default@"},
			{Name: "reader-generator-from-copyright", File: "osm.go", Find: "o.Generator = s.Generator", Replace: "o.Generator = s.Copyright", ExpectRule: "J2", ExpectConstruct: "top generator"},
			{Name: "reader-relation-not-stored", File: "osm.go", Find: "\t\t\to.Relations = append(o.Relations, r)\n", Replace: "\t\t\t_ = r\n", ExpectRule: "J2", ExpectConstruct: "case \"relation\""},
			{Name: "relation-literal-rel", File: "json.go", Find: "return []byte(`\"relation\"`), nil", Replace: "return []byte(`\"rel\"`), nil", ExpectRule: "J3", ExpectConstruct: "name@Relation"},
			{Name: "type-const-way-capitalised", File: "feature.go", Find: "TypeWay       Type = \"way\"", Replace: "TypeWay       Type = \"Way\"", ExpectRule: "J3", ExpectConstruct: "name@Way"},
			{Name: "generator-interface-formatted", File: "osm.go",
				Find:       "\t\tGenerator   string             `json:\"generator\"`\n\t\tCopyright   string             `json:\"copyright\"`\n\t\tAttribution string             `json:\"attribution\"`\n\t\tLicense     string             `json:\"license\"`\n\t\tElements    []nocopyRawMessage `json:\"elements\"`\n\t}{}\n\n\terr := unmarshalJSON(data, &s)\n\tif err != nil {\n\t\treturn err\n\t}\n\n\to.Version = fmt.Sprintf(\"%v\", s.Version)\n\to.Generator = s.Generator",
				Replace:    "\t\tGenerator   interface{}        `json:\"generator\"`\n\t\tCopyright   string             `json:\"copyright\"`\n\t\tAttribution string             `json:\"attribution\"`\n\t\tLicense     string             `json:\"license\"`\n\t\tElements    []nocopyRawMessage `json:\"elements\"`\n\t}{}\n\n\terr := unmarshalJSON(data, &s)\n\tif err != nil {\n\t\treturn err\n\t}\n\n\to.Version = fmt.Sprintf(\"%v\", s.Version)\n\to.Generator = fmt.Sprint(s.Generator)",
				ExpectRule: "J4", ExpectConstruct: "s.Generator"},
			{Name: "license-pointer-dereferenced", File: "osm.go",
				Find:       "\t\tLicense     string             `json:\"license\"`\n\t\tElements    []nocopyRawMessage `json:\"elements\"`\n\t}{}\n\n\terr := unmarshalJSON(data, &s)\n\tif err != nil {\n\t\treturn err\n\t}\n\n\to.Version = fmt.Sprintf(\"%v\", s.Version)\n\to.Generator = s.Generator\n\to.Copyright = s.Copyright\n\to.Attribution = s.Attribution\n\to.License = s.License",
				Replace:    "\t\tLicense     *string            `json:\"license\"`\n\t\tElements    []nocopyRawMessage `json:\"elements\"`\n\t}{}\n\n\terr := unmarshalJSON(data, &s)\n\tif err != nil {\n\t\treturn err\n\t}\n\n\to.Version = fmt.Sprintf(\"%v\", s.Version)\n\to.Generator = s.Generator\n\to.Copyright = s.Copyright\n\to.Attribution = s.Attribution\n\to.License = *s.License",
				ExpectRule: "J4", ExpectConstruct: "s.License"},
			{Name: "members-omitempty", File: "relation.go", Find: "Members Members `xml:\"member\" json:\"members\"`", Replace: "Members Members `xml:\"member\" json:\"members,omitempty\"`", ExpectRule: "J5", ExpectConstruct: "shape@Relation.Members"},
			{Name: "members-empty-null", File: "relation.go", Find: "return []byte(`[]`), nil", Replace: "return []byte(`null`), nil", ExpectRule: "J5", ExpectConstruct: "shape@Members.MarshalJSON"},
			{Name: "date-zero-empty-string", File: "note.go", Find: "return []byte(`null`), nil", Replace: "return []byte(`\"\"`), nil", ExpectRule: "J5", ExpectConstruct: "shape@Date.MarshalJSON"},
			{Name: "tags-as-array", File: "tag.go", Find: "return marshalJSON(ts.Map())", Replace: "return marshalJSON([]Tag(ts))", ExpectRule: "J5", ExpectConstruct: "shape@Tags.MarshalJSON"},
			{Name: "waynodes-version-array", File: "way.go", Find: "a = append(a, int64(n.ID))", Replace: "a = append(a, int64(n.Version))", ExpectRule: "J5", ExpectConstruct: "shape@WayNodes.MarshalJSON"},
			{Name: "node-tags-key-renamed", File: "node.go", Find: "`xml:\"tag\" json:\"tags,omitempty\"`", Replace: "`xml:\"tag\" json:\"tag,omitempty\"`", ExpectRule: "J5", ExpectConstruct: "key@Node tags"},
			{Name: "tags-std-marshal-direct", File: "tag.go", Find: "return marshalJSON(ts.Map())", Replace: "return json.Marshal(struct{ Tags map[string]string }{ts.Map()})", ExpectRule: "J5", ExpectConstruct: "codec@Tags.MarshalJSON"},
			{Name: "members-custom-codec-direct", File: "relation.go", Find: "return marshalJSON([]Member(ms))", Replace: "return CustomJSONMarshaler.Marshal([]Member(ms))", ExpectRule: "J5", ExpectConstruct: "codec@Members.MarshalJSON"},
			{Name: "helper-branches-swapped", File: "json.go", Find: "if CustomJSONUnmarshaler == nil {", Replace: "if CustomJSONUnmarshaler != nil {", ExpectRule: "J5", ExpectConstruct: "helper@unmarshalJSON"},
		},
	})
}

// ---- codec helpers and (un)marshal calls ---------------------------------------------------------

// c05Helpers finds the codec helper functions by role: package-level functions of package osm whose body
// mentions the exported variable CustomJSONMarshaler (-> "marshal") or CustomJSONUnmarshaler (-> "unmarshal").
func c05Helpers(p *core.Program) map[*types.Func]string {
	pk := c03OsmPkg(p)
	out := map[*types.Func]string{}
	mv := pk.Types.Scope().Lookup("CustomJSONMarshaler")
	uv := pk.Types.Scope().Lookup("CustomJSONUnmarshaler")
	for _, fi := range allFuncs(pk) {
		if fi.Obj.Type().(*types.Signature).Recv() != nil {
			continue
		}
		if mv != nil && usesObj(pk.TypesInfo, fi.Decl.Body, mv) {
			out[fi.Obj] = "marshal"
		}
		if uv != nil && usesObj(pk.TypesInfo, fi.Decl.Body, uv) {
			out[fi.Obj] = "unmarshal"
		}
	}
	return out
}

// c05Codec is one marshal / unmarshal operation in a function body.
type c05CodecCall struct {
	call    *ast.CallExpr
	dir     string   // marshal | unmarshal
	operand ast.Expr // value marshalled / destination (a leading & removed)
	via     string   // helper | std | custom (a method called on a Custom* variable)
	fn      *types.Func
}

func c05CodecCalls(p *core.Program, info *types.Info, body ast.Node, helpers map[*types.Func]string) []c05CodecCall {
	pk := c03OsmPkg(p)
	mv := pk.Types.Scope().Lookup("CustomJSONMarshaler")
	uv := pk.Types.Scope().Lookup("CustomJSONUnmarshaler")
	var out []c05CodecCall
	ast.Inspect(body, func(n ast.Node) bool {
		call, ok := n.(*ast.CallExpr)
		if !ok {
			return true
		}
		fn := callee(info, call)
		cc := c05CodecCall{call: call, fn: fn}
		switch {
		case fn != nil && helpers[fn] != "":
			cc.dir, cc.via = helpers[fn], "helper"
		case isPkgFunc(fn, "encoding/json", "Marshal") || isPkgFunc(fn, "encoding/json", "MarshalIndent"):
			cc.dir, cc.via = "marshal", "std"
		case isPkgFunc(fn, "encoding/json", "Unmarshal"):
			cc.dir, cc.via = "unmarshal", "std"
		case isMethod(fn, "encoding/json.Encoder", "Encode"):
			cc.dir, cc.via = "marshal", "std"
		case isMethod(fn, "encoding/json.Decoder", "Decode"):
			cc.dir, cc.via = "unmarshal", "std"
		default:
			sel, ok := ast.Unparen(call.Fun).(*ast.SelectorExpr)
			if !ok {
				return true
			}
			switch o := objOf(info, sel.X); {
			case o != nil && o == mv:
				cc.dir, cc.via = "marshal", "custom"
			case o != nil && o == uv:
				cc.dir, cc.via = "unmarshal", "custom"
			default:
				return true
			}
		}
		if len(call.Args) == 0 {
			return true
		}
		op := call.Args[len(call.Args)-1]
		if cc.dir == "marshal" {
			op = call.Args[0]
		}
		op = ast.Unparen(op)
		if ue, ok := op.(*ast.UnaryExpr); ok && ue.Op == token.AND {
			op = ast.Unparen(ue.X)
		}
		cc.operand = op
		out = append(out, cc)
		return true
	})
	return out
}

// c05ByteLit evaluates `[]byte(<constant string>)`.
func c05ByteLit(info *types.Info, e ast.Expr) (string, bool) {
	call, ok := ast.Unparen(e).(*ast.CallExpr)
	if !ok || len(call.Args) != 1 {
		return "", false
	}
	tv, ok := info.Types[call.Fun]
	if !ok || !tv.IsType() {
		return "", false
	}
	sl, ok := tv.Type.Underlying().(*types.Slice)
	if !ok {
		return "", false
	}
	if b, ok := sl.Elem().Underlying().(*types.Basic); !ok || b.Kind() != types.Uint8 {
		return "", false
	}
	return constString(info, call.Args[0])
}

// c05Returns lists the return statements of a function body (function literals excluded).
func c05Returns(body *ast.BlockStmt) []*ast.ReturnStmt {
	var out []*ast.ReturnStmt
	inspectNoLit(body, func(n ast.Node) bool {
		if rs, ok := n.(*ast.ReturnStmt); ok {
			out = append(out, rs)
		}
		return true
	})
	return out
}

// c05TypeLiteral returns the string L such that MarshalJSON of t is `return []byte(`"L"`), nil` and nothing else.
func c05TypeLiteral(p *core.Program, t types.Type) (string, token.Pos, string) {
	if c03Implements(p, t, "encoding/json", "Marshaler") == "" {
		return "", token.NoPos, c03Short(t) + " has no MarshalJSON method: the key's value is run-time data, not a fixed type name"
	}
	fi := c03FuncInfoOf(p, c03Method(t, "MarshalJSON"))
	if fi == nil {
		return "", token.NoPos, "MarshalJSON of " + c03Short(t) + " is declared outside the repository"
	}
	rets := c05Returns(fi.Decl.Body)
	if len(rets) != 1 || len(rets[0].Results) != 2 {
		return "", fi.Decl.Pos(), fmt.Sprintf("%s has %d return statements; accepted: exactly one `return []byte(`\"name\"`), nil`", fi.Name(), len(rets))
	}
	raw, ok := c05ByteLit(fi.Pkg.TypesInfo, rets[0].Results[0])
	if !ok {
		return "", rets[0].Pos(), fi.Name() + " does not return a constant byte string: `" + c03Src(rets[0]) + "`"
	}
	var s string
	if err := json.Unmarshal([]byte(raw), &s); err != nil {
		return "", rets[0].Pos(), fmt.Sprintf("%s returns %s, which is not a JSON string", fi.Name(), raw)
	}
	return s, rets[0].Pos(), ""
}

// ---- the flattening ------------------------------------------------------------------------------

// c05Shim is a struct value (un)marshalled in place of the receiver.
type c05Shim struct {
	Var    types.Object // local variable holding it (may be nil for an inline literal)
	Type   types.Type
	Values map[*types.Var]ast.Expr // marshal side: initialiser per field
	Pos    token.Pos
}

// c05MarshalShim finds the struct OSM.MarshalJSON hands to the codec.
func c05MarshalShim(r *core.R, fi *FuncInfo, helpers map[*types.Func]string) *c05Shim {
	info := fi.Pkg.TypesInfo
	for _, cc := range c05CodecCalls(r.P, info, fi.Decl.Body, helpers) {
		if cc.dir != "marshal" {
			continue
		}
		var lit *ast.CompositeLit
		sh := &c05Shim{Pos: cc.call.Pos()}
		switch x := cc.operand.(type) {
		case *ast.CompositeLit:
			lit = x
		case *ast.Ident:
			sh.Var = objOf(info, x)
			ast.Inspect(fi.Decl.Body, func(n ast.Node) bool {
				if as, ok := n.(*ast.AssignStmt); ok {
					for i, l := range as.Lhs {
						if i < len(as.Rhs) && objOf(info, l) == sh.Var {
							if cl, ok := ast.Unparen(as.Rhs[i]).(*ast.CompositeLit); ok {
								lit = cl
							}
						}
					}
				}
				return true
			})
		}
		if lit == nil {
			continue
		}
		st, ok := info.TypeOf(lit).Underlying().(*types.Struct)
		if !ok {
			continue
		}
		sh.Type = info.TypeOf(lit)
		sh.Values = map[*types.Var]ast.Expr{}
		for i, el := range lit.Elts {
			if kv, ok := el.(*ast.KeyValueExpr); ok {
				if k, _ := kv.Key.(*ast.Ident); k != nil {
					for j := 0; j < st.NumFields(); j++ {
						if st.Field(j).Name() == k.Name {
							sh.Values[st.Field(j)] = kv.Value
						}
					}
				}
			} else if i < st.NumFields() {
				sh.Values[st.Field(i)] = el
			}
		}
		return sh
	}
	return nil
}

// c05Flat is one Go type the flattening can put into the elements array.
type c05Flat struct {
	T   types.Type // static type of the appended value (e.g. *osm.Node)
	Pos token.Pos
	Src string
}

// c05AppendedTo returns the static types of the values appended to slice variable v in fi. Idioms:
//
//	v = append(v, x)                          x of concrete (pointer) type
//	for _, x := range <src> { [if _, ok := x.(*T); ok { continue }]... v = append(v, x) }
//	                                          x of interface type, <src> a call to / variable filled from a
//	                                          function of the package whose own appends are known
func c05AppendedTo(r *core.R, fi *FuncInfo, v types.Object, depth int) ([]c05Flat, string) {
	info := fi.Pkg.TypesInfo
	par := parentsOf(r.P, fi)
	var out []c05Flat
	why := ""
	// initialiser: v := f(...)
	ast.Inspect(fi.Decl.Body, func(n ast.Node) bool {
		as, ok := n.(*ast.AssignStmt)
		if !ok {
			return true
		}
		for i, l := range as.Lhs {
			if i >= len(as.Rhs) || objOf(info, l) != v {
				continue
			}
			call, ok := ast.Unparen(as.Rhs[i]).(*ast.CallExpr)
			if !ok {
				if _, isSlice := ast.Unparen(as.Rhs[i]).(*ast.SliceExpr); isSlice {
					why = "the element list is re-sliced (`" + src(r.P.Fset, as) + "`): which elements remain is not decidable statically"
				}
				continue
			}
			switch builtinName(info, call) {
			case "make":
				continue
			case "append":
				if len(call.Args) < 2 || objOf(info, call.Args[0]) != v {
					why = "append onto another slice: `" + src(r.P.Fset, as) + "`"
					continue
				}
				if call.Ellipsis.IsValid() {
					fl, w := c05TypesOfExpr(r, fi, call.Args[1], depth)
					out, why = append(out, fl...), c05First(why, w)
					continue
				}
				for _, a := range call.Args[1:] {
					at := info.TypeOf(a)
					if _, isIface := at.Underlying().(*types.Interface); !isIface {
						out = append(out, c05Flat{T: at, Pos: a.Pos(), Src: src(r.P.Fset, a)})
						continue
					}
					// interface-typed loop variable of a range over a known source, minus excluded types
					rs, _ := enclosing(par, as, func(n ast.Node) bool { _, ok := n.(*ast.RangeStmt); return ok }).(*ast.RangeStmt)
					if rs == nil || rs.Value == nil || objOf(info, rs.Value) != objOf(info, a) || objOf(info, a) == nil {
						why = "a value of interface type " + c03Short(at) + " is appended outside the enumerated range-filter idiom: `" + src(r.P.Fset, as) + "`"
						continue
					}
					fl, w := c05TypesOfExpr(r, fi, rs.X, depth)
					why = c05First(why, w)
					excl := c05ExcludedTypes(info, rs, objOf(info, a), as)
					for _, f := range fl {
						skip := false
						for _, x := range excl {
							if types.Identical(x, f.T) {
								skip = true
							}
						}
						if !skip {
							out = append(out, f)
						}
					}
				}
			default:
				fl, w := c05TypesOfExpr(r, fi, call, depth)
				out, why = append(out, fl...), c05First(why, w)
			}
		}
		return true
	})
	return out, why
}

func c05First(a, b string) string {
	if a != "" {
		return a
	}
	return b
}

// c05ExcludedTypes: statements of the range body before the append of the form
// `if _, ok := x.(*T); ok { continue }` exclude *T.
func c05ExcludedTypes(info *types.Info, rs *ast.RangeStmt, x types.Object, before ast.Stmt) []types.Type {
	var out []types.Type
	for _, st := range rs.Body.List {
		if st.Pos() >= before.Pos() {
			break
		}
		ifs, ok := st.(*ast.IfStmt)
		if !ok || ifs.Init == nil || ifs.Else != nil || len(ifs.Body.List) != 1 {
			continue
		}
		bs, ok := ifs.Body.List[0].(*ast.BranchStmt)
		if !ok || bs.Tok != token.CONTINUE {
			continue
		}
		as, ok := ifs.Init.(*ast.AssignStmt)
		if !ok || len(as.Lhs) != 2 || len(as.Rhs) != 1 {
			continue
		}
		ta, ok := ast.Unparen(as.Rhs[0]).(*ast.TypeAssertExpr)
		if !ok || ta.Type == nil || objOf(info, ta.X) != x || objOf(info, ifs.Cond) != objOf(info, as.Lhs[1]) || objOf(info, ifs.Cond) == nil {
			continue
		}
		out = append(out, info.TypeOf(ta.Type))
	}
	return out
}

// c05TypesOfExpr returns the element types of a slice-valued expression: a call to a function of the package
// (the types appended to the variable it returns) or a local variable.
func c05TypesOfExpr(r *core.R, fi *FuncInfo, e ast.Expr, depth int) ([]c05Flat, string) {
	info := fi.Pkg.TypesInfo
	e = ast.Unparen(e)
	if depth > 3 {
		return nil, "flattening nested too deeply"
	}
	switch x := e.(type) {
	case *ast.CallExpr:
		fn := callee(info, x)
		ci := c03FuncInfoOf(r.P, fn)
		if ci == nil || ci.Decl.Body == nil {
			return nil, "the element list comes from `" + src(r.P.Fset, e) + "`, which is not a function of the repository"
		}
		var out []c05Flat
		why := ""
		nres := 0
		for _, rs := range c05Returns(ci.Decl.Body) {
			if len(rs.Results) == 0 {
				continue
			}
			res := ast.Unparen(rs.Results[0])
			if id, ok := res.(*ast.Ident); ok && id.Name == "nil" {
				continue
			}
			o := objOf(ci.Pkg.TypesInfo, res)
			if o == nil {
				why = ci.Name() + " returns `" + src(r.P.Fset, res) + "`, not a variable"
				continue
			}
			nres++
			fl, w := c05AppendedTo(r, ci, o, depth+1)
			out, why = append(out, fl...), c05First(why, w)
		}
		if nres == 0 && why == "" {
			why = ci.Name() + " has no return of a slice variable"
		}
		return out, why
	case *ast.Ident:
		if o := objOf(info, x); o != nil {
			return c05AppendedTo(r, fi, o, depth+1)
		}
	case *ast.SelectorExpr:
		// a field of the receiver: its element type
		if f := fieldOf(info, x); f != nil {
			if sl, ok := f.Type().Underlying().(*types.Slice); ok {
				return []c05Flat{{T: sl.Elem(), Pos: x.Pos(), Src: src(r.P.Fset, x)}}, ""
			}
		}
	}
	return nil, "element list expression `" + src(r.P.Fset, e) + "` is outside the enumerated idioms (call of a package function, local variable, receiver field)"
}

// c05Flattening resolves the types OSM.MarshalJSON can write into the elements array.
type c05Flattening struct {
	ma      *FuncInfo
	shim    *c05Shim
	elemKey *c03JSONField
	expr    ast.Expr
	types   []c05Flat // deduplicated
	unknown string
}

func c05FindFlattening(r *core.R) *c05Flattening {
	pk := c03OsmPkg(r.P)
	ma := findFunc(pk, "OSM.MarshalJSON")
	if ma == nil {
		r.Anchor("osm.OSM.MarshalJSON")
		return nil
	}
	sh := c05MarshalShim(r, ma, c05Helpers(r.P))
	if sh == nil {
		r.Anchor("the struct OSM.MarshalJSON hands to the JSON codec")
		return nil
	}
	fl := &c05Flattening{ma: ma, shim: sh}
	fl.elemKey = c03JSONKey(sh.Type, "elements")
	if fl.elemKey == nil {
		r.Anchor("field with JSON key `elements` in the struct OSM.MarshalJSON marshals")
		return nil
	}
	fl.expr = sh.Values[fl.elemKey.Var]
	if fl.expr == nil {
		fl.unknown = "the `elements` field of the marshalled struct has no initialiser"
		return fl
	}
	ts, why := c05TypesOfExpr(r, ma, fl.expr, 0)
	fl.unknown = why
	seen := map[string]bool{}
	for _, t := range ts {
		k := types.TypeString(t.T, nil)
		if !seen[k] {
			seen[k] = true
			fl.types = append(fl.types, t)
		}
	}
	return fl
}

// c05TypeKeyOf returns the JSON `type` field of struct T and its literal.
func c05TypeKeyOf(p *core.Program, t types.Type) (*c03JSONField, string, token.Pos, string) {
	jf := c03JSONKey(t, "type")
	if jf == nil {
		return nil, "", token.NoPos, ""
	}
	lit, pos, why := c05TypeLiteral(p, jf.Var.Type())
	return jf, lit, pos, why
}

// ---- J1 --------------------------------------------------------------------------------------

func c05J1(r *core.R) {
	c03Init(r)
	fl := c05FindFlattening(r)
	if fl == nil {
		return
	}
	if fl.unknown != "" {
		r.Unknown("flatten@OSM.MarshalJSON", fl.shim.Pos, "cannot enumerate what `%s` puts into the elements array: %s", src(r.P.Fset, fl.expr), fl.unknown)
	} else {
		var names []string
		for _, t := range fl.types {
			names = append(names, c03Short(t.T))
		}
		r.OK("flatten@OSM.MarshalJSON", fl.expr.Pos(), "key `elements` is fed by `%s`, which can append %d type(s): %s", src(r.P.Fset, fl.expr), len(fl.types), strings.Join(names, ", "))
	}
	// every field of osm.OSM is carried into the document: by a top-level key or through the elements array
	if osmNT, st := structType(c03OsmPkg(r.P), "OSM"); osmNT != nil && fl.unknown == "" {
		minfo := fl.ma.Pkg.TypesInfo
		mrecv := c03Receiver(fl.ma)
		for i := 0; i < st.NumFields(); i++ {
			f := st.Field(i)
			if !f.Exported() {
				continue
			}
			c := "carried@OSM." + f.Name()
			key := ""
			for _, jf := range c03JSONFields(fl.shim.Type) {
				if v := fl.shim.Values[jf.Var]; v != nil && jf != fl.elemKey && fieldOf(minfo, v) == f && rootObj(minfo, v) == mrecv {
					key = jf.Key
				}
			}
			via := ""
			for _, t := range fl.types {
				if types.Identical(c03Deref(t.T), c03ElemType(f.Type())) {
					via = t.Src
				}
			}
			switch {
			case key != "":
				r.OK(c, f.Pos(), "written under top-level key %q", key)
			case via != "":
				r.OK(c, f.Pos(), "written into the elements array (`%s`)", via)
			default:
				r.Bad(c, f.Pos(), "OSM.%s (%s) is written neither under a top-level key nor into the elements array by OSM.MarshalJSON: it is silently lost over a JSON round trip", f.Name(), c03Short(f.Type()))
			}
		}
	}
	for _, t := range fl.types {
		T := c03Deref(t.T)
		c := "type@" + c03TypeName(T)
		if _, isStruct := T.Underlying().(*types.Struct); !isStruct {
			r.Unknown(c, t.Pos, "`%s` appends a %s, not a (pointer to a) struct", t.Src, c03Short(t.T))
			continue
		}
		jf, lit, pos, why := c05TypeKeyOf(r.P, T)
		switch {
		case jf == nil:
			r.Bad(c, t.Pos, "`%s` puts a %s into the elements array but %s has no field with JSON key `type`: the element is written without its type (osmjson requires one per element) and OSM.UnmarshalJSON rejects the document (\"could not find type\")", t.Src, c03Short(t.T), c03Short(T))
		case why != "":
			r.Bad(c, c05PosOr(pos, jf.Var.Pos()), "the `type` key of %s is carried by field %s, but %s", c03Short(T), jf.Var.Name(), why)
		case c03Implements(r.P, jf.Var.Type(), "encoding/json", "Marshaler") == "pointer":
			r.Bad(c, jf.Var.Pos(), "MarshalJSON of %s has a pointer receiver: it is not used for the non-addressable field value, the key is written as the raw struct", c03Short(jf.Var.Type()))
		default:
			r.OK(c, pos, "%s.%s carries JSON key `type`; %s.MarshalJSON returns the literal %q", c03Short(T), jf.Var.Name(), c03Short(jf.Var.Type()), lit)
		}
	}
}

func c05PosOr(a, b token.Pos) token.Pos {
	if a.IsValid() {
		return a
	}
	return b
}

// ---- J2 --------------------------------------------------------------------------------------

// c05Reader is the dispatch switch of OSM.UnmarshalJSON.
type c05Reader struct {
	un     *FuncInfo
	sw     *c03Switch
	tagSrc *FuncInfo // function whose result the switch tag holds
}

func c05FindReader(r *core.R) *c05Reader {
	pk := c03OsmPkg(r.P)
	un := findFunc(pk, "(*OSM).UnmarshalJSON")
	if un == nil {
		r.Anchor("osm.(*OSM).UnmarshalJSON")
		return nil
	}
	info := pk.TypesInfo
	rd := &c05Reader{un: un}
	for _, sw := range c03StringSwitches(info, un.Decl.Body) {
		o := objOf(info, sw.Stmt.Tag)
		if o == nil {
			continue
		}
		// t, err := f(...)
		ast.Inspect(un.Decl.Body, func(n ast.Node) bool {
			as, ok := n.(*ast.AssignStmt)
			if !ok || len(as.Rhs) != 1 || len(as.Lhs) == 0 || objOf(info, as.Lhs[0]) != o {
				return true
			}
			if call, ok := ast.Unparen(as.Rhs[0]).(*ast.CallExpr); ok {
				if ci := c03FuncInfoOf(r.P, callee(info, call)); ci != nil {
					rd.tagSrc = ci
				}
			}
			return true
		})
		rd.sw = sw
	}
	if rd.sw == nil {
		r.Anchor("switch on the element type in osm.(*OSM).UnmarshalJSON")
		return nil
	}
	return rd
}

// c05CaseInfo describes one case of the reader: the type allocated, decoded and stored.
type c05CaseInfo struct {
	T       types.Type // allocated struct type
	Field   *types.Var // receiver field the value is stored into
	Append  bool
	Why     string
	Pos     token.Pos
	Decoded bool
}

func c05AnalyseCase(r *core.R, rd *c05Reader, cs c03Case, helpers map[*types.Func]string) c05CaseInfo {
	info := rd.un.Pkg.TypesInfo
	recv := c03Receiver(rd.un)
	ci := c05CaseInfo{Pos: cs.Clause.Pos()}
	var v types.Object
	for _, cc := range c05CodecCalls(r.P, info, cs.Clause, helpers) {
		if cc.dir != "unmarshal" {
			continue
		}
		v = rootObj(info, cc.operand)
		ci.Decoded = true
		ci.Pos = cc.call.Pos()
	}
	if v == nil {
		ci.Why = "the case never unmarshals the element"
		return ci
	}
	ci.T = c03NewOf(info, cs.Clause, v)
	if ci.T == nil {
		ci.Why = fmt.Sprintf("%s is not allocated as &T{} in the case body", v.Name())
		return ci
	}
	ast.Inspect(cs.Clause, func(n ast.Node) bool {
		as, ok := n.(*ast.AssignStmt)
		if !ok || len(as.Lhs) != 1 || len(as.Rhs) != 1 || as.Pos() < ci.Pos {
			return true
		}
		f := fieldOf(info, as.Lhs[0])
		if f == nil || rootObj(info, as.Lhs[0]) != recv {
			return true
		}
		rhs := ast.Unparen(as.Rhs[0])
		if call, ok := rhs.(*ast.CallExpr); ok && builtinName(info, call) == "append" && len(call.Args) == 2 && sameExpr(info, call.Args[0], as.Lhs[0]) && objOf(info, call.Args[1]) == v {
			ci.Field, ci.Append = f, true
		} else if objOf(info, rhs) == v {
			ci.Field = f
		}
		return true
	})
	if ci.Field == nil {
		ci.Why = fmt.Sprintf("the decoded %s is never stored into the receiver (expected `o.F = append(o.F, %s)`)", v.Name(), v.Name())
		return ci
	}
	holds := ci.Field.Type()
	if ci.Append {
		holds = ci.Field.Type().Underlying().(*types.Slice).Elem()
	}
	if !types.Identical(c03Deref(holds), c03Deref(ci.T)) {
		ci.Why = fmt.Sprintf("a %s is stored into OSM.%s, which holds %s", c03Short(ci.T), ci.Field.Name(), c03Short(holds))
	}
	return ci
}

func c05J2(r *core.R) {
	c03Init(r)
	helpers := c05Helpers(r.P)
	rd := c05FindReader(r)
	fl := c05FindFlattening(r)
	if rd == nil || fl == nil {
		return
	}
	info := rd.un.Pkg.TypesInfo
	// the switch tag is the `type` key of the element
	switch {
	case rd.tagSrc == nil:
		r.Unknown("typekey@(*OSM).UnmarshalJSON", rd.sw.Stmt.Pos(), "the switch tag `%s` is not the result of a function of the package", src(r.P.Fset, rd.sw.Stmt.Tag))
	default:
		ok := false
		var key string
		for _, cc := range c05CodecCalls(r.P, rd.tagSrc.Pkg.TypesInfo, rd.tagSrc.Decl.Body, helpers) {
			if cc.dir != "unmarshal" {
				continue
			}
			t := rd.tagSrc.Pkg.TypesInfo.TypeOf(cc.operand)
			for _, jf := range c03JSONFields(t) {
				// the field must be what the function returns
				for _, rs := range c05Returns(rd.tagSrc.Decl.Body) {
					if len(rs.Results) > 0 && fieldOf(rd.tagSrc.Pkg.TypesInfo, rs.Results[0]) == jf.Var {
						key = jf.Key
						ok = jf.Key == "type"
					}
				}
			}
		}
		if ok {
			r.OK("typekey@"+rd.tagSrc.Name(), rd.tagSrc.Decl.Pos(), "the dispatch value is the element's JSON key `type`, read by %s", rd.tagSrc.Name())
		} else {
			r.Bad("typekey@"+rd.tagSrc.Name(), rd.tagSrc.Decl.Pos(), "%s returns the element's JSON key %q, not `type`: the reader dispatches on something the writer does not write", rd.tagSrc.Name(), key)
		}
	}
	// cases
	cases := map[string]c05CaseInfo{}
	for _, cs := range rd.sw.Cases {
		cases[cs.Label] = c05AnalyseCase(r, rd, cs, helpers)
	}
	handled := map[string]bool{}
	for _, t := range fl.types {
		T := c03Deref(t.T)
		jf, lit, _, why := c05TypeKeyOf(r.P, T)
		if jf == nil || why != "" {
			c := "case@" + c03TypeName(T)
			// is there any case that stores a T?
			var by string
			for l, ci := range cases {
				if ci.T != nil && types.Identical(c03Deref(ci.T), T) {
					by = l
				}
			}
			if by == "" {
				r.Bad(c, rd.sw.Stmt.Pos(), "OSM.MarshalJSON writes %s values into the elements array (`%s`) but OSM.UnmarshalJSON has no case that reads one back (and the element carries no usable `type`): a marshalled OSM holding one cannot be unmarshalled", c03Short(t.T), t.Src)
			} else {
				r.Bad(c, rd.sw.Stmt.Pos(), "case %q stores a %s but the writer gives %s elements no literal `type`", by, c03Short(t.T), c03Short(T))
			}
			continue
		}
		c := fmt.Sprintf("case %q@(*OSM).UnmarshalJSON", lit)
		handled[lit] = true
		ci, ok := cases[lit]
		switch {
		case !ok:
			r.Bad(c, rd.sw.Stmt.Pos(), "the writer emits elements with \"type\":%q (%s) but OSM.UnmarshalJSON has no case %q: such a document is rejected by the default branch", lit, c03Short(t.T), lit)
		case ci.Why != "":
			r.Bad(c, ci.Pos, "case %q: %s", lit, ci.Why)
		case !types.Identical(c03Deref(ci.T), T):
			r.Bad(c, ci.Pos, "elements with \"type\":%q are written from %s but case %q decodes them into %s", lit, c03Short(T), lit, c03Short(ci.T))
		default:
			how := "assigns it to"
			if ci.Append {
				how = "appends it to"
			}
			r.OK(c, ci.Pos, "unmarshals into a new %s and %s OSM.%s", c03Short(ci.T), how, ci.Field.Name())
		}
	}
	for _, cs := range rd.sw.Cases {
		if handled[cs.Label] {
			continue
		}
		ci := cases[cs.Label]
		c := fmt.Sprintf("case %q@(*OSM).UnmarshalJSON", cs.Label)
		if ci.Why != "" {
			r.Bad(c, ci.Pos, "case %q: %s", cs.Label, ci.Why)
			continue
		}
		_, lit, _, _ := c05TypeKeyOf(r.P, ci.T)
		if lit != cs.Label {
			r.Bad(c, ci.Pos, "case %q decodes into %s, whose own `type` literal is %q", cs.Label, c03Short(ci.T), lit)
		} else {
			r.OK(c, ci.Pos, "reads a type the flattening never writes (accepted: reading more than is written)")
		}
	}
	// default
	switch {
	case rd.sw.Default == nil:
		r.Bad("default@(*OSM).UnmarshalJSON", rd.sw.Stmt.Pos(), "no default branch: an element of unknown type is silently dropped")
	default:
		okErr := false
		if n := len(rd.sw.Default.Body); n > 0 {
			if rs, ok := rd.sw.Default.Body[n-1].(*ast.ReturnStmt); ok && len(rs.Results) == 1 {
				res := ast.Unparen(rs.Results[0])
				id, isIdent := res.(*ast.Ident)
				if !(isIdent && id.Name == "nil") && info.TypeOf(res) != nil && types.AssignableTo(info.TypeOf(res), types.Universe.Lookup("error").Type()) {
					okErr = true
				}
			}
		}
		if okErr {
			r.OK("default@(*OSM).UnmarshalJSON", rd.sw.Default.Pos(), "an element of unknown type returns an error")
		} else {
			r.Bad("default@(*OSM).UnmarshalJSON", rd.sw.Default.Pos(), "the default branch does not return an error: an element whose type has no case is silently dropped, so a written element can vanish over a round trip")
		}
	}
	// top-level keys
	c05TopLevel(r, fl, rd, helpers)
}

// c05TopLevel: every key the writer's shim carries (other than elements) is read back into the OSM field it was
// written from.
func c05TopLevel(r *core.R, fl *c05Flattening, rd *c05Reader, helpers map[*types.Func]string) {
	info := rd.un.Pkg.TypesInfo
	mrecv, urecv := c03Receiver(fl.ma), c03Receiver(rd.un)
	// reader shim: struct variable whose address is unmarshalled into, outside the switch
	var rshim types.Object
	for _, cc := range c05CodecCalls(r.P, info, rd.un.Decl.Body, helpers) {
		if cc.dir == "unmarshal" && cc.call.Pos() < rd.sw.Stmt.Pos() {
			if o := objOf(info, cc.operand); o != nil {
				if _, ok := o.Type().Underlying().(*types.Struct); ok {
					rshim = o
				}
			}
		}
	}
	if rshim == nil {
		r.Anchor("the struct OSM.UnmarshalJSON decodes the document into")
		return
	}
	for _, jf := range c03JSONFields(fl.shim.Type) {
		if jf == fl.elemKey || jf.Key == fl.elemKey.Key {
			continue
		}
		c := "top " + jf.Key + "@OSM"
		val := fl.shim.Values[jf.Var]
		var from *types.Var
		if val != nil {
			ast.Inspect(val, func(n ast.Node) bool {
				if e, ok := n.(ast.Expr); ok {
					if f := fieldOf(fl.ma.Pkg.TypesInfo, e); f != nil && rootObj(fl.ma.Pkg.TypesInfo, e) == mrecv {
						from = f
					}
				}
				return true
			})
		}
		if from == nil {
			r.Unknown(c, fl.shim.Pos, "key %q is not written from a field of the receiver (`%s`)", jf.Key, src(r.P.Fset, val))
			continue
		}
		rf := c03JSONKey(rshim.Type(), jf.Key)
		if rf == nil {
			r.Bad(c, rshim.Pos(), "OSM.MarshalJSON writes OSM.%s under key %q but the struct OSM.UnmarshalJSON decodes into has no such key: the value is lost on unmarshalling", from.Name(), jf.Key)
			continue
		}
		// o.F = <expr mentioning s.G>, or mentioning a local derived from s.G: `v := s.G`,
		// `if v := s.G; ...`, `switch v := s.G.(type)` (the per-clause v)
		derived := map[types.Object]bool{}
		mentionsShim := func(n ast.Node) bool {
			found := false
			ast.Inspect(n, func(m ast.Node) bool {
				if e, ok := m.(ast.Expr); ok && fieldOf(info, e) == rf.Var && rootObj(info, e) == rshim {
					found = true
				}
				return !found
			})
			return found
		}
		ast.Inspect(rd.un.Decl.Body, func(n ast.Node) bool {
			switch x := n.(type) {
			case *ast.AssignStmt:
				for i, l := range x.Lhs {
					if id, ok := ast.Unparen(l).(*ast.Ident); ok && i < len(x.Rhs) && len(x.Lhs) == len(x.Rhs) && mentionsShim(x.Rhs[i]) {
						if o := objOf(info, id); o != nil && fieldOf(info, l) == nil {
							derived[o] = true
						}
					}
				}
			case *ast.TypeSwitchStmt:
				if mentionsShim(x.Assign) {
					for _, st := range x.Body.List {
						if o := info.Implicits[st]; o != nil {
							derived[o] = true
						}
					}
				}
			}
			return true
		})
		okAssign := false
		var wrong string
		var apos token.Pos
		ast.Inspect(rd.un.Decl.Body, func(n ast.Node) bool {
			as, ok := n.(*ast.AssignStmt)
			if !ok {
				return true
			}
			for i, l := range as.Lhs {
				if i >= len(as.Rhs) || fieldOf(info, l) == nil || rootObj(info, l) != urecv {
					continue
				}
				uses := mentionsShim(as.Rhs[i])
				ast.Inspect(as.Rhs[i], func(m ast.Node) bool {
					if id, ok := m.(*ast.Ident); ok && derived[info.Uses[id]] {
						uses = true
					}
					return true
				})
				if !uses {
					continue
				}
				if fieldOf(info, l).Name() == from.Name() {
					okAssign, apos = true, as.Pos()
				} else {
					wrong = fieldOf(info, l).Name()
				}
			}
			return true
		})
		switch {
		case okAssign:
			r.OK(c, apos, "written from OSM.%s, read back into OSM.%s", from.Name(), from.Name())
		case wrong != "":
			r.Bad(c, rshim.Pos(), "key %q is written from OSM.%s but read back into OSM.%s", jf.Key, from.Name(), wrong)
		default:
			r.Bad(c, rshim.Pos(), "key %q is written from OSM.%s and decoded, but never stored into OSM.%s: the value is lost on unmarshalling", jf.Key, from.Name(), from.Name())
		}
	}
}

// ---- J3 --------------------------------------------------------------------------------------

// c05TypeConstOf derives the osm.Type constant T's object id decodes to: the mask constants that label the
// cases of ObjectID.Type() and are referenced by the functions (*T).ObjectID reaches; exactly one is required.
func c05TypeConstOf(r *core.R, T types.Type) (string, string) {
	pk := c03OsmPkg(r.P)
	info := pk.TypesInfo
	tm := findFunc(pk, "ObjectID.Type")
	if tm == nil {
		return "", "osm.ObjectID.Type not found"
	}
	labels := map[types.Object]string{} // mask constant -> Type constant value
	ast.Inspect(tm.Decl.Body, func(n ast.Node) bool {
		cc, ok := n.(*ast.CaseClause)
		if !ok || len(cc.List) != 1 || len(cc.Body) != 1 {
			return true
		}
		rs, ok := cc.Body[0].(*ast.ReturnStmt)
		if !ok || len(rs.Results) != 1 {
			return true
		}
		if v, ok := constString(info, rs.Results[0]); ok {
			if o := objOf(info, cc.List[0]); o != nil {
				labels[o] = v
			}
		}
		return true
	})
	if len(labels) == 0 {
		return "", "ObjectID.Type() has no `case <mask>: return Type<X>` table"
	}
	om := c03FuncInfoOf(r.P, c03Method(T, "ObjectID"))
	if om == nil {
		return "", c03Short(T) + " has no ObjectID method in the repository"
	}
	hit := map[string]bool{}
	for _, fi := range c03Callees(r.P, om, 5) {
		ast.Inspect(fi.Decl.Body, func(n ast.Node) bool {
			if id, ok := n.(*ast.Ident); ok {
				if v, ok := labels[fi.Pkg.TypesInfo.Uses[id]]; ok {
					hit[v] = true
				}
			}
			return true
		})
	}
	ks := c03SortedKeys(hit)
	if len(ks) != 1 {
		return "", fmt.Sprintf("the functions (*%s).ObjectID reaches reference %d type masks %v; exactly one expected", c03TypeName(T), len(ks), ks)
	}
	return ks[0], ""
}

func c05J3(r *core.R) {
	c03Init(r)
	fl := c05FindFlattening(r)
	if fl == nil {
		return
	}
	pk := c03OsmPkg(r.P)
	osmNT, _ := structType(pk, "OSM")
	for _, t := range fl.types {
		T := c03Deref(t.T)
		jf, lit, pos, why := c05TypeKeyOf(r.P, T)
		if jf == nil || why != "" {
			continue // reported by J1
		}
		c := "name@" + c03TypeName(T)
		// XML name: XMLName tag, else the tag of the OSM field holding T
		xmlName := ""
		if ti := c03XMLTypeInfo(T); ti != nil && ti.XMLName != nil {
			xmlName = ti.XMLName.Name
		}
		if xmlName == "" && osmNT != nil {
			for _, f := range c03XMLTypeInfo(osmNT).Fields {
				if f.Kind == c03Elem && types.Identical(c03ElemType(f.Var.Type()), T) {
					xmlName = f.Name
				}
			}
		}
		tc, twhy := c05TypeConstOf(r, T)
		switch {
		case twhy != "":
			r.Unknown(c, pos, "cannot derive the osm.Type constant of %s: %s", c03Short(T), twhy)
		case xmlName != lit:
			r.Bad(c, pos, "JSON \"type\":%q but the XML element of %s is <%s>: the same object is named differently in the two formats (and by osm.Type)", lit, c03Short(T), xmlName)
		case tc != lit:
			r.Bad(c, pos, "JSON \"type\":%q but (*%s).ObjectID().Type() is %q: ids parsed from the JSON type (Type(%q).FeatureID, members' type) do not denote this kind of object", lit, c03TypeName(T), tc, lit)
		default:
			r.OK(c, pos, "JSON type literal, XML element name and osm.Type constant are all %q", lit)
		}
	}
}

// ---- J4 --------------------------------------------------------------------------------------

// c05IsConversionCallee: formatting / conversion functions that turn a nil into placeholder text or panic.
func c05IsConversionCallee(fn *types.Func) bool {
	if fn == nil || fn.Pkg() == nil {
		return false
	}
	switch fn.Pkg().Path() {
	case "fmt", "strconv":
		return true
	}
	return false
}

// c05NilGuarded: the use is dominated by a test of the shim field (or a single-assignment alias of it) against nil
// whose nil edge does not reach the use.
func c05NilGuarded(info *types.Info, g *cfg.CFG, dom map[*cfg.Block]map[*cfg.Block]bool, use ast.Node, isSel func(ast.Expr) bool) (bool, string) {
	ub, _ := blockOf(g, use.Pos())
	if ub == nil {
		return false, "use not located in the control-flow graph"
	}
	seenTest := ""
	for _, b := range g.Blocks {
		if !b.Live || len(b.Succs) != 2 || len(b.Nodes) == 0 {
			continue
		}
		be, ok := ast.Unparen(lastExpr(b)).(*ast.BinaryExpr)
		if !ok || (be.Op != token.NEQ && be.Op != token.EQL) {
			continue
		}
		isNil := func(e ast.Expr) bool { id, ok := ast.Unparen(e).(*ast.Ident); return ok && id.Name == "nil" }
		var other ast.Expr
		switch {
		case isNil(be.Y):
			other = be.X
		case isNil(be.X):
			other = be.Y
		default:
			continue
		}
		if !isSel(other) {
			continue
		}
		nilEdge := b.Succs[1]
		if be.Op == token.EQL {
			nilEdge = b.Succs[0]
		}
		if b == ub || !dom[ub][b] {
			seenTest = "`" + c03Src(be) + "` does not dominate the use"
			continue
		}
		if reachableFrom([]*cfg.Block{nilEdge}, func(x *cfg.Block) bool { return x == b })[ub] {
			seenTest = "the use is reachable from the nil edge of `" + c03Src(be) + "`"
			continue
		}
		return true, "`" + c03Src(be) + "`"
	}
	return false, seenTest
}

func c05J4(r *core.R) {
	c03Init(r)
	pk := c03OsmPkg(r.P)
	info := pk.TypesInfo
	helpers := c05Helpers(r.P)
	nm := 0
	for _, fi := range allFuncs(pk) {
		if fi.Obj.Name() != "UnmarshalJSON" || fi.Obj.Type().(*types.Signature).Recv() == nil {
			continue
		}
		// shims: struct-typed local variables the method unmarshals into
		var shims []types.Object
		ncalls := 0
		for _, cc := range c05CodecCalls(r.P, info, fi.Decl.Body, helpers) {
			if cc.dir != "unmarshal" {
				continue
			}
			ncalls++
			if o := objOf(info, cc.operand); o != nil {
				if _, ok := o.Type().Underlying().(*types.Struct); ok {
					shims = append(shims, o)
				}
			}
		}
		if ncalls == 0 {
			continue // does not decode anything (type-name shims, raw message)
		}
		nm++
		name := fi.Name()
		var g *cfg.CFG
		var dom map[*cfg.Block]map[*cfg.Block]bool
		nuse := 0
		for _, sh := range shims {
			st := sh.Type().Underlying().(*types.Struct)
			for i := 0; i < st.NumFields(); i++ {
				f := st.Field(i)
				switch f.Type().Underlying().(type) {
				case *types.Interface, *types.Pointer:
				default:
					continue
				}
				// uses of sh.f in conversion positions
				type use struct {
					node ast.Node
					sel  ast.Expr
					what string
				}
				var uses []use
				// local aliases `v := sh.f` (single assignment) denote the same value
				aliases := map[types.Object]bool{}
				nassign := map[types.Object]int{}
				ast.Inspect(fi.Decl.Body, func(n ast.Node) bool {
					if as, ok := n.(*ast.AssignStmt); ok {
						for i, l := range as.Lhs {
							o := objOf(info, l)
							if o == nil {
								continue
							}
							nassign[o]++
							if i < len(as.Rhs) && len(as.Lhs) == len(as.Rhs) && fieldOf(info, as.Rhs[i]) == f && rootObj(info, as.Rhs[i]) == sh {
								aliases[o] = true
							}
						}
					}
					return true
				})
				for o := range aliases {
					if nassign[o] != 1 {
						delete(aliases, o)
					}
				}
				isSel := func(e ast.Expr) bool {
					e = ast.Unparen(e)
					if fieldOf(info, e) == f && rootObj(info, e) == sh {
						return true
					}
					if id, ok := e.(*ast.Ident); ok && aliases[objOf(info, id)] && info.Uses[id] != nil {
						return true
					}
					return false
				}
				findSel := func(n ast.Node) ast.Expr {
					var res ast.Expr
					ast.Inspect(n, func(m ast.Node) bool {
						if e, ok := m.(ast.Expr); ok && res == nil && isSel(e) {
							res = e
						}
						return res == nil
					})
					return res
				}
				ast.Inspect(fi.Decl.Body, func(n ast.Node) bool {
					switch x := n.(type) {
					case *ast.CallExpr:
						if fn := callee(info, x); c05IsConversionCallee(fn) {
							for _, a := range x.Args {
								if s := findSel(a); s != nil {
									uses = append(uses, use{x, s, "formatted by " + fn.Pkg().Name() + "." + fn.Name()})
								}
							}
						}
					case *ast.StarExpr:
						if s := findSel(x.X); s != nil && s == ast.Unparen(x.X) {
							uses = append(uses, use{x, s, "dereferenced"})
						}
					case *ast.TypeAssertExpr:
						if x.Type == nil {
							return true // type switch
						}
						if s := findSel(x.X); s != nil && s == ast.Unparen(x.X) {
							// comma-ok form is safe
							if as, ok := parentsOf(r.P, fi)[x].(*ast.AssignStmt); ok && len(as.Lhs) == 2 {
								return true
							}
							uses = append(uses, use{x, s, "type-asserted without the comma-ok form"})
						}
					}
					return true
				})
				for _, u := range uses {
					nuse++
					if g == nil {
						g = newCFG(info, fi.Decl.Body)
						dom = dominators(g)
					}
					c := "nil@" + name + " " + src(r.P.Fset, u.sel)
					if ok, by := c05NilGuarded(info, g, dom, u.node, isSel); ok {
						r.OK(c, u.node.Pos(), "`%s`: %s (%s) is %s only where %s holds on every path", src(r.P.Fset, u.node), src(r.P.Fset, u.sel), c03Short(f.Type()), u.what, by)
					} else {
						extra := ""
						if by != "" {
							extra = " (" + by + ")"
						}
						zero := "\"<nil>\""
						if u.what != "formatted by fmt.Sprintf" && !strings.HasPrefix(u.what, "formatted by fmt") {
							zero = "a panic or a conversion error"
						}
						r.Bad(c, u.node.Pos(), "`%s`: %s has type %s and stays nil when the key is absent from the document, yet it is %s without a dominating nil test%s: an absent optional key turns into %s instead of staying empty",
							src(r.P.Fset, u.node), src(r.P.Fset, u.sel), c03Short(f.Type()), u.what, extra, zero)
					}
				}
			}
		}
		if nuse == 0 {
			r.OKTrivial("nil@"+name, fi.Decl.Pos(), "decodes through %d codec call(s); no interface- or pointer-typed shim field reaches a formatting/conversion call", ncalls)
		}
	}
	r.Stat("decoding_UnmarshalJSON_methods", nm)
}

// ---- J5 --------------------------------------------------------------------------------------

type c05KeyTable struct {
	Types []struct {
		Go   string `json:"go"`
		Doc  string `json:"doc"`
		Keys []struct {
			Key   string `json:"key"`
			Field string `json:"field"`
		} `json:"keys"`
	} `json:"types"`
}

// c05Neutral: the JSON form of a value of type t involves no Go-level convention (struct tags, method sets,
// case folding): basic types, slices/arrays/pointers of neutral types, string-keyed maps of neutral types.
func c05Neutral(p *core.Program, t types.Type) bool {
	for _, m := range [][2]string{{"encoding/json", "Marshaler"}, {"encoding/json", "Unmarshaler"}, {"encoding", "TextMarshaler"}, {"encoding", "TextUnmarshaler"}} {
		if c03Implements(p, t, m[0], m[1]) != "" {
			return false
		}
	}
	switch u := t.Underlying().(type) {
	case *types.Basic:
		return true
	case *types.Slice:
		return c05Neutral(p, u.Elem())
	case *types.Array:
		return c05Neutral(p, u.Elem())
	case *types.Pointer:
		return c05Neutral(p, u.Elem())
	case *types.Map:
		b, ok := u.Key().Underlying().(*types.Basic)
		return ok && b.Info()&types.IsString != 0 && c05Neutral(p, u.Key()) && c05Neutral(p, u.Elem())
	}
	return false
}

func c05J5(r *core.R) {
	c03Init(r)
	pk := c03OsmPkg(r.P)
	info := pk.TypesInfo
	helpers := c05Helpers(r.P)

	// the single marshal operand of a MarshalJSON method, and what it is routed through
	marshalOperand := func(fi *FuncInfo) (ast.Expr, *c05CodecCall) {
		ccs := c05CodecCalls(r.P, info, fi.Decl.Body, helpers)
		var hit *c05CodecCall
		n := 0
		for i := range ccs {
			if ccs[i].dir == "marshal" {
				hit = &ccs[i]
				n++
			}
		}
		if n != 1 {
			return nil, nil
		}
		return hit.operand, hit
	}

	// (a) Tags -> map[string]string
	if fi := findFunc(pk, "Tags.MarshalJSON"); fi == nil {
		r.Anchor("osm.Tags.MarshalJSON")
	} else if op, _ := marshalOperand(fi); op == nil {
		r.Unknown("shape@Tags.MarshalJSON", fi.Decl.Pos(), "expected exactly one marshal call")
	} else {
		t := info.TypeOf(op)
		m, ok := t.Underlying().(*types.Map)
		isStr := func(t types.Type) bool {
			b, ok := t.Underlying().(*types.Basic)
			return ok && b.Kind() == types.String
		}
		if ok && isStr(m.Key()) && isStr(m.Elem()) {
			r.OK("shape@Tags.MarshalJSON", op.Pos(), "marshals `%s` of type %s: a JSON object of key/value strings", src(r.P.Fset, op), c03Short(t))
		} else {
			r.Bad("shape@Tags.MarshalJSON", op.Pos(), "Tags.MarshalJSON marshals `%s` of type %s; osmjson requires tags as a JSON object, i.e. a map[string]string", src(r.P.Fset, op), c03Short(t))
		}
	}

	// (b) WayNodes -> []int64 of ID
	if fi := findFunc(pk, "WayNodes.MarshalJSON"); fi == nil {
		r.Anchor("osm.WayNodes.MarshalJSON")
	} else if op, _ := marshalOperand(fi); op == nil {
		r.Unknown("shape@WayNodes.MarshalJSON", fi.Decl.Pos(), "expected exactly one marshal call")
	} else {
		c := "shape@WayNodes.MarshalJSON"
		t := info.TypeOf(op)
		sl, ok := t.Underlying().(*types.Slice)
		isInt := false
		if ok {
			if b, ok := sl.Elem().Underlying().(*types.Basic); ok && b.Info()&types.IsInteger != 0 && c05Neutral(r.P, sl.Elem()) {
				isInt = true
			}
		}
		v := objOf(info, op)
		recv := c03Receiver(fi)
		// every element written into v is <int>(x.ID) with x ranging over the receiver
		nw, okw := 0, true
		var badSrc string
		ast.Inspect(fi.Decl.Body, func(n ast.Node) bool {
			as, ok := n.(*ast.AssignStmt)
			if !ok || len(as.Lhs) != 1 || len(as.Rhs) != 1 || v == nil || rootObj(info, as.Lhs[0]) != v {
				return true
			}
			var vals []ast.Expr
			if call, ok := ast.Unparen(as.Rhs[0]).(*ast.CallExpr); ok && builtinName(info, call) == "append" {
				vals = call.Args[1:]
			} else if _, isIdx := ast.Unparen(as.Lhs[0]).(*ast.IndexExpr); isIdx {
				vals = []ast.Expr{as.Rhs[0]}
			} else {
				return true // make(...)
			}
			for _, val := range vals {
				nw++
				e := ast.Unparen(val)
				if conv, ok := e.(*ast.CallExpr); ok && len(conv.Args) == 1 {
					if tv, ok := info.Types[conv.Fun]; ok && tv.IsType() {
						e = ast.Unparen(conv.Args[0])
					}
				}
				f := fieldOf(info, e)
				fromRecv := false
				if f != nil {
					x := rootObj(info, e)
					par := parentsOf(r.P, fi)
					if rs, _ := enclosing(par, as, func(n ast.Node) bool { _, ok := n.(*ast.RangeStmt); return ok }).(*ast.RangeStmt); rs != nil && objOf(info, rs.X) == recv {
						if (rs.Value != nil && objOf(info, rs.Value) == x) || x == recv {
							fromRecv = true
						}
					}
				}
				if f == nil || f.Name() != "ID" || !fromRecv {
					okw = false
					badSrc = src(r.P.Fset, val)
				}
			}
			return true
		})
		switch {
		case !isInt:
			r.Bad(c, op.Pos(), "WayNodes.MarshalJSON marshals `%s` of type %s; osmjson requires way nodes as an array of node ids (plain integers)", src(r.P.Fset, op), c03Short(t))
		case nw == 0:
			r.Unknown(c, op.Pos(), "no element is written into `%s`", src(r.P.Fset, op))
		case !okw:
			r.Bad(c, op.Pos(), "the array marshalled for a way's nodes is filled from `%s`, not from the way node's ID", badSrc)
		default:
			r.OK(c, op.Pos(), "marshals %s filled with the ID of every way node of the receiver", c03Short(t))
		}
	}

	// (c) Relation.Members never omitted; empty branch returns []
	if relNT, _ := structType(pk, "Relation"); relNT == nil {
		r.Anchor("osm.Relation")
	} else {
		jf := c03JSONKey(relNT, "members")
		switch {
		case jf == nil:
			r.Bad("shape@Relation.Members", relNT.Obj().Pos(), "osm.Relation has no field with JSON key `members`")
		case jf.OmitEmpty:
			r.Bad("shape@Relation.Members", jf.Var.Pos(), "Relation.%s is tagged omitempty: a relation without members is written without a `members` key (encoding/json omits an empty slice before it ever calls Members.MarshalJSON); osmjson consumers expect the array", jf.Var.Name())
		default:
			r.OK("shape@Relation.Members", jf.Var.Pos(), "JSON key `members` on Relation.%s, not omitempty", jf.Var.Name())
		}
	}
	c05EmptyBranch(r, "Members.MarshalJSON", "[]", func(cond ast.Expr, recv types.Object) bool {
		be, ok := ast.Unparen(cond).(*ast.BinaryExpr)
		if !ok || be.Op != token.EQL {
			return false
		}
		a := lenCallArg(info, be.X)
		v, isC := constInt(info, be.Y)
		return a != nil && objOf(info, a) == recv && isC && v == 0
	}, "a relation without members must marshal as \"members\":[] — with a nil slice encoding/json would write null")
	// (d) zero Date -> null
	c05EmptyBranch(r, "Date.MarshalJSON", "null", func(cond ast.Expr, recv types.Object) bool {
		call, ok := ast.Unparen(cond).(*ast.CallExpr)
		if !ok || !isMethod(callee(info, call), "time.Time", "IsZero") {
			return false
		}
		sel, ok := ast.Unparen(call.Fun).(*ast.SelectorExpr)
		return ok && rootObj(info, sel.X) == recv
	}, "an unset note date must marshal as null, not as year 1")

	// (e) osmjson key names
	c05Keys(r)

	// (f) codec routing
	c05Routing(r, helpers)
}

// c05EmptyBranch: method `name` has `if <emptyTest(recv)> { return []byte(`lit`), nil }`.
func c05EmptyBranch(r *core.R, name, lit string, isEmptyTest func(ast.Expr, types.Object) bool, why string) {
	pk := c03OsmPkg(r.P)
	info := pk.TypesInfo
	fi := findFunc(pk, name)
	c := "shape@" + name
	if fi == nil {
		r.Anchor("osm." + name)
		return
	}
	recv := c03Receiver(fi)
	found := false
	var got string
	var pos token.Pos = fi.Decl.Pos()
	for _, st := range fi.Decl.Body.List {
		ifs, ok := st.(*ast.IfStmt)
		if !ok || !isEmptyTest(ifs.Cond, recv) || len(ifs.Body.List) == 0 {
			continue
		}
		rs, ok := ifs.Body.List[len(ifs.Body.List)-1].(*ast.ReturnStmt)
		if !ok || len(rs.Results) != 2 {
			continue
		}
		found, pos = true, rs.Pos()
		if v, ok := c05ByteLit(info, rs.Results[0]); ok {
			got = v
		} else {
			got = "<" + src(r.P.Fset, rs.Results[0]) + ">"
		}
	}
	switch {
	case !found:
		r.Bad(c, pos, "%s has no early return on the empty value: %s", name, why)
	case got != lit:
		r.Bad(c, pos, "the empty branch of %s returns %s instead of the literal %s: %s", name, got, lit, why)
	default:
		r.OK(c, pos, "the empty branch returns the literal `%s`", lit)
	}
}

func c05Keys(r *core.R) {
	b, err := c03ReadTable("osmjson.json")
	var tbl c05KeyTable
	if err == nil {
		err = json.Unmarshal(b, &tbl)
	}
	if err != nil || len(tbl.Types) == 0 {
		r.Anchor(fmt.Sprintf("tables/osmjson.json: %v", err))
		return
	}
	pk := c03OsmPkg(r.P)
	var fl *c05Flattening
	for _, tt := range tbl.Types {
		nt, _ := structType(pk, tt.Go)
		if nt == nil {
			r.Anchor("type osm." + tt.Go + " (named in tables/osmjson.json)")
			continue
		}
		var target types.Type = nt
		if tt.Go == "OSM" {
			// the document object is the shim OSM.MarshalJSON marshals
			if fl == nil {
				fl = c05FindFlattening(r)
			}
			if fl == nil {
				continue
			}
			target = fl.shim.Type
		}
		for _, k := range tt.Keys {
			c := "key@" + tt.Go + " " + k.Key
			jf := c03JSONKey(target, k.Key)
			if jf == nil {
				r.Bad(c, nt.Obj().Pos(), "osmjson key %q of %s (%s) is not written: no field carries that JSON key", k.Key, tt.Go, tt.Doc)
				continue
			}
			if tt.Go == "OSM" {
				if k.Field == "*" {
					r.OK(c, jf.Var.Pos(), "document key %q carries the flattened element list", k.Key)
					continue
				}
				val := fl.shim.Values[jf.Var]
				from := ""
				if val != nil {
					if f := fieldOf(fl.ma.Pkg.TypesInfo, val); f != nil {
						from = f.Name()
					}
				}
				if from == k.Field {
					r.OK(c, jf.Var.Pos(), "document key %q is written from OSM.%s", k.Key, from)
				} else {
					r.Bad(c, jf.Var.Pos(), "document key %q is written from `%s`, osmjson puts OSM.%s there", k.Key, src(r.P.Fset, val), k.Field)
				}
				continue
			}
			if jf.Var.Name() != k.Field {
				r.Bad(c, jf.Var.Pos(), "osmjson key %q of %s is carried by %s.%s; its documented meaning belongs to %s.%s", k.Key, tt.Go, tt.Go, jf.Var.Name(), tt.Go, k.Field)
				continue
			}
			r.OK(c, jf.Var.Pos(), "key %q <- %s.%s", k.Key, tt.Go, k.Field)
		}
	}
}

// c05TypeLabel renders a type for a construct key; anonymous structs are abbreviated to their JSON keys.
func c05TypeLabel(t types.Type) string {
	inner := c03Deref(t)
	if _, named := inner.(*types.Named); !named {
		if _, ok := inner.Underlying().(*types.Struct); ok {
			var keys []string
			for _, f := range c03JSONFields(inner) {
				keys = append(keys, f.Key)
			}
			return "struct{" + strings.Join(keys, ",") + "}"
		}
	}
	return c03Short(t)
}

// c05Routing: inside the codec (MarshalJSON/UnmarshalJSON methods of package osm and the package functions they
// call) every (un)marshal operation goes through a helper; the helpers fall back to encoding/json exactly when
// no codec is installed.
func c05Routing(r *core.R, helpers map[*types.Func]string) {
	pk := c03OsmPkg(r.P)
	info := pk.TypesInfo
	if len(helpers) < 2 {
		r.Anchor("codec helpers consulting osm.CustomJSONMarshaler / osm.CustomJSONUnmarshaler")
	}
	// helpers
	for fn, dir := range helpers {
		fi := c03FuncInfoOf(r.P, fn)
		c := "helper@" + fn.Name()
		varName := map[string]string{"marshal": "CustomJSONMarshaler", "unmarshal": "CustomJSONUnmarshaler"}[dir]
		cv := pk.Types.Scope().Lookup(varName)
		g := newCFG(info, fi.Decl.Body)
		// find the test `cv == nil` / `cv != nil`
		var test *cfg.Block
		var nilEdge, setEdge *cfg.Block
		for _, b := range g.Blocks {
			if !b.Live || len(b.Succs) != 2 {
				continue
			}
			be, ok := ast.Unparen(lastExpr(b)).(*ast.BinaryExpr)
			if !ok || (be.Op != token.EQL && be.Op != token.NEQ) {
				continue
			}
			x, y := be.X, be.Y
			if id, ok := ast.Unparen(x).(*ast.Ident); ok && id.Name == "nil" {
				x, y = y, x
			}
			if id, ok := ast.Unparen(y).(*ast.Ident); !ok || id.Name != "nil" || objOf(info, x) != cv {
				continue
			}
			test = b
			if be.Op == token.EQL {
				nilEdge, setEdge = b.Succs[0], b.Succs[1]
			} else {
				nilEdge, setEdge = b.Succs[1], b.Succs[0]
			}
		}
		if test == nil {
			r.Unknown(c, fi.Decl.Pos(), "%s has no `%s == nil` test", fn.Name(), varName)
			continue
		}
		nilReg := reachableFrom([]*cfg.Block{nilEdge}, func(b *cfg.Block) bool { return b == test })
		setReg := reachableFrom([]*cfg.Block{setEdge}, func(b *cfg.Block) bool { return b == test })
		var stdPos, cusPos token.Pos
		bad := ""
		sig := fn.Type().(*types.Signature)
		for _, cc := range c05CodecCalls(r.P, info, fi.Decl.Body, map[*types.Func]string{}) {
			blk, _ := blockOf(g, cc.call.Pos())
			// all parameters handed on, in order
			okArgs := len(cc.call.Args) == sig.Params().Len()
			for i := 0; okArgs && i < sig.Params().Len(); i++ {
				if objOf(info, cc.call.Args[i]) != sig.Params().At(i) {
					okArgs = false
				}
			}
			switch {
			case cc.dir != dir:
				bad = fmt.Sprintf("`%s` is a %s operation inside the %s helper", src(r.P.Fset, cc.call), cc.dir, dir)
			case !okArgs:
				bad = fmt.Sprintf("`%s` does not hand on the helper's parameters unchanged", src(r.P.Fset, cc.call))
			case cc.via == "std":
				stdPos = cc.call.Pos()
				if !nilReg[blk] || setReg[blk] {
					bad = fmt.Sprintf("`%s` (encoding/json) is not confined to the branch where %s is nil: an installed codec is ignored", src(r.P.Fset, cc.call), varName)
				}
			case cc.via == "custom":
				cusPos = cc.call.Pos()
				if !setReg[blk] || nilReg[blk] {
					bad = fmt.Sprintf("`%s` is reachable while %s is nil: with the default configuration every JSON operation of the package panics with a nil dereference", src(r.P.Fset, cc.call), varName)
				}
			}
		}
		switch {
		case bad != "":
			r.Bad(c, fi.Decl.Pos(), "%s", bad)
		case !stdPos.IsValid() || !cusPos.IsValid():
			r.Bad(c, fi.Decl.Pos(), "%s must call encoding/json when %s is nil and the installed codec otherwise; one of the two calls is missing", fn.Name(), varName)
		default:
			r.OK(c, fi.Decl.Pos(), "%s == nil -> encoding/json, otherwise %s; parameters handed on unchanged", varName, varName)
		}
	}
	// codec scope: MarshalJSON/UnmarshalJSON methods + package functions they call (helpers excluded)
	seen := map[*types.Func]bool{}
	var scope []*FuncInfo
	for _, fi := range allFuncs(pk) {
		if (fi.Obj.Name() == "MarshalJSON" || fi.Obj.Name() == "UnmarshalJSON") && fi.Obj.Type().(*types.Signature).Recv() != nil {
			for _, ci := range c03Callees(r.P, fi, 3) {
				if !seen[ci.Obj] && helpers[ci.Obj] == "" {
					seen[ci.Obj] = true
					scope = append(scope, ci)
				}
			}
		}
	}
	r.Stat("json_codec_functions", len(scope))
	for _, fi := range scope {
		// restrict callees to codec-related ones: methods named Marshal/UnmarshalJSON, or functions containing a codec call
		ccs := c05CodecCalls(r.P, info, fi.Decl.Body, helpers)
		for _, cc := range ccs {
			ot := info.TypeOf(cc.operand)
			c := fmt.Sprintf("codec@%s %s(%s)", strings.NewReplacer("(*", "", ")", "").Replace(fi.Name()), cc.dir, c05TypeLabel(ot))
			switch cc.via {
			case "helper":
				r.OK(c, cc.call.Pos(), "`%s` goes through the codec helper %s", src(r.P.Fset, cc.call), cc.fn.Name())
			case "custom":
				r.Bad(c, cc.call.Pos(), "`%s` calls the installed codec variable directly: it is nil unless a codec was installed, so the default configuration panics here (the helper tests for nil)", src(r.P.Fset, cc.call))
			default:
				if c05Neutral(r.P, ot) {
					r.OKTrivial(c, cc.call.Pos(), "`%s` bypasses the helpers, accepted: the operand type %s has a codec-independent JSON form (no struct tags, no methods), so the result cannot depend on which codec is installed", src(r.P.Fset, cc.call), c03Short(ot))
				} else {
					r.Bad(c, cc.call.Pos(), "`%s` calls encoding/json directly on a %s: with a user-installed codec this part of the document is still handled by encoding/json (tags, method lookup, key matching by its rules), bypassing the configured codec", src(r.P.Fset, cc.call), c05TypeLabel(ot))
				}
			}
		}
	}
}
