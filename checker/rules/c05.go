package rules

import (
	"osmcheck/core"
)

// Unexported identifiers the C05 rules are keyed on: none. The codec helpers are found by role (package-level
// functions of package osm that consult the exported variables CustomJSONMarshaler / CustomJSONUnmarshaler); the
// writer and the reader are the MarshalJSON / UnmarshalJSON methods of osm.OSM with everything they call. The rules
// observe what these methods do under abstract inputs (rules/c05_model.go on top of the interpreter of
// rules/c03_eval.go); which helper contains which statement, local names and the surface form of the control flow do
// not matter.

func init() {
	register(&core.Property{
		ID:    "C05",
		Title: "OSM JSON output is osmjson-shaped and round-trips up to tag order",
		Explanation: "Structural necessary conditions on the hand-written JSON codec of package osm, decided on the observed behaviour of its MarshalJSON / UnmarshalJSON methods (explored path by path, with everything they call, by an abstract interpreter under fixed abstract inputs): " +
			"(J1) with every field set, on every path OSM.MarshalJSON hands the codec one struct in which every exported field of osm.OSM is carried, under a top-level key or as a member of the list under `elements`; every Go type that list can hold has a field with JSON key `type` whose type's MarshalJSON returns, on every path, one string literal L(T); " +
			"(J2) OSM.UnmarshalJSON dispatches on the `type` key decoded from the element's own bytes: for every L(T) the element is unmarshalled into a fresh T that the OSM field holding *T holds when the method returns; for any other value every path returns a non-nil error; every top-level key the writer writes reaches the field it was written from; " +
			"(J3) L(T) equals T's XML element name and the osm.Type constant T's object id decodes to; " +
			"(J4) in every UnmarshalJSON method, with an interface- or pointer-typed document field nil (key absent) no path formats it (fmt, strconv), dereferences it or asserts its type unchecked, so an absent key stays empty; " +
			"(J5) shapes: Tags marshal a map[string]string, WayNodes a []int64 filled from the way nodes' ID, Relation.Members is never omitted and an empty Members marshals as the literal `[]`, a zero Date as the literal null, the osmjson keys of tables/osmjson.json are carried by the documented fields; each codec helper performs exactly one operation with its parameters, through encoding/json when no codec is installed and through the installed codec otherwise; every (un)marshal operation reached from a MarshalJSON/UnmarshalJSON method uses the installed codec whenever one is installed (a direct encoding/json call is accepted only on operands whose JSON form involves no Go-level convention, or on paths taken only when no codec is installed) and never touches the codec variable while it is nil; " +
			"(J6) with an interface-typed document field (version: number or string) non-nil and of unknown dynamic type, a value computed from it reaches the receiver on every path that returns without error. " +
			"(J8) in every MarshalJSON method a time handed to the codec is the marshalled value's own time (moved to another zone at most; Truncate / Round lose the sub-second part), and a time formatted by hand that reaches the output uses a constant layout with fractional seconds that its reader parses: time.Time's own unmarshaler (RFC 3339 with nanoseconds) unless the type declares its own UnmarshalJSON, which must parse with the same layout. " +
			"NOT decided: equality of round-tripped values, tag order, and whether a user-installed codec implements JSON and Go's struct-tag conventions the way encoding/json does (a run-time configuration).",
		Assumptions: []string{"go/types (x/tools v0.29.0)", "documented naming rules of encoding/json (struct tags, omitempty, Marshaler/Unmarshaler in the method set)", "the path-enumerating abstract interpreter of rules/c03_eval.go (one iteration per loop, lists built on the path unrolled, calls outside the repository and the codec helpers opaque and assumed to succeed, function literals, method values, deferred calls, pointers to fields and never-reassigned unexported package-level tables are followed; goroutines, goto, generic functions and calls whose target is not known on the path make the exploration undecided)", "tables/osmjson.json transcribes the osmjson documentation correctly"},
		LevelText:   "Structural necessary conditions of the osmjson shape and of the JSON round trip: the writer's flattening and the reader's dispatch agree type by type on one literal per type, which equals the XML name and the Type constant; an absent optional key is never formatted or dereferenced; a value of any dynamic type reaches the receiver; container shapes and key names match osmjson; the installed codec is used whenever one is installed. Value equality and third-party codec behaviour are not decided.",
		LevelNote:   "Trusts the type checker, the documented naming rules of encoding/json and the abstract interpreter's modelling of the Go statements the codec uses (anything it does not model is reported as undecided); covers package osm's hand-written MarshalJSON/UnmarshalJSON methods and the functions they call.",
		Technique:   "abstract interpretation of the JSON codec methods over a finite set of scenarios (value of the `type` key, absent / dynamically typed document fields, codec installed or not, empty receiver), observing the (un)marshal operations with symbolic operands and the final receiver state; struct-tag model of encoding/json; writer/reader agreement on the observations",
		DesignRef:   "DESIGN.md §5 C05, §3.3",
		Rules: []*core.Rule{
			{ID: "J1", Floor: 19, Doc: "every field of OSM is carried into the document on every path; every element type carries a literal JSON `type` (flattening anchor + 12 fields + 6 element types)", Run: c05J1},
			{ID: "J2", Floor: 14, Doc: "reader: dispatch on the element's type key, one fresh well-placed object per L(T), error for other values, top-level keys read back (1 + 6 + 1 + 6)", Run: c05J2},
			{ID: "J3", Floor: 6, Doc: "L(T) = XML name of T = Type constant of T's object id", Run: c05J3},
			{ID: "J4", Floor: 3, Doc: "absent nilable document fields are never formatted / dereferenced / asserted (3 decoding UnmarshalJSON methods)", Run: c05J4},
			{ID: "J5", Floor: 42, Doc: "shapes (tags object, node id array, members never null, null date: 5), osmjson key names (35), codec helpers (2); plus one obligation per observed codec operation", Run: c05J5},
			{ID: "J6", Floor: 1, Doc: "interface-typed document fields (version: number or string) reach the receiver whatever their dynamic type", Run: c05J6},
			{ID: "J7", Floor: 6, Doc: "every JSON marshaler (MarshalJSON / MarshalText) of the package has a value receiver, so that it is in the method set of T and *T and a value that is not addressable is still written as osmjson (11 today)", Run: c05J7},
			{ID: "J8", Floor: 1, Doc: "times written into JSON keep their sub-second part: the codec gets the value's own time, or a hand-formatted string in a layout with fractional seconds that the reader parses (Date.MarshalJSON)", Run: c05J8},
		},
		Mutants: append([]core.Mutant{
			{Name: "j7-osm-marshaljson-pointer-receiver", File: "osm.go", Find: "func (o OSM) MarshalJSON(", Replace: "func (o *OSM) MarshalJSON(", ExpectRule: "J7", ExpectConstruct: "receiver@OSM.MarshalJSON"},
			{Name: "j6-version-type-switch-no-default", File: "osm.go", Find: "\tif s.Version != nil {\n\t\to.Version = fmt.Sprintf(\"%v\", s.Version)\n\t}", Replace: "\tswitch v := s.Version.(type) {\n\tcase string:\n\t\to.Version = v\n\tcase float64:\n\t\to.Version = fmt.Sprint(v)\n\t}", ExpectRule: "J6", ExpectConstruct: "Version"},
			{Name: "way-type-key-renamed", File: "way.go", Find: "xmlNameJSONTypeWay `xml:\"way\" json:\"type\"`", Replace: "xmlNameJSONTypeWay `xml:\"way\" json:\"kind\"`", ExpectRule: "J1", ExpectConstruct: "type@Way"},
			{Name: "license-not-written", File: "osm.go", Find: "}{o.Version, o.Generator, o.Copyright, o.Attribution, o.License, o.Bounds, elements}", Replace: "}{o.Version, o.Generator, o.Copyright, o.Attribution, \"\", o.Bounds, elements}", ExpectRule: "J1", ExpectConstruct: "carried@OSM.License"},
			{Name: "note-type-not-literal", File: "json.go", Find: "func (x xmlNameJSONTypeNote) MarshalJSON() ([]byte, error) {\n\treturn []byte(`\"note\"`), nil", Replace: "func (x xmlNameJSONTypeNote) MarshalJSON() ([]byte, error) {\n\treturn marshalJSON(x.Local)", ExpectRule: "J1", ExpectConstruct: "type@Note"},
			{Name: "reader-no-user-case", File: "osm.go", Find: "\t\tcase \"user\":\n\t\t\tu := &User{}\n\t\t\terr = unmarshalJSON(data, u)\n\t\t\tif err != nil {\n\t\t\t\treturn err\n\t\t\t}\n\t\t\to.Users = append(o.Users, u)\n", Replace: "", ExpectRule: "J2", ExpectConstruct: "case \"user\""},
			{Name: "reader-changeset-label", File: "osm.go", Find: "\t\tcase \"changeset\":\n\t\t\tcs := &Changeset{}", Replace: "\t\tcase \"changesets\":\n\t\t\tcs := &Changeset{}", ExpectRule: "J2", ExpectConstruct: "case \"changeset\""},
			{Name: "reader-default-ignores", File: "osm.go", Find: "\t\tdefault:\n\t\t\treturn fmt.Errorf(\"unknown type of '%s' for element index %d\", t, index)", Replace: "\t\tdefault:\n\t\t\tcontinue", ExpectRule: "J2", ExpectConstruct: "default@"},
			{Name: "reader-generator-from-copyright", File: "osm.go", Find: "o.Generator = s.Generator", Replace: "o.Generator = s.Copyright", ExpectRule: "J2", ExpectConstruct: "top generator"},
			{Name: "reader-relation-not-stored", File: "osm.go", Find: "\t\t\to.Relations = append(o.Relations, r)\n", Replace: "\t\t\t_ = r\n", ExpectRule: "J2", ExpectConstruct: "case \"relation\""},
			{Name: "relation-literal-rel", File: "json.go", Find: "return []byte(`\"relation\"`), nil", Replace: "return []byte(`\"rel\"`), nil", ExpectRule: "J3", ExpectConstruct: "name@Relation"},
			{Name: "type-const-way-capitalised", File: "feature.go", Find: "TypeWay       Type = \"way\"", Replace: "TypeWay       Type = \"Way\"", ExpectRule: "J3", ExpectConstruct: "name@Way"},
			{Name: "generator-interface-formatted", File: "osm.go",
				Find:       "\t\tGenerator   string             `json:\"generator\"`\n\t\tCopyright   string             `json:\"copyright\"`\n\t\tAttribution string             `json:\"attribution\"`\n\t\tLicense     string             `json:\"license\"`\n\t\tBounds      *Bounds            `json:\"bounds\"`\n\t\tElements    []nocopyRawMessage `json:\"elements\"`\n\t}{}\n\n\terr := unmarshalJSON(data, &s)\n\tif err != nil {\n\t\treturn err\n\t}\n\n\tif s.Version != nil {\n\t\to.Version = fmt.Sprintf(\"%v\", s.Version)\n\t}\n\to.Generator = s.Generator",
				Replace:    "\t\tGenerator   interface{}        `json:\"generator\"`\n\t\tCopyright   string             `json:\"copyright\"`\n\t\tAttribution string             `json:\"attribution\"`\n\t\tLicense     string             `json:\"license\"`\n\t\tBounds      *Bounds            `json:\"bounds\"`\n\t\tElements    []nocopyRawMessage `json:\"elements\"`\n\t}{}\n\n\terr := unmarshalJSON(data, &s)\n\tif err != nil {\n\t\treturn err\n\t}\n\n\tif s.Version != nil {\n\t\to.Version = fmt.Sprintf(\"%v\", s.Version)\n\t}\n\to.Generator = fmt.Sprint(s.Generator)",
				ExpectRule: "J4", ExpectConstruct: "doc.Generator"},
			{Name: "license-pointer-dereferenced", File: "osm.go",
				Find:       "\t\tLicense     string             `json:\"license\"`\n\t\tBounds      *Bounds            `json:\"bounds\"`\n\t\tElements    []nocopyRawMessage `json:\"elements\"`\n\t}{}\n\n\terr := unmarshalJSON(data, &s)\n\tif err != nil {\n\t\treturn err\n\t}\n\n\tif s.Version != nil {\n\t\to.Version = fmt.Sprintf(\"%v\", s.Version)\n\t}\n\to.Generator = s.Generator\n\to.Copyright = s.Copyright\n\to.Attribution = s.Attribution\n\to.License = s.License",
				Replace:    "\t\tLicense     *string            `json:\"license\"`\n\t\tBounds      *Bounds            `json:\"bounds\"`\n\t\tElements    []nocopyRawMessage `json:\"elements\"`\n\t}{}\n\n\terr := unmarshalJSON(data, &s)\n\tif err != nil {\n\t\treturn err\n\t}\n\n\tif s.Version != nil {\n\t\to.Version = fmt.Sprintf(\"%v\", s.Version)\n\t}\n\to.Generator = s.Generator\n\to.Copyright = s.Copyright\n\to.Attribution = s.Attribution\n\to.License = *s.License",
				ExpectRule: "J4", ExpectConstruct: "doc.License"},
			{Name: "members-omitempty", File: "relation.go", Find: "Members Members `xml:\"member\" json:\"members\"`", Replace: "Members Members `xml:\"member\" json:\"members,omitempty\"`", ExpectRule: "J5", ExpectConstruct: "shape@Relation.Members"},
			{Name: "members-empty-null", File: "relation.go", Find: "return []byte(`[]`), nil", Replace: "return []byte(`null`), nil", ExpectRule: "J5", ExpectConstruct: "shape@Members.MarshalJSON"},
			{Name: "date-zero-empty-string", File: "note.go", Find: "return []byte(`null`), nil", Replace: "return []byte(`\"\"`), nil", ExpectRule: "J5", ExpectConstruct: "shape@Date.MarshalJSON"},
			{Name: "tags-as-array", File: "tag.go", Find: "return marshalJSON(ts.Map())", Replace: "return marshalJSON([]Tag(ts))", ExpectRule: "J5", ExpectConstruct: "shape@Tags.MarshalJSON"},
			{Name: "waynodes-version-array", File: "way.go", Find: "a = append(a, int64(n.ID))", Replace: "a = append(a, int64(n.Version))", ExpectRule: "J5", ExpectConstruct: "shape@WayNodes.MarshalJSON"},
			{Name: "node-tags-key-renamed", File: "node.go", Find: "`xml:\"tag\" json:\"tags,omitempty\"`", Replace: "`xml:\"tag\" json:\"tag,omitempty\"`", ExpectRule: "J5", ExpectConstruct: "key@Node tags"},
			{Name: "tags-std-marshal-direct", File: "tag.go", Find: "return marshalJSON(ts.Map())", Replace: "return json.Marshal(struct{ Tags map[string]string }{ts.Map()})", ExpectRule: "J5", ExpectConstruct: "codec@Tags.MarshalJSON"},
			{Name: "members-custom-codec-direct", File: "relation.go", Find: "return marshalJSON([]Member(ms))", Replace: "return CustomJSONMarshaler.Marshal([]Member(ms))", ExpectRule: "J5", ExpectConstruct: "codec@Members.MarshalJSON"},
			{Name: "helper-branches-swapped", File: "json.go", Find: "if CustomJSONUnmarshaler == nil {", Replace: "if CustomJSONUnmarshaler != nil {", ExpectRule: "J5", ExpectConstruct: "helper@unmarshalJSON"},
		}, append(append(append([]core.Mutant{}, c05Mutants2...), c05TimeMutants...), c05J3Mutants...)...),
		Benign: append(append(append(append([]core.Mutant{}, c05Benign...), c05Benign2...), c05TimeBenign...), c05J3Benign...),
	})
}
