package rules

import (
	"fmt"
	"go/ast"
	"go/types"
	"sort"
	"strings"

	"osmcheck/core"
)

// c17MetaKeys is the externally specified layout of a feature's "meta" property (osmtogeojson): key -> the element
// attribute it carries. A key is present exactly when its own attribute is set.
var c17MetaKeys = map[string]string{"timestamp": "Timestamp", "version": "Version", "changeset": "ChangesetID", "user": "User", "uid": "UserID"}

// c17G11: every store `meta[K] = V` of a meta key in package osmgeojson carries the attribute the table names for K,
// and the conditions it is nested under mention no *other* element attribute (a key guarded by another attribute's
// presence disappears for elements that have the one and not the other). Every key of the table is stored for every
// element type the meta code distinguishes. Attributes are followed through locals (every assignment of the local).
func c17G11(r *core.R) {
	pk := r.P.Pkg(c17GeoPkg)
	if pk == nil {
		r.Anchor("package osmgeojson")
		return
	}
	info := pk.TypesInfo
	elemField := func(se *ast.SelectorExpr) (string, bool) {
		t := info.TypeOf(se.X)
		if t == nil {
			return "", false
		}
		if p, ok := t.(*types.Pointer); ok {
			t = p.Elem()
		}
		switch namedPath(t) {
		case core.ModulePath + ".Node", core.ModulePath + ".Way", core.ModulePath + ".Relation":
			if v, ok := info.Uses[se.Sel].(*types.Var); ok && v.IsField() {
				return se.Sel.Name, true
			}
		}
		return "", false
	}
	for _, fi := range allFuncs(pk) {
		// assignments of locals, for following attributes through them
		defs := map[types.Object][]ast.Expr{}
		ast.Inspect(fi.Decl.Body, func(n ast.Node) bool {
			switch x := n.(type) {
			case *ast.AssignStmt:
				if len(x.Lhs) == len(x.Rhs) {
					for i, l := range x.Lhs {
						if id, ok := ast.Unparen(l).(*ast.Ident); ok {
							if o := objOf(info, id); o != nil {
								defs[o] = append(defs[o], x.Rhs[i])
							}
						}
					}
				}
			case *ast.ValueSpec:
				if len(x.Names) == len(x.Values) {
					for i, id := range x.Names {
						if o := info.Defs[id]; o != nil {
							defs[o] = append(defs[o], x.Values[i])
						}
					}
				}
			}
			return true
		})
		var fields func(e ast.Node, seen map[types.Object]bool, out map[string]bool)
		fields = func(e ast.Node, seen map[types.Object]bool, out map[string]bool) {
			ast.Inspect(e, func(n ast.Node) bool {
				switch x := n.(type) {
				case *ast.FuncLit:
					return false
				case *ast.SelectorExpr:
					if f, ok := elemField(x); ok {
						out[f] = true
						return false
					}
				case *ast.Ident:
					if o, ok := info.Uses[x].(*types.Var); ok && !o.IsField() && !seen[o] {
						seen[o] = true
						for _, d := range defs[o] {
							fields(d, seen, out)
						}
					}
				}
				return true
			})
		}
		par := r.P.Parents(r.P.FileOf(fi.Pkg, fi.Decl.Pos()))
		stored := map[string]int{}
		var first ast.Node
		ast.Inspect(fi.Decl.Body, func(n ast.Node) bool {
			as, ok := n.(*ast.AssignStmt)
			if !ok || len(as.Lhs) != len(as.Rhs) {
				return true
			}
			for i, l := range as.Lhs {
				k, ok := c17PropKey(info, l)
				if !ok {
					continue
				}
				attr, isMeta := c17MetaKeys[k]
				if !isMeta {
					continue
				}
				vf := map[string]bool{}
				fields(as.Rhs[i], map[types.Object]bool{}, vf)
				if len(vf) == 0 {
					continue // not an element attribute: another map that happens to use the key
				}
				if first == nil {
					first = as
				}
				stored[k]++
				c := fmt.Sprintf("meta[%s]@%s", k, fi.Name())
				if n := stored[k]; n > 1 {
					c = fmt.Sprintf("%s#%d", c, n)
				}
				if !vf[attr] || len(vf) != 1 {
					r.Bad(c, as.Pos(), "meta key %q is filled from the element attribute(s) %s; the meta layout carries %s there", k, c17Keys(vf), attr)
					continue
				}
				gf := map[string]bool{}
				var child ast.Node = as
				for p := par[as]; p != nil; p = par[p] {
					if _, ok := p.(*ast.FuncDecl); ok {
						break
					}
					switch x := p.(type) {
					case *ast.IfStmt:
						if child != x.Init && child != x.Cond {
							fields(x.Cond, map[types.Object]bool{}, gf)
						}
					case *ast.CaseClause:
						for _, e := range x.List {
							fields(e, map[types.Object]bool{}, gf)
						}
						if sw, ok := par[par[x]].(*ast.SwitchStmt); ok && sw.Tag != nil {
							fields(sw.Tag, map[types.Object]bool{}, gf)
						}
					case *ast.ForStmt:
						if x.Cond != nil {
							fields(x.Cond, map[types.Object]bool{}, gf)
						}
					}
					child = p
				}
				delete(gf, attr)
				if len(gf) != 0 {
					r.Bad(c, as.Pos(), "meta key %q (attribute %s) is stored only under a condition on the other element attribute(s) %s: an element that has %s but not %s loses the key, though conversion carries every attribute that is set", k, attr, c17Keys(gf), attr, c17Keys(gf))
					continue
				}
				r.OK(c, as.Pos(), "meta key %q carries %s and is nested under conditions on that attribute only", k, attr)
			}
			return true
		})
		if len(stored) == 0 {
			continue
		}
		c := "meta keys@" + fi.Name()
		var missing []string
		for k := range c17MetaKeys {
			if stored[k] == 0 {
				missing = append(missing, k)
			}
		}
		sort.Strings(missing)
		uneven := false
		for _, n := range stored {
			for _, m := range stored {
				if n != m {
					uneven = true
				}
			}
		}
		switch {
		case len(missing) > 0:
			r.Bad(c, first.Pos(), "%s fills meta keys but never %s: these attributes are dropped from every feature", fi.Name(), strings.Join(missing, ", "))
		case uneven:
			r.Bad(c, first.Pos(), "%s stores the meta keys an unequal number of times (%v): some element type misses a key", fi.Name(), stored)
		default:
			r.OK(c, first.Pos(), "all %d keys of the meta layout are stored, each the same number of times (%d)", len(c17MetaKeys), stored["uid"])
		}
	}
}

func c17Keys(m map[string]bool) string {
	var ks []string
	for k := range m {
		ks = append(ks, k)
	}
	sort.Strings(ks)
	return strings.Join(ks, ", ")
}
