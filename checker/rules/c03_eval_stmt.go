package rules

import (
	"go/ast"
	"go/token"
	"go/types"
)

// control outcomes of executing a statement
const (
	c03Next = iota
	c03Break
	c03Continue
	c03Return
	c03Again // back edge of an unconditional `for` loop reached: the path ends
	c03Panic
	c03Stuck // a statement form the interpreter does not model
)

type c03Out struct {
	st    *c03State
	ctl   int
	label string
	ret   []*c03V
	loop  ast.Stmt
	why   string
	pos   token.Pos
	left  bool // a loop was left by break (used while unrolling)
}

func (x *c03Interp) stuck(st *c03State, n ast.Node, fr *c03Frame, why string) []c03Out {
	st.event(c03Event{Kind: "unsupported", Node: n, Frame: fr, Why: why})
	return []c03Out{{st: st, ctl: c03Stuck, why: why, pos: n.Pos()}}
}

func (x *c03Interp) execBlock(fr *c03Frame, st *c03State, list []ast.Stmt) []c03Out {
	outs := []c03Out{{st: st, ctl: c03Next}}
	for _, s := range list {
		var next []c03Out
		for _, o := range outs {
			if o.ctl != c03Next {
				next = append(next, o)
				continue
			}
			if x.Aborted != "" {
				next = append(next, c03Out{st: o.st, ctl: c03Stuck, why: x.Aborted, pos: s.Pos()})
				continue
			}
			next = append(next, x.execStmt(fr, o.st, s, "")...)
		}
		outs = next
	}
	return outs
}

// assign stores v into the lvalue e.
func (x *c03Interp) assign(fr *c03Frame, st *c03State, e ast.Expr, v *c03V) {
	info := fr.info()
	e = ast.Unparen(e)
	switch l := e.(type) {
	case *ast.Ident:
		if l.Name == "_" {
			return
		}
		if o, ok := objOf(info, l).(*types.Var); ok {
			st.vars[o] = v
		}
	case *ast.SelectorExpr:
		sel := info.Selections[l]
		if sel == nil || sel.Kind() != types.FieldVal {
			if o, ok := info.Uses[l.Sel].(*types.Var); ok { // pkg.Var = v
				st.vars[o] = v
			}
			return
		}
		// collect the whole field chain down to its base expression
		var fs []*types.Var
		var base ast.Expr = l
		for {
			s, ok := ast.Unparen(base).(*ast.SelectorExpr)
			if !ok {
				break
			}
			ss := info.Selections[s]
			if ss == nil || ss.Kind() != types.FieldVal {
				break
			}
			fs = append(c03SelFields(ss), fs...)
			base = s.X
		}
		base = ast.Unparen(base)
		evs := x.eval(fr, st, base)
		if len(evs) != 1 {
			st.event(c03Event{Kind: "unsupported", Node: e, Frame: fr, Why: "assignment through an expression that forks"})
			return
		}
		bv := evs[0].v
		// stop the functional update at the first pointer on the way down: walk until the remaining base is a pointer
		cur := bv
		for i := 0; i < len(fs); i++ {
			if _, isPtr := fs[i].Type().Underlying().(*types.Pointer); isPtr && i < len(fs)-1 {
				// the store goes through the pointer held in field fs[i]
				p := cur
				for _, f := range fs[:i+1] {
					p = x.field(st, p, f, e, fr)
				}
				x.setField(st, p, fs[i+1:], v, e, fr)
				return
			}
		}
		if nv := x.setField(st, bv, fs, v, e, fr); nv != nil {
			x.assign(fr, st, base, nv)
		}
	case *ast.StarExpr:
		for _, ev := range x.eval(fr, st, l.X) {
			switch ev.v.K {
			case c03KRef:
				x.refStore(st, ev.v, nil, v, e, fr)
				continue
			case c03KAddr:
				st.vars[ev.v.Var] = v
			case c03KPtr:
				st.heap[ev.v.Obj] = v
			case c03KInit:
				st.mem[ev.v.Key] = v
			}
			st.event(c03Event{Kind: "store", Node: e, Frame: fr, Target: ev.v, Val: v})
		}
	case *ast.IndexExpr:
		for _, ev := range x.eval(fr, st, l.X) {
			st.event(c03Event{Kind: "store", Node: e, Frame: fr, Target: ev.v, Val: v, Why: "indexed store"})
			// r[i] = v on a presized list the path made, filled up to i: the abstract list grows (c03_eval_count.go)
			if id, ok := ast.Unparen(l.X).(*ast.Ident); ok && ev.v.K == c03KList && ev.v.Base != nil {
				if o, ok := objOf(info, id).(*types.Var); ok {
					if ivs := x.eval(fr, st, l.Index); len(ivs) == 1 {
						if nl := c03MadeFill(ev.v, ivs[0].v, v); nl != nil {
							st.vars[o] = nl
						}
					}
				}
			}
			// m[k] = v on a map the path built: the map now holds the entry
			if _, isMap := info.TypeOf(l.X).Underlying().(*types.Map); isMap && ev.v.K == c03KList && len(ev.v.Keys) == len(ev.v.Elems) {
				for _, kv := range x.eval(fr, st, l.Index) {
					nm := *ev.v
					nm.Keys = append(append([]*c03V{}, ev.v.Keys...), kv.v)
					nm.Elems = append(append([]*c03V{}, ev.v.Elems...), v)
					if id, ok := ast.Unparen(l.X).(*ast.Ident); ok {
						if o, ok := objOf(info, id).(*types.Var); ok {
							st.vars[o] = &nm
						}
					}
					break
				}
			}
		}
	default:
		st.event(c03Event{Kind: "unsupported", Node: e, Frame: fr, Why: "assignment to an unmodelled lvalue"})
	}
}

// commaOk evaluates the two-value forms: v, ok := x.(T) / m[k] / <-ch.
func (x *c03Interp) commaOk(fr *c03Frame, st *c03State, rhs ast.Expr) ([]c03ELV, bool) {
	info := fr.info()
	switch r := ast.Unparen(rhs).(type) {
	case *ast.TypeAssertExpr:
		if r.Type == nil {
			return nil, false
		}
		t := info.TypeOf(r.Type)
		var out []c03ELV
		for _, ev := range x.eval(fr, st, r.X) {
			boolT := types.Typ[types.Bool]
			switch ev.st.typeMatch(ev.v, t) {
			case triT:
				out = append(out, c03ELV{ev.st, []*c03V{ev.v, {K: c03KBool, Bool: true, T: boolT}}})
			case triF:
				out = append(out, c03ELV{ev.st, []*c03V{c03ZeroValue(t), {K: c03KBool, Bool: false, T: boolT}}})
			default:
				key := c03AssertKey(ev.v, t)
				if ev.v.Key == "" {
					key = x.fresh("as")
				}
				val := x.initVal(&c03Root{Kind: "assert", Node: r, Of: ev.v, T: t}, nil, t, key)
				ok := &c03V{K: c03KUnk, T: boolT, Key: key + "?", Z: triU}
				ev.st.event(c03Event{Kind: "assert", Node: r, Frame: fr, Val: ev.v, Ok: ok, T: t, Results: []*c03V{val}})
				out = append(out, c03ELV{ev.st, []*c03V{val, ok}})
			}
		}
		return out, true
	case *ast.IndexExpr:
		if _, isMap := info.TypeOf(r.X).Underlying().(*types.Map); !isMap {
			return nil, false
		}
		var out []c03ELV
		for _, o := range x.evalList(fr, st, []ast.Expr{r.X, r.Index}) {
			if forks := x.mapLookupForks(o.st, o.vs[0], o.vs[1], info.TypeOf(r)); forks != nil {
				for _, f := range forks {
					out = append(out, c03ELV{f.st, []*c03V{f.v, {K: c03KBool, Bool: f.found, T: types.Typ[types.Bool]}}})
				}
				continue
			}
			if hit, known := c03MapLookup(o.vs[0], o.vs[1]); known {
				okV := &c03V{K: c03KBool, Bool: hit != nil, T: types.Typ[types.Bool]}
				if hit == nil {
					hit = c03ZeroValue(info.TypeOf(r))
				}
				out = append(out, c03ELV{o.st, []*c03V{hit, okV}})
				continue
			}
			v := &c03V{K: c03KUnk, T: info.TypeOf(r), Key: x.fresh("m"), From: o.vs, Z: triU}
			out = append(out, c03ELV{o.st, []*c03V{v, x.unk(types.Typ[types.Bool])}})
		}
		return out, true
	case *ast.UnaryExpr:
		if r.Op == token.ARROW {
			return []c03ELV{{st, []*c03V{x.unk(info.TypeOf(r)), x.unk(types.Typ[types.Bool])}}}, true
		}
	}
	return nil, false
}

func (x *c03Interp) execAssign(fr *c03Frame, st *c03State, lhs, rhs []ast.Expr, at ast.Node) []c03Out {
	var outs []c03Out
	switch {
	case len(rhs) == 1 && len(lhs) > 1:
		if lvs, ok := x.commaOk(fr, st, rhs[0]); ok && len(lhs) == 2 {
			for _, o := range lvs {
				x.assign(fr, o.st, lhs[0], o.vs[0])
				x.assign(fr, o.st, lhs[1], o.vs[1])
				outs = append(outs, c03Out{st: o.st})
			}
			return outs
		}
		for _, ev := range x.eval(fr, st, rhs[0]) {
			for i, l := range lhs {
				var v *c03V
				if ev.v != nil && ev.v.K == c03KTuple && i < len(ev.v.Elems) {
					v = ev.v.Elems[i]
				} else {
					v = x.unk(fr.info().TypeOf(l))
				}
				x.assign(fr, ev.st, l, v)
			}
			outs = append(outs, c03Out{st: ev.st})
		}
	case len(rhs) == len(lhs):
		for _, o := range x.evalList(fr, st, rhs) {
			for i, l := range lhs {
				x.assign(fr, o.st, l, o.vs[i])
			}
			outs = append(outs, c03Out{st: o.st})
		}
	default:
		return x.stuck(st, at, fr, "assignment with mismatched sides")
	}
	return outs
}

// loopCtl maps the outcomes of a loop body: true = the iteration ended normally (fell through or continued).
func c03LoopDone(o c03Out, label string) (iterDone, leaves bool) {
	switch o.ctl {
	case c03Next:
		return true, false
	case c03Continue:
		if o.label == "" || o.label == label {
			return true, false
		}
	case c03Break:
		if o.label == "" || o.label == label {
			return false, true
		}
	}
	return false, false
}

func (x *c03Interp) execStmt(fr *c03Frame, st *c03State, s ast.Stmt, label string) []c03Out {
	info := fr.info()
	switch s := s.(type) {
	case *ast.EmptyStmt:
		return []c03Out{{st: st}}
	case *ast.BlockStmt:
		return x.execBlock(fr, st, s.List)
	case *ast.LabeledStmt:
		return x.execStmt(fr, st, s.Stmt, s.Label.Name)
	case *ast.ExprStmt:
		var outs []c03Out
		for _, ev := range x.eval(fr, st, s.X) {
			outs = append(outs, c03Out{st: ev.st})
		}
		return outs
	case *ast.DeclStmt:
		gd, ok := s.Decl.(*ast.GenDecl)
		if !ok || gd.Tok != token.VAR {
			return []c03Out{{st: st}}
		}
		outs := []c03Out{{st: st}}
		for _, sp := range gd.Specs {
			vs := sp.(*ast.ValueSpec)
			var next []c03Out
			for _, o := range outs {
				if len(vs.Values) == 0 {
					for _, n := range vs.Names {
						if ov, ok := info.Defs[n].(*types.Var); ok {
							zv := c03ZeroValue(ov.Type())
							zv.Born, zv.Site = len(o.st.Trace), vs
							o.st.vars[ov] = zv
						}
					}
					next = append(next, o)
					continue
				}
				var lhs []ast.Expr
				for _, n := range vs.Names {
					lhs = append(lhs, n)
				}
				next = append(next, x.execAssign(fr, o.st, lhs, vs.Values, s)...)
			}
			outs = next
		}
		return outs
	case *ast.AssignStmt:
		if s.Tok != token.ASSIGN && s.Tok != token.DEFINE {
			var outs []c03Out
			for _, o := range x.evalList(fr, st, append(append([]ast.Expr{}, s.Lhs...), s.Rhs...)) {
				u := x.unk(info.TypeOf(s.Lhs[0]))
				u.From = o.vs
				if len(o.vs) == 2 {
					if c, ok := c03CountOp(s.Tok, o.vs[0], o.vs[1]); ok {
						u.HasCnt, u.Cnt = true, c
					}
				}
				x.assign(fr, o.st, s.Lhs[0], u)
				outs = append(outs, c03Out{st: o.st})
			}
			return outs
		}
		return x.execAssign(fr, st, s.Lhs, s.Rhs, s)
	case *ast.IncDecStmt:
		var outs []c03Out
		for _, ev := range x.eval(fr, st, s.X) {
			nv := x.unk(info.TypeOf(s.X))
			if ev.v.K == c03KInt {
				d := int64(1)
				if s.Tok == token.DEC {
					d = -1
				}
				nv = &c03V{K: c03KInt, Int: ev.v.Int + d, T: ev.v.T}
			} else if c, ok := c03CountOp(s.Tok, ev.v, &c03V{K: c03KInt, Int: 1}); ok {
				nv.HasCnt, nv.Cnt, nv.From = true, c, []*c03V{ev.v}
			}
			x.assign(fr, ev.st, s.X, nv)
			outs = append(outs, c03Out{st: ev.st})
		}
		return outs
	case *ast.ReturnStmt:
		var outs []c03Out
		for _, o := range x.evalList(fr, st, s.Results) {
			rs := o.vs
			if len(rs) == 1 && rs[0] != nil && rs[0].K == c03KTuple {
				rs = rs[0].Elems
			}
			outs = append(outs, c03Out{st: o.st, ctl: c03Return, ret: rs, pos: s.Pos()})
		}
		return outs
	case *ast.BranchStmt:
		lb := ""
		if s.Label != nil {
			lb = s.Label.Name
		}
		switch s.Tok {
		case token.BREAK:
			return []c03Out{{st: st, ctl: c03Break, label: lb, pos: s.Pos()}}
		case token.CONTINUE:
			return []c03Out{{st: st, ctl: c03Continue, label: lb, pos: s.Pos()}}
		}
		return x.stuck(st, s, fr, "goto / fallthrough outside the modelled forms")
	case *ast.IfStmt:
		outs := []c03Out{{st: st}}
		if s.Init != nil {
			outs = x.execStmt(fr, st, s.Init, "")
		}
		var res []c03Out
		for _, o := range outs {
			if o.ctl != c03Next {
				res = append(res, o)
				continue
			}
			for _, cv := range x.evalCond(fr, o.st, s.Cond) {
				switch {
				case cv.b:
					res = append(res, x.execBlock(fr, cv.st, s.Body.List)...)
				case s.Else != nil:
					res = append(res, x.execStmt(fr, cv.st, s.Else, "")...)
				default:
					res = append(res, c03Out{st: cv.st})
				}
			}
		}
		return res
	case *ast.SwitchStmt:
		return x.execSwitch(fr, st, s, label)
	case *ast.TypeSwitchStmt:
		return x.execTypeSwitch(fr, st, s, label)
	case *ast.ForStmt:
		return x.execFor(fr, st, s, label)
	case *ast.RangeStmt:
		return x.execRange(fr, st, s, label)
	case *ast.DeferStmt:
		return x.deferCall(fr, st, s)
	case *ast.GoStmt:
		st.event(c03Event{Kind: "unsupported", Node: s, Frame: fr, Call: s.Call, Why: "go statement"})
		return []c03Out{{st: st}}
	}
	return x.stuck(st, s, fr, "statement form not modelled")
}

func (x *c03Interp) execSwitch(fr *c03Frame, st *c03State, s *ast.SwitchStmt, label string) []c03Out {
	outs := []c03Out{{st: st}}
	if s.Init != nil {
		outs = x.execStmt(fr, st, s.Init, "")
	}
	var res []c03Out
	finish := func(os []c03Out) {
		for _, o := range os {
			if o.ctl == c03Break && (o.label == "" || o.label == label) {
				o = c03Out{st: o.st}
			}
			res = append(res, o)
		}
	}
	clauses := s.Body.List
	// body runs clause i (following fallthrough)
	var body func(st *c03State, i int) []c03Out
	body = func(st *c03State, i int) []c03Out {
		cc := clauses[i].(*ast.CaseClause)
		list := cc.Body
		ft := false
		if n := len(list); n > 0 {
			if bs, ok := list[n-1].(*ast.BranchStmt); ok && bs.Tok == token.FALLTHROUGH {
				ft, list = true, list[:n-1]
			}
		}
		os := x.execBlock(fr, st, list)
		if !ft || i+1 >= len(clauses) {
			return os
		}
		var r []c03Out
		for _, o := range os {
			if o.ctl == c03Next {
				r = append(r, body(o.st, i+1)...)
			} else {
				r = append(r, o)
			}
		}
		return r
	}
	var from func(st *c03State, tag *c03V, i int)
	from = func(st *c03State, tag *c03V, i int) {
		if i >= len(clauses) {
			// no case matched: default or nothing
			for j, c := range clauses {
				if c.(*ast.CaseClause).List == nil {
					finish(body(st, j))
					return
				}
			}
			res = append(res, c03Out{st: st})
			return
		}
		cc := clauses[i].(*ast.CaseClause)
		if cc.List == nil {
			from(st, tag, i+1)
			return
		}
		// states in which no expression of this clause matched so far
		pending := []*c03State{st}
		for _, ce := range cc.List {
			var still []*c03State
			for _, ps := range pending {
				var cvs []c03CV
				if s.Tag == nil {
					cvs = x.evalCond(fr, ps, ce)
				} else {
					for _, ev := range x.eval(fr, ps, ce) {
						r, key := x.compareEq(ev.st, tag, ev.v)
						switch r {
						case triT, triF:
							cvs = append(cvs, c03CV{ev.st, r == triT})
						default:
							cvs = append(cvs, x.fork(fr, ev.st, ce, func(s2 *c03State, val bool) {
								s2.refine(key, c03Tri(val))
							})...)
						}
					}
				}
				for _, cv := range cvs {
					if cv.b {
						finish(body(cv.st, i))
					} else {
						still = append(still, cv.st)
					}
				}
			}
			pending = still
		}
		for _, ps := range pending {
			from(ps, tag, i+1)
		}
	}
	for _, o := range outs {
		if o.ctl != c03Next {
			res = append(res, o)
			continue
		}
		if s.Tag == nil {
			from(o.st, nil, 0)
			continue
		}
		for _, ev := range x.eval(fr, o.st, s.Tag) {
			from(ev.st, ev.v, 0)
		}
	}
	return res
}

func (x *c03Interp) execTypeSwitch(fr *c03Frame, st *c03State, s *ast.TypeSwitchStmt, label string) []c03Out {
	info := fr.info()
	outs := []c03Out{{st: st}}
	if s.Init != nil {
		outs = x.execStmt(fr, st, s.Init, "")
	}
	var tagE ast.Expr
	switch a := s.Assign.(type) {
	case *ast.AssignStmt:
		if ta, ok := ast.Unparen(a.Rhs[0]).(*ast.TypeAssertExpr); ok {
			tagE = ta.X
		}
	case *ast.ExprStmt:
		if ta, ok := ast.Unparen(a.X).(*ast.TypeAssertExpr); ok {
			tagE = ta.X
		}
	}
	if tagE == nil {
		return x.stuck(st, s, fr, "type switch without a recognisable operand")
	}
	var res []c03Out
	finish := func(os []c03Out) {
		for _, o := range os {
			if o.ctl == c03Break && (o.label == "" || o.label == label) {
				o = c03Out{st: o.st}
			}
			res = append(res, o)
		}
	}
	run := func(st *c03State, cc *ast.CaseClause, v *c03V, t types.Type) {
		if o, ok := info.Implicits[cc].(*types.Var); ok {
			bv := v
			if t != nil && len(cc.List) == 1 && !c03IsIface(t) {
				bv = c03Retype(v, t)
				if c03TypeMatch(v, t) == triU && v.Key != "" {
					// the clause narrows a value of unknown dynamic type: as `bv, ok := v.(T)` with ok true
					bv = x.initVal(&c03Root{Kind: "assert", Node: cc, Of: v, T: t}, nil, t, c03AssertKey(v, t))
					st.event(c03Event{Kind: "assert", Node: cc, Frame: fr, Val: v, Ok: &c03V{K: c03KBool, Bool: true, T: types.Typ[types.Bool]}, T: t, Results: []*c03V{bv}})
				}
			}
			st.vars[o] = bv
		}
		finish(x.execBlock(fr, st, cc.Body))
	}
	for _, o := range outs {
		if o.ctl != c03Next {
			res = append(res, o)
			continue
		}
		for _, ev := range x.eval(fr, o.st, tagE) {
			v := ev.v
			var def *ast.CaseClause
			matched := false
			type cand struct {
				cc *ast.CaseClause
				t  types.Type
			}
			var unknown []cand
			for _, c := range s.Body.List {
				cc := c.(*ast.CaseClause)
				if cc.List == nil {
					def = cc
					continue
				}
				if matched {
					break
				}
				for _, te := range cc.List {
					var m tri
					var ct types.Type
					if id, ok := ast.Unparen(te).(*ast.Ident); ok && id.Name == "nil" && info.Types[te].IsNil() {
						m = ev.st.Zero(v)
						if v.K != c03KNil && !c03IsIface(v.T) && v.T != nil {
							m = triF // a typed value in an interface is not the nil interface
						}
					} else {
						ct = info.TypeOf(te)
						m = ev.st.typeMatch(v, ct)
					}
					if m == triT {
						run(ev.st, cc, v, ct)
						matched = true
						break
					}
					if m == triU {
						unknown = append(unknown, cand{cc, ct})
					}
				}
			}
			if matched {
				continue
			}
			// dynamic type unknown: every candidate clause is possible, and so is "none of them"
			for _, c := range unknown {
				if !x.spend() {
					break
				}
				s2 := ev.st.clone()
				s2.event(c03Event{Kind: "fork", Node: c.cc, Frame: fr, Why: "type switch clause", T: c.t, Val: v, Taken: true})
				run(s2, c.cc, v, c.t)
			}
			if len(unknown) > 0 {
				ev.st.event(c03Event{Kind: "fork", Node: s, Frame: fr, Why: "type switch: no listed type", Val: v, Taken: false})
			}
			if def != nil {
				run(ev.st, def, v, nil)
			} else {
				res = append(res, c03Out{st: ev.st})
			}
		}
	}
	return res
}

func (x *c03Interp) execRange(fr *c03Frame, st *c03State, s *ast.RangeStmt, label string) []c03Out {
	info := fr.info()
	var res []c03Out
	bind := func(st *c03State, e ast.Expr, v *c03V) {
		if e == nil {
			return
		}
		if s.Tok == token.DEFINE {
			if id, ok := e.(*ast.Ident); ok && id.Name != "_" {
				if o, ok := info.Defs[id].(*types.Var); ok {
					st.vars[o] = v
				}
			}
			return
		}
		x.assign(fr, st, e, v)
	}
	iter := func(st *c03State, ranged, elem *c03V, idx int) {
		var kt, vt types.Type
		if s.Key != nil {
			kt = info.TypeOf(s.Key)
		}
		if s.Value != nil {
			vt = info.TypeOf(s.Value)
		}
		switch {
		case s.Key == nil:
		case idx >= 0 && idx < len(ranged.Keys):
			bind(st, s.Key, ranged.Keys[idx]) // a map built from a literal: its own key
		case idx >= 0 && len(ranged.Keys) == 0:
			bind(st, s.Key, &c03V{K: c03KInt, Int: int64(idx), T: kt})
		default:
			bind(st, s.Key, x.initVal(&c03Root{Kind: "key", Node: s, Of: ranged, T: kt}, nil, kt, "key("+ranged.Key+")"))
		}
		if elem == nil {
			et := vt
			if et == nil {
				et = c03RangeElemType(ranged.T)
			}
			key := "elem(" + ranged.Key + ")"
			if ranged.Key == "" {
				key = x.fresh("elem")
			}
			elem = x.initVal(&c03Root{Kind: "elem", Node: s, Of: ranged, T: et}, nil, et, key)
		}
		bind(st, s.Value, elem)
		st.event(c03Event{Kind: "range", Node: s, Frame: fr, Target: ranged, Val: elem})
		for _, bo := range x.execBlock(fr, st, s.Body.List) {
			done, leaves := c03LoopDone(bo, label)
			if done || leaves {
				res = append(res, c03Out{st: bo.st, left: leaves})
			} else {
				res = append(res, bo)
			}
		}
	}
	for _, ev := range x.eval(fr, st, s.X) {
		v := c03MadeFull(ev.v)
		switch {
		case v.K == c03KList && v.Base == nil && len(v.Elems) <= 24 && !c03HasSpread(v):
			// a list whose elements are all known: the loop is unrolled (a symbolic element stands for itself once)
			cur := []*c03State{ev.st}
			for ei, e := range v.Elems {
				var next []*c03State
				for _, cs := range cur {
					n0 := len(res)
					iter(cs, v, e, ei)
					// outcomes iter appended: those that continue the loop feed the next element
					var keep []c03Out
					for _, o := range res[n0:] {
						if o.ctl == c03Next && !o.left {
							next = append(next, o.st)
						} else {
							keep = append(keep, o)
						}
					}
					res = append(res[:n0], keep...)
				}
				cur = next
			}
			for _, cs := range cur {
				res = append(res, c03Out{st: cs})
			}
		case v.K == c03KList:
			// zero iterations, or one iteration per element the list is known to be built from
			var elems []*c03V
			for _, e := range v.Elems {
				if e.K == c03KSpread {
					elems = append(elems, nil) // an element of the spread operand
					continue
				}
				elems = append(elems, e)
			}
			hasBase := v.Base != nil && ev.st.Zero(v.Base) != triT
			if len(elems) == 0 && !hasBase {
				res = append(res, c03Out{st: ev.st})
				continue
			}
			if !x.spend() {
				continue
			}
			res = append(res, c03Out{st: ev.st.clone()}) // the loop body may also not run for the element of interest
			for i, e := range elems {
				if !x.spend() {
					break
				}
				if e == nil {
					iter(ev.st.clone(), v.Elems[i].From[0], nil, -1)
				} else {
					iter(ev.st.clone(), v, e, i)
				}
			}
			if hasBase {
				iter(ev.st.clone(), v.Base, nil, -1)
			}
		default:
			switch ev.st.Zero(v) {
			case triT:
				res = append(res, c03Out{st: ev.st})
			case triF:
				iter(ev.st, v, nil, -1)
			default:
				if !x.spend() {
					continue
				}
				skip := ev.st.clone()
				if k := c03ZeroKey(v); k != "" {
					skip.known[k] = triT
					ev.st.known[k] = triF
				}
				res = append(res, c03Out{st: skip})
				iter(ev.st, v, nil, -1)
			}
		}
	}
	return res
}

func c03RangeElemType(t types.Type) types.Type {
	if t == nil {
		return nil
	}
	switch u := t.Underlying().(type) {
	case *types.Slice:
		return u.Elem()
	case *types.Array:
		return u.Elem()
	case *types.Map:
		return u.Elem()
	case *types.Pointer:
		return c03RangeElemType(u.Elem())
	}
	return nil
}

func c03HasSpread(v *c03V) bool {
	for _, e := range v.Elems {
		if e.K == c03KSpread {
			return true
		}
	}
	return false
}
