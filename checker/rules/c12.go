package rules

import (
	"go/ast"
	"go/token"
	"go/types"
	"strings"

	"golang.org/x/tools/go/packages"

	"osmcheck/core"
)

// C12: annotation is deterministic and orders updates by index, time, version.
//
// Files: c12.go (registration, rules), c12_less.go (finite-domain evaluation of comparators; sortAdapter and
// parseLessChain, which c11.go also calls), c12_sorted.go ("sorted before it escapes" on the CFG and through
// helpers), c12_key.go (derivation of the (Index, Version) key), c12_funcval.go (function, struct and table values
// in the comparator interpreter), c12_adapter.go (sort operands built at the call: struct adapters, function values),
// c12_storage.go (N4 storage ownership), c12_place.go (lists that are fields: places), c12_escape.go (lists that leave
// through a pointer parameter, accessors), c12_identity.go (the sorted list is the stored list), c12_closure.go
// (function literals in the key derivation), c12_effects*.go (N5: order-independent effects under the map range),
// c12_carried*.go (N6: no state carried between calls: package variables, sync.Pool),
// c12_variants*.go (sensitivity and robustness suites).
//
// Anchors (exported API or interface methods only): osm.Updates.SortByIndex, osm.Updates.SortByTimestamp,
// osm.Update{Index,Timestamp,Version}, core.Compute, core.Parent.SetChild, shared.(*Child).Update,
// shared.Child.Version, sort.Sort/Stable/Slice/SliceStable. No unexported name is used to find anything.

func init() {
	register(&core.Property{
		ID:    "C12",
		Title: "Annotation is deterministic and orders updates by index, time, version",
		Explanation: "Structural necessary conditions, decided on what the code does, not on how it is written (if/switch, early returns, nesting, local copies or pointers, renamed locals, helper functions, sort.Slice instead of an adapter type, loop forms, the file a function lives in). " +
			"(N1) For every range over a map in the annotate tree: each list declared outside the loop that the body grows by append (directly, or in a function it passes the list to) is, on every path from the end of the loop to a return of that list, completely sorted into its canonical order, and not assigned again before the return. Canonical order of osm.Update lists: Index, then Timestamp, then Version (Updates.SortByIndex, or any sort whose comparator is shown to be that order); of integer/string slices: any strict total order. 'Completely sorted' is a sort call on the list, a loop over all its elements that sorts the current element on every iteration and cannot be left early, or a function that does one of these to its parameter before each of its exits; an unexported function may return the list unsorted if every caller sorts it. " +
			"(N2) The comparator that SortByIndex hands to sort.Sort/Stable/Slice/SliceStable is interpreted on every combination of relations (<, equal, >; for times also 'same instant, different representation', where == and Equal disagree) between the Index, Timestamp, Version (and any other field it reads) of two elements; the resulting truth table must be the strict lexicographic order Index, Timestamp (as an instant), Version and must never be true in both directions; SortByTimestamp's table must be the strict order on the instant; Len/Swap of an adapter are executed symbolically; the sort is applied to the method's receiver. The key (Index, Version) is shown to occur once per parent: every osm.Update put into a list comes from Child.Update() (which copies the Version of the child it is called on), its Index is set from the location's position field (the field also handed to Parent.SetChild) before any use, and the two innermost loops around each use are one that varies the child version and one that varies the location. " +
			"The comparator is the one that runs: when the adapter is a struct that holds the slice and the comparator in fields, when sort.Slice receives a closure variable, a declared function or a method value, or when the comparator is picked from a lookup table by a constant, the operand is evaluated where the sort is called and the function value bound there is the one interpreted. " +
			"(N4) Every list grown by append under a map range owns its storage: whatever is stored into it other than by l = append(l, ...) is nil, a fresh allocation, a re-slice of the list itself, or a three-index slice; a two-index slice of a shared block is reported, because its capacity reaches into the storage of the lists carved after it and append then overwrites them in map-iteration order (the bounds of a three-index slice are not checked). " +
			"A list may be a local or a field reached from one (a.updates, through pointers): a field path is a place of its own, translated through receivers and arguments, so the map range, the growth, the sort and the return may sit in different methods of a state struct; a list that leaves a function through a pointer parameter instead of a return moves the obligation to the callers. The sort must be a sort of the list that is stored: sorting a copy of the slice header (range value, local) counts only if the element is not given another array between the copy and the sort, and a store after the sort must store the sorted list itself (re-slice, or append onto fresh storage). " +
			"(N5) Identical annotated elements: every write performed under a range over a map into state that outlives one iteration (variables declared outside the loop; in the functions reached from the body and in every annotate-tree implementation of the interface methods it calls, e.g. Parent.SetChild, whatever is written through receivers, pointer/slice/map parameters that are not objects created afresh under the loop, and package variables) commutes with the other iterations and is idempotent: a store into a slot keyed by data of the current call, a delete of such a key, a lazy initialisation under `p == nil` with a call-independent value, a constant store into a place nothing accumulates into, a counter nothing under the loop reads, an append N1 follows to a sort. A reset or replacement of a place other iterations insert into, a first-wins or last-wins store of call data, a delete of a foreign key, a counter that is read, are reported; other writes are undecided. All-or-none failure: no guard of a return under the loop reads state the iterations write (reported as undecided: a monotone condition would be harmless). " +
			"(N6) A function of its input, not of earlier calls: whatever the annotate tree takes from state that outlives a call is emptied before use. A value drawn from a sync.Pool is either emptied by the first statement that touches it after Get (delete-all loop, clear, x = x[:0] or an empty view y := x[:0], Reset of a bytes.Buffer/strings.Builder, *p = T{}), or the pool's New returns only fresh values and every Put is directly preceded by emptying the value in the function or deferred closure that calls Put; a plain `defer pool.Put(x)` does not qualify, and the report names the returns (inside the loop that consumes x) on which x goes back half consumed. A package-level variable that is written anywhere in the repository is reset before every other use in each function that uses it, and no slice of it is re-extended beyond the length the call gave it. Today nothing is carried (one trivial obligation per package); never-written variables and the lock types of package sync are not data. " +
			"(N3) Every return of Compute that returns lists returns them after a complete sort into the index order (in Compute, or in the function whose result it returns). " +
			"NOT decided: byte identity of whole results, state kept in fields of objects the caller hands in (user datasources) or created per call, determinism of user datasources, collisions of two iterations on the same slot with different values, order effects through Parent.SetChild (each location is written once per child id), NaN in float fields (no comparator reads one), stores into outer slices that are not appends, one update variable appended twice in one statement, a map range written inside a function literal (reported as undecided; the key derivation does follow literals: callbacks handed to iteration helpers and local closures), lists kept as a field of the ELEMENTS of a slice (results[p].list).",
		Assumptions: []string{"go/types, go/cfg (x/tools v0.29.0)", "sort.Sort is not stable, hence ties must be impossible on the emitted key", "time.Time: Before/After/Equal/Compare/Sub compare instants, == and != compare the representation", "the histories handed to Compute hold each child version once"},
		LevelText:   "Structural necessary conditions for determinism and for the (index, time, version) order: map-iteration results are sorted before they escape, and the sort comparator is, by exhaustive evaluation over the relations between the compared fields, the required total order on the key the computation emits. Decided for every map range in annotate/… and for the comparator actually passed to the sort.",
		LevelNote:   "Trusts the type checker, go/cfg dominance, and the documented behaviour of package sort and of time.Time comparisons. Does not decide byte-identity of results.",
		Technique:   "finite-domain evaluation of the comparators (abstract interpretation of Less over field relations; truth table compared with the required lexicographic order) + CFG dominance of sort-before-escape for map-range loops, followed through helper functions and call sites + role-based dataflow (origins of values, enclosing loops along call chains) for the key derivation",
		DesignRef:   "DESIGN.md §5 C12",
		Rules: []*core.Rule{
			// Floors count things a refactoring cannot change. N1: the one map range of Compute. N2: SortByIndex (sorts its
			// receiver, Len, Swap, Less, one step per field of the required order = 7) + SortByTimestamp (5) + key (Update()
			// copies Version, one Update() source) = 14; the obligation per append/store of an update is not counted
			// (preallocating the list would change it). N3: the one value return of Compute.
			{ID: "N1", Floor: 1, Doc: "map-order hygiene: lists grown under a map range are completely sorted into their canonical order (updates: Index, Timestamp, Version) before they escape", Run: c12N1},
			{ID: "N2", Floor: 14, Doc: "sort comparators, evaluated exhaustively over field relations, are the strict orders Index/Timestamp/Version and Timestamp; (Index, Version) is a key of the emitted lists", Run: c12N2},
			{ID: "N3", Floor: 1, Doc: "every value return of Compute is dominated by a complete sort of every per-parent update list into the index order", Run: c12N3},
			{ID: "N4", Floor: 1, Doc: "storage ownership: a list grown by append under a map range never starts as a two-index slice of shared storage (nil, fresh allocation, re-slice of itself or three-index slice only)", Run: c12N4},
			// N5 floor: one write in Compute (the append) and at least one per Parent implementation (ways, relations); the number
			// of field stores inside SetChild is not counted (a struct assignment would merge them).
			{ID: "N5", Floor: 3, Doc: "order-independence of effects: every write made under a map range (in the loop body, in the functions it reaches, in every annotate-tree implementation of the interface methods it calls) into state that outlives the iteration is commutative and idempotent", Run: c12N5},
			// N6 floor: one obligation per annotate-tree package (trivial today: nothing is carried between calls).
			{ID: "N6", Floor: 3, Doc: "no state carried between calls: package-level variables that are written and values drawn from a sync.Pool are emptied before use (or provably empty when put back, on every exit)", Run: c12N6},
		},
		Mutants: append(append(append(append(append(append([]core.Mutant{}, c12Mutants...), c12Mutants5...), c12Mutants6...), c12Mutants7...), c12Mutants8...), c12Mutants9...),
		Benign:  append(append(append(append(append(append([]core.Mutant{}, c12Benign...), c12Benign5...), c12Benign6...), c12Benign7...), c12Benign8...), c12Benign9...),
	})
}

// c12IndexOrder is the required order of the updates of one parent.
var c12IndexOrder = []string{"Index", "Timestamp", "Version"}

func annotateTree(p *core.Program) []*packages.Package {
	var out []*packages.Package
	for _, rel := range []string{"annotate", "annotate/internal/core", "annotate/shared", "internal/mputil"} {
		if pk := p.Pkg(rel); pk != nil {
			out = append(out, pk)
		}
	}
	return out
}

// chainStep is one comparison of a lexicographic comparator (see parseLessChain in c12_less.go).
type chainStep struct {
	field  string
	strict bool // false only on the last step, when Less is true for elements equal on every field
	asc    bool // the i-side element goes first when its field is smaller
	final  bool
	tieOK  bool // ties of this field (for times: equal instants) fall through to the following fields
	pos    token.Pos
}

// ---------------------------------------------------------------------------
// N1
// ---------------------------------------------------------------------------

func c12N1(r *core.R) {
	s := c12NewSorter(r.P)
	if s.indexSort == nil {
		r.Anchor("osm.Updates.SortByIndex")
		return
	}
	nmaps := 0
	for _, pk := range annotateTree(r.P) {
		info := pk.TypesInfo
		for _, fi := range allFuncs(pk) {
			fi := fi
			par := parentsOf(r.P, fi)
			ast.Inspect(fi.Decl.Body, func(n ast.Node) bool {
				rs, ok := n.(*ast.RangeStmt)
				if !ok {
					return true
				}
				if t := info.TypeOf(rs.X); t == nil {
					return true
				} else if _, isMap := t.Underlying().(*types.Map); !isMap {
					return true
				}
				nmaps++
				c := "maprange@" + pk.Types.Name() + "." + fi.Name()
				f := s.fn(fi.Obj)
				if f == nil {
					r.Unknown(c, rs.Pos(), "function could not be analysed")
					return true
				}
				taints := s.taints(f, rs.Body, 3)
				if len(taints) == 0 {
					r.OKTrivial(c, rs.Pos(), "range over map %s grows nothing that outlives the loop", src(r.P.Fset, rs.X))
					return true
				}
				if enclosing(par, rs, func(x ast.Node) bool { _, isLit := x.(*ast.FuncLit); return isLit }) != nil {
					r.Unknown(c, rs.Pos(), "range over a map inside a function literal grows %s; the rule follows declared functions only", taints[0].root.Name())
					return true
				}
				_, _, done := f.loopBlocks(rs)
				if done == nil {
					r.Unknown(c, rs.Pos(), "loop not found in the control-flow graph")
					return true
				}
				for _, t := range taints {
					// keyed on the type of the list, which survives renaming of locals
					cc := c + " " + types.TypeString(t.root.Type(), func(p *types.Package) string { return p.Name() })
					s.notes = nil
					if (t.elem && !c12HoldsUpdates(t.root.Type())) || (!t.elem && !c12IsUpdates(t.root.Type())) {
						r.Unknown(cc, t.pos, "%s is grown in hash-map iteration order (`%s`); its type %s has no canonical order the rule can verify (understood: lists of osm.Update ordered by Index, Timestamp, Version; slices of integers or strings under any strict total order)", t.root.Name(), t.via, t.root.Type())
						continue
					}
					st, why := s.escapeSorted(f, t.root, t.elem, c12Done{block: done, idx: -1, desc: "end of the map range"}, 3)
					switch st {
					case c12OK:
						r.OK(cc, t.pos, "%s is grown under range over %s (`%s`); %s", t.root.Name(), src(r.P.Fset, rs.X), t.via, why)
					case c12Bad:
						if len(s.notes) > 0 {
							why += " (" + strings.Join(s.notes, "; ") + ")"
						}
						r.Bad(cc, t.pos, "%s is grown in hash-map iteration order (`%s`) and returned unsorted: %s", t.root.Name(), t.via, why)
					default:
						r.Unknown(cc, t.pos, "%s is grown in hash-map iteration order (`%s`): %s", t.root.Name(), t.via, why)
					}
				}
				return true
			})
		}
	}
	r.Stat("map_range_loops", nmaps)
}

// ---------------------------------------------------------------------------
// N3
// ---------------------------------------------------------------------------

func c12N3(r *core.R) {
	s := c12NewSorter(r.P)
	pk := r.P.Pkg("annotate/internal/core")
	fi := findFunc(pk, "Compute")
	if fi == nil || s.indexSort == nil {
		r.Anchor("core.Compute / osm.Updates.SortByIndex")
		return
	}
	f := s.fn(fi.Obj)
	res := fi.Obj.Type().(*types.Signature).Results()
	k := -1
	for i := 0; i < res.Len(); i++ {
		if c12HoldsUpdates(res.At(i).Type()) {
			k = i
		}
	}
	if f == nil || k < 0 {
		r.Anchor("result of core.Compute holding osm.Updates")
		return
	}
	n := 0
	inspectNoLit(fi.Decl.Body, func(m ast.Node) bool {
		ret, ok := m.(*ast.ReturnStmt)
		if !ok {
			return true
		}
		s.notes = nil
		st, why := s.retSorted(f, ret, k, true, nil, 3)
		switch st {
		case c12Triv:
		case c12OK:
			n++
			r.OK("return@Compute", ret.Pos(), "`%s`: %s", src(r.P.Fset, ret), why)
		case c12Bad:
			n++
			if len(s.notes) > 0 {
				why += " (" + strings.Join(s.notes, "; ") + ")"
			}
			r.Bad("return@Compute", ret.Pos(), "per-parent update lists are returned without each being sorted by SortByIndex: %s", why)
		default:
			n++
			r.Unknown("return@Compute", ret.Pos(), "%s", why)
		}
		return true
	})
	if n == 0 {
		r.Anchor("return of per-parent update lists in core.Compute")
	}
}

// ---------------------------------------------------------------------------
// N2
// ---------------------------------------------------------------------------

func c12N2(r *core.R) {
	pk := r.P.Pkg("")
	info := pk.TypesInfo
	for _, spec := range []struct {
		method string
		want   []string
		key    bool
	}{
		{"Updates.SortByIndex", c12IndexOrder, true},
		{"Updates.SortByTimestamp", []string{"Timestamp"}, false},
	} {
		fi := findFunc(pk, spec.method)
		if fi == nil {
			r.Anchor(spec.method)
			continue
		}
		sorts := c12FindSort(pk, fi)
		if len(sorts) != 1 {
			if len(sorts) == 0 {
				r.Anchor("call of sort.Sort/Stable/Slice/SliceStable in " + spec.method)
			} else {
				r.Unknown("sort@"+spec.method, fi.Decl.Pos(), "%d sort calls are reached from %s; the rule expects one", len(sorts), spec.method)
			}
			continue
		}
		so := sorts[0]
		c12DynamicAdapter(pk, fi, so)
		var cmp *c12Cmp
		var why, c string
		if so.adapter != nil && c12IsStruct(so.adapter) {
			// the adapter is a struct wrapping the slice (and possibly holding the comparator in a field)
			var ok bool
			c = "comparator@" + spec.method
			if cmp, ok = c12StructAdapter(r, pk, fi, so, spec.method, c); !ok {
				continue
			}
		} else if c12CheckSortsReceiver(r, pk, fi, so, spec.method); so.adapter != nil {
			ad := so.adapter.Obj().Name()
			c = "comparator@" + spec.method // keyed on the exported method, not on the adapter type that implements it today
			lessFi := findFunc(pk, ad+".Less")
			swapFi := findFunc(pk, ad+".Swap")
			lenFi := findFunc(pk, ad+".Len")
			if lessFi == nil || swapFi == nil || lenFi == nil || lessFi.Decl.Body == nil || swapFi.Decl.Body == nil || lenFi.Decl.Body == nil {
				r.Anchor(ad + " Len/Less/Swap")
				continue
			}
			c12CheckSwap(r, pk, swapFi, c+".Swap")
			c12CheckLen(r, pk, lenFi, c+".Len")
			cmp, why = c12MethodCmp(pk, lessFi.Decl)
		} else if so.lit == nil && (so.fn == "Sort" || so.fn == "Stable") {
			r.Unknown("comparator@"+spec.method+".Less", so.call.Pos(), "the operand `%s` of sort.%s has no concrete named adapter type the rule can resolve", src(r.P.Fset, so.sorted), so.fn)
			continue
		} else {
			c = "comparator@" + spec.method
			r.OKTrivial(c+".Swap", so.call.Pos(), "sort.%s exchanges the elements itself", so.fn)
			r.OKTrivial(c+".Len", so.call.Pos(), "sort.%s takes the length of the slice itself", so.fn)
			cmp, why = c12LitCmp(pk, so, spec.method+" less")
		}
		c += ".Less"
		if why != "" {
			r.Unknown(c, fi.Decl.Pos(), "comparator not understood: %s", why)
			continue
		}
		var seed []c12Var
		okSeed := true
		for _, f := range spec.want {
			fv := c12FieldOfType(cmp.elem, f)
			if fv == nil {
				r.Anchor("field " + f + " of the sorted element type")
				okSeed = false
				continue
			}
			seed = append(seed, c12Var{path: f, isTime: c12IsTime(fv.Type())})
		}
		if !okSeed {
			continue
		}
		tbl, why := c12BuildTable(cmp, seed)
		if why != "" {
			r.Unknown(c, cmp.pos, "the comparator could not be evaluated over the relations between the fields of two elements: %s", why)
			for _, f := range spec.want {
				r.Unknown(c+" step "+f, cmp.pos, "undecided: the comparator could not be evaluated (see %s)", c)
			}
			continue
		}
		r.Stat("comparator_table_rows", len(tbl.rows))
		v := c12CheckLex(tbl, spec.want)
		allOK := true
		for k, f := range spec.want {
			cc := c + " step " + f
			if v.stepBad[k] != "" {
				allOK = false
				msg := "the comparator does not order by " + strings.Join(spec.want[:k+1], ", then ") + ": " + v.stepBad[k]
				if spec.key && f == "Version" {
					msg += "; (Index, Version) is the key of an update within one parent, so without the version tie-break equal-time versions of one child are ordered by the unstable sort and by hash-map iteration order"
				}
				if tbl.vars[tbl.varIndex(f)].isTime {
					msg += "; note that == and != on time.Time compare the representation (zone pointer, monotonic reading), not the instant"
				}
				r.Bad(cc, cmp.pos, "%s", msg)
			} else {
				prev := "always"
				if k > 0 {
					prev = "whenever " + strings.Join(spec.want[:k], ", ") + " tie"
				}
				r.OK(cc, cmp.pos, "%s: %s.i < %s.j gives true and > gives false, whatever the other fields (all %d abstract inputs)", prev, f, f, len(tbl.rows))
			}
		}
		switch {
		case v.tieBad != "":
			r.Bad(c, cmp.pos, "the comparator is not a strict order: %s; sort requires Less(i,j) and Less(j,i) not both true", v.tieBad)
		case !allOK:
			// reported per step
			chain, cerr := c12InferChain(tbl, cmp.pos)
			var fields []string
			for _, st := range chain {
				f := st.field
				if !st.asc {
					f += " (descending)"
				}
				if !st.tieOK {
					f += " (equal instants in different representations do not fall through to the next field)"
				}
				fields = append(fields, f)
			}
			if cerr != "" {
				fields = []string{cerr}
			}
			r.Bad(c, cmp.pos, "the comparator implements the order: %s; required: %s", strings.Join(fields, ", then "), strings.Join(spec.want, ", then "))
		default:
			r.OK(c, cmp.pos, "truth table over the relations of %s (%d rows) equals the strict lexicographic order %s", strings.Join(c12SortedFields(tbl), ", "), len(tbl.rows), strings.Join(spec.want, ", "))
		}
	}
	_ = info
	s := c12NewSorter(r.P)
	c12KeyRule(r, s)
}

func c12FieldOfType(t types.Type, name string) *types.Var {
	if t == nil {
		return nil
	}
	if pt, ok := t.Underlying().(*types.Pointer); ok {
		t = pt.Elem()
	}
	st, ok := t.Underlying().(*types.Struct)
	if !ok {
		return nil
	}
	for i := 0; i < st.NumFields(); i++ {
		if st.Field(i).Name() == name {
			return st.Field(i)
		}
	}
	return nil
}

// c12CheckSortsReceiver: the slice handed to the sort is the receiver of the SortByX method (through conversions,
// aliases, and the parameters of helpers on the way).
func c12CheckSortsReceiver(r *core.R, pk *packages.Package, fi *FuncInfo, so *c12Sort, method string) {
	info := pk.TypesInfo
	c := "sort@" + method
	var recv types.Object
	if fi.Decl.Recv != nil && len(fi.Decl.Recv.List) == 1 && len(fi.Decl.Recv.List[0].Names) == 1 {
		recv = info.Defs[fi.Decl.Recv.List[0].Names[0]]
	}
	if recv == nil {
		r.Unknown(c, fi.Decl.Pos(), "receiver of %s is not named", method)
		return
	}
	// walk from the sort call up to the method
	host := so.host
	e := so.sorted
	for depth := 0; depth < 4; depth++ {
		if ue, ok := ast.Unparen(e).(*ast.UnaryExpr); ok && ue.Op == token.AND {
			e = ue.X
		}
		v := c12Resolve(info, host.Decl.Body, e)
		if v == nil {
			r.Unknown(c, so.call.Pos(), "the operand `%s` of sort.%s is not a variable", src(r.P.Fset, so.sorted), so.fn)
			return
		}
		if host.Obj == fi.Obj {
			if v == recv {
				r.OK(c, so.call.Pos(), "sort.%s is applied to the receiver of %s", so.fn, method)
			} else {
				r.Bad(c, so.call.Pos(), "sort.%s is applied to `%s`, not to the receiver of %s: the caller's list stays unsorted", so.fn, v.Name(), method)
			}
			return
		}
		// v must be a parameter of the helper; find the call of the helper
		var up *FuncInfo
		var arg ast.Expr
		for _, g := range allFuncs(pk) {
			g := g
			ast.Inspect(g.Decl.Body, func(n ast.Node) bool {
				if call, ok := n.(*ast.CallExpr); ok && callee(info, call) == host.Obj && up == nil {
					if a := argForParam(info, host, call, v); a != nil {
						up, arg = g, a
					}
				}
				return true
			})
		}
		if up == nil {
			r.Unknown(c, so.call.Pos(), "`%s` in helper %s is not a parameter bound at a call site", v.Name(), host.Name())
			return
		}
		host, e = up, arg
	}
	r.Unknown(c, so.call.Pos(), "helper chain from %s to the sort call is too deep", method)
}

// c12CheckLen: Len returns the length of the receiver.
func c12CheckLen(r *core.R, pk *packages.Package, lenFi *FuncInfo, c string) {
	st, why := c12LenVerdict(pk, lenFi)
	switch st {
	case c12OK:
		r.OK(c, lenFi.Decl.Pos(), "%s", why)
	case c12Bad:
		r.Bad(c, lenFi.Decl.Pos(), "%s", why)
	default:
		r.Unknown(c, lenFi.Decl.Pos(), "%s", why)
	}
}

func c12LenVerdict(pk *packages.Package, lenFi *FuncInfo) (int, string) {
	return c12LenVerdictOn(pk, lenFi, nil)
}

// c12LenVerdictOn: recv, if set, is the adapter value (a struct wrapping the slice) Len is called on.
func c12LenVerdictOn(pk *packages.Package, lenFi *FuncInfo, recv *c12Val) (int, string) {
	var cmp *c12Cmp
	why := ""
	if recv != nil {
		cmp = &c12Cmp{pk: pk, pos: lenFi.Decl.Pos(), bind: map[types.Object]c12Val{}, entry: &c12FuncVal{fn: lenFi.Obj, recv: recv}}
	} else {
		cmp, why = c12MethodCmp(pk, lenFi.Decl)
	}
	if why != "" {
		return c12Unk, "Len not understood: " + why
	}
	ru := &c12Run{c: cmp, rel: map[string]c12Rel{}, same: -1}
	vals, why := ru.run(3)
	switch {
	case why != "":
		return c12Unk, "Len not understood: " + why
	case len(vals) == 1 && vals[0].k == c12KLen:
		return c12OK, "returns len(receiver)"
	case len(vals) == 1 && vals[0].k == c12KUnknown:
		return c12Unk, "Len not understood: " + vals[0].why
	}
	return c12Bad, "Len does not return len(receiver): sort would ignore or overrun part of the list"
}

// c12CheckSwap executes Swap symbolically on the two cells s[i], s[j] (values A, B) and requires (B, A) at the end.
// Understood: parallel and sequential assignments between the cells, locals and pointers to the cells.
func c12CheckSwap(r *core.R, pk *packages.Package, swapFi *FuncInfo, c string) {
	st, why := c12SwapVerdict(pk, swapFi)
	switch st {
	case c12OK:
		r.OK(c, swapFi.Decl.Pos(), "%s", why)
	case c12Bad:
		r.Bad(c, swapFi.Decl.Pos(), "%s", why)
	default:
		r.Unknown(c, swapFi.Decl.Pos(), "%s", why)
	}
}

func c12SwapVerdict(pk *packages.Package, swapFi *FuncInfo) (int, string) {
	return c12SwapVerdictOn(pk, swapFi, nil)
}

// c12SwapVerdictOn: data, if set, lists the fields of the (struct) receiver that hold the sorted slice; otherwise the
// receiver itself is the slice.
func c12SwapVerdictOn(pk *packages.Package, swapFi *FuncInfo, data map[*types.Var]bool) (int, string) {
	info := pk.TypesInfo
	fd := swapFi.Decl
	var recv types.Object
	if fd.Recv != nil && len(fd.Recv.List) == 1 && len(fd.Recv.List[0].Names) == 1 {
		recv = info.Defs[fd.Recv.List[0].Names[0]]
	}
	var params []types.Object
	for _, f := range fd.Type.Params.List {
		for _, nm := range f.Names {
			params = append(params, info.Defs[nm])
		}
	}
	if recv == nil || len(params) != 2 {
		return c12Unk, "Swap without a named receiver and two named parameters"
	}
	cells := [2]string{"A", "B"}
	locals := map[types.Object]string{}
	// isData: expression denotes the sorted slice
	isData := func(e ast.Expr) bool {
		e = stripDerefParen(e)
		if sel, ok := e.(*ast.SelectorExpr); ok {
			return data != nil && objOf(info, stripDerefParen(sel.X)) == recv && data[fieldOf(info, sel)]
		}
		o := objOf(info, e)
		return o != nil && ((data == nil && o == recv) || locals[o] == "S")
	}
	// cellOf: expression denotes cell k
	var cellOf func(e ast.Expr) int
	cellOf = func(e ast.Expr) int {
		e = ast.Unparen(e)
		switch x := e.(type) {
		case *ast.IndexExpr:
			if isData(x.X) {
				switch objOf(info, x.Index) {
				case params[0]:
					return 0
				case params[1]:
					return 1
				}
			}
		case *ast.StarExpr:
			if o := objOf(info, x.X); o != nil {
				switch locals[o] {
				case "&0":
					return 0
				case "&1":
					return 1
				}
			}
		}
		return -1
	}
	rvalue := func(e ast.Expr) string {
		e = ast.Unparen(e)
		if k := cellOf(e); k >= 0 {
			return cells[k]
		}
		if isData(e) {
			return "S"
		}
		if ue, ok := e.(*ast.UnaryExpr); ok && ue.Op == token.AND {
			if k := cellOf(ue.X); k >= 0 {
				return "&" + string(rune('0'+k))
			}
		}
		if o := objOf(info, e); o != nil {
			if v, ok := locals[o]; ok {
				return v
			}
		}
		return "?"
	}
	unknown := ""
	for _, st := range fd.Body.List {
		as, ok := st.(*ast.AssignStmt)
		if !ok || (as.Tok != token.ASSIGN && as.Tok != token.DEFINE) || len(as.Lhs) != len(as.Rhs) {
			unknown = "statement `" + src(pk.Fset, st) + "`"
			break
		}
		vals := make([]string, len(as.Rhs))
		for i, e := range as.Rhs {
			vals[i] = rvalue(e)
		}
		for i, l := range as.Lhs {
			if k := cellOf(l); k >= 0 {
				cells[k] = vals[i]
				continue
			}
			if id, ok := ast.Unparen(l).(*ast.Ident); ok {
				if o := objOf(info, id); o != nil && o != recv && o != params[0] && o != params[1] {
					locals[o] = vals[i]
					continue
				}
			}
			unknown = "assignment to `" + src(pk.Fset, l) + "`"
		}
		if unknown != "" {
			break
		}
	}
	switch {
	case unknown != "":
		return c12Unk, "Swap not understood (" + unknown + "); understood: assignments between s[i], s[j], locals and pointers to the two cells"
	case cells == [2]string{"B", "A"}:
		return c12OK, "exchanges elements i and j (symbolic execution: (A,B) -> (B,A))"
	}
	return c12Bad, "Swap does not exchange elements i and j (symbolic execution: (A,B) -> (" + cells[0] + "," + cells[1] + ")): sorting would lose or duplicate updates"
}
