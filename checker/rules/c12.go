package rules

import (
	"go/ast"
	"go/token"
	"go/types"
	"strings"

	"golang.org/x/tools/go/cfg"
	"golang.org/x/tools/go/packages"

	"osmcheck/core"
)

func init() {
	register(&core.Property{
		ID:    "C12",
		Title: "Annotation is deterministic and orders updates by index, time, version",
		Explanation: "Structural necessary conditions: (N1) every range over a map in the annotate tree whose body appends to a slice that outlives the loop is followed, on every path to the return of that slice, by a sort of it (of each element for slice-of-slices) through Updates.SortByIndex; " +
			"(N2) the comparator SortByIndex hands to sort.Sort is a lexicographic chain Index < Timestamp < Version, strict, oriented i-before-j, which is a total order on the per-parent key (Index, Version) that Compute is shown to emit at most once; Len/Swap are the standard ones; SortByTimestamp's comparator is a strict order on Timestamp; " +
			"(N3) Compute returns its results only after sorting every per-parent list. " +
			"NOT decided: byte identity of whole results, determinism of user datasources, order effects through Parent.SetChild (each location is written once per child id).",
		Assumptions: []string{"go/types, go/cfg (x/tools v0.29.0)", "sort.Sort is not stable, hence ties must be impossible on the emitted key", "time.Time.Before/Equal semantics"},
		LevelText:   "Structural necessary conditions for determinism and for the (index, time, version) order: map-iteration results are sorted before they escape, and the sort comparator is a total order on the key the computation emits. Decided for every map range in annotate/… and for the comparator actually passed to sort.Sort.",
		LevelNote:   "Trusts the type checker, go/cfg dominance, and the documented behaviour of sort.Sort and time.Time comparisons. Does not decide byte-identity of results.",
		Technique:   "AST/type-resolved comparator-shape analysis (lexicographic chain extraction) + CFG dominance of sort-before-escape for map-range loops",
		DesignRef:   "DESIGN.md §5 C12",
		Rules: []*core.Rule{
			{ID: "N1", Floor: 1, Doc: "map-order hygiene: slices appended under a map range are sorted before they escape", Run: c12N1},
			{ID: "N2", Floor: 6, Doc: "sort comparators are strict lexicographic chains; SortByIndex compares Index, Timestamp, Version (a key)", Run: c12N2},
			{ID: "N3", Floor: 1, Doc: "Compute sorts every per-parent update list before returning", Run: c12N3},
		},
		Mutants: []core.Mutant{
			{Name: "drop-version-tiebreak", File: "update.go", Find: "\tif !us[i].Timestamp.Equal(us[j].Timestamp) {\n\t\treturn us[i].Timestamp.Before(us[j].Timestamp)\n\t}\n\n\treturn us[i].Version < us[j].Version", Replace: "\treturn us[i].Timestamp.Before(us[j].Timestamp)", ExpectRule: "N2", ExpectConstruct: "updatesSortIndex"},
			{Name: "less-descending-version", File: "update.go", Find: "return us[i].Version < us[j].Version", Replace: "return us[j].Version < us[i].Version", ExpectRule: "N2", ExpectConstruct: "updatesSortIndex"},
			{Name: "less-nonstrict", File: "update.go", Find: "return us[i].Version < us[j].Version", Replace: "return us[i].Version <= us[j].Version", ExpectRule: "N2", ExpectConstruct: "updatesSortIndex"},
			{Name: "compute-no-sort", File: "annotate/internal/core/compute.go", Find: "\tfor _, r := range results {\n\t\tr.SortByIndex()\n\t}\n", Replace: "", ExpectRule: "N1", ExpectConstruct: "Compute"},
			{Name: "compute-sort-by-ts", File: "annotate/internal/core/compute.go", Find: "r.SortByIndex()", Replace: "r.SortByTimestamp()", ExpectRule: "N1", ExpectConstruct: "Compute"},
			{Name: "compute-sort-conditional", File: "annotate/internal/core/compute.go", Find: "\t\tr.SortByIndex()\n", Replace: "\t\tif len(r) > 12 {\n\t\t\tr.SortByIndex()\n\t\t}\n", ExpectRule: "N1", ExpectConstruct: "Compute"},
			{Name: "update-index-not-set", File: "annotate/internal/core/compute.go", Find: "u.Index = cl.Index", Replace: "u.Index = cl.Parent", ExpectRule: "N2", ExpectConstruct: "key"},
			{Name: "swap-broken", File: "update.go", Find: "func (us updatesSortIndex) Swap(i, j int) { us[i], us[j] = us[j], us[i] }", Replace: "func (us updatesSortIndex) Swap(i, j int) { us[i], us[j] = us[j], us[j] }", ExpectRule: "N2", ExpectConstruct: "Swap"},
		},
	})
}

func annotateTree(p *core.Program) []*packages.Package {
	var out []*packages.Package
	for _, rel := range []string{"annotate", "annotate/internal/core", "annotate/shared", "internal/mputil"} {
		if pk := p.Pkg(rel); pk != nil {
			out = append(out, pk)
		}
	}
	return out
}

// sortAllOf recognises, in function body, constructs that sort slice variable S (or every element of it)
// with Updates.SortByIndex; it returns the CFG-relevant "done" position of each.
type sortSite struct {
	pos     token.Pos // position after which the sort has happened
	elem    bool      // sorts every element of S
	method  string
	rangeSt *ast.RangeStmt
}

func findSortsOf(info *types.Info, body *ast.BlockStmt, s types.Object) []sortSite {
	var out []sortSite
	ast.Inspect(body, func(n ast.Node) bool {
		switch x := n.(type) {
		case *ast.RangeStmt:
			if objOf(info, x.X) != s || x.Value == nil {
				return true
			}
			v := objOf(info, x.Value)
			// body must be exactly one unconditional statement: v.SortByX()
			if len(x.Body.List) != 1 {
				return true
			}
			es, ok := x.Body.List[0].(*ast.ExprStmt)
			if !ok {
				return true
			}
			call, ok := es.X.(*ast.CallExpr)
			if !ok {
				return true
			}
			sel, ok := call.Fun.(*ast.SelectorExpr)
			if !ok || objOf(info, sel.X) != v {
				return true
			}
			if fn := callee(info, call); fn != nil && strings.HasPrefix(fn.Name(), "Sort") {
				out = append(out, sortSite{pos: x.End(), elem: true, method: funcName(fn), rangeSt: x})
			}
		case *ast.ExprStmt:
			call, ok := x.X.(*ast.CallExpr)
			if !ok {
				return true
			}
			if sel, ok := call.Fun.(*ast.SelectorExpr); ok && objOf(info, sel.X) == s {
				if fn := callee(info, call); fn != nil && strings.HasPrefix(fn.Name(), "Sort") {
					out = append(out, sortSite{pos: x.End(), method: funcName(fn)})
				}
			}
		}
		return true
	})
	return out
}

// sortDominatesReturn: the completion of the sort dominates ret.
func sortDominates(g *cfg.CFG, dom map[*cfg.Block]map[*cfg.Block]bool, ss sortSite, target token.Pos) bool {
	tb, _ := blockOf(g, target)
	if tb == nil {
		return false
	}
	if ss.rangeSt != nil {
		for _, b := range g.Blocks {
			if b.Kind == cfg.KindRangeDone && b.Stmt == ss.rangeSt {
				return b == tb || dom[tb][b]
			}
		}
		return false
	}
	return posDominates(g, dom, ss.pos-1, target)
}

func c12N1(r *core.R) {
	nmaps := 0
	for _, pk := range annotateTree(r.P) {
		info := pk.TypesInfo
		for _, fi := range allFuncs(pk) {
			var g *cfg.CFG
			var dom map[*cfg.Block]map[*cfg.Block]bool
			ast.Inspect(fi.Decl.Body, func(n ast.Node) bool {
				rs, ok := n.(*ast.RangeStmt)
				if !ok {
					return true
				}
				if _, isMap := info.TypeOf(rs.X).Underlying().(*types.Map); !isMap {
					return true
				}
				nmaps++
				c := "maprange@" + pk.Types.Name() + "." + fi.Name()
				// slices rooted outside the loop that the body appends to
				type app struct {
					root types.Object
					elem bool
					pos  token.Pos
				}
				var apps []app
				ast.Inspect(rs.Body, func(m ast.Node) bool {
					as, ok := m.(*ast.AssignStmt)
					if !ok {
						return true
					}
					for i, rhs := range as.Rhs {
						call, ok := rhs.(*ast.CallExpr)
						if !ok || builtinName(info, call) != "append" || i >= len(as.Lhs) {
							continue
						}
						root := rootObj(info, as.Lhs[i])
						if root == nil || (root.Pos() >= rs.Body.Pos() && root.Pos() <= rs.Body.End()) {
							continue // loop-local accumulator
						}
						_, isIdx := ast.Unparen(as.Lhs[i]).(*ast.IndexExpr)
						apps = append(apps, app{root: root, elem: isIdx, pos: as.Pos()})
					}
					return true
				})
				if len(apps) == 0 {
					r.OKTrivial(c, rs.Pos(), "range over map %s appends to nothing that outlives the loop", src(r.P.Fset, rs.X))
					return true
				}
				if g == nil {
					g = newCFG(info, fi.Decl.Body)
					dom = dominators(g)
				}
				for _, a := range apps {
					cc := c + " " + a.root.Name()
					sorts := findSortsOf(info, fi.Decl.Body, a.root)
					// every return mentioning the slice after the loop must be dominated by an accepted sort
					nret := 0
					allOK := true
					why := ""
					ast.Inspect(fi.Decl.Body, func(m ast.Node) bool {
						ret, ok := m.(*ast.ReturnStmt)
						if !ok || ret.Pos() < rs.End() || !usesObj(info, ret, a.root) {
							return true
						}
						nret++
						found := false
						for _, ss := range sorts {
							if ss.rangeSt != nil && ss.rangeSt.Pos() < rs.End() {
								continue
							}
							if ss.elem != a.elem {
								continue
							}
							if ss.method != "Updates.SortByIndex" {
								why = "sorted with " + ss.method + ", whose comparator is not the (Index, Timestamp, Version) total order"
								continue
							}
							if sortDominates(g, dom, ss, ret.Pos()) {
								found = true
							}
						}
						if !found {
							allOK = false
						}
						return true
					})
					switch {
					case nret == 0:
						r.Unknown(cc, a.pos, "slice %s is appended to under map iteration but its escape point was not found", a.root.Name())
					case !allOK:
						if why == "" {
							why = "no unconditional Updates.SortByIndex of " + map[bool]string{true: "every element of ", false: ""}[a.elem] + a.root.Name() + " dominates the return"
						}
						r.Bad(cc, a.pos, "appended to in hash-map iteration order and returned unsorted: %s", why)
					default:
						r.OK(cc, a.pos, "appended to under range over %s; every return of %s (%d) is dominated by a complete SortByIndex pass", src(r.P.Fset, rs.X), a.root.Name(), nret)
					}
				}
				return true
			})
		}
	}
	r.Stat("map_range_loops", nmaps)
}

func c12N3(r *core.R) {
	pk := r.P.Pkg("annotate/internal/core")
	fi := findFunc(pk, "Compute")
	if fi == nil {
		r.Anchor("core.Compute")
		return
	}
	info := pk.TypesInfo
	// result variable: the []osm.Updates returned on the success path
	g := newCFG(info, fi.Decl.Body)
	dom := dominators(g)
	n := 0
	ast.Inspect(fi.Decl.Body, func(m ast.Node) bool {
		ret, ok := m.(*ast.ReturnStmt)
		if !ok || len(ret.Results) != 2 {
			return true
		}
		if id, ok := ret.Results[1].(*ast.Ident); !ok || id.Name != "nil" {
			return true
		}
		res := objOf(info, ret.Results[0])
		if res == nil {
			r.Unknown("return@Compute", ret.Pos(), "success return does not return a variable: %s", src(r.P.Fset, ret))
			return true
		}
		n++
		ok2 := false
		for _, ss := range findSortsOf(info, fi.Decl.Body, res) {
			if ss.elem && ss.method == "Updates.SortByIndex" && sortDominates(g, dom, ss, ret.Pos()) {
				ok2 = true
			}
		}
		if ok2 {
			r.OK("return@Compute "+res.Name(), ret.Pos(), "success return of %s is dominated by `for _, r := range %s { r.SortByIndex() }`", res.Name(), res.Name())
		} else {
			r.Bad("return@Compute "+res.Name(), ret.Pos(), "per-parent update lists are returned without each being sorted by SortByIndex")
		}
		return true
	})
	if n == 0 {
		r.Anchor("success return of core.Compute")
	}
}

// chainStep is one comparison of a lexicographic comparator.
type chainStep struct {
	field  string
	strict bool // strict less
	asc    bool // i-side on the left of <
	final  bool
	tieOK  bool // the guard that falls through is exactly inequality of the same field
	pos    token.Pos
}

// parseLessChain extracts the lexicographic chain of a Less(i, j) method over a slice receiver.
func parseLessChain(info *types.Info, fd *ast.FuncDecl) ([]chainStep, string) {
	if fd.Recv == nil || len(fd.Recv.List) != 1 || len(fd.Recv.List[0].Names) != 1 {
		return nil, "receiver not named"
	}
	recv := info.Defs[fd.Recv.List[0].Names[0]]
	var pi, pj types.Object
	var params []types.Object
	for _, f := range fd.Type.Params.List {
		for _, nm := range f.Names {
			params = append(params, info.Defs[nm])
		}
	}
	if len(params) != 2 {
		return nil, "Less must have two parameters"
	}
	pi, pj = params[0], params[1]
	// side returns "i"/"j" and the field name for recv[i].F
	side := func(e ast.Expr) (string, string) {
		f := fieldOf(info, e)
		if f == nil {
			return "", ""
		}
		ix, ok := ast.Unparen(ast.Unparen(e).(*ast.SelectorExpr).X).(*ast.IndexExpr)
		if !ok || objOf(info, ix.X) != recv {
			return "", ""
		}
		switch objOf(info, ix.Index) {
		case pi:
			return "i", f.Name()
		case pj:
			return "j", f.Name()
		}
		return "", ""
	}
	// less parses `A < B` or `A.Before(B)`
	less := func(e ast.Expr) (field string, strict, asc, ok bool) {
		e = ast.Unparen(e)
		var a, b ast.Expr
		switch x := e.(type) {
		case *ast.BinaryExpr:
			switch x.Op {
			case token.LSS:
				a, b, strict = x.X, x.Y, true
			case token.GTR:
				a, b, strict = x.Y, x.X, true
			case token.LEQ:
				a, b, strict = x.X, x.Y, false
			case token.GEQ:
				a, b, strict = x.Y, x.X, false
			default:
				return
			}
		case *ast.CallExpr:
			fn := callee(info, x)
			sel, isSel := x.Fun.(*ast.SelectorExpr)
			if !isSel || len(x.Args) != 1 {
				return
			}
			switch {
			case isMethod(fn, "time.Time", "Before"):
				a, b, strict = sel.X, x.Args[0], true
			case isMethod(fn, "time.Time", "After"):
				a, b, strict = x.Args[0], sel.X, true
			default:
				return
			}
		default:
			return
		}
		sa, fa := side(a)
		sb, fb := side(b)
		if fa == "" || fa != fb || sa == sb || sa == "" || sb == "" {
			return
		}
		return fa, strict, sa == "i", true
	}
	// neq parses `A != B` or `!A.Equal(B)`
	neq := func(e ast.Expr) (string, bool) {
		e = ast.Unparen(e)
		switch x := e.(type) {
		case *ast.BinaryExpr:
			if x.Op != token.NEQ {
				return "", false
			}
			sa, fa := side(x.X)
			sb, fb := side(x.Y)
			if fa == "" || fa != fb || sa == sb {
				return "", false
			}
			// != on time.Time compares representation, not instants
			if namedPath(info.TypeOf(x.X)) == "time.Time" {
				return "", false
			}
			return fa, true
		case *ast.UnaryExpr:
			if x.Op != token.NOT {
				return "", false
			}
			call, ok := ast.Unparen(x.X).(*ast.CallExpr)
			if !ok || len(call.Args) != 1 {
				return "", false
			}
			sel, ok := call.Fun.(*ast.SelectorExpr)
			if !ok || !isMethod(callee(info, call), "time.Time", "Equal") {
				return "", false
			}
			sa, fa := side(sel.X)
			sb, fb := side(call.Args[0])
			if fa == "" || fa != fb || sa == sb {
				return "", false
			}
			return fa, true
		}
		return "", false
	}
	var chain []chainStep
	for k, st := range fd.Body.List {
		switch s := st.(type) {
		case *ast.IfStmt:
			if s.Init != nil || s.Else != nil || len(s.Body.List) != 1 {
				return nil, "unrecognised if-form in comparator"
			}
			ret, ok := s.Body.List[0].(*ast.ReturnStmt)
			if !ok || len(ret.Results) != 1 {
				return nil, "if body is not a single return"
			}
			gf, gok := neq(s.Cond)
			f, strict, asc, ok := less(ret.Results[0])
			if !ok {
				return nil, "return in if is not a field comparison"
			}
			chain = append(chain, chainStep{field: f, strict: strict, asc: asc, tieOK: gok && gf == f, pos: s.Pos()})
		case *ast.ReturnStmt:
			if k != len(fd.Body.List)-1 || len(s.Results) != 1 {
				return nil, "return in the middle of comparator"
			}
			f, strict, asc, ok := less(s.Results[0])
			if !ok {
				return nil, "final return is not a field comparison"
			}
			chain = append(chain, chainStep{field: f, strict: strict, asc: asc, final: true, tieOK: true, pos: s.Pos()})
		default:
			return nil, "unrecognised statement in comparator"
		}
	}
	if len(chain) == 0 || !chain[len(chain)-1].final {
		return nil, "comparator does not end in a comparison"
	}
	return chain, ""
}

// sortAdapter resolves, for a method `func (us T) SortByX() { sort.Sort(U(us)) }`, the adapter type U.
func sortAdapter(pk *packages.Package, fi *FuncInfo) *types.Named {
	var res *types.Named
	ast.Inspect(fi.Decl.Body, func(n ast.Node) bool {
		call, ok := n.(*ast.CallExpr)
		if !ok {
			return true
		}
		fn := callee(pk.TypesInfo, call)
		if (isPkgFunc(fn, "sort", "Sort") || isPkgFunc(fn, "sort", "Stable")) && len(call.Args) == 1 {
			if nt, ok := pk.TypesInfo.TypeOf(call.Args[0]).(*types.Named); ok {
				res = nt
			}
		}
		return true
	})
	return res
}

func c12N2(r *core.R) {
	pk := r.P.Pkg("")
	info := pk.TypesInfo
	for _, spec := range []struct {
		method string
		want   []string
		key    bool
	}{
		{"Updates.SortByIndex", []string{"Index", "Timestamp", "Version"}, true},
		{"Updates.SortByTimestamp", []string{"Timestamp"}, false},
	} {
		fi := findFunc(pk, spec.method)
		if fi == nil {
			r.Anchor(spec.method)
			continue
		}
		ad := sortAdapter(pk, fi)
		if ad == nil {
			r.Anchor("sort.Sort(adapter) in " + spec.method)
			continue
		}
		c := "comparator@" + ad.Obj().Name()
		lessFi := findFunc(pk, ad.Obj().Name()+".Less")
		swapFi := findFunc(pk, ad.Obj().Name()+".Swap")
		lenFi := findFunc(pk, ad.Obj().Name()+".Len")
		if lessFi == nil || swapFi == nil || lenFi == nil {
			r.Anchor(ad.Obj().Name() + " Len/Less/Swap")
			continue
		}
		chain, perr := parseLessChain(info, lessFi.Decl)
		if perr != "" {
			r.Unknown(c+".Less", lessFi.Decl.Pos(), "comparator shape not recognised (%s); accepted: `if a.F != b.F {return a.F < b.F}`... `return a.G < b.G` with time fields through Equal/Before", perr)
		} else {
			var fields []string
			okShape := true
			for _, st := range chain {
				fields = append(fields, st.field)
				cc := c + ".Less step " + st.field
				switch {
				case !st.strict:
					r.Bad(cc, st.pos, "comparison of %s is not strict (<=): Less(i,i) would be true, sort.Sort requires a strict order", st.field)
					okShape = false
				case !st.asc:
					r.Bad(cc, st.pos, "comparison of %s is descending (j-side < i-side)", st.field)
					okShape = false
				case !st.tieOK:
					r.Bad(cc, st.pos, "the guard of the %s step is not exactly inequality of %s on both sides, so ties do not fall through to the next field", st.field, st.field)
					okShape = false
				default:
					r.OK(cc, st.pos, "strict ascending comparison of %s, ties fall through", st.field)
				}
			}
			if strings.Join(fields, ",") == strings.Join(spec.want, ",") {
				if okShape {
					r.OK(c+".Less", lessFi.Decl.Pos(), "lexicographic chain %v", fields)
				}
			} else {
				msg := "compares " + strings.Join(fields, ", ") + "; required " + strings.Join(spec.want, ", then ")
				if spec.key {
					msg += ": (Index, Version) is the key of an update within one parent, so without it equal-timestamp versions of one child are ordered by the unstable sort and by hash-map iteration order"
				}
				r.Bad(c+".Less", lessFi.Decl.Pos(), "%s", msg)
			}
		}
		// Swap: us[i], us[j] = us[j], us[i] ; Len: return len(us)
		okSwap := false
		if len(swapFi.Decl.Body.List) == 1 {
			if as, ok := swapFi.Decl.Body.List[0].(*ast.AssignStmt); ok && len(as.Lhs) == 2 && len(as.Rhs) == 2 &&
				sameExpr(info, as.Lhs[0], as.Rhs[1]) && sameExpr(info, as.Lhs[1], as.Rhs[0]) && !sameExpr(info, as.Lhs[0], as.Lhs[1]) {
				okSwap = true
			}
		}
		r.Check(okSwap, c+".Swap", swapFi.Decl.Pos(), "exchanges elements i and j", "Swap does not exchange elements i and j: sorting would lose or duplicate updates")
		okLen := false
		if len(lenFi.Decl.Body.List) == 1 {
			if ret, ok := lenFi.Decl.Body.List[0].(*ast.ReturnStmt); ok && len(ret.Results) == 1 {
				if a := lenCallArg(info, ret.Results[0]); a != nil && lenFi.Decl.Recv != nil && objOf(info, a) == info.Defs[lenFi.Decl.Recv.List[0].Names[0]] {
					okLen = true
				}
			}
		}
		r.Check(okLen, c+".Len", lenFi.Decl.Pos(), "returns len(receiver)", "Len does not return len(receiver)")
	}
	c12Key(r)
}

// c12Key checks the derivation of the per-parent key (Index, Version): every osm.Update appended in
// Compute comes from child[k].Update() (Version: c.Version) with Index set from the location, inside
// loops over k and over the locations, so (Index, Version) occurs at most once per parent.
func c12Key(r *core.R) {
	sh := r.P.Pkg("annotate/shared")
	upd := findFunc(sh, "(*Child).Update")
	if upd == nil {
		r.Anchor("shared.(*Child).Update")
		return
	}
	okVer := false
	ast.Inspect(upd.Decl.Body, func(n ast.Node) bool {
		cl, ok := n.(*ast.CompositeLit)
		if !ok || namedPath(sh.TypesInfo.TypeOf(cl)) != core.ModulePath+".Update" {
			return true
		}
		for _, e := range cl.Elts {
			if kv, ok := e.(*ast.KeyValueExpr); ok {
				if id, ok := kv.Key.(*ast.Ident); ok && id.Name == "Version" {
					if f := fieldOf(sh.TypesInfo, kv.Value); f != nil && f.Name() == "Version" {
						okVer = true
					}
				}
			}
		}
		return true
	})
	r.Check(okVer, "key@Child.Update Version", upd.Decl.Pos(), "Update() copies the child's Version", "Child.Update does not carry the child's Version: the (Index, Version) key of an update is lost")

	pk := r.P.Pkg("annotate/internal/core")
	fi := findFunc(pk, "Compute")
	if fi == nil {
		r.Anchor("core.Compute")
		return
	}
	info := pk.TypesInfo
	par := parentsOf(r.P, fi)
	n := 0
	ast.Inspect(fi.Decl.Body, func(m ast.Node) bool {
		as, ok := m.(*ast.AssignStmt)
		if !ok || len(as.Rhs) != 1 {
			return true
		}
		call, ok := as.Rhs[0].(*ast.CallExpr)
		if !ok || builtinName(info, call) != "append" || call.Ellipsis.IsValid() || len(call.Args) != 2 {
			return true
		}
		if namedPath(info.TypeOf(call.Args[1])) != core.ModulePath+".Update" {
			return true
		}
		n++
		c := "key@Compute append " + src(r.P.Fset, call.Args[1])
		u := objOf(info, call.Args[1])
		blk, _ := par[as].(*ast.BlockStmt)
		if u == nil || blk == nil {
			r.Unknown(c, as.Pos(), "appended update is not a local variable")
			return true
		}
		// within the same block: u := X[k].Update(); u.Index = cl.Index
		var fromUpdate, idxFromLoc bool
		var kObj, clObj types.Object
		for _, s := range blk.List {
			a2, ok := s.(*ast.AssignStmt)
			if !ok || len(a2.Lhs) != 1 || len(a2.Rhs) != 1 {
				continue
			}
			if objOf(info, a2.Lhs[0]) == u {
				if c2, ok := a2.Rhs[0].(*ast.CallExpr); ok {
					if fn := callee(info, c2); isMethod(fn, core.ModulePath+"/annotate/shared.Child", "Update") {
						if sel, ok := c2.Fun.(*ast.SelectorExpr); ok {
							if ix, ok := ast.Unparen(sel.X).(*ast.IndexExpr); ok {
								kObj = objOf(info, ix.Index)
								fromUpdate = kObj != nil
							}
						}
					}
				}
			}
			if f := fieldOf(info, a2.Lhs[0]); f != nil && f.Name() == "Index" && rootObj(info, a2.Lhs[0]) == u {
				if sf := fieldOf(info, a2.Rhs[0]); sf != nil && sf.Name() == "Index" && namedPath(info.TypeOf(ast.Unparen(a2.Rhs[0]).(*ast.SelectorExpr).X)) == core.ModulePath+"/annotate/internal/core.childLoc" {
					clObj = rootObj(info, a2.Rhs[0])
					idxFromLoc = clObj != nil
				}
			}
		}
		// k and cl must be loop variables of distinct enclosing loops
		loopVar := func(o types.Object) bool {
			found := false
			for p := par[as]; p != nil; p = par[p] {
				switch l := p.(type) {
				case *ast.RangeStmt:
					if (l.Key != nil && objOf(info, l.Key) == o) || (l.Value != nil && objOf(info, l.Value) == o) {
						found = true
					}
				case *ast.ForStmt:
					if l.Init != nil && usesObj(info, l.Init, o) {
						found = true
					}
				}
			}
			return found
		}
		switch {
		case !fromUpdate:
			r.Bad(c, as.Pos(), "appended update is not produced by child[k].Update()")
		case !idxFromLoc:
			r.Bad(c, as.Pos(), "the update's Index is not set from the child location's Index: (Index, Version) is no longer the position/version key the comparator relies on")
		case !loopVar(kObj) || !loopVar(clObj):
			r.Bad(c, as.Pos(), "k or the location is not a loop variable of an enclosing loop: an (Index, Version) pair could be emitted twice")
		default:
			r.OK(c, as.Pos(), "u := child[%s].Update(); u.Index = %s.Index inside loops over %s and %s: one update per (location, child version)", kObj.Name(), clObj.Name(), kObj.Name(), clObj.Name())
		}
		return true
	})
	if n == 0 {
		r.Anchor("append of osm.Update in core.Compute")
	}
}
