package rules

import "osmcheck/core"

// Fourth part of the C15 suites: the two-sided range guard. Update.Index is a signed int read from xml/json, so the
// guard in front of every children[u.Index] has to exclude negative indexes as well as indexes at or beyond the
// length. The one-sided guard the tree had before commit 15ce82f is a detected mutant at each of the three sites.

const (
	c15GuardWay = "if u.Index < 0 || u.Index >= len(w.Nodes) {"
	c15GuardRel = "if u.Index < 0 || u.Index >= len(r.Members) {"
	c15GuardLs  = "if u.Index < 0 || u.Index >= len(ls) {"
	c15WayFunc  = "func (w *Way) applyUpdate(u Update) error {\n\t" + c15GuardWay
	c15OobRet   = "\t\treturn &UpdateIndexOutOfRangeError{Index: u.Index}\n\t}\n"
)

func c15WayHelper(body string) string {
	return "func (u Update) inRange(n int) bool {\n" + body + "\n}\n\nfunc (w *Way) applyUpdate(u Update) error {\n\tif !u.inRange(len(w.Nodes)) {"
}

var c15Benign4 = []core.Mutant{
	// one unsigned comparison decides both sides
	{Name: "guard-unsigned-way", File: "way.go", Find: c15GuardWay, Replace: "if uint(u.Index) >= uint(len(w.Nodes)) {"},
	{Name: "guard-unsigned-lsat", File: "way.go", Find: c15GuardLs, Replace: "if n := uint(len(ls)); uint(u.Index) >= n {"},
	{Name: "guard-unsigned-rel-flipped", File: "relation.go", Find: c15GuardRel, Replace: "if uint64(len(r.Members)) <= uint64(u.Index) {"},
	// De Morgan / positive form
	{Name: "guard-demorgan-lsat", File: "way.go", Find: c15GuardLs, Replace: "if !(u.Index >= 0 && u.Index < len(ls)) {"},
	{Name: "guard-demorgan-rel", File: "relation.go", Find: c15GuardRel, Replace: "if !(0 <= u.Index && len(r.Members) > u.Index) {"},
	// two separate tests
	{Name: "guard-two-ifs-rel", File: "relation.go", Find: "\t" + c15GuardRel + "\n" + c15OobRet,
		Replace: "\tif u.Index < 0 {\n" + c15OobRet + "\n\tif u.Index >= len(r.Members) {\n" + c15OobRet},
	{Name: "guard-two-ifs-lsat", File: "way.go", Find: "\t\t" + c15GuardLs + "\n\t\t\tcontinue\n\t\t}\n",
		Replace: "\t\tif u.Index <= -1 {\n\t\t\tcontinue\n\t\t}\n\n\t\tif len(ls) <= u.Index {\n\t\t\tcontinue\n\t\t}\n"},
	// predicate helper with both sides
	{Name: "guard-helper-two-sided", File: "way.go", Find: c15WayFunc, Replace: c15WayHelper("\treturn u.Index >= 0 && u.Index < n")},
	{Name: "guard-helper-two-sided-locals", File: "way.go", Find: c15WayFunc, Replace: c15WayHelper("\tnegative, tooLarge := u.Index < 0, u.Index >= n\n\treturn !negative && !tooLarge")},
}

var c15Mutants4 = []core.Mutant{
	// the guard the tree had before the repair: a negative index indexes the list and panics
	{Name: "guard-upper-only-way", File: "way.go", Find: c15GuardWay, Replace: "if u.Index >= len(w.Nodes) {", ExpectRule: "U3", ExpectConstruct: "index@Way.Nodes"},
	{Name: "guard-upper-only-rel", File: "relation.go", Find: c15GuardRel, Replace: "if u.Index >= len(r.Members) {", ExpectRule: "U3", ExpectConstruct: "index@Relation.Members"},
	{Name: "guard-upper-only-lsat", File: "way.go", Find: c15GuardLs, Replace: "if u.Index >= len(ls) {", ExpectRule: "U3", ExpectConstruct: "index@(*Way).LineStringAt"},
	// … and its effect on the API: a negative in-time index is not reported as an error
	{Name: "guard-upper-only-way-oob", File: "way.go", Find: c15GuardWay, Replace: "if u.Index >= len(w.Nodes) {", ExpectRule: "U3", ExpectConstruct: "oob@(*Way).ApplyUpdatesUpTo"},
	// only the lower bound
	{Name: "guard-lower-only-rel", File: "relation.go", Find: c15GuardRel, Replace: "if u.Index < 0 {", ExpectRule: "U3", ExpectConstruct: "index@Relation.Members"},
	// wrong connective: the guard never fires
	{Name: "guard-and-instead-of-or", File: "way.go", Find: c15GuardLs, Replace: "if u.Index < 0 && u.Index >= len(ls) {", ExpectRule: "U3", ExpectConstruct: "index@(*Way).LineStringAt"},
	// off by one on the lower side: -1 passes
	{Name: "guard-lower-off-by-one", File: "way.go", Find: c15GuardWay, Replace: "if u.Index < -1 || u.Index >= len(w.Nodes) {", ExpectRule: "U3", ExpectConstruct: "index@Way.Nodes"},
	// helper that tests the upper bound only
	{Name: "guard-helper-upper-only", File: "way.go", Find: c15WayFunc, Replace: c15WayHelper("\treturn u.Index < n"), ExpectRule: "U3", ExpectConstruct: "index@Way.Nodes"},
	// unsigned conversion on the length only: the comparison is done on the signed index converted late
	{Name: "guard-unsigned-minus-one", File: "relation.go", Find: c15GuardRel, Replace: "if uint(u.Index) > uint(len(r.Members)-1) {", ExpectRule: "U3", ExpectConstruct: "index@Relation.Members"},
}
