package rules

import (
	"fmt"
	"go/token"
	"sort"
	"strings"

	"osmcheck/core"
)

// ---------------------------------------------------------------------------------------------
// S1 sibling agreement

func (m *c13Model) summary(el *c13ELoop) []string {
	dom := m.domOf(el)
	cells, unc := m.tableCells(el)
	names := map[string]string{el.elem.key: "<elem>", m.featureIDOf(el.elem, el.kind).key: "<FeatureID(elem)>"}
	lines := map[string]bool{}
	for _, cell := range cells {
		p := cell.p
		nm := map[string]string{}
		for k, v := range names {
			nm[k] = v
		}
		if p.H != nil {
			nm[p.H.key], nm[p.herr.key] = "<history>", "<history error>"
		}
		if p.srch != nil && p.srch.idiom != "" {
			for _, f := range p.srch.found(m.x) {
				nm[f.key] = "<selected entry>"
			}
		}
		d := cell.actual
		switch p.how {
		case "iter":
			var as []string
			for _, a := range p.appended {
				as = append(as, m.canon(a, el.kind, nm, 0))
			}
			d += " " + strings.Join(as, " + ") + " visible=" + m.canon(p.visible, el.kind, nm, 0)
		case "exit":
			var rs []string
			for _, t := range p.res {
				rs = append(rs, m.canon(m.x.resolve(p.st, t), el.kind, nm, 0))
			}
			d += " (" + strings.Join(rs, ", ") + ")"
		}
		for _, h := range p.hist {
			var as []string
			for _, a := range h.args {
				as = append(as, m.canon(a, el.kind, nm, 0))
			}
			d += " | " + strings.ReplaceAll(h.fn.Name(), c13Kinds[el.kind].Hist, "<History>") + "(" + strings.Join(as, ",") + ")"
		}
		if len(p.problems) > 0 {
			d += fmt.Sprintf(" | %d other effect(s)", len(p.problems))
		}
		if p.srch != nil && (p.srch.selBad != "" || p.srch.selUnk != "" || p.srch.initBad != "") {
			lines["history scan -> not a greatest-version-below scan"] = true
		}
		lines["{"+dom.describe(cell.c)+"} -> "+d] = true
	}
	for _, c := range unc {
		lines["{"+dom.describe(c)+"} -> no path"] = true
	}
	var out []string
	for l := range lines {
		out = append(out, l)
	}
	sort.Strings(out)
	return out
}

func c13S1(r *core.R) {
	m := c13Load(r)
	if m == nil {
		return
	}
	for sec := range c13Secs {
		var sum [3][]string
		var pos [3]token.Pos
		var have [3]bool
		for _, el := range m.eloops {
			if el.sec != sec {
				continue
			}
			s := m.summary(el)
			if !have[el.kind] {
				sum[el.kind], pos[el.kind], have[el.kind] = s, el.l.stmt.Pos(), true
				continue
			}
			// the same loop evaluated in another calling context: keep the union
			set := map[string]bool{}
			for _, l := range sum[el.kind] {
				set[l] = true
			}
			for _, l := range s {
				if !set[l] {
					sum[el.kind] = append(sum[el.kind], l)
				}
			}
			sort.Strings(sum[el.kind])
		}
		eq := func(i, j int) bool { return strings.Join(sum[i], "\n") == strings.Join(sum[j], "\n") }
		for k := range c13Kinds {
			c := "iteration@" + c13Secs[sec].Field + "/" + c13Kinds[k].Elem
			if !have[k] {
				r.Bad(c, m.change.Decl.Pos(), "no loop over change.%s.%s is executed by annotate.Change: these elements get no action", c13Secs[sec].Field, c13Kinds[k].Elems)
				continue
			}
			r.Stat("summary_lines", len(sum[k]))
			o1, o2 := (k+1)%3, (k+2)%3
			ref := -1
			switch {
			case !have[o1] || !have[o2]:
			case eq(k, o1) && eq(k, o2):
			case eq(o1, o2):
				ref = o1
			case eq(k, o1) || eq(k, o2):
			default:
				ref = o1
			}
			if ref < 0 {
				r.OK(c, pos[k], "the %d outcome line(s) of one iteration (abstract input -> action/error, datasource call, scan) equal those of the other two kinds after renaming %s-specific API names", len(sum[k]), c13Kinds[k].Elem)
				continue
			}
			a, b := "<none>", "<none>"
			set := map[string]bool{}
			for _, l := range sum[ref] {
				set[l] = true
			}
			for _, l := range sum[k] {
				if !set[l] {
					a = l
					break
				}
			}
			set = map[string]bool{}
			for _, l := range sum[k] {
				set[l] = true
			}
			for _, l := range sum[ref] {
				if !set[l] {
					b = l
					break
				}
			}
			r.Bad(c, pos[k], "one iteration over change.%s.%s behaves differently from its %s sibling after renaming %s->%s: here `%s`, there `%s`; the %s variant therefore treats its elements differently from the other kinds",
				c13Secs[sec].Field, c13Kinds[k].Elems, c13Kinds[ref].Elem, c13Kinds[k].Elem, c13Kinds[ref].Elem, a, b, c13Kinds[k].Elem)
		}
	}
}
