package rules

import "osmcheck/core"

// c20Mutants3: part 3 of the sensitivity suite of C20 (see c20.go).
func c20Mutants3() []core.Mutant {
	return []core.Mutant{
		{Name: "idlist-loop-restarts-at-zero-after-peeled-first", File: "osmapi/relation.go",
			Find: `	data := make([]byte, 0, 11*len(ids))
	for i, id := range ids {
		if i != 0 {
			data = append(data, byte(','))
		}
		data = strconv.AppendInt(data, int64(id), 10)
	}
	url := ds.baseURL() + "/relations?relations=" + string(data)
	if len(params) > 0 {
		url += "&" + params
	}

	o := &osm.OSM{}
	if err := ds.getFromAPI(ctx, url, &o); err != nil {
		return nil, err
	}

	return o.Relations, nil
}
`,
			Replace: `	url := ds.baseURL() + "/relations?relations=" + idList(len(ids), func(i int) int64 { return int64(ids[i]) })
	if len(params) > 0 {
		url += "&" + params
	}

	o := &osm.OSM{}
	if err := ds.getFromAPI(ctx, url, &o); err != nil {
		return nil, err
	}

	return o.Relations, nil
}

// idList formats n ids as a comma separated list, at(i) being the i-th id.
func idList(n int, at func(i int) int64) string {
	if n == 0 {
		return ""
	}

	list := strconv.AppendInt(make([]byte, 0, 11*n), at(0), 10)
	for i := 0; i < n; i++ {
		list = append(list, ',')
		list = strconv.AppendInt(list, at(i), 10)
	}

	return string(list)
}
`, ExpectRule: "H4", ExpectConstruct: "path@(*Datasource).Relations"},
		{Name: "idlist-separator-missing", File: "osmapi/relation.go",
			Find: `	data := make([]byte, 0, 11*len(ids))
	for i, id := range ids {
		if i != 0 {
			data = append(data, byte(','))
		}
		data = strconv.AppendInt(data, int64(id), 10)
	}
	url := ds.baseURL() + "/relations?relations=" + string(data)
	if len(params) > 0 {
		url += "&" + params
	}

	o := &osm.OSM{}
	if err := ds.getFromAPI(ctx, url, &o); err != nil {
		return nil, err
	}

	return o.Relations, nil
}
`,
			Replace: `	url := ds.baseURL() + "/relations?relations=" + idList(len(ids), func(i int) int64 { return int64(ids[i]) })
	if len(params) > 0 {
		url += "&" + params
	}

	o := &osm.OSM{}
	if err := ds.getFromAPI(ctx, url, &o); err != nil {
		return nil, err
	}

	return o.Relations, nil
}

// idList formats n ids as a comma separated list, at(i) being the i-th id.
func idList(n int, at func(i int) int64) string {
	if n == 0 {
		return ""
	}

	list := strconv.AppendInt(make([]byte, 0, 11*n), at(0), 10)
	for i := 1; i < n; i++ {
		list = strconv.AppendInt(list, at(i), 10)
	}

	return string(list)
}
`, ExpectRule: "H4", ExpectConstruct: "path@(*Datasource).Relations"},
		{Name: "idlist-empty-guard-dropped-first-id-read-panics", File: "osmapi/relation.go",
			Find: `	data := make([]byte, 0, 11*len(ids))
	for i, id := range ids {
		if i != 0 {
			data = append(data, byte(','))
		}
		data = strconv.AppendInt(data, int64(id), 10)
	}
	url := ds.baseURL() + "/relations?relations=" + string(data)
	if len(params) > 0 {
		url += "&" + params
	}

	o := &osm.OSM{}
	if err := ds.getFromAPI(ctx, url, &o); err != nil {
		return nil, err
	}

	return o.Relations, nil
}
`,
			Replace: `	url := ds.baseURL() + "/relations?relations=" + idList(len(ids), func(i int) int64 { return int64(ids[i]) })
	if len(params) > 0 {
		url += "&" + params
	}

	o := &osm.OSM{}
	if err := ds.getFromAPI(ctx, url, &o); err != nil {
		return nil, err
	}

	return o.Relations, nil
}

// idList formats n ids as a comma separated list, at(i) being the i-th id.
func idList(n int, at func(i int) int64) string {
	list := strconv.AppendInt(make([]byte, 0, 11*n), at(0), 10)
	for i := 1; i < n; i++ {
		list = append(list, ',')
		list = strconv.AppendInt(list, at(i), 10)
	}

	return string(list)
}
`, ExpectRule: "H1", ExpectConstruct: "once@(*Datasource).Relations"},
		{Name: "status-helper-returns-typed-nil-pointer-for-200", File: "osmapi/datasource.go",
			Find: `	if resp.StatusCode == http.StatusNotFound {
		return &NotFoundError{URL: url}
	}

	if resp.StatusCode == http.StatusForbidden {
		return &ForbiddenError{URL: url}
	}

	if resp.StatusCode == http.StatusGone {
		return &GoneError{URL: url}
	}

	if resp.StatusCode == http.StatusRequestURITooLong {
		return &RequestURITooLongError{URL: url}
	}

	if resp.StatusCode != http.StatusOK {
		return &UnexpectedStatusCodeError{
			Code: resp.StatusCode,
			URL:  url,
		}
	}

	return xml.NewDecoder(resp.Body).Decode(item)
}
`,
			Replace: `	if err := statusError(resp.StatusCode, url); err != nil {
		return err
	}

	return xml.NewDecoder(resp.Body).Decode(item)
}

// statusError maps the status code of a response to its typed error, nil for a 200.
func statusError(code int, url string) error {
	var none *UnexpectedStatusCodeError
	switch code {
	case http.StatusOK:
		return none
	case http.StatusNotFound:
		return &NotFoundError{URL: url}
	case http.StatusForbidden:
		return &ForbiddenError{URL: url}
	case http.StatusGone:
		return &GoneError{URL: url}
	case http.StatusRequestURITooLong:
		return &RequestURITooLongError{URL: url}
	}
	return &UnexpectedStatusCodeError{Code: code, URL: url}
}
`, ExpectRule: "H3", ExpectConstruct: "status 200"},
		{Name: "featureoptions-join-comma", File: "osmapi/options.go", Find: "strings.Join(params, \"&\")", Replace: "strings.Join(params, \",\")", ExpectRule: "H6", ExpectConstruct: "join@featureOptions"},
	}
}
