package rules

// c16_rules_cast.go — rule E1, second half: the ray cast of the containment test examines every edge of the outer
// ring exactly once per tested point.
//
// The containment function of osmgeojson (found by role: two rings -> bool; the other rules treat it as an oracle)
// is evaluated on a closed outer ring of 4 / 5 vertices and a ring with one tested point; every comparison of
// symbolic coordinates is an unknown boolean that remembers the points it depends on, and every branch on it is
// explored both ways. On every path, the decisions that involve vertices of the outer ring must each involve exactly
// two of them (one crossing test = one edge); consecutive decisions on the same pair are one test; the tests must be
// exactly the edges (v[k], v[k+1]), k = 0..len-2, each once. The closing point of the ring carries its own token,
// so the zero-length pair (last, first) is recognisable: it may be tested or not. Whether the crossing formula
// itself is right is not decided.

import (
	"fmt"
	"go/types"
	"sort"
	"strings"
)

// containFunc finds the containment test by role.
func (e *c16Env) containFunc() *FuncInfo {
	for _, fi := range allFuncs(e.gj) {
		sig := fi.Obj.Type().(*types.Signature)
		if sig.Recv() == nil && sig.Params().Len() == 2 && sig.Results().Len() == 1 &&
			types.Identical(sig.Params().At(0).Type(), e.ringT) && types.Identical(sig.Params().At(1).Type(), e.ringT) &&
			types.Identical(sig.Results().At(0).Type(), types.Typ[types.Bool]) {
			return fi
		}
	}
	return nil
}

func c16Pair(a, b string) string {
	if a > b {
		a, b = b, a
	}
	return "(" + a + "," + b + ")"
}

// castVerdict evaluates contains(outer, {p}) (or swapped) and checks the edges tested on every path.
func (e *c16Env) castVerdict(fi *FuncInfo, outer []string, swapped bool) c16Verdict {
	isVertex := map[string]bool{}
	for _, t := range outer {
		isVertex[t] = true
	}
	need := map[string]int{}
	for i := 0; i+1 < len(outer); i++ {
		need[c16Pair(outer[i], outer[i+1])] = 1
	}
	optional := c16Pair(outer[len(outer)-1], outer[0])
	outs, complete := c16Explore(e.r.P, nil, func(m *c16M) c16Val {
		a, b := c16Val(e.line(e.ringT, outer)), c16Val(e.line(e.ringT, []string{"P"}))
		if swapped {
			a, b = b, a
		}
		return m.callFunc(fi, nil, a, b)
	})
	if !complete {
		return c16Verdict{undecided: fmt.Sprintf("more than %d paths through the ray cast", len(outs))}
	}
	for _, out := range outs {
		if _, v := c16Settle(out); !v.ok() {
			return v
		}
		var tests []string
		for _, ch := range out.choices {
			var vs []string
			for _, d := range ch.deps {
				if isVertex[d] {
					vs = append(vs, d)
				}
			}
			switch len(vs) {
			case 0:
				continue
			case 2:
				if p := c16Pair(vs[0], vs[1]); len(tests) == 0 || tests[len(tests)-1] != p {
					tests = append(tests, p)
				}
			default:
				return c16Verdict{undecided: fmt.Sprintf("the decision `%s` involves the ring vertices %v: it cannot be attributed to one edge", ch.label, vs)}
			}
		}
		got := map[string]int{}
		for _, t := range tests {
			got[t]++
		}
		var problems []string
		for p := range need {
			if got[p] != 1 {
				problems = append(problems, fmt.Sprintf("edge %s is examined %d times", p, got[p]))
			}
		}
		for p, n := range got {
			if need[p] == 0 && (p != optional || n > 1) {
				problems = append(problems, fmt.Sprintf("the pair %s, which is no edge of the ring, is examined %d time(s)", p, n))
			}
		}
		if len(problems) > 0 {
			sort.Strings(problems)
			return c16Verdict{bad: fmt.Sprintf("for the tested point the crossing tests are %s: %s", strings.Join(tests, " "), strings.Join(problems, "; "))}
		}
	}
	return c16Verdict{}
}

func c16E1Cast(e *c16Env) {
	r := e.r
	fi := e.containFunc()
	if fi == nil {
		r.Anchor("the containment test of package osmgeojson (func(orb.Ring, orb.Ring) bool)")
		return
	}
	pos := fi.Decl.Pos()
	what := "a ray crossing an edge that is never examined (or examined twice) flips the parity: the hole is dropped or attached to the wrong outer ring"
	for _, fam := range []struct {
		name  string
		outer []string
	}{
		{"ray-cast[closed ring of 4 vertices]", []string{"a", "b", "c", "d", "a'"}},
		{"ray-cast[closed ring of 5 vertices]", []string{"a", "b", "c", "d", "e", "a'"}},
	} {
		v := e.castVerdict(fi, fam.outer, false)
		if v.undecided != "" || v.bad != "" { // the container may be the second parameter
			if v2 := e.castVerdict(fi, fam.outer, true); v2.ok() {
				v = v2
			}
		}
		text := fmt.Sprintf("%s(outer ring %v with closing point a' = a, one tested point P)", fi.Name(), fam.outer)
		switch {
		case v.undecided != "":
			r.Unknown(fam.name, pos, "%s could not be evaluated: %s", text, v.undecided)
		case v.bad != "":
			r.Bad(fam.name, pos, "%s: %s. %s", text, v.bad, what)
		default:
			r.OK(fam.name, pos, "on every path the crossing tests are exactly the edges (v[k], v[k+1]), k = 0..len-2, each once (the zero-length pair (last, first) optional)")
		}
	}
}
