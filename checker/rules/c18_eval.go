package rules

import (
	"fmt"
	"go/ast"
	"go/constant"
	"go/token"
	"go/types"
)

func (x *c18Exec) eval(fr *c18Frame, e ast.Expr) c18Val {
	e = ast.Unparen(e)
	if tv, ok := x.info.Types[e]; ok && tv.Value != nil {
		switch tv.Value.Kind() {
		case constant.String:
			return c18Val{k: c18KStr, s: constant.StringVal(tv.Value), org: c18OConst}
		case constant.Bool:
			return c18Val{k: c18KBool, b: constant.BoolVal(tv.Value)}
		case constant.Int:
			if v, ok := constant.Int64Val(tv.Value); ok {
				return c18Val{k: c18KInt, i: v}
			}
		}
		return c18Unk("constant `%s` is not a string, boolean or integer", x.src(e))
	}
	switch t := e.(type) {
	case *ast.Ident:
		o := objOf(x.info, t)
		if _, isNil := o.(*types.Nil); isNil {
			return c18Val{k: c18KNil}
		}
		if o == nil {
			return c18Unk("`%s` does not resolve", t.Name)
		}
		if v, ok := fr.lookup(o); ok {
			return v
		}
		if fn, isFunc := o.(*types.Func); isFunc {
			if fd := x.funcs[fn]; fd != nil && fd.Recv == nil {
				return c18Val{k: c18KFuncDecl, fdecl: fd}
			}
		}
		return x.pkgValue(o, t)
	case *ast.SelectorExpr:
		return x.selector(fr, t)
	case *ast.IndexExpr:
		return x.index(fr, t)
	case *ast.StarExpr:
		v := x.eval(fr, t.X)
		switch v.k {
		case c18KRecv, c18KEntry, c18KNode, c18KTable, c18KStruct, c18KTagRec, c18KUnknown:
			return v
		}
		return c18Unk("dereference `%s` is not modelled", x.src(e))
	case *ast.UnaryExpr:
		switch t.Op {
		case token.NOT:
			v := x.eval(fr, t.X)
			if v.k != c18KBool {
				return v
			}
			v.b = !v.b
			return v
		case token.AND:
			v := x.eval(fr, t.X)
			switch v.k {
			case c18KRecv, c18KEntry, c18KNode, c18KStruct, c18KTagRec, c18KUnknown:
				return v
			}
			return c18Unk("address `%s` is not modelled", x.src(e))
		case token.SUB:
			v := x.eval(fr, t.X)
			if v.k == c18KInt && v.org == 0 {
				v.i = -v.i
				return v
			}
		}
		return c18Unk("`%s` is not modelled", x.src(e))
	case *ast.BinaryExpr:
		switch t.Op {
		case token.LAND, token.LOR:
			a := x.eval(fr, t.X)
			if a.k != c18KBool {
				if a.k == c18KUnknown {
					return a
				}
				return c18Unk("`%s` is not a boolean", x.src(t.X))
			}
			if a.b == (t.Op == token.LOR) {
				return a
			}
			b := x.eval(fr, t.Y)
			if b.k != c18KBool && b.k != c18KUnknown {
				return c18Unk("`%s` is not a boolean", x.src(t.Y))
			}
			return b
		case token.EQL, token.NEQ, token.LSS, token.LEQ, token.GTR, token.GEQ:
			return x.compare(t.Op, x.eval(fr, t.X), x.eval(fr, t.Y), t)
		case token.ADD, token.SUB, token.MUL, token.QUO, token.REM, token.SHL, token.SHR:
			return x.arith(t.Op, x.eval(fr, t.X), x.eval(fr, t.Y), t)
		}
		return c18Unk("operator in `%s` is not modelled", x.src(e))
	case *ast.CallExpr:
		return x.call(fr, t)
	case *ast.FuncLit:
		return c18Val{k: c18KFunc, lit: t, fr: fr}
	case *ast.SliceExpr:
		if base := x.eval(fr, t.X); base.k == c18KTags && t.Max == nil {
			list := x.tagList(base)
			lo, hi := int64(0), int64(len(list))
			for i, b := range []ast.Expr{t.Low, t.High} {
				if b == nil {
					continue
				}
				v := x.eval(fr, b)
				if v.k != c18KInt || v.org != 0 {
					return c18Unk("bound of `%s` is not a decided integer", x.src(t))
				}
				if i == 0 {
					lo = v.i
				} else {
					hi = v.i
				}
			}
			if lo < 0 || hi > int64(len(list)) || lo > hi {
				x.stop("panic", "`%s` slices [%d:%d] of a tag list of %d", x.src(t), lo, hi, len(list))
			}
			return c18Val{k: c18KTags, b: true, elems: list[lo:hi]}
		}
	case *ast.CompositeLit:
		return x.composite(fr, t)
	}
	return c18Unk("`%s` is not modelled", x.src(e))
}

// pkgValue gives the value of a package-level object: the rule table, or a variable that behaves as a
// constant (constant initialiser, never assigned or address-taken anywhere in the package).
func (x *c18Exec) pkgValue(o types.Object, at ast.Node) c18Val {
	if x.ctx != nil && o == x.ctx.table {
		return c18Val{k: c18KTable}
	}
	if v, ok := x.pkgC[o]; ok {
		return v
	}
	v := c18Unk("`%s` is not a local, a constant or a never-written package variable with a constant initialiser", o.Name())
	if ki := x.keyIndexOf(o); ki != nil {
		v := c18Val{k: c18KKeyIdx, ki: ki}
		x.pkgC[o] = v
		return v
	}
	if mv, ok := x.pkgMap(o); ok {
		x.pkgC[o] = mv
		return mv
	}
	if lv, ok := x.pkgLiteral(o); ok {
		x.pkgC[o] = lv
		return lv
	}
	if pv, ok := o.(*types.Var); ok && !pv.IsField() && pv.Pkg() == x.pk.Types && pv.Parent() == x.pk.Types.Scope() {
		if init := c18VarInit(x.pk, pv); init != nil {
			if tv, ok := x.info.Types[init]; ok && tv.Value != nil {
				if w := c18Writes(x.pk, pv, nil); len(w) > 0 {
					v = c18Unk("package variable %s is written at %s", pv.Name(), x.r.P.Rel(w[0]))
				} else {
					switch tv.Value.Kind() {
					case constant.String:
						v = c18Val{k: c18KStr, s: constant.StringVal(tv.Value), org: c18OConst}
					case constant.Bool:
						v = c18Val{k: c18KBool, b: constant.BoolVal(tv.Value)}
					case constant.Int:
						if n, ok := constant.Int64Val(tv.Value); ok {
							v = c18Val{k: c18KInt, i: n}
						}
					}
				}
			}
		}
	}
	x.pkgC[o] = v
	return v
}

func (x *c18Exec) readViolation(n ast.Node, format string, args ...interface{}) {
	x.reads = append(x.reads, c18ReadObs{pos: n.Pos(), why: fmt.Sprintf("`%s`: %s", x.src(n), fmt.Sprintf(format, args...))})
}

func (x *c18Exec) selector(fr *c18Frame, sel *ast.SelectorExpr) c18Val {
	s := x.info.Selections[sel]
	if s != nil && s.Kind() == types.MethodVal {
		if fn, _ := s.Obj().(*types.Func); c18IsFind(fn) {
			if rv := x.eval(fr, sel.X); rv.k == c18KTags {
				return c18Val{k: c18KFindFn}
			}
		}
		return c18Unk("method value `%s` is not modelled", x.src(sel))
	}
	if s == nil || s.Kind() != types.FieldVal {
		return c18Unk("`%s` is not a field selection", x.src(sel))
	}
	f := s.Obj().(*types.Var)
	base := x.eval(fr, sel.X)
	switch base.k {
	case c18KUnknown:
		return base
	case c18KStruct:
		if len(s.Index()) == 1 {
			return x.field(base, f, sel)
		}
	case c18KTagRec:
		switch f.Name() {
		case "Key":
			return base.elems[0]
		case "Value":
			return base.elems[1]
		}
	case c18KRecv:
		if len(s.Index()) == 1 {
			switch f.Name() {
			case "Nodes":
				if x.s.n >= 0 {
					return c18Val{k: c18KNodes}
				}
			case "Tags":
				return c18Val{k: c18KTags}
			}
		}
		x.readViolation(sel, "receiver field %s takes part in the classification", f.Name())
		return c18Unk("receiver field %s is not an input of the published algorithm", f.Name())
	case c18KNode:
		if f.Name() == "ID" && len(s.Index()) == 1 {
			return c18Val{k: c18KNodeID, i: base.i}
		}
		x.readViolation(sel, "way-node field %s takes part in the classification", f.Name())
		return c18Unk("way-node field %s is not an input of the published algorithm", f.Name())
	case c18KEntry:
		if x.ctx != nil && x.s.inBody {
			switch f {
			case x.ctx.keyF:
				return c18Val{k: c18KStr, s: "«entry key»", org: c18OEntryKey}
			case x.ctx.condF:
				return c18Val{k: c18KStr, s: x.s.cond, org: c18OEntryCond}
			case x.ctx.valsF:
				return c18Val{k: c18KValues}
			}
		}
		return c18Unk("entry field %s is not modelled", f.Name())
	}
	return c18Unk("`%s` is not modelled", x.src(sel))
}

func (x *c18Exec) index(fr *c18Frame, ix *ast.IndexExpr) c18Val {
	base := x.eval(fr, ix.X)
	switch base.k {
	case c18KUnknown:
		return base
	case c18KSlice, c18KNil:
		i := x.eval(fr, ix.Index)
		if i.k != c18KInt || i.org != 0 {
			return c18Unk("index of `%s` is not a decided integer", x.src(ix))
		}
		if i.i < 0 || i.i >= int64(len(base.elems)) {
			x.stop("panic", "`%s` indexes %d in a list of %d element(s)", x.src(ix), i.i, len(base.elems))
		}
		return base.elems[i.i]
	case c18KNodes:
		i := x.eval(fr, ix.Index)
		if i.k != c18KInt || (i.org != 0 && i.org != c18ONodeLen) {
			return c18Unk("index of `%s` is not a decided integer", x.src(ix))
		}
		if i.i < 0 || i.i >= x.s.n {
			x.stop("panic", "`%s` indexes %d in a node list of length %d", x.src(ix), i.i, x.s.n)
		}
		return c18Val{k: c18KNode, i: i.i}
	case c18KValues:
		i := x.eval(fr, ix.Index)
		if i.k != c18KInt || (i.org != 0 && i.org != c18OSearchIdx) {
			return c18Unk("index of `%s` is not a decided integer", x.src(ix))
		}
		if i.i < 0 || i.i >= x.s.ll {
			if i.org == c18OSearchIdx {
				x.stop("panic", "`%s` is evaluated when the search index equals len(values) (the value sorts after every list element): index out of range", x.src(ix))
			}
			x.stop("panic", "`%s` indexes %d in a value list of %d element(s)", x.src(ix), i.i, x.s.ll)
		}
		return c18Val{k: c18KStr, org: c18OElem, i: i.i}
	case c18KMap:
		v, _ := x.mapLookup(fr, base, ix)
		return v
	case c18KKeyIdx:
		mt, _ := x.info.TypeOf(ix.X).Underlying().(*types.Map)
		v, _ := x.keyLookup(base.ki, x.eval(fr, ix.Index), ix, mt.Elem())
		return v
	case c18KTags:
		i := x.eval(fr, ix.Index)
		list := x.tagList(base)
		if i.k != c18KInt || i.org != 0 {
			return c18Unk("index of `%s` is not a decided integer", x.src(ix))
		}
		if i.i < 0 || i.i >= int64(len(list)) {
			x.stop("panic", "`%s` indexes %d in a tag list of %d", x.src(ix), i.i, len(list))
		}
		return list[i.i]
	case c18KTable:
		i := x.eval(fr, ix.Index)
		if i.k == c18KCurIdx && i.i == 0 && x.loopState == 1 {
			return c18Val{k: c18KEntry}
		}
		if i.k == c18KCurIdx && i.b && x.s.inBody { // the index a rule-key index gave for the entry's key
			return c18Val{k: c18KEntry}
		}
		return c18Unk("`%s` is not the entry the rule loop is at", x.src(ix))
	}
	return c18Unk("`%s` is not modelled", x.src(ix))
}
