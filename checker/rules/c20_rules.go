package rules

import (
	"osmcheck/core"
)

// Rule entry points of C20. The obligations are produced by c20_r_*.go from symbolic executions
// (c20_sx*.go) of the endpoint methods, the wrappers, the request function and the option methods.

func c20Setup(r *core.R, needTable bool) (*c20Ctx, *c20Table) {
	cx := c20NewCtx(r)
	if cx == nil {
		return nil, nil
	}
	tab := c20LoadTable(r)
	if tab == nil {
		return nil, nil
	}
	return cx, tab
}

func c20H1(r *core.R) {
	cx, tab := c20Setup(r, true)
	if cx == nil {
		return
	}
	eps := cx.endpoints()
	r.Stat("endpoint_methods", len(eps))
	for _, fi := range eps {
		cx.onceEP(fi, tab.OptionSeparator)
	}
	ws := cx.wrappers()
	r.Stat("package_level_wrappers", len(ws))
	if cx.pk.Types.Scope().Lookup("DefaultDatasource") == nil {
		r.Anchor("osmapi.DefaultDatasource")
	}
	for _, fi := range ws {
		cx.wrapperCheck(fi, tab.OptionSeparator)
	}
	cx.httpOutsideCheck()
	cx.doOnceGet(tab.OKStatus)
}

func c20H2(r *core.R) {
	cx, tab := c20Setup(r, true)
	if cx == nil {
		return
	}
	cx.limiterGet(tab.OKStatus)
}

func c20H3(r *core.R) {
	cx, tab := c20Setup(r, true)
	if cx == nil {
		return
	}
	cx.statusTableGet(tab)
	cx.requestShapeGet(tab, "H3")
	cx.notFoundCheck(tab)
	for _, fi := range cx.endpoints() {
		cx.propagateEP(fi, tab.OptionSeparator)
	}
}

func c20H4(r *core.R) {
	cx, tab := c20Setup(r, true)
	if cx == nil {
		return
	}
	seen := map[string]bool{}
	for _, fi := range cx.endpoints() {
		seen[fi.Obj.Name()] = true
		cx.pathEP(fi, tab)
	}
	for _, ep := range tab.Endpoints {
		if !seen[ep.Method] {
			r.Anchor("(*Datasource)." + ep.Method + " (endpoint of tables/api06.json)")
		}
	}
	cx.baseURLCheck(tab)
	cx.requestShapeGet(tab, "H4")
}

func c20H5(r *core.R) {
	cx, tab := c20Setup(r, true)
	if cx == nil {
		return
	}
	for _, fi := range cx.endpoints() {
		cx.resultEP(fi, tab)
	}
}

func c20H6(r *core.R) {
	cx, tab := c20Setup(r, true)
	if cx == nil {
		return
	}
	for _, op := range tab.Options {
		cx.optionCheck(op, tab)
	}
	cx.joinCheck(tab)
}
