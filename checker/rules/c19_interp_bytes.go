package rules

// c19_interp_bytes.go — concrete byte slices in the abstract evaluator: text assembled with strconv.Append*,
// append(buf, 'x'), append(buf, s...), Builder.Write(p), buf[:0] scratch resets and string(buf) / []byte(s)
// conversions (allocation-free spellings of fmt.Sprintf), and sync.Pool.Get handing out what New makes.

import (
	"go/ast"
	"go/constant"
	"go/types"
	"strconv"
)

// c19Bytes is a []byte whose contents are known.
type c19Bytes struct{ b string }

func c19IsByteSeq(t types.Type) bool {
	if t == nil {
		return false
	}
	switch u := t.Underlying().(type) {
	case *types.Slice:
		b, ok := u.Elem().Underlying().(*types.Basic)
		return ok && b.Kind() == types.Uint8
	case *types.Array:
		b, ok := u.Elem().Underlying().(*types.Basic)
		return ok && b.Kind() == types.Uint8
	case *types.Pointer:
		return c19IsByteSeq(u.Elem())
	}
	return false
}

func c19ByteConst(b byte) c19Const {
	return c19Const{v: constant.MakeInt64(int64(b)), typ: types.Typ[types.Uint8]}
}

// emptyPrefix: x[:0] (or x[0:0]) of a byte slice or array is the empty byte slice whatever x holds.
func (in *c19Interp) emptyPrefix(x *ast.SliceExpr, env *c19Env) (c19Value, bool) {
	if x.Slice3 || x.High == nil || !c19IsByteSeq(in.info.TypeOf(x.X)) {
		return nil, false
	}
	hi, ok := c19AsInt(in.eval(x.High, env))
	if !ok || hi != 0 {
		return nil, false
	}
	if x.Low != nil {
		if lo, ok := c19AsInt(in.eval(x.Low, env)); !ok || lo != 0 {
			return nil, false
		}
	}
	return c19Bytes{}, true
}

// appendBytes models append on a concrete byte slice: single bytes, or `s...` with a concrete string / byte slice.
func (in *c19Interp) appendBytes(base c19Bytes, call *ast.CallExpr, env *c19Env) (c19Value, bool) {
	out := base.b
	if call.Ellipsis.IsValid() {
		if len(call.Args) != 2 {
			return nil, false
		}
		switch v := in.eval(call.Args[1], env).(type) {
		case c19Bytes:
			return c19Bytes{out + v.b}, true
		case c19Const:
			if s, ok := c19AsString(v); ok {
				return c19Bytes{out + s}, true
			}
		}
		return nil, false
	}
	for _, a := range call.Args[1:] {
		n, ok := c19AsInt(in.eval(a, env))
		if !ok || n < 0 || n > 255 {
			return nil, false
		}
		out += string([]byte{byte(n)})
	}
	return c19Bytes{out}, true
}

// externBytes models the strconv.Append* family on concrete arguments.
func (in *c19Interp) externBytes(name string, args []c19Value) (c19Value, bool) {
	if len(args) == 0 {
		return nil, false
	}
	var dst c19Bytes
	switch d := args[0].(type) {
	case c19Bytes:
		dst = d
	case c19Nil:
	default:
		return nil, false
	}
	switch name {
	case "strconv.AppendUint", "strconv.AppendInt":
		if len(args) != 3 {
			return nil, false
		}
		base, ok := c19AsInt(args[2])
		if !ok || base < 2 || base > 36 {
			return nil, false
		}
		if name == "strconv.AppendUint" {
			if u, ok := c19AsUint(args[1]); ok {
				return c19Bytes{dst.b + strconv.FormatUint(u, int(base))}, true
			}
		} else if i, ok := c19AsInt(args[1]); ok {
			return c19Bytes{dst.b + strconv.FormatInt(i, int(base))}, true
		}
	case "strconv.AppendQuote":
		if len(args) == 2 {
			if s, ok := c19AsString(args[1]); ok {
				return c19Bytes{dst.b + strconv.Quote(s)}, true
			}
		}
	}
	return nil, false
}

// poolGet models (*sync.Pool).Get: a pool never hands out anything its New does not make (or that was Put after
// being made by it), so the value is what New returns.
func (in *c19Interp) poolGet(recv c19Value) (c19Value, bool) {
	var obj *c19Obj
	switch r := recv.(type) {
	case c19Ptr:
		obj = r.obj
	case *c19Obj:
		obj = r
	}
	if obj == nil {
		return nil, false
	}
	for f, v := range obj.fields {
		if f.Name() == "New" {
			if cl, ok := v.(c19Closure); ok {
				return in.callClosure(cl, nil), true
			}
		}
	}
	return nil, false
}
