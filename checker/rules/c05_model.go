package rules

// Observation of the hand-written JSON codec of package osm (MarshalJSON / UnmarshalJSON methods and what they call)
// through the abstract interpreter of c03_eval.go. The codec helpers (the functions that consult the
// CustomJSONMarshaler / CustomJSONUnmarshaler variables) and encoding/json are not entered: a (un)marshal operation is
// an observed event with its abstract operand. A struct a document is decoded into becomes a symbolic "decoded"
// value whose fields the scenario controls (the `type` key of an element, an absent optional key, a value of unknown
// dynamic type).

import (
	"go/ast"
	"go/types"
	"strings"

	"osmcheck/core"
)

// c05Scen is the abstract input of a run.
type c05Scen struct {
	Recv    func(path []*types.Var) tri          // emptiness of the receiver's fields (nil: everything set)
	Decoded func(v *c03V, f *c03JSONField) *c03V // override for a field of a decoded struct (nil / nil result: set)
	TypeKey string                               // value of string fields decoded from the JSON key `type`
	NoType  bool                                 // the `type` value is a string different from every constant
	Custom  tri                                  // is a custom codec installed (CustomJSON* != nil); triU: unknown
	Tag     string
	Errors  bool // codec operations may fail: their error result is unknown instead of nil (explores the error paths)
}

// c05Op is one (un)marshal operation observed on a path.
type c05Op struct {
	ev      *c03Event
	dir     string // marshal | unmarshal
	via     string // helper | std | custom
	operand *c03V  // value marshalled / destination
	pointee *c03V  // unmarshal: what the destination pointed to at the time of the call
	data    *c03V  // unmarshal: the bytes
	t       types.Type
}

type c05Codec struct {
	p       *core.Program
	helpers map[*types.Func]string
	mv, uv  types.Object
}

func c05NewCodec(p *core.Program) *c05Codec {
	pk := c03OsmPkg(p)
	return &c05Codec{p: p, helpers: c05Helpers(p), mv: pk.Types.Scope().Lookup("CustomJSONMarshaler"), uv: pk.Types.Scope().Lookup("CustomJSONUnmarshaler")}
}

// classify says whether a call is a codec operation.
func (cx *c05Codec) classify(fn *types.Func, recv *c03V) (dir, via string) {
	switch {
	case fn != nil && cx.helpers[fn] != "":
		return cx.helpers[fn], "helper"
	case isPkgFunc(fn, "encoding/json", "Marshal"), isPkgFunc(fn, "encoding/json", "MarshalIndent"), isMethod(fn, "encoding/json.Encoder", "Encode"):
		return "marshal", "std"
	case isPkgFunc(fn, "encoding/json", "Unmarshal"), isMethod(fn, "encoding/json.Decoder", "Decode"):
		return "unmarshal", "std"
	case recv != nil && recv.IsInit("global") && recv.Root.Obj == cx.mv && len(recv.Path) == 0:
		return "marshal", "custom"
	case recv != nil && recv.IsInit("global") && recv.Root.Obj == cx.uv && len(recv.Path) == 0:
		return "unmarshal", "custom"
	}
	return "", ""
}

// interp builds the interpreter for root under sc.
func (cx *c05Codec) interp(root *FuncInfo, sc c05Scen) *c03Interp {
	recv := c03Receiver(root)
	return &c03Interp{P: cx.p,
		Inline: func(fn *types.Func) bool {
			if cx.helpers[fn] != "" {
				return false
			}
			if (fn.Name() == "MarshalJSON" || fn.Name() == "UnmarshalJSON") && fn != root.Obj {
				return false
			}
			return true
		},
		ErrNil: func(fn *types.Func) bool { return true },
		Model: func(x *c03Interp, st *c03State, fr *c03Frame, call *ast.CallExpr, fn *types.Func, rv *c03V, args []*c03V) ([]*c03V, bool) {
			if isMethod(fn, "time.Time", "IsZero") && rv != nil {
				if z := st.Zero(rv); z != triU {
					return []*c03V{{K: c03KBool, Bool: z == triT, T: types.Typ[types.Bool]}}, true
				}
				return nil, false
			}
			dir, _ := cx.classify(fn, rv)
			if dir == "" || len(args) == 0 {
				return nil, false
			}
			sig := fn.Type().(*types.Signature)
			errT := sig.Results().At(sig.Results().Len() - 1).Type()
			if dir == "marshal" {
				u := x.unk(sig.Results().At(0).Type())
				u.Fn, u.Call, u.From, u.Z = fn, call, args, triF
				return []*c03V{u, {K: c03KNil, T: errT}}, true
			}
			dst := args[len(args)-1]
			if dst.K == c03KAddr {
				if cur := st.vars[dst.Var]; cur == nil || cur.K != c03KPtr {
					t := dst.Var.Type()
					st.vars[dst.Var] = x.initVal(&c03Root{Kind: "decoded", Node: call, Of: args[0], T: t, Obj: dst.Var}, nil, t, x.fresh("dec"))
				}
			}
			if sc.Errors {
				return []*c03V{x.unk(errT)}, true
			}
			return []*c03V{{K: c03KNil, T: errT}}, true
		},
		Init: func(v *c03V) *c03V {
			switch {
			case v.IsInit("param") && recv != nil && v.Root.Obj == recv:
				v.Z = triF
				if sc.Recv != nil && len(v.Path) > 0 {
					v.Z = sc.Recv(v.Path)
				}
			case v.IsInit("global") && (v.Root.Obj == cx.mv || v.Root.Obj == cx.uv) && len(v.Path) == 0:
				v.Z = triNot(sc.Custom)
			case v.IsInit("decoded"):
				if len(v.Path) == 0 {
					v.Z = triF
					return v
				}
				jf := c03JSONFieldOf(v.Root.T, v.Path[0])
				if len(v.Path) == 1 && jf != nil && jf.Key == "type" && (sc.TypeKey != "" || sc.NoType) {
					if b, ok := v.T.Underlying().(*types.Basic); ok && b.Info()&types.IsString != 0 {
						return c03ScenarioString(sc.TypeKey, v.T)
					}
				}
				v.Z = triF
				if sc.Decoded != nil && len(v.Path) == 1 && jf != nil {
					if r := sc.Decoded(v, jf); r != nil {
						return r
					}
				}
			}
			return v
		}}
}

// run explores root under sc.
func (cx *c05Codec) run(root *FuncInfo, sc c05Scen) (*c03Interp, []*c03Path) {
	x := cx.interp(root, sc)
	paths := x.Run(root, nil)
	c03DumpPaths(cx.p, root, sc.Tag, paths)
	return x, paths
}

// ops lists the codec operations of a path.
func (cx *c05Codec) ops(pa *c03Path) []c05Op {
	var out []c05Op
	for i := range pa.St.Trace {
		e := &pa.St.Trace[i]
		if e.Kind != "call" || len(e.Args) == 0 {
			continue
		}
		dir, via := cx.classify(e.Fn, e.Recv)
		if dir == "" {
			continue
		}
		op := c05Op{ev: e, dir: dir, via: via}
		if dir == "marshal" {
			op.operand = e.Args[0]
			op.t = c05OperandType(e, 0)
		} else {
			k := len(e.Args) - 1
			op.operand, op.pointee, op.data = e.Args[k], e.Deref[k], e.Args[0]
			op.t = c05OperandType(e, k)
			if p, ok := op.t.Underlying().(*types.Pointer); ok {
				op.t = p.Elem()
			}
		}
		out = append(out, op)
	}
	return out
}

// c05OperandType: the concrete type of an operand: the abstract value's type unless that is an interface, then the
// static type of the argument expression.
func c05OperandType(e *c03Event, i int) types.Type {
	if v := e.Args[i]; v != nil && v.T != nil && !c03IsIface(v.T) {
		return v.T
	}
	if e.Call != nil && i < len(e.Call.Args) && e.Frame != nil {
		if t := e.Frame.info().TypeOf(e.Call.Args[i]); t != nil {
			return t
		}
	}
	return types.Typ[types.Invalid]
}

// c05Derives reports whether v is, or was computed from (conversions, calls), a value satisfying pred.
func c05Derives(v *c03V, pred func(*c03V) bool) bool {
	var walk func(v *c03V, d int) bool
	walk = func(v *c03V, d int) bool {
		if v == nil || d > 6 {
			return false
		}
		if pred(v) {
			return true
		}
		if v.K == c03KInit && v.Root.Kind == "assert" && walk(v.Root.Of, d+1) {
			return true // a type-asserted / type-switched value is the value it was asserted from
		}
		for _, f := range v.From {
			if walk(f, d+1) {
				return true
			}
		}
		for _, e := range v.Elems {
			if walk(e, d+1) {
				return true
			}
		}
		return false
	}
	return walk(v, 0)
}

// c05IsDecodedField: v is field f (by Go name) of a struct a document was decoded into.
func c05IsDecodedField(v *c03V) (*c03JSONField, bool) {
	if v == nil || !v.IsInit("decoded") || len(v.Path) != 1 {
		return nil, false
	}
	jf := c03JSONFieldOf(v.Root.T, v.Path[0])
	return jf, jf != nil
}

func c05FuncLabel(fi *FuncInfo) string {
	return strings.NewReplacer("(*", "", ")", "").Replace(fi.Name())
}
