package rules

import "go/constant"

// Slice views and block allocation in the C13 path evaluator.
//
// `make([]T, n)` allocates a fresh block (every evaluation of make is a distinct value). A slice expression is a
// view (base, lo, hi, max) of its operand; views of views and indexing into a view are folded onto the underlying
// value with offsets added, so `s[1:][0]`, `s[1]` and `s[1:2:2][0]` are the same location, and the window of a
// block that a loop slides forward (`w = w[2:]`) is a view of the value it had at the start of the iteration.

const c13OpSlice = "slice" // args: base, lo, hi, max (c13None where absent)

var c13None = &c13Term{op: "none", key: "_"}

// c13Offset splits t into base + constant (base nil for a constant).
func c13Offset(t *c13Term) (base *c13Term, off int64) {
	if t == nil || t == c13None {
		return nil, 0
	}
	if v, ok := c13IntOf(t); ok {
		return nil, v
	}
	if t.op == c13OpBin && t.name == "+" && len(t.args) == 2 {
		if v, ok := c13IntOf(t.args[0]); ok {
			b, o := c13Offset(t.args[1])
			return b, o + v
		}
		if v, ok := c13IntOf(t.args[1]); ok {
			b, o := c13Offset(t.args[0])
			return b, o + v
		}
	}
	if t.op == c13OpBin && t.name == "-" && len(t.args) == 2 {
		if v, ok := c13IntOf(t.args[1]); ok {
			b, o := c13Offset(t.args[0])
			return b, o - v
		}
	}
	return t, 0
}

// plus is a + b with constants folded through sums.
func (x *c13Terms) plus(a, b *c13Term) *c13Term {
	ba, oa := c13Offset(a)
	bb, ob := c13Offset(b)
	c := c13Const(constant.MakeInt64(oa + ob))
	switch {
	case ba == nil && bb == nil:
		return c
	case ba != nil && bb != nil:
		sum := x.nary(c13OpBin, "+", nil, c13SortPair(ba, bb))
		if oa+ob == 0 {
			return sum
		}
		return x.nary(c13OpBin, "+", nil, c13SortPair(c, sum))
	}
	base := ba
	if base == nil {
		base = bb
	}
	if oa+ob == 0 {
		return base
	}
	return x.nary(c13OpBin, "+", nil, c13SortPair(c, base))
}

func c13SortPair(a, b *c13Term) []*c13Term {
	if b.key < a.key {
		return []*c13Term{b, a}
	}
	return []*c13Term{a, b}
}

// c13Diff is b - a when both are the same base plus constants.
func c13DiffConst(a, b *c13Term) (int64, bool) {
	ba, oa := c13Offset(a)
	bb, ob := c13Offset(b)
	if (ba == nil) != (bb == nil) || (ba != nil && ba.key != bb.key) {
		return 0, false
	}
	return ob - oa, true
}

// sliceView is base[lo:hi:max] folded onto the underlying value.
func (x *c13Terms) sliceView(base, lo, hi, max *c13Term) *c13Term {
	if lo == c13None {
		lo = c13Int(0)
	}
	if base.op == c13OpSlice {
		ilo := base.args[1]
		nlo := x.plus(ilo, lo)
		nhi, nmax := base.args[2], base.args[3]
		if hi != c13None {
			nhi = x.plus(ilo, hi)
		}
		if max != c13None {
			nmax = x.plus(ilo, max)
		}
		return x.sliceView(base.args[0], nlo, nhi, nmax)
	}
	if _, isZero := c13IntOf(lo); isZero && hi == c13None && max == c13None {
		if v, _ := c13IntOf(lo); v == 0 {
			return base // s[:] and s[0:] are s
		}
	}
	return x.nary(c13OpSlice, "", nil, []*c13Term{base, lo, hi, max})
}

// viewIndex folds indexing into a view: base[lo:...][i] is base[lo+i].
func (x *c13Terms) viewIndex(a, i *c13Term) (*c13Term, *c13Term) {
	for a.op == c13OpSlice {
		i = x.plus(a.args[1], i)
		a = a.args[0]
	}
	i = x.plus(i, c13Int(0)) // canonical spelling of base+constant
	return a, i
}
