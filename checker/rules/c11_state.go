package rules

// Path state of the C11 interpreter: environment of locals, struct values built on the path, the branch
// decisions taken so far (assumptions) and the observable events (calls that were not inlined, stores to
// memory that is not a local struct value) in execution order.

import (
	"go/ast"
	"go/token"
	"go/types"
)

type c11As struct {
	atom *c11V // positive atom
	val  bool
}

type c11Ev struct {
	kind string // "call" (not inlined; builtin append too), "store", "loop" (a loop is entered: pre = values of the variables it assigns)
	call *c11V  // call
	lhs  *c11V  // store: the place written
	rhs  *c11V  // store: the value written
	node ast.Node
	nas  int    // number of assumptions in force when the event happened
	fr   string // call path of the frame the event happened in ("" = root function)
	pre  map[types.Object]*c11V
	key  string     // loop: c11LoopKey
	x    *c11V      // loop over a range: the value ranged over; "index": the index term (lhs is the indexed value)
	t    types.Type // "index": static type of the indexed operand
}

type c11St struct {
	env     map[types.Object]*c11V
	heap    map[int]*c11Obj
	as      []c11As
	ev      []c11Ev
	defers  map[string][]*ast.CallExpr // calls deferred by the frames that are active (by call path)
	stack   []c11Saved                 // environments of the callers of the function being executed (innermost last)
	escaped map[types.Object]string    // local variables whose address was taken -> call path of the owning frame
	notes   []string                   // imprecision met on this path (unsupported statement, ...): verdicts on such a path are Unknown
}

// c11Saved is the environment of a suspended caller frame.
type c11Saved struct {
	path string
	env  map[types.Object]*c11V
}

func c11NewSt() *c11St {
	return &c11St{env: map[types.Object]*c11V{}, heap: map[int]*c11Obj{}}
}

func (s *c11St) clone() *c11St {
	n := &c11St{env: make(map[types.Object]*c11V, len(s.env)), heap: make(map[int]*c11Obj, len(s.heap))}
	for k, v := range s.env {
		n.env[k] = v
	}
	for k, v := range s.heap {
		n.heap[k] = v.clone()
	}
	for _, sv := range s.stack {
		e := make(map[types.Object]*c11V, len(sv.env))
		for k, v := range sv.env {
			e[k] = v
		}
		n.stack = append(n.stack, c11Saved{path: sv.path, env: e})
	}
	if len(s.defers) > 0 {
		n.defers = map[string][]*ast.CallExpr{}
		for k, v := range s.defers {
			n.defers[k] = append([]*ast.CallExpr(nil), v...)
		}
	}
	if len(s.escaped) > 0 {
		n.escaped = make(map[types.Object]string, len(s.escaped))
		for k, v := range s.escaped {
			n.escaped[k] = v
		}
	}
	n.as = append([]c11As(nil), s.as...)
	n.ev = append([]c11Ev(nil), s.ev...)
	n.notes = append([]string(nil), s.notes...)
	return n
}

func (s *c11St) note(format string) { s.notes = append(s.notes, format) }

// known returns the recorded decision for a positive atom (by key).
func (s *c11St) known(atom *c11V, upto int) c11Tri {
	k := atom.key()
	if upto < 0 || upto > len(s.as) {
		upto = len(s.as)
	}
	for i := upto - 1; i >= 0; i-- {
		if s.as[i].atom.key() == k {
			if s.as[i].val {
				return c11T
			}
			return c11F
		}
	}
	return c11U
}

// truth evaluates a boolean term under the assumptions of the path (all of them, or the first `upto`).
func (s *c11St) truthAt(v *c11V, upto int, oracle func(*c11V) c11Tri) c11Tri {
	if b, ok := v.constBool(); ok {
		if b {
			return c11T
		}
		return c11F
	}
	switch v.k {
	case "not":
		return c11TriNot(s.truthAt(v.xs[0], upto, oracle))
	case "bin":
		switch v.op {
		case token.LAND:
			return c11TriAnd(s.truthAt(v.xs[0], upto, oracle), s.truthAt(v.xs[1], upto, oracle))
		case token.LOR:
			return c11TriOr(s.truthAt(v.xs[0], upto, oracle), s.truthAt(v.xs[1], upto, oracle))
		}
	}
	if oracle != nil {
		if t := oracle(v); t != c11U {
			return t
		}
	}
	if t := s.known(v, upto); t != c11U {
		return t
	}
	if v.k == "bin" {
		a, b := v.xs[0], v.xs[1]
		switch v.op {
		case token.EQL:
			if a.key() == b.key() {
				return c11T
			}
			if c11Distinct(a, b) {
				return c11F
			}
			if s.known(c11Bin(token.LSS, a, b), upto) == c11T || s.known(c11Bin(token.LSS, b, a), upto) == c11T {
				return c11F
			}
		case token.LSS:
			if a.key() == b.key() {
				return c11F
			}
			// trichotomy: neither b < a nor a == b
			if s.known(c11Bin(token.LSS, b, a), upto) == c11F && s.known(c11Bin(token.EQL, a, b), upto) == c11F {
				return c11T
			}
			if s.known(c11Bin(token.LSS, b, a), upto) == c11T || s.known(c11Bin(token.EQL, a, b), upto) == c11T {
				return c11F
			}
		}
	}
	return c11U
}

func (s *c11St) truth(v *c11V) c11Tri { return s.truthAt(v, -1, nil) }

// c11Distinct: the two terms certainly differ (nil against an address / a struct built on the path / a function literal).
func c11Distinct(a, b *c11V) bool {
	nonNil := func(v *c11V) bool {
		switch v.k {
		case "addr", "struct", "funclit", "func", "lit", "ref":
			return true
		case "call":
			// constructors of the standard library that never return nil
			return v.fn != nil && (isPkgFunc(v.fn, "fmt", "Errorf") || isPkgFunc(v.fn, "errors", "New"))
		}
		return false
	}
	return (a.k == "nil" && nonNil(b)) || (b.k == "nil" && nonNil(a))
}

// assume records the decision for (possibly negated) v.
func (s *c11St) assume(v *c11V, val bool) {
	atom, neg := c11AtomOf(v)
	if neg {
		val = !val
	}
	s.as = append(s.as, c11As{atom: atom, val: val})
}

// holds reports whether the path (up to assumption `upto`, -1 = all) has decided a term matched by m with value want.
func (s *c11St) decided(upto int, m func(atom *c11V) bool) c11Tri {
	if upto < 0 || upto > len(s.as) {
		upto = len(s.as)
	}
	for i := upto - 1; i >= 0; i-- {
		if m(s.as[i].atom) {
			if s.as[i].val {
				return c11T
			}
			return c11F
		}
	}
	return c11U
}

// nilness of a term on the path: c11T known nil, c11F known non-nil.
func (s *c11St) isNil(v *c11V, upto int) c11Tri {
	if v.k == "nil" {
		return c11T
	}
	return s.truthAt(c11Bin(token.EQL, v, c11Nil()), upto, nil)
}

// describe renders the assumptions in force (for proof sketches).
func (s *c11St) describe(upto int) []string {
	if upto < 0 || upto > len(s.as) {
		upto = len(s.as)
	}
	var out []string
	for _, a := range s.as[:upto] {
		t := a.atom.key()
		if !a.val {
			t = "!" + t
		}
		out = append(out, t)
	}
	return out
}

// c11Tri is a three-valued truth value.
type c11Tri int

const (
	c11U c11Tri = iota
	c11T
	c11F
)

func c11TriNot(a c11Tri) c11Tri {
	switch a {
	case c11T:
		return c11F
	case c11F:
		return c11T
	}
	return c11U
}

func c11TriAnd(a, b c11Tri) c11Tri {
	if a == c11F || b == c11F {
		return c11F
	}
	if a == c11T && b == c11T {
		return c11T
	}
	return c11U
}

func c11TriOr(a, b c11Tri) c11Tri { return c11TriNot(c11TriAnd(c11TriNot(a), c11TriNot(b))) }
