package rules

import (
	"go/ast"
	"go/token"
	"go/types"
	"sort"

	"golang.org/x/tools/go/cfg"

	"osmcheck/core"
)

// ---------------------------------------------------------------------------
// L2: lookup precondition

// c18IsConv reports whether call is a conversion to the named type path and returns its operand.
func c18IsConv(info *types.Info, e ast.Expr, path string) ast.Expr {
	call, ok := ast.Unparen(e).(*ast.CallExpr)
	if !ok || len(call.Args) != 1 {
		return nil
	}
	if tv, ok := info.Types[call.Fun]; !ok || !tv.IsType() || namedPath(tv.Type) != path {
		return nil
	}
	return call.Args[0]
}

// c18SortTarget recognises the in-place ascending string sorts
//
//	sort.Strings(X)   slices.Sort(X)   sort.StringSlice(X).Sort()
//	sort.Sort(sort.StringSlice(X))   sort.Stable(sort.StringSlice(X))
//
// and returns X.
func c18SortTarget(info *types.Info, call *ast.CallExpr) ast.Expr {
	fn := callee(info, call)
	switch {
	case (isPkgFunc(fn, "sort", "Strings") || isPkgFunc(fn, "slices", "Sort")) && len(call.Args) == 1:
		return call.Args[0]
	case (isPkgFunc(fn, "sort", "Sort") || isPkgFunc(fn, "sort", "Stable")) && len(call.Args) == 1:
		return c18IsConv(info, call.Args[0], "sort.StringSlice")
	case isMethod(fn, "sort.StringSlice", "Sort") && len(call.Args) == 0:
		if sel, ok := ast.Unparen(call.Fun).(*ast.SelectorExpr); ok {
			return c18IsConv(info, sel.X, "sort.StringSlice")
		}
	}
	return nil
}

func c18IsPanicExit(info *types.Info, b *cfg.Block) bool {
	if len(b.Nodes) == 0 {
		return false
	}
	es, ok := b.Nodes[len(b.Nodes)-1].(*ast.ExprStmt)
	if !ok {
		return false
	}
	call, ok := es.X.(*ast.CallExpr)
	return ok && builtinName(info, call) == "panic"
}

const c18Fresh = "«unlisted»"

// c18IterScen is the abstract input of one iteration of the rule loop.
func c18IterScen(kind, v string, p, q bool) *c18Scen {
	s := c18ListScen(kind, v, 1, 0, q)
	if p {
		s.rk, s.p = 1, true
	}
	return s
}

// c18ListScen is an iteration on an entry whose value list has ll elements, rk of them smaller than the tag value,
// and (eq) the next one equal to it.
func c18ListScen(kind, v string, ll, rk int64, eq bool) *c18Scen {
	return &c18Scen{n: 5, closed: true, tags: map[string]string{"area": ""}, inBody: true, v: v, cond: kind, p: rk == ll, q: eq, ll: ll, rk: rk}
}

func c18L2(r *core.R) {
	c := c18Resolve(r)
	if c == nil {
		return
	}
	fname := c.fi.Name()
	x := c18NewExec(r, c.pk, c.fi.Decl, c)

	// (a) every lookup evaluated while an entry with a value list is being decided is
	// sort.SearchStrings(<entry>.values, <value found under entry.key>). One obligation per condition kind
	// that has a list (the number of call sites is a matter of code layout).
	observed := map[token.Pos]bool{}
	for _, kind := range []string{"whitelist", "blacklist"} {
		cn := "search@" + fname + " " + kind
		x.searches = nil
		var undecided *c18Out
		nrun := 0
		for _, v := range []string{"yes", c18Fresh} {
			for _, p := range []bool{true, false} {
				for _, q := range []bool{true, false} {
					s := c18IterScen(kind, v, p, q)
					o := x.run(c18ModeIter, s)
					nrun++
					if o.kind == "unknown" && undecided == nil {
						oo := o
						undecided = &oo
					}
				}
			}
		}
		var bad, unk *c18SearchObs
		for i := range x.searches {
			ob := &x.searches[i]
			observed[ob.pos] = true
			switch {
			case !ob.known:
				if unk == nil {
					unk = ob
				}
			case !ob.listOK || !ob.needleOK:
				if bad == nil {
					bad = ob
				}
			}
		}
		nobs := len(x.searches)
		switch {
		case bad != nil && !bad.listOK:
			r.Bad(cn, bad.pos, "`%s`: the slice searched, `%s`, is not the value list (%s) of the entry of %s the loop is at: membership is decided against another list", bad.text, bad.list, c.valsF.Name(), c.table.Name())
		case bad != nil:
			r.Bad(cn, bad.pos, "`%s`: the needle `%s` is not the tag value found under the entry's key (Tags.Find(entry.%s)): the %s is consulted for the wrong string", bad.text, bad.needle, c.keyF.Name(), kind)
		case unk != nil:
			r.Unknown(cn, unk.pos, "`%s` in the classification is not among the recognised lookups (sort.SearchStrings(entry.values, value))", unk.text)
		case nobs == 0 && undecided != nil:
			r.Unknown(cn, undecided.pos, "no lookup was reached for a %s entry because the iteration %s", kind, undecided.describe())
		case nobs == 0:
			r.OKTrivial(cn, c.fi.Decl.Pos(), "a %s entry is decided without a lookup of package sort (%d abstract inputs); the membership code itself (linear scan or hand-written binary search) is executed by C18.L3 on witness lists of 0 to 4 ascending elements with the value before, at, between and behind them", kind, nrun)
		default:
			r.OK(cn, x.searches[0].pos, "every lookup evaluated for a %s entry (%d evaluations over %d abstract inputs, through any helper) is a binary search of the current entry's %s for the value of Tags.Find(entry.%s)", kind, nobs, nrun, c.valsF.Name(), c.keyF.Name())
		}
	}
	// lookups that no abstract input reaches would escape (a)
	nsearch := 0
	for _, fd := range c18Reachable(c.pk, c.funcs, c.fi.Decl) {
		ast.Inspect(fd.Body, func(n ast.Node) bool {
			call, ok := n.(*ast.CallExpr)
			if !ok {
				return true
			}
			fn := callee(c.info, call)
			if fn == nil || fn.Pkg() == nil || (fn.Pkg().Path() != "sort" && fn.Pkg().Path() != "slices") {
				return true
			}
			nsearch++
			if !observed[call.Pos()] {
				r.Unknown("search@"+fname+" unreached "+src(r.P.Fset, call), call.Pos(), "call to %s.%s takes part in the classification but no abstract whitelist/blacklist input reaches it", fn.Pkg().Path(), fn.Name())
			}
			return true
		})
	}
	r.Stat("search_sites", nsearch)

	// (b) the value lists are sorted before any search
	sc := "sorted@" + c.table.Name()
	lit, why := c18FindLiteral(c)
	if lit == nil {
		r.Anchor("JSON literal unmarshalled into " + c.table.Name() + ": " + why)
		return
	}
	entries, perr := c18ParseLiteral(c, lit.text)
	if perr != nil {
		r.Bad(sc, lit.expr.Pos(), "the embedded literal does not decode (%v)", perr)
		return
	}
	var unsorted []string
	for _, e := range entries {
		if !sort.StringsAreSorted(e.values) {
			unsorted = append(unsorted, e.key)
		}
	}
	res := c18InitFacts(r, c, lit)
	c18CheckSorted(r, c, lit, sc, unsorted, res)

	// (c) nobody else writes the table
	c18CheckImmutable(r, c, lit, res)
}
