package rules

import (
	"osmcheck/core"
)

// C16: multipolygon assembly recovers the original rings for any split and order.
//
// Files: c16.go (registration), c16_mutants*.go / c16_benign*.go (sensitivity and robustness suites),
// c16_eval.go, c16_val.go, c16_expr*.go, c16_stmt*.go, c16_call.go, c16_builtin.go (the abstract evaluator),
// c16_env.go (anchors, builders of abstract inputs), c16_osm.go (ground truth, abstract OSM values, oracles),
// c16_join.go / c16_conv.go (checks of a Join result / of the geometry of Convert), c16_rules_*.go (the rules).
//
// Anchors are API: mputil.Join, mputil.Group, (*Segment).Reverse, MultiSegment.Ring, MultiSegment.Orientation, the
// fields of mputil.Segment, osmgeojson.Convert and its four option constructors, the element types of package osm,
// orb.Point / LineString / Ring and (orb.Ring).Orientation. Unexported functions are found by role: "the function of
// package annotate that calls mputil.Group" (orientation today), "the function of osmgeojson that maps two rings to a
// bool" (polygonContains today). buildPolygon, addToMultiPolygon, wayToLineString, annotateOrientation, compact are
// not anchored at all: they are reached from the API and may be renamed, split, merged or inlined.

func init() {
	register(&core.Property{
		ID:    "C16",
		Title: "Multipolygon assembly recovers the original rings for any split and order",
		Explanation: "Necessary conditions of C16, decided by finite-domain abstract evaluation of the type-checked syntax of the multipolygon code (nothing is compiled or run): coordinates are symbolic tokens of which only the identity is known, the two value-dependent questions (orientation of an assembled ring, does an outer ring contain an inner ring) are answered by oracles derived from the ground truth of each scenario (or explored both ways), and every branch on a value the evaluator does not know is explored both ways. " +
			"(J1) mputil.Join, for every order and direction of the ways of a ring cut into 4 ways, of two rings cut into 2 ways each, for one match at every position of a work list of up to 7 segments, for ways that do not connect and for degenerate ways: every way with two or more points ends up in exactly one group, the others in none; the lines of a group are the ways glued end to end with every joining point once; the groups are the connected pieces. " +
			"(J2) each of the four ways of attaching a way (end of the group x end of the way) compares with the right end, turns the way round exactly when needed with Reversed toggled, attaches on the matching side and trims the joining point once. " +
			"(J3) (*Segment).Reverse turns the line round and toggles Reversed, once per call. " +
			"(R1) MultiSegment.Ring(o), over all annotation patterns of three members x o x every answer of the orientation oracle: the points of all members in order, reversed as a whole exactly when the actual direction of the annotated members (Orientation, negated when Reversed) - or, without annotation, the computed orientation of the complete ring - differs from o. " +
			"(G1) mputil.Group: way members with role outer / inner whose way is available, in member order, Reversed in step with the direction of the line handed over, Orientation copied, Index = position in the member list, missing way => tainted. " +
			"(A1) the function of package annotate that calls Group, over 120 member orders x {members not annotated, annotated, annotated wrongly}: every way member ends up annotated with the direction in which that way, as stored, runs around its ring; other members are untouched. " +
			"(P1) osmgeojson.Convert of a multipolygon relation (one closed outer way with holes; an outer ring cut into ways; two outer rings), member orders x reversed ways x members annotated or not: one polygon feature whose geometry is exactly the original rings, closed, every coordinate once, outer ring counter-clockwise first, its holes clockwise after it. " +
			"(H1) every inner ring is added to the polygon of the outer ring around it and to no other, with and without IncludeInvalidPolygons; an inner ring outside every outer ring is left out, or with IncludeInvalidPolygons kept exactly once. " +
			"(W1) the same geometry whether coordinates are annotated on the way nodes, come from node objects, or are mixed; a way node with lon = 0 or lat = 0 (not both) has a location; lon and lat are not swapped. " +
			"Because the verdict is computed from what the code does on the abstract inputs, extracting or inlining helpers, if <-> switch, inverted / merged / split guards, reordered exclusive arms, other loop forms, renamed locals, named constants, pointer aliases and any equivalent removal idiom do not change it. " +
			"Candidate clauses examined and NOT made rules because they are not necessary: which annotated members Group / the member loop of osmgeojson turn round beforehand (any choice yields the same rings and annotations as long as Reversed follows the line: variant group-no-prenormalisation), and which orientation annotate requests for inner and outer rings (it cancels out of factor*o: variant annotate-inner-requested-ccw). " +
			"NOT decided: rings cut into more pieces or more rings than the scenarios hold; rings that touch or cross; the float arithmetic of the ray casting (polygonContains) and of the shoelace orientation (orb.Ring.Orientation, MultiSegment.Orientation) - both are oracles here; invalid geometry beyond unconnected ways and orphan inner rings (unclosed rings under IncludeInvalidPolygons: C17); members whose annotation contradicts their geometry in Convert; vertices at exactly (0,0); the start point (rotation) of a ring; features other than the relation's polygon; history (ways with updates, LineStringAt at a time: C15).",
		Assumptions: []string{"go/types, go/packages (x/tools v0.29.0)", "Go semantics of slices (aliasing, append, copy), value receivers and range copies as modelled by the evaluator (c16_eval.go ...)", "orb v0.1.3: Orientation is CCW=1 / CW=-1; Point.Equal, LineString.Reverse, Ring.Reverse, Ring.Closed, geojson.NewFeature(Collection) are evaluated from their source", "orb.Ring.Orientation / MultiSegment.Orientation return the true orientation of a closed simple ring; the containment test of osmgeojson is true exactly for a hole and the outer ring around it (oracles)", "distinct symbolic coordinates are distinct, non-zero numbers"},
		LevelText:   "Structural necessary conditions of ring reconstruction, decided by finite-domain abstract evaluation (symbolic coordinates, ground-truth oracles for orientation and containment, both-ways exploration of unknown branches) of mputil.Join / Group / Ring / Reverse, of the orientation annotation, and of osmgeojson.Convert on multipolygon relations: conservation of segments and coordinates, consistency of the four join cases, Reverse, the Ring(o) truth table, role sorting and member index, annotation = direction of the stored way, outer CCW / inner CW on both build paths, each hole in exactly its outer ring, both coordinate sources. Bounded scenarios only; float ray casting and shoelace orientation are not evaluated.",
		LevelNote:   "Trusts the Go type checker and the evaluator's model of Go (slices, append, range copies, method sets); scenarios are bounded (at most 5 rings, 9 ways); the value-dependent parts of C16 (containment, computed orientation) are assumed, not decided. A construct outside the evaluator's subset (goroutines, channels, select, goto) makes the scenario undecided, which fails the check.",
		Technique:   "finite-domain abstract interpretation of the type-checked syntax (AST + go/types) over symbolic coordinates, with ground-truth oracles, a decision script exploring every branch on unknown values, interprocedural evaluation (static calls, method sets, closures, method values), Go slice aliasing semantics",
		DesignRef:   "DESIGN.md §5 C16",
		Exhaustive:  false,
		Mutants:     append(append([]core.Mutant{}, c16Mutants...), c16Mutants2...),
		Benign:      c16Benign,
		Rules: []*core.Rule{
			{ID: "J1", Floor: 5, Run: c16J1, Doc: "mputil.Join conserves segments and coordinates (reassembly of a ring cut into 4 ways and of two rings for every order and direction; only the matched segment leaves the work list; unconnected ways are still returned; only ways with < 2 points are dropped). Violated => a way or a coordinate is lost, duplicated or invented, or a ring comes back in pieces."},
			{ID: "J2", Floor: 4, Run: c16J2, Doc: "each of the four (end of group x end of way) attachments compares with the right end, reverses exactly when needed (Reversed toggled), attaches on the matching side, keeps the joining point once. Violated => for some cut/direction the ring is glued in the wrong order, with a doubled or missing vertex, or Ring / the annotation later read a wrong Reversed flag."},
			{ID: "J3", Floor: 2, Run: c16J3, Doc: "(*Segment).Reverse turns the line round and toggles Reversed, both, once. Violated => Join glues wrong ends or Ring / annotateOrientation misjudge the direction of the way."},
			{ID: "R1", Floor: 3, Run: c16R1, Doc: "MultiSegment.Ring(o): all points in order; reversed iff the actual direction of the annotated members (Orientation, negated when Reversed) differs from o, or without annotation iff the computed orientation of the complete ring differs from o. Violated => outer rings come out clockwise or holes counter-clockwise for some annotation / direction."},
			{ID: "G1", Floor: 4, Run: c16G1, Doc: "mputil.Group: way members by role in member order, Reversed in step with the line, Orientation copied, Index = position in the member list, missing way taints. Violated => the annotation is written to the wrong member, or with a wrong sign, or a ring misses a way."},
			{ID: "A1", Floor: 3, Run: c16A1, Doc: "annotating a multipolygon marks every way member with the direction in which that way, as stored, runs around its ring (whatever the members were annotated with before) and touches nothing else. Violated => Member.Orientation is wrong for some member order / direction, and a later Convert with partial data builds rings the wrong way round."},
			{ID: "P1", Floor: 6, Run: c16P1, Doc: "osmgeojson.Convert of a multipolygon yields exactly the original rings: closed, every coordinate once, outer counter-clockwise first, holes clockwise after it, on the single-outer-way path and on the joined path, annotated or not. Violated => wrong winding, lost or doubled ring, or role mix-up in the GeoJSON."},
			{ID: "H1", Floor: 4, Run: c16H1, Doc: "every inner ring is added to the polygon of the outer ring around it, once, and to no other; an inner ring outside every outer ring is dropped unless IncludeInvalidPolygons, then kept once. Violated => a hole is attached to the wrong polygon, twice, or silently lost."},
			{ID: "W1", Floor: 3, Run: c16W1, Doc: "the geometry is the same whether coordinates are on the way nodes, on node objects or mixed; only lon = lat = 0 means `no location`; lon / lat are not swapped. Violated => the result depends on how the coordinates were supplied, or vertices on the equator / prime meridian are lost."},
		},
	})
}
