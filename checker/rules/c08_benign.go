package rules

import "osmcheck/core"

// Behaviour-preserving variants for C08 (overlay edits): the rules must stay silent on each.
var c08Benign = []core.Mutant{
	// extract helper: the reset of a rejected node moves into a function
	{Name: "extract-node-reset", File: c01DD,
		Find:    "\t\t} else {\n\t\t\t// skip unwanted nodes\n\t\t\t*n = osm.Node{Visible: true, Tags: n.Tags[:0]}\n\t\t}\n\t}\n\n\treturn nil\n}\n",
		Replace: "\t\t} else {\n\t\t\t// skip unwanted nodes\n\t\t\trecycleNode(n)\n\t\t}\n\t}\n\n\treturn nil\n}\n\n// recycleNode clears a rejected node, its tag storage is kept.\nfunc recycleNode(node *osm.Node) {\n\tkept := node.Tags[:0]\n\t*node = osm.Node{Visible: true}\n\tnode.Tags = kept\n}\n"},
	// inverted branch: reject first
	{Name: "way-filter-inverted", File: c01DD,
		Find:    "\t\t\tif dec.scanner.FilterWay == nil || dec.scanner.FilterWay(way) {\n\t\t\t\tdec.q = append(dec.q, way)\n\t\t\t\tway = &osm.Way{Visible: true}\n\t\t\t} else {\n\t\t\t\ttags := way.Tags\n\t\t\t\tnodes := way.Nodes\n\t\t\t\t*way = osm.Way{Visible: true, Nodes: nodes[:0], Tags: tags[:0]}\n\t\t\t}\n",
		Replace: "\t\t\tif dec.scanner.FilterWay != nil && !dec.scanner.FilterWay(way) {\n\t\t\t\ttags := way.Tags\n\t\t\t\tnodes := way.Nodes\n\t\t\t\t*way = osm.Way{Visible: true, Nodes: nodes[:0], Tags: tags[:0]}\n\t\t\t} else {\n\t\t\t\tdec.q = append(dec.q, way)\n\t\t\t\tway = &osm.Way{Visible: true}\n\t\t\t}\n"},
	// the filter decision read into a boolean local
	{Name: "relation-filter-local", File: c01DD,
		Find:    "\t\t\tif dec.scanner.FilterRelation == nil || dec.scanner.FilterRelation(relation) {\n",
		Replace: "\t\t\tkeep := dec.scanner.FilterRelation == nil || dec.scanner.FilterRelation(relation)\n\t\t\tif keep {\n"},
	// the skip flag read into a local
	{Name: "skip-flag-local", File: c01DD,
		Find:    "\t\tif fn == 3 && !dec.scanner.SkipWays {\n",
		Replace: "\t\tskipWays := dec.scanner.SkipWays\n\t\tif fn == 3 && !skipWays {\n"},
	// inline locals of the reset literal
	{Name: "relation-reset-inline", File: c01DD,
		Find:    "\t\t\t\ttags := relation.Tags\n\t\t\t\tmembers := relation.Members\n\t\t\t\t*relation = osm.Relation{Visible: true, Members: members[:0], Tags: tags[:0]}\n",
		Replace: "\t\t\t\t*relation = osm.Relation{Visible: true, Members: relation.Members[:0], Tags: relation.Tags[:0]}\n"},
	// reordered independent statements
	{Name: "scratch-elements-reordered", File: c01DD,
		Find:    "\tway := &osm.Way{Visible: true}\n\trelation := &osm.Relation{Visible: true}\n",
		Replace: "\trelation := &osm.Relation{Visible: true}\n\tway := &osm.Way{Visible: true}\n"},
	// early continue instead of if/else
	{Name: "node-filter-early-continue", File: c01DD,
		Find:    "\t\tif dec.scanner.FilterNode == nil || dec.scanner.FilterNode(n) {\n\t\t\tdec.q = append(dec.q, n)\n\t\t\tn = &osm.Node{Visible: true}\n\t\t} else {\n\t\t\t// skip unwanted nodes\n\t\t\t*n = osm.Node{Visible: true, Tags: n.Tags[:0]}\n\t\t}\n",
		Replace: "\t\tif filter := dec.scanner.FilterNode; filter != nil && !filter(n) {\n\t\t\t// skip unwanted nodes\n\t\t\t*n = osm.Node{Visible: true, Tags: n.Tags[:0]}\n\t\t\tcontinue\n\t\t}\n\n\t\tdec.q = append(dec.q, n)\n\t\tn = &osm.Node{Visible: true}\n"},
	// named value for the capacity of reused tag storage
	{Name: "tags-capacity-local", File: c01DD,
		Find:    "\t\t\tif cap(n.Tags) < count/2 {\n\t\t\t\tn.Tags = make(osm.Tags, 0, count/2)\n\t\t\t}\n",
		Replace: "\t\t\tif pairs := count / 2; cap(n.Tags) < pairs {\n\t\t\t\tn.Tags = make(osm.Tags, 0, pairs)\n\t\t\t}\n"},
	// the worker builds its result with a default and an overwrite instead of if/else
	{Name: "worker-result-default", File: "osmpbf/decode.go",
		Find:    "\t\t\t\tvar out oPair\n\t\t\t\tif p.Err == nil {\n\t\t\t\t\t// send decoded objects or decoding error\n\t\t\t\t\tobjects, err := dd.Decode(p.Blob)\n\t\t\t\t\tout = oPair{Offset: p.Offset, Objects: objects, Err: err}\n\t\t\t\t} else {\n\t\t\t\t\tout = oPair{Err: p.Err} // send input error as is\n\t\t\t\t}\n",
		Replace: "\t\t\t\tout := oPair{Err: p.Err} // send input error as is\n\t\t\t\tif p.Err == nil {\n\t\t\t\t\t// send decoded objects or decoding error\n\t\t\t\t\tobjects, err := dd.Decode(p.Blob)\n\t\t\t\t\tout = oPair{Offset: p.Offset, Objects: objects, Err: err}\n\t\t\t\t}\n"},
	// split guard: field number and skip flag tested in nested ifs
	{Name: "relation-guard-split", File: c01DD,
		Find:    "\t\tif fn == 4 && !dec.scanner.SkipRelations {\n\t\t\tdata, err := msg.MessageData()\n\t\t\tif err != nil {\n\t\t\t\treturn err\n\t\t\t}\n\n\t\t\trelation, err = dec.scanRelations(data, relation)\n\t\t\tif err != nil {\n\t\t\t\treturn err\n\t\t\t}\n\n\t\t\tif dec.scanner.FilterRelation == nil || dec.scanner.FilterRelation(relation) {\n\t\t\t\tdec.q = append(dec.q, relation)\n\t\t\t\trelation = &osm.Relation{Visible: true}\n\t\t\t} else {\n\t\t\t\ttags := relation.Tags\n\t\t\t\tmembers := relation.Members\n\t\t\t\t*relation = osm.Relation{Visible: true, Members: members[:0], Tags: tags[:0]}\n\t\t\t}\n\n\t\t\tcontinue\n\t\t}\n\n\t\tmsg.Skip()\n\t}\n\n\treturn msg.Err()\n}\n",
		Replace: "\t\tif fn == 4 {\n\t\t\tif !dec.scanner.SkipRelations {\n\t\t\t\tdata, err := msg.MessageData()\n\t\t\t\tif err != nil {\n\t\t\t\t\treturn err\n\t\t\t\t}\n\n\t\t\t\trelation, err = dec.scanRelations(data, relation)\n\t\t\t\tif err != nil {\n\t\t\t\t\treturn err\n\t\t\t\t}\n\n\t\t\t\tif dec.scanner.FilterRelation == nil || dec.scanner.FilterRelation(relation) {\n\t\t\t\t\tdec.emit(relation)\n\t\t\t\t\trelation = &osm.Relation{Visible: true}\n\t\t\t\t} else {\n\t\t\t\t\ttags := relation.Tags\n\t\t\t\t\tmembers := relation.Members\n\t\t\t\t\t*relation = osm.Relation{Visible: true, Members: members[:0], Tags: tags[:0]}\n\t\t\t\t}\n\n\t\t\t\tcontinue\n\t\t\t}\n\t\t}\n\n\t\tmsg.Skip()\n\t}\n\n\treturn msg.Err()\n}\n\n// emit hands an accepted element to the consumer.\nfunc (dec *dataDecoder) emit(o osm.Object) {\n\tdec.q = append(dec.q, o)\n}\n"},
}
