package rules

import (
	"go/ast"
	"go/types"
)

// Field stores into struct values of the analysed package built during the execution (parameter groups, request
// descriptions, builders of the package's own making): `q.f = v`. Such a struct is an abstract object with an
// identity; stores go to the path's heap (object id -> field -> value) and reads see them, so a pointer to the
// struct handed to an inlined helper or method shares the state as in Go. A struct held BY VALUE is copied by
// assignment and parameter passing, which the shared identity would get wrong: a store through a by-value variable
// is only understood while no other variable of the path holds the same object. Documents decoded from the
// response (types of other packages) stay immutable: a store into them is not understood.

func (s *c20St) heapGet(id int, name string) (c20V, bool) {
	if f, ok := s.heap[id]; ok {
		v, ok := f[name]
		return v, ok
	}
	return c20V{}, false
}

func (s *c20St) heapSet(id int, name string, v c20V) {
	if s.heap == nil {
		s.heap = map[int]map[string]c20V{}
	}
	n := make(map[string]c20V, len(s.heap[id])+1)
	for k, old := range s.heap[id] {
		n[k] = old
	}
	n[name] = v
	s.heap[id] = n
}

// fieldsOf returns the current fields of a struct object: those given at creation overlaid with later stores.
func (s *c20St) fieldsOf(v c20V) map[string]c20V {
	out := map[string]c20V{}
	for k, f := range v.fields {
		out[k] = f
	}
	for k, f := range s.heap[v.id] {
		out[k] = f
	}
	return out
}

// ownStruct: t (or *t) is a struct type declared in the analysed package, or an unnamed struct type.
func (x *c20SX) ownStruct(t types.Type) bool {
	if t == nil {
		return false
	}
	if pt, ok := t.(*types.Pointer); ok {
		t = pt.Elem()
	}
	if _, ok := t.Underlying().(*types.Struct); !ok {
		return false
	}
	if nt, ok := t.(*types.Named); ok {
		return nt.Obj().Pkg() == x.cx.pk.Types
	}
	return true
}

// storeField models `X.f = v`; it reports whether the statement was understood.
func (x *c20SX) storeField(sel *ast.SelectorExpr, v c20V, st *c20St) bool {
	f := fieldOf(x.info, sel)
	if f == nil {
		return false
	}
	evs := x.ev(sel.X, st)
	if len(evs) != 1 || evs[0].st != st || st.ctl != c20cRun {
		return false
	}
	obj := evs[0].v
	if obj.k == c20kRef {
		obj = x.deref(obj, st)
	}
	if obj.k != c20kObj || obj.tag != "doc" || !x.ownStruct(obj.typ) {
		return false
	}
	if xt := x.info.TypeOf(sel.X); xt != nil {
		if _, byValue := xt.Underlying().(*types.Struct); byValue {
			id, isIdent := ast.Unparen(sel.X).(*ast.Ident)
			if !isIdent {
				return false
			}
			self := objOf(x.info, id)
			for o, ov := range st.env {
				if o != self && ov.k == c20kObj && ov.id == obj.id {
					return false // a copy of the struct exists: the store must not be visible through it
				}
			}
		}
	}
	st.heapSet(obj.id, f.Name(), v)
	return true
}

// c20Place is a place that carries state across loop iterations: a variable, or a field of a struct object.
type c20Place struct {
	obj   types.Object
	id    int
	field string
}

func (p c20Place) none() bool { return p.obj == nil && p.id == 0 }

func (p c20Place) text() string {
	if p.obj != nil {
		return p.obj.Name()
	}
	return "field " + p.field + " of a struct"
}

// at reads a place; known=false when the object of a field place was created after the state was taken.
func (s *c20St) at(p c20Place) (c20V, bool) {
	if p.obj != nil {
		v, ok := s.env[p.obj]
		return v, ok
	}
	if v, ok := s.heapGet(p.id, p.field); ok {
		return v, true
	}
	for _, v := range s.env {
		if v.k == c20kObj && v.id == p.id {
			f, ok := v.fields[p.field]
			return f, ok
		}
	}
	return c20V{}, false
}

func (s *c20St) put(p c20Place, v c20V) {
	if p.obj != nil {
		s.env[p.obj] = v
		return
	}
	s.heapSet(p.id, p.field, v)
}
