package rules

import (
	"go/ast"
	"go/token"
	"go/types"
)

// Counting pre-passes. A loop over the update list whose only effects, whatever the update, are increments of one
// integer counter handles nothing: it sizes the lists of the pass that follows. Such a loop is not a candidate for
// the pending / apply roles, and its normal exit does not mean that the scan has been done.

// countingLoop returns the counter when every effect of the loop body (for every order of the element's timestamp
// and t) is `c++` / `c += 1` on one integer variable; nil otherwise.
func (w *c15World) countingLoop(ev *c15LoopEval) types.Object {
	if ev == nil || ev.filtered != nil {
		return nil
	}
	var c types.Object
	n := 0
	for _, ord := range c15Ords {
		for _, e := range ev.eff[ord] {
			ob := w.incrementOf(e)
			if ob == nil || (c != nil && ob != c) {
				return nil
			}
			c = ob
			n++
		}
	}
	if n == 0 {
		return nil
	}
	return c
}

func (w *c15World) incrementOf(n ast.Node) types.Object {
	var x ast.Expr
	switch s := n.(type) {
	case *ast.IncDecStmt:
		if s.Tok != token.INC {
			return nil
		}
		x = s.X
	case *ast.AssignStmt:
		if s.Tok != token.ADD_ASSIGN || len(s.Lhs) != 1 || len(s.Rhs) != 1 {
			return nil
		}
		if k, ok := constInt(w.info, s.Rhs[0]); !ok || k != 1 {
			return nil
		}
		x = s.Lhs[0]
	default:
		return nil
	}
	ob := objOf(w.info, ast.Unparen(x))
	if ob == nil || !c15IsInteger(ob.Type()) {
		return nil
	}
	return ob
}

// countedOrders says which updates a counting loop counts: "in" (stamped at or before t), "after", "all", or "".
func (w *c15World) countedOrders(ev *c15LoopEval) string {
	if w.countingLoop(ev) == nil {
		return ""
	}
	b, e, a := len(ev.eff[c15OrdBefore]) > 0, len(ev.eff[c15OrdEqual]) > 0, len(ev.eff[c15OrdAfter]) > 0
	switch {
	case b && e && a:
		return "all"
	case b && e && !a:
		return "in"
	case !b && !e && a:
		return "after"
	}
	return ""
}

// isCountingLoop: loop l of env.fn is a pure counting pass.
func (w *c15World) isCountingLoop(env *c15Env, l *c15Loop) bool {
	if l.entry == nil || l.head == nil || l.done == nil {
		return false
	}
	return w.countingLoop(w.evalLoop(c15LoopSite{env: env, loop: l})) != nil
}

// countKind: integer expression e (written in env.fn) is the number of updates of the scanned list that are stamped
// at or before t ("in"), after t ("after"), or the length of the list ("all"); "" when it is none of these.
// Understood: a counter that starts at 0 and is only incremented by one counting loop; the result of a helper that
// consists of such a loop and returns its counter; len(X) of an Updates value; len(X) minus a count; locals.
func (w *c15World) countKind(env *c15Env, e ast.Expr, depth int) string {
	if depth > 4 {
		return ""
	}
	e = ast.Unparen(e)
	if la := lenCallArg(w.info, e); la != nil && isUpdatesType(w.info.TypeOf(la)) {
		return "all"
	}
	switch x := e.(type) {
	case *ast.Ident:
		ob := objOf(w.info, x)
		if ob == nil {
			return ""
		}
		env = env.scope(ob)
		if b, ok := env.lookup(ob); ok {
			return w.countKind(b.env, b.expr, depth+1)
		}
		f := env.fn
		if d := f.singleDef(ob); d != nil {
			return w.countKind(env, d, depth+1)
		}
		// counter: `c := 0` and one increment site, inside a counting loop
		ds := f.defs[ob]
		if len(ds) != 2 {
			return ""
		}
		init := ds[0]
		if init == nil {
			init = ds[1]
		}
		if k, ok := constInt(w.info, init); init == nil || !ok || k != 0 {
			return ""
		}
		for _, l := range w.loopsIn(f) {
			if l.entry == nil || l.head == nil || l.done == nil {
				continue
			}
			ev := w.evalLoop(c15LoopSite{env: env, loop: l})
			if w.countingLoop(ev) == ob && len(ev.unknown) == 0 {
				return w.countedOrders(ev)
			}
		}
	case *ast.CallExpr:
		f, ce := w.calleeOf(env, x)
		if f == nil {
			return ""
		}
		kind := ""
		n := 0
		inspectNoLit(f.fi.Decl.Body, func(nd ast.Node) bool {
			if ret, ok := nd.(*ast.ReturnStmt); ok {
				n++
				k := ""
				if len(ret.Results) == 1 {
					k = w.countKind(ce, ret.Results[0], depth+1)
				}
				if n > 1 && k != kind {
					k = ""
				}
				kind = k
			}
			return true
		})
		if n == 1 {
			return kind
		}
	case *ast.BinaryExpr:
		if x.Op == token.SUB && w.countKind(env, x.X, depth+1) == "all" {
			switch w.countKind(env, x.Y, depth+1) {
			case "after":
				return "in"
			case "in":
				return "after"
			}
		}
	}
	return ""
}

// nothingDueAt: a controlling test at pos establishes that the number of updates stamped at or before t (or the
// number of all updates) is zero: there is nothing to apply, a fast path that skips the scan is equivalent.
func (w *c15World) nothingDueAt(env *c15Env, pos token.Pos) bool {
	zero := func(e ast.Expr, k int64) bool { v, ok := constInt(w.info, e); return ok && v == k }
	for _, f := range w.factsFor(env, pos) {
		l, op, r, ok := cmpNorm(f.expr)
		if !ok {
			continue
		}
		var E ast.Expr
		switch {
		case (op == token.EQL && f.val) || (op == token.NEQ && !f.val):
			if zero(r, 0) {
				E = l
			} else if zero(l, 0) {
				E = r
			}
		case op == token.LSS && f.val && zero(r, 1): // E < 1
			E = l
		case op == token.LSS && !f.val && zero(l, 0): // !(0 < E)
			E = r
		case op == token.LEQ && f.val && zero(r, 0): // E <= 0
			E = l
		}
		if E == nil {
			continue
		}
		if k := w.countKind(f.env, E, 0); k == "in" || k == "all" {
			return true
		}
	}
	return false
}
