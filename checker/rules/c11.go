package rules

// C11 — "Annotation reconstructs, for any time, the child versions that were current".
//
// The core of C11 (WHICH child version is current at WHICH time, for every
// history, threshold and query time) depends on timestamps and is NOT decided
// here. This file decides structural necessary conditions only (DESIGN.md §5
// C11, rules A1..A4, plus A5 for the update window / per-parent grouping).
//
// Anchors, in order of preference:
//   exported API      annotate.Ways, annotate.Relations, annotate.Option and the option
//                     constructors, annotate.IsReverse, annotate.NoHistoryError,
//                     annotate.NoVisibleChildError, shared.Child (+ Update, FromNode, FromWay,
//                     FromRelation), osm.Update, osm.WayNode, osm.Member, osm.CommitInfoStart,
//                     osm.{Nodes,Ways,Relations}.SortByIDVersion, core.Compute, core.Parent,
//                     core.Datasourcer, core.ChildList (+ FindVisible, VersionBefore),
//                     core.Options, core.NoHistoryError, core.NoVisibleChildError
//   role / dataflow   "the function Ways/Relations hand Compute's error to" (mapErrors),
//                     "the types of package annotate implementing core.Parent" (parentWay,
//                     parentRelation), "functions osm.Xs -> core.ChildList" (nodesToChildList,
//                     waysToChildList, relationsToChildList), "the function computing
//                     Update.Timestamp in Child.Update" (updateTimestamp), "the callee of the
//                     range expressions of Compute" (mapChildLocs, childLocs.GroupByParent),
//                     "the comparator handed to sort.Sort by SortByIDVersion"
//   unexported names  none: the two fields of the location struct (core.childLoc) are identified by
//                     role (which one receives the parents-range key / the refs-range key).

import (
	"go/ast"
	"go/token"
	"go/types"
	"sort"
	"strings"

	"golang.org/x/tools/go/cfg"
	"golang.org/x/tools/go/packages"

	"osmcheck/core"
)

const (
	c11CorePath   = core.ModulePath + "/annotate/internal/core"
	c11SharedPath = core.ModulePath + "/annotate/shared"
	c11AnnPath    = core.ModulePath + "/annotate"
)

func init() {
	const cmp = "annotate/internal/core/compute.go"
	register(&core.Property{
		ID:    "C11",
		Title: "Annotation reconstructs, for any time, the child versions that were current",
		Explanation: "The core of C11 — which child version is current at which time, for every history, threshold and query time t — depends on timestamp values and is NOT decidable by static analysis; it is NOT decided here. " +
			"A PASS means the following structural necessary conditions hold on every path / at every site: " +
			"(A1) in core.Compute every Parent.SetChild call and every append to a parent's update list is reachable only on the visible edge of that parent's Visible() test (deleted parent versions get no annotations); " +
			"(A2) every error return of Compute is one of the documented kinds and is control-dependent on its option: datasource errors that are not NotFound propagate unchanged, *NoHistoryError needs NotFound(err) && !IgnoreMissingChildren, *NoVisibleChildError needs c == nil && !IgnoreInconsistency, the untyped \"child deleted between parent versions\" error needs a non-visible child version && !IgnoreInconsistency; Ways and Relations apply every option to the Options value they pass to Compute and route Compute's error through one mapping function that has a case for every exported error type of core, builds the same-named public type from the corresponding fields and passes other errors through; each public option sets the same-named core.Options field from its argument; " +
			"(A3) parentWay/parentRelation.SetChild write exactly {Version, ChangesetID, Lat, Lon} of the child at the given index, each from the same-named shared.Child field, and touch the child only when it is non-nil; Child.Update() fills Version, ChangesetID, Lat, Lon from same-named fields, Reverse from ReverseOfPrevious, leaves Index to Compute, and stamps Timestamp through a function that returns the commit time only when the timestamp is not before osm.CommitInfoStart and the commit time is set, called with (Timestamp, Committed) in the right roles; FromNode/FromWay/FromRelation copy ID (FeatureID()), Version, ChangesetID, Visible, Timestamp (Lat/Lon, Way) from same-named fields and Committed only under its nil test; " +
			"(A4) every history->ChildList conversion sorts its input with SortByIDVersion (whose comparator orders equal ids by ascending Version) before the single loop that sets VersionIndex = i and list[i] = that child, without skipping elements, so ChildList index == VersionIndex; ReverseOfPrevious is computed against ways[i-1] only for i != 0; " +
			"(A5) Compute's update window is `for k := start; k < nextVersion; k++` over the fetched child list with start in {0, c.VersionIndex+1 (c non-nil), VersionBefore(..).VersionIndex+1 (c nil)}, emits updates only for Visible child versions, annotates the child found by FindVisible for this parent's changeset/time/threshold at the location's index, collects updates in a per-parent list appended to results[locs[0].Parent]; GroupByParent yields runs of equal Parent; mapChildLocs records (parent index, ref index) and skips a child only when it is already annotated and the filter rejects it; Refs() and SetChild index the same member list. " +
			"NOT decided: FindVisible / nextVersionIndex / VersionBefore threshold arithmetic, the time-travel consequence (ApplyUpdatesUpTo(t) reproduces the state at t), correctness of user-supplied AsChildren datasources (their VersionIndex is trusted), Way/Relation.applyUpdate (C15.U4) and ordering of updates (C12).",
		Assumptions: []string{
			"go/types, go/cfg (x/tools v0.29.0)",
			"condition calls (Parent.Visible, Datasourcer.NotFound, time.Time.Before/IsZero) are pure: a test result still holds at a dominated site when no local variable of the test is reassigned in between",
			"sort.Sort sorts according to Less",
			"user datasources implementing the *AsChildren interfaces return version-sorted children with VersionIndex == position",
		},
		LevelText: "Structural necessary conditions only. Which child version is current at which time (FindVisible / nextVersionIndex arithmetic, thresholds, and the consequence that ApplyUpdatesUpTo(t) reproduces the state at t) is value/time dependent and is NOT decided. Decided on every path/site: deleted parents receive no annotation (dominance by the Visible edge), every error return of Compute is control-dependent on its documented option and is mapped to the public typed error, options set the same-named field, field-copy agreement of SetChild / Child.Update / FromNode,FromWay,FromRelation, child lists are version-sorted before VersionIndex is assigned and ChildList index == VersionIndex, shape of the update window (start after the current version, visible versions only, appended to the parent the locations belong to).",
		LevelNote: "Trusts the Go type checker and go/cfg; purity of the tested predicates; sort.Sort; user-provided AsChildren datasources. Covers annotate, annotate/internal/core, annotate/shared and the SortByIDVersion comparators of package osm.",
		Technique: "per-function CFG edge facts (go/cfg dominators + edge reachability, conditions decomposed over !, &&, ||, with reassignment checks) + type-resolved field-copy tables and role-resolved helper functions",
		DesignRef: "DESIGN.md §5 C11",
		Rules: []*core.Rule{
			{ID: "A1", Floor: 3, Doc: "deleted parents get no annotations: SetChild and update appends only on the visible edge", Run: c11A1},
			{ID: "A2", Floor: 15, Doc: "option-gated typed errors, error mapping, options set same-named fields", Run: c11A2},
			{ID: "A3", Floor: 32, Doc: "copy agreement of SetChild, Child.Update, FromNode/FromWay/FromRelation", Run: c11A3},
			{ID: "A4", Floor: 14, Doc: "child lists are version-sorted before VersionIndex is assigned; list index == VersionIndex", Run: c11A4},
			{ID: "A5", Floor: 16, Doc: "shape of the update window and per-parent grouping in Compute", Run: c11A5},
		},
		Mutants: []core.Mutant{
			// A1
			{Name: "visible-test-dropped", File: cmp, Find: "\t\t\tif !parent.Visible() {\n\t\t\t\tcontinue\n\t\t\t}\n", Replace: "", ExpectRule: "A1", ExpectConstruct: "setchild@Compute"},
			{Name: "visible-test-inverted", File: cmp, Find: "if !parent.Visible() {", Replace: "if parent.Visible() {", ExpectRule: "A1", ExpectConstruct: "append@Compute"},
			{Name: "setchild-before-visible-test", File: cmp,
				Find:       "\t\t\tif !parent.Visible() {\n\t\t\t\tcontinue\n\t\t\t}\n\n\t\t\tvar nextParent Parent",
				Replace:    "\t\t\tfor _, cl := range locs {\n\t\t\t\tparent.SetChild(cl.Index, child.FindVisible(parent.ChangesetID(), timeThresholdParent(parent, 0), opts.Threshold))\n\t\t\t}\n\t\t\tif !parent.Visible() {\n\t\t\t\tcontinue\n\t\t\t}\n\n\t\t\tvar nextParent Parent",
				ExpectRule: "A1", ExpectConstruct: "setchild@Compute"},

			// A2
			{Name: "novisible-ungated", File: cmp, Find: "if c == nil && !opts.IgnoreInconsistency {", Replace: "if c == nil {", ExpectRule: "A2", ExpectConstruct: "return@Compute NoVisibleChildError"},
			{Name: "missing-children-gate-inverted", File: cmp, Find: "if opts.IgnoreMissingChildren {", Replace: "if !opts.IgnoreMissingChildren {", ExpectRule: "A2", ExpectConstruct: "return@Compute NoHistoryError"},
			{Name: "deleted-between-wrong-option", File: cmp, Find: "\t\t\t\t\tif !opts.IgnoreInconsistency {", Replace: "\t\t\t\t\tif !opts.IgnoreMissingChildren {", ExpectRule: "A2", ExpectConstruct: "return@Compute inconsistency"},
			{Name: "notfound-inverted", File: cmp, Find: "if !histories.NotFound(err) {", Replace: "if histories.NotFound(err) {", ExpectRule: "A2", ExpectConstruct: "return@Compute"},
			{Name: "maperrors-no-novisible-case", File: "annotate/errors.go", Find: "\tcase *core.NoVisibleChildError:\n\t\treturn &NoVisibleChildError{\n\t\t\tID:        t.ChildID,\n\t\t\tTimestamp: t.Timestamp,\n\t\t}\n", Replace: "", ExpectRule: "A2", ExpectConstruct: "maperr@mapErrors NoVisibleChildError"},
			{Name: "maperrors-drops-timestamp", File: "annotate/errors.go", Find: "\t\t\tTimestamp: t.Timestamp,\n", Replace: "", ExpectRule: "A2", ExpectConstruct: "maperr@mapErrors NoVisibleChildError"},
			{Name: "relations-unmapped-error", File: "annotate/relation.go", Find: "return mapErrors(err)", Replace: "return err", ExpectRule: "A2", ExpectConstruct: "route@Relations"},
			{Name: "option-wrong-field", File: "annotate/options.go", Find: "o.IgnoreMissingChildren = yes", Replace: "o.IgnoreInconsistency = yes", ExpectRule: "A2", ExpectConstruct: "option@IgnoreMissingChildren"},
			{Name: "ways-options-not-applied", File: "annotate/way.go", Find: "core.Compute(ctx, parents, wds, computeOpts)", Replace: "core.Compute(ctx, parents, wds, &core.Options{Threshold: defaultThreshold})", ExpectRule: "A2", ExpectConstruct: "options@Ways"},
			// A3
			{Name: "setchild-lat-from-lon", File: "annotate/way.go", Find: "w.Way.Nodes[idx].Lat = child.Lat", Replace: "w.Way.Nodes[idx].Lat = child.Lon", ExpectRule: "A3", ExpectConstruct: "copy@(*parentWay).SetChild"},
			{Name: "rel-setchild-drops-changeset", File: "annotate/relation.go", Find: "\tr.Relation.Members[idx].ChangesetID = child.ChangesetID\n", Replace: "", ExpectRule: "A3", ExpectConstruct: "copy@(*parentRelation).SetChild"},
			{Name: "rel-setchild-nil-unchecked", File: "annotate/relation.go", Find: "\tif child == nil {\n\t\treturn\n\t}\n\n\tr.Relation.Members[idx].Version", Replace: "\tr.Relation.Members[idx].Version", ExpectRule: "A3", ExpectConstruct: "nilchild@(*parentRelation).SetChild"},
			{Name: "update-version-from-versionindex", File: "annotate/shared/child.go", Find: "Version:     c.Version,\n\t\tTimestamp:", Replace: "Version:     c.VersionIndex,\n\t\tTimestamp:", ExpectRule: "A3", ExpectConstruct: "update@(*Child).Update Version"},
			{Name: "update-timestamp-args-swapped", File: "annotate/shared/child.go", Find: "updateTimestamp(c.Timestamp, c.Committed)", Replace: "updateTimestamp(c.Committed, c.Timestamp)", ExpectRule: "A3", ExpectConstruct: "update@(*Child).Update Timestamp"},
			{Name: "update-stamp-ignores-zero-commit", File: "annotate/shared/child.go", Find: "if timestamp.Before(osm.CommitInfoStart) || committed.IsZero() {", Replace: "if timestamp.Before(osm.CommitInfoStart) {", ExpectRule: "A3", ExpectConstruct: "stamp@"},
			{Name: "fromnode-lon-from-lat", File: "annotate/shared/child.go", Find: "Lon: n.Lon,", Replace: "Lon: n.Lat,", ExpectRule: "A3", ExpectConstruct: "from@FromNode Lon"},
			{Name: "fromway-drops-visible", File: "annotate/shared/child.go", Find: "\t\tVisible:     w.Visible,\n", Replace: "", ExpectRule: "A3", ExpectConstruct: "from@FromWay Visible"},
			// A4
			{Name: "ways-childlist-unsorted", File: "annotate/datasource.go", Find: "\tways.SortByIDVersion()\n", Replace: "", ExpectRule: "A4", ExpectConstruct: "sorted@waysToChildList"},
			{Name: "nodes-sorted-after-loop", File: "annotate/datasource.go", Find: "\tnodes.SortByIDVersion()\n\tfor i, n := range nodes {\n\t\tc := shared.FromNode(n)\n\t\tc.VersionIndex = i\n\t\tlist[i] = c\n\t}\n", Replace: "\tfor i, n := range nodes {\n\t\tc := shared.FromNode(n)\n\t\tc.VersionIndex = i\n\t\tlist[i] = c\n\t}\n\tnodes.SortByIDVersion()\n", ExpectRule: "A4", ExpectConstruct: "sorted@nodesToChildList"},
			{Name: "versionindex-off-by-one", File: "annotate/datasource.go", Find: "c.VersionIndex = i\n\t\tlist[i] = c\n\t}\n\n\treturn list\n}\n\nfunc waysToChildList", Replace: "c.VersionIndex = i + 1\n\t\tlist[i] = c\n\t}\n\n\treturn list\n}\n\nfunc waysToChildList", ExpectRule: "A4", ExpectConstruct: "index@nodesToChildList"},
			{Name: "reverse-against-self", File: "annotate/datasource.go", Find: "IsReverse(w, ways[i-1])", Replace: "IsReverse(w, ways[i])", ExpectRule: "A4", ExpectConstruct: "reverse@waysToChildList"},
			{Name: "sort-version-descending", File: "relation.go", Find: "return rs[i].Version < rs[j].Version", Replace: "return rs[i].Version > rs[j].Version", ExpectRule: "A4", ExpectConstruct: "order@Relations.SortByIDVersion"},
			// A5
			{Name: "window-starts-at-current", File: cmp, Find: "start = c.VersionIndex + 1", Replace: "start = c.VersionIndex", ExpectRule: "A5", ExpectConstruct: "window@Compute start"},
			{Name: "window-includes-next", File: cmp, Find: "k < nextVersion", Replace: "k <= nextVersion", ExpectRule: "A5", ExpectConstruct: "window@Compute loop"},
			{Name: "results-indexed-by-location", File: cmp, Find: "parentIndex := locs[0].Parent", Replace: "parentIndex := locs[0].Index", ExpectRule: "A5", ExpectConstruct: "group@Compute parent-index"},
			{Name: "next-parent-is-self", File: cmp, Find: "nextParent = parents[parentIndex+1]", Replace: "nextParent = parents[parentIndex]", ExpectRule: "A5", ExpectConstruct: "window@Compute end"},
			{Name: "childloc-cross-wired", File: cmp, Find: "childLoc{Parent: i, Index: j}", Replace: "childLoc{Parent: j, Index: i}", ExpectRule: "A5", ExpectConstruct: "parent-index"},
			{Name: "filter-skips-unannotated", File: cmp, Find: "if annotated[j] && filter != nil && !filter(fid) {", Replace: "if !annotated[j] && filter != nil && !filter(fid) {", ExpectRule: "A5", ExpectConstruct: "filter@mapChildLocs"},
			{Name: "group-run-test-weakened", File: cmp, Find: "for end < len(locs) && locs[end].Parent == p {", Replace: "for end < len(locs) && locs[end].Parent >= p {", ExpectRule: "A5", ExpectConstruct: "group@"},
			{Name: "setchild-wrong-threshold", File: cmp, Find: "\t\t\t\ttimeThresholdParent(parent, 0),\n\t\t\t\topts.Threshold,\n\t\t\t)\n\t\t\tif c == nil", Replace: "\t\t\t\ttimeThresholdParent(parent, 0),\n\t\t\t\t0,\n\t\t\t)\n\t\t\tif c == nil", ExpectRule: "A5", ExpectConstruct: "current@Compute"},
		},
	})
}

// ---------------------------------------------------------------------------
// edge facts: which atomic conditions are known to hold at a site
// ---------------------------------------------------------------------------

// c11Atom is an atomic condition (no top-level !, &&, ||) with the value it has at a site.
type c11Atom struct {
	e    ast.Expr
	val  bool
	cond ast.Expr // the if/for condition it was taken from
}

type c11Asg struct {
	pos    token.Pos
	rs     *ast.RangeStmt // assignment by the key/value of this range statement
	inLit  bool           // inside a function literal (no CFG position)
	direct bool           // the variable itself is assigned (not a field/element of it)
	rhs    ast.Expr       // assigned expression, when the statement pairs it with the variable
}

// c11Flow answers "which conditions hold at pos" for one function body.
type c11Flow struct {
	p     *core.Program
	info  *types.Info
	body  *ast.BlockStmt
	g     *cfg.CFG
	dom   map[*cfg.Block]map[*cfg.Block]bool
	conds map[ast.Expr]bool
	asg   map[types.Object][]c11Asg
}

func c11NewFlow(p *core.Program, info *types.Info, body *ast.BlockStmt) *c11Flow {
	f := &c11Flow{p: p, info: info, body: body, conds: map[ast.Expr]bool{}, asg: map[types.Object][]c11Asg{}}
	f.g = newCFG(info, body)
	f.dom = dominators(f.g)
	var stack []ast.Node
	lits := 0
	add := func(e ast.Expr, a c11Asg) {
		if e == nil {
			return
		}
		if o := rootObj(info, e); o != nil {
			a.inLit = lits > 0
			_, a.direct = ast.Unparen(e).(*ast.Ident)
			f.asg[o] = append(f.asg[o], a)
		}
	}
	ast.Inspect(body, func(n ast.Node) bool {
		if n == nil {
			top := stack[len(stack)-1]
			stack = stack[:len(stack)-1]
			if _, ok := top.(*ast.FuncLit); ok {
				lits--
			}
			return true
		}
		stack = append(stack, n)
		switch x := n.(type) {
		case *ast.FuncLit:
			lits++
		case *ast.IfStmt:
			if lits == 0 {
				f.conds[x.Cond] = true
			}
		case *ast.ForStmt:
			if lits == 0 && x.Cond != nil {
				f.conds[x.Cond] = true
			}
		case *ast.AssignStmt:
			for i, l := range x.Lhs {
				a := c11Asg{pos: x.Pos()}
				if len(x.Lhs) == len(x.Rhs) && (x.Tok == token.ASSIGN || x.Tok == token.DEFINE) {
					a.rhs = x.Rhs[i]
				}
				add(l, a)
			}
		case *ast.IncDecStmt:
			add(x.X, c11Asg{pos: x.Pos()})
		case *ast.RangeStmt:
			add(x.Key, c11Asg{pos: x.Pos(), rs: x})
			add(x.Value, c11Asg{pos: x.Pos(), rs: x})
		case *ast.DeclStmt:
			if gd, ok := x.Decl.(*ast.GenDecl); ok && gd.Tok == token.VAR {
				for _, sp := range gd.Specs {
					if vs, ok := sp.(*ast.ValueSpec); ok {
						for _, nm := range vs.Names {
							add(nm, c11Asg{pos: vs.Pos()})
						}
					}
				}
			}
		case *ast.UnaryExpr:
			if x.Op == token.AND {
				// address taken: the variable may change anywhere
				if o := rootObj(info, x.X); o != nil {
					f.asg[o] = append(f.asg[o], c11Asg{pos: x.Pos(), inLit: true})
				}
			}
		}
		return true
	})
	return f
}

// nAssign is the number of sites that (re)assign local variable o in the function (its definition included).
func (f *c11Flow) nAssign(o types.Object) int { return len(f.asg[o]) }

// nDirect counts only assignments to the variable itself (not to its fields or elements).
func (f *c11Flow) nDirect(o types.Object) int {
	n := 0
	for _, a := range f.asg[o] {
		if a.direct {
			n++
		}
	}
	return n
}

// blockAt locates the CFG block a statement executes in. Statements that are CFG nodes are found by
// position; branch statements (continue/break/goto are edges, not nodes) are located structurally:
// after a simple previous sibling (same block), after a compound previous sibling (its done block),
// or at the head of the enclosing body block.
func (f *c11Flow) blockAt(par map[ast.Node]ast.Node, st ast.Stmt) *cfg.Block {
	if _, isBranch := st.(*ast.BranchStmt); !isBranch {
		b, _ := blockOf(f.g, st.Pos())
		return b
	}
	kindStmt := func(k cfg.BlockKind, s ast.Stmt) *cfg.Block {
		for _, b := range f.g.Blocks {
			if b.Kind == k && b.Stmt == s {
				return b
			}
		}
		return nil
	}
	var list []ast.Stmt
	up := par[st]
	switch x := up.(type) {
	case *ast.BlockStmt:
		list = x.List
	case *ast.CaseClause:
		list = x.Body
	default:
		return nil
	}
	idx := -1
	for i, s := range list {
		if s == st {
			idx = i
		}
	}
	if idx > 0 {
		switch prev := list[idx-1].(type) {
		case *ast.IfStmt:
			return kindStmt(cfg.KindIfDone, prev)
		case *ast.ForStmt:
			return kindStmt(cfg.KindForDone, prev)
		case *ast.RangeStmt:
			return kindStmt(cfg.KindRangeDone, prev)
		case *ast.SwitchStmt:
			return kindStmt(cfg.KindSwitchDone, prev)
		case *ast.TypeSwitchStmt:
			return kindStmt(cfg.KindSwitchDone, prev)
		case *ast.AssignStmt, *ast.ExprStmt, *ast.IncDecStmt:
			b, _ := blockOf(f.g, prev.Pos())
			return b
		}
		return nil
	}
	if idx < 0 {
		return nil
	}
	if cc, ok := up.(*ast.CaseClause); ok {
		return kindStmt(cfg.KindSwitchCaseBody, cc)
	}
	switch owner := par[up].(type) {
	case *ast.IfStmt:
		if owner.Body == up {
			return kindStmt(cfg.KindIfThen, owner)
		}
		return kindStmt(cfg.KindIfElse, owner)
	case *ast.ForStmt:
		return kindStmt(cfg.KindForBody, owner)
	case *ast.RangeStmt:
		return kindStmt(cfg.KindRangeBody, owner)
	}
	return nil
}

// factsAtStmt is facts for a statement, including branch statements.
func (f *c11Flow) factsAtStmt(par map[ast.Node]ast.Node, st ast.Stmt) []c11Atom {
	return f.factsIn(f.blockAt(par, st), st.Pos())
}

func c11Decompose(e ast.Expr, val bool, cond ast.Expr) []c11Atom {
	e = ast.Unparen(e)
	switch x := e.(type) {
	case *ast.UnaryExpr:
		if x.Op == token.NOT {
			return c11Decompose(x.X, !val, cond)
		}
	case *ast.BinaryExpr:
		if (x.Op == token.LAND && val) || (x.Op == token.LOR && !val) {
			return append(c11Decompose(x.X, val, cond), c11Decompose(x.Y, val, cond)...)
		}
		if x.Op == token.EQL || x.Op == token.NEQ {
			// b == true, b != false, ...
			for _, pr := range [][2]ast.Expr{{x.X, x.Y}, {x.Y, x.X}} {
				if id, ok := ast.Unparen(pr[1]).(*ast.Ident); ok && (id.Name == "true" || id.Name == "false") && id.Obj == nil {
					return c11Decompose(pr[0], val == ((id.Name == "true") == (x.Op == token.EQL)), cond)
				}
			}
		}
	}
	return []c11Atom{{e: e, val: val, cond: cond}}
}

func c11StopAt(b *cfg.Block) func(*cfg.Block) bool {
	return func(x *cfg.Block) bool { return x == b }
}

// facts returns the atomic conditions that hold whenever control is at pos: for every if/for
// condition whose block dominates the site and from exactly one of whose edges the site can be
// reached (without re-evaluating the condition), the atoms implied by that edge, provided no local
// variable of the atom is reassigned between the test and the site.
func (f *c11Flow) facts(pos token.Pos) []c11Atom {
	sb, _ := blockOf(f.g, pos)
	return f.factsIn(sb, pos)
}

func (f *c11Flow) factsIn(sb *cfg.Block, pos token.Pos) []c11Atom {
	if sb == nil {
		return nil
	}
	var out []c11Atom
	for _, b := range f.g.Blocks {
		if !b.Live || len(b.Succs) != 2 || b == sb || !f.dom[sb][b] {
			continue
		}
		ce := lastExpr(b)
		if ce == nil || !f.conds[ce] {
			continue
		}
		fromT := reachableFrom([]*cfg.Block{b.Succs[0]}, c11StopAt(b))[sb]
		fromF := reachableFrom([]*cfg.Block{b.Succs[1]}, c11StopAt(b))[sb]
		if fromT == fromF {
			continue
		}
		held := b.Succs[0]
		if !fromT {
			held = b.Succs[1]
		}
		for _, a := range f.expandCaptured(c11Decompose(ce, fromT, ce), b) {
			if f.stable(a.e, b, held, sb, pos) {
				out = append(out, a)
			}
		}
	}
	return out
}

// expandCaptured replaces an atom that is a boolean local assigned exactly once, in the block of the
// test itself (`if ok := f(x); !ok`, `v := p.Visible(); if !v`), by the atoms of the captured
// expression, provided no local of that expression is reassigned between the capture and the test.
func (f *c11Flow) expandCaptured(atoms []c11Atom, b *cfg.Block) []c11Atom {
	var out []c11Atom
	for _, a := range atoms {
		id, ok := ast.Unparen(a.e).(*ast.Ident)
		if !ok {
			out = append(out, a)
			continue
		}
		v, _ := f.info.Uses[id].(*types.Var)
		as := f.asg[v]
		if v == nil || len(as) != 1 || !as[0].direct || as[0].inLit || as[0].rs != nil || as[0].rhs == nil {
			out = append(out, a)
			continue
		}
		if ab, _ := blockOf(f.g, as[0].pos); ab != b {
			out = append(out, a)
			continue
		}
		clean := true
		ast.Inspect(as[0].rhs, func(n ast.Node) bool {
			if x, ok := n.(*ast.Ident); ok {
				if w, ok := f.info.Uses[x].(*types.Var); ok && !w.IsField() {
					for _, wa := range f.asg[w] {
						if wb, _ := blockOf(f.g, wa.pos); wa.inLit || (wb == b && wa.pos > as[0].pos) {
							clean = false
						}
					}
				}
			}
			return true
		})
		if !clean {
			out = append(out, a)
			continue
		}
		out = append(out, c11Decompose(as[0].rhs, a.val, a.cond)...)
	}
	return out
}

func (f *c11Flow) stable(e ast.Expr, b, held, sb *cfg.Block, pos token.Pos) bool {
	ok := true
	var fromHeld map[*cfg.Block]bool
	ast.Inspect(e, func(n ast.Node) bool {
		id, isID := n.(*ast.Ident)
		if !isID {
			return true
		}
		v, isVar := f.info.Uses[id].(*types.Var)
		if !isVar || v.IsField() || (v.Pkg() != nil && v.Parent() == v.Pkg().Scope()) {
			return true
		}
		for _, a := range f.asg[v] {
			if a.inLit {
				ok = false
				continue
			}
			var ab *cfg.Block
			if a.rs != nil {
				for _, x := range f.g.Blocks {
					if x.Kind == cfg.KindRangeLoop && x.Stmt == a.rs {
						ab = x
					}
				}
			} else {
				ab, _ = blockOf(f.g, a.pos)
			}
			if ab == nil {
				ok = false
				continue
			}
			if ab == b {
				continue // before the test, in its own block
			}
			if fromHeld == nil {
				fromHeld = reachableFrom([]*cfg.Block{held}, c11StopAt(b))
			}
			if !fromHeld[ab] {
				continue
			}
			if ab == sb && a.rs == nil && a.pos < pos {
				ok = false
				continue
			}
			if ab != sb && reachableFrom([]*cfg.Block{ab}, c11StopAt(b))[sb] {
				ok = false
				continue
			}
			if ab == sb && reachableFrom(ab.Succs, c11StopAt(b))[sb] {
				ok = false
			}
		}
		return true
	})
	return ok
}

// c11BoolFact: +1 when an atom matching m is known true, -1 when known false, 0 otherwise.
func c11BoolFact(facts []c11Atom, m func(ast.Expr) bool) int {
	for _, a := range facts {
		if m(a.e) {
			if a.val {
				return +1
			}
			return -1
		}
	}
	return 0
}

func c11IsNilIdent(info *types.Info, e ast.Expr) bool {
	id, ok := ast.Unparen(e).(*ast.Ident)
	if !ok {
		return false
	}
	_, isNil := info.Uses[id].(*types.Nil)
	return isNil
}

// c11NilCmp recognises `x == nil` / `nil == x` (eq) and `x != nil` (!eq).
func c11NilCmp(info *types.Info, e ast.Expr) (x ast.Expr, eq, ok bool) {
	be, isBin := ast.Unparen(e).(*ast.BinaryExpr)
	if !isBin || (be.Op != token.EQL && be.Op != token.NEQ) {
		return nil, false, false
	}
	switch {
	case c11IsNilIdent(info, be.Y):
		x = be.X
	case c11IsNilIdent(info, be.X):
		x = be.Y
	default:
		return nil, false, false
	}
	return x, be.Op == token.EQL, true
}

// c11NilFact: +1 when the expression matched by m is known nil, -1 known non-nil, 0 unknown.
func c11NilFact(info *types.Info, facts []c11Atom, m func(ast.Expr) bool) int {
	for _, a := range facts {
		x, eq, ok := c11NilCmp(info, a.e)
		if !ok || !m(x) {
			continue
		}
		if eq == a.val {
			return +1
		}
		return -1
	}
	return 0
}

func c11IsObj(info *types.Info, o types.Object) func(ast.Expr) bool {
	return func(e ast.Expr) bool { return o != nil && objOf(info, e) == o }
}

// c11DirectField returns F when e is exactly `<root>.F` (root a variable), else "".
func c11DirectField(info *types.Info, e ast.Expr, root types.Object) string {
	f := fieldOf(info, e)
	if f == nil || root == nil {
		return ""
	}
	sel := ast.Unparen(e).(*ast.SelectorExpr)
	if objOf(info, sel.X) != root {
		return ""
	}
	return f.Name()
}

// c11Same compares two side-effect-free expressions through the objects they mention.
func c11Same(info *types.Info, a, b ast.Expr) bool {
	a, b = ast.Unparen(a), ast.Unparen(b)
	if ta, ok := info.Types[a]; ok && ta.Value != nil {
		if tb, ok := info.Types[b]; ok && tb.Value != nil {
			return ta.Value.ExactString() == tb.Value.ExactString()
		}
		return false
	}
	switch x := a.(type) {
	case *ast.Ident:
		y, ok := b.(*ast.Ident)
		return ok && objOf(info, x) != nil && objOf(info, x) == objOf(info, y)
	case *ast.SelectorExpr:
		y, ok := b.(*ast.SelectorExpr)
		if !ok {
			return false
		}
		sx, sy := info.Selections[x], info.Selections[y]
		if sx == nil || sy == nil {
			// qualified identifier pkg.Name
			return sx == nil && sy == nil && info.Uses[x.Sel] != nil && info.Uses[x.Sel] == info.Uses[y.Sel]
		}
		return sx.Obj() == sy.Obj() && c11Same(info, x.X, y.X)
	case *ast.IndexExpr:
		y, ok := b.(*ast.IndexExpr)
		return ok && c11Same(info, x.X, y.X) && c11Same(info, x.Index, y.Index)
	case *ast.StarExpr:
		y, ok := b.(*ast.StarExpr)
		return ok && c11Same(info, x.X, y.X)
	case *ast.UnaryExpr:
		y, ok := b.(*ast.UnaryExpr)
		return ok && x.Op == y.Op && c11Same(info, x.X, y.X)
	case *ast.BinaryExpr:
		y, ok := b.(*ast.BinaryExpr)
		return ok && x.Op == y.Op && c11Same(info, x.X, y.X) && c11Same(info, x.Y, y.Y)
	case *ast.CallExpr:
		y, ok := b.(*ast.CallExpr)
		if !ok || len(x.Args) != len(y.Args) {
			return false
		}
		if bn := builtinName(info, x); bn != "" {
			if bn != builtinName(info, y) {
				return false
			}
		} else {
			fx, fy := callee(info, x), callee(info, y)
			if fx == nil || fx != fy {
				return false
			}
			if sx, ok := ast.Unparen(x.Fun).(*ast.SelectorExpr); ok && info.Selections[sx] != nil {
				sy, ok := ast.Unparen(y.Fun).(*ast.SelectorExpr)
				if !ok || !c11Same(info, sx.X, sy.X) {
					return false
				}
			}
		}
		for i := range x.Args {
			if !c11Same(info, x.Args[i], y.Args[i]) {
				return false
			}
		}
		return true
	}
	return false
}

// c11MethodCallOn reports whether e is `<recv>.<name>(...)` with the given callee and receiver object; returns the call.
func c11MethodCallOn(info *types.Info, e ast.Expr, recvType, name string, recv types.Object) *ast.CallExpr {
	call, ok := ast.Unparen(e).(*ast.CallExpr)
	if !ok || !isMethod(callee(info, call), recvType, name) {
		return nil
	}
	sel, ok := ast.Unparen(call.Fun).(*ast.SelectorExpr)
	if !ok || recv == nil || objOf(info, sel.X) != recv {
		return nil
	}
	return call
}

// c11IsConstInt reports whether e is the integer constant v.
func c11IsConstInt(info *types.Info, e ast.Expr, v int64) bool {
	n, ok := constInt(info, e)
	return ok && n == v
}

// c11FieldPlusOne recognises `<v>.<field> + 1` with v a local variable; returns v.
func c11FieldPlusOne(info *types.Info, e ast.Expr, field string) types.Object {
	be, ok := ast.Unparen(e).(*ast.BinaryExpr)
	if !ok || be.Op != token.ADD {
		return nil
	}
	x, y := be.X, be.Y
	if c11IsConstInt(info, x, 1) {
		x, y = y, x
	}
	if !c11IsConstInt(info, y, 1) {
		return nil
	}
	f := fieldOf(info, x)
	if f == nil || f.Name() != field {
		return nil
	}
	return objOf(info, ast.Unparen(x).(*ast.SelectorExpr).X)
}

// c11AppendTo recognises `L = append(L, ...)`; returns the call.
func c11AppendTo(info *types.Info, as *ast.AssignStmt) *ast.CallExpr {
	if len(as.Lhs) != 1 || len(as.Rhs) != 1 {
		return nil
	}
	call, ok := ast.Unparen(as.Rhs[0]).(*ast.CallExpr)
	if !ok || builtinName(info, call) != "append" || len(call.Args) < 1 {
		return nil
	}
	if !c11Same(info, as.Lhs[0], call.Args[0]) {
		return nil
	}
	return call
}

// ---------------------------------------------------------------------------
// roles in core.Compute
// ---------------------------------------------------------------------------

type c11Compute struct {
	pk   *packages.Package
	info *types.Info
	fi   *FuncInfo
	fl   *c11Flow
	par  map[ast.Node]ast.Node

	parents, hist, opts types.Object // parameters by type: []Parent, Datasourcer, *Options
	getCall             *ast.CallExpr
	child, getErr       types.Object // child, err := histories.Get(ctx, fid)
	fid                 types.Object
	findCall            *ast.CallExpr // c := child.FindVisible(...)
	cur                 types.Object  // c
}

// c11Ctx resolves the roles of core.Compute; anchors that do not resolve are reported on r.
func c11Ctx(r *core.R) *c11Compute {
	pk := r.P.Pkg("annotate/internal/core")
	fi := findFunc(pk, "Compute")
	if fi == nil || fi.Decl.Body == nil {
		r.Anchor("annotate/internal/core.Compute")
		return nil
	}
	cx := &c11Compute{pk: pk, info: pk.TypesInfo, fi: fi, par: parentsOf(r.P, fi)}
	info := cx.info
	sig := fi.Obj.Type().(*types.Signature)
	for i := 0; i < sig.Params().Len(); i++ {
		p := sig.Params().At(i)
		switch t := p.Type().(type) {
		case *types.Slice:
			if namedPath(t.Elem()) == c11CorePath+".Parent" {
				cx.parents = p
			}
		case *types.Pointer:
			if namedPath(t) == c11CorePath+".Options" {
				cx.opts = p
			}
		default:
			if namedPath(t) == c11CorePath+".Datasourcer" {
				cx.hist = p
			}
		}
	}
	if cx.parents == nil || cx.hist == nil || cx.opts == nil {
		r.Anchor("parameters ([]Parent, Datasourcer, *Options) of core.Compute")
		return nil
	}
	cx.fl = c11NewFlow(r.P, info, fi.Decl.Body)
	inspectNoLit(fi.Decl.Body, func(n ast.Node) bool {
		as, ok := n.(*ast.AssignStmt)
		if !ok || len(as.Rhs) != 1 {
			return true
		}
		if call := c11MethodCallOn(info, as.Rhs[0], c11CorePath+".Datasourcer", "Get", cx.hist); call != nil && len(as.Lhs) == 2 && len(call.Args) == 2 && cx.getCall == nil {
			cx.getCall = call
			cx.child, cx.getErr = objOf(info, as.Lhs[0]), objOf(info, as.Lhs[1])
			cx.fid = objOf(info, call.Args[1])
		}
		return true
	})
	if cx.getCall == nil || cx.child == nil || cx.getErr == nil || cx.fid == nil {
		r.Anchor("`child, err := histories.Get(ctx, fid)` in core.Compute")
		return nil
	}
	inspectNoLit(fi.Decl.Body, func(n ast.Node) bool {
		as, ok := n.(*ast.AssignStmt)
		if !ok || len(as.Rhs) != 1 || len(as.Lhs) != 1 {
			return true
		}
		if call := c11MethodCallOn(info, as.Rhs[0], c11CorePath+".ChildList", "FindVisible", cx.child); call != nil && cx.findCall == nil {
			cx.findCall = call
			cx.cur = objOf(info, as.Lhs[0])
		}
		return true
	})
	if cx.findCall == nil || cx.cur == nil {
		r.Anchor("`c := child.FindVisible(...)` on the fetched child list in core.Compute")
		return nil
	}
	return cx
}

// parentVars finds `P := parents[I]` (I a variable): P -> I.
func (cx *c11Compute) parentVars() map[types.Object]types.Object {
	out := map[types.Object]types.Object{}
	inspectNoLit(cx.fi.Decl.Body, func(n ast.Node) bool {
		as, ok := n.(*ast.AssignStmt)
		if !ok || len(as.Lhs) != 1 || len(as.Rhs) != 1 {
			return true
		}
		ix, ok := ast.Unparen(as.Rhs[0]).(*ast.IndexExpr)
		if !ok || objOf(cx.info, ix.X) != cx.parents {
			return true
		}
		p, i := objOf(cx.info, as.Lhs[0]), objOf(cx.info, ix.Index)
		if p != nil && i != nil {
			out[p] = i
		}
		return true
	})
	return out
}

func (cx *c11Compute) isVisibleOf(p types.Object) func(ast.Expr) bool {
	return func(e ast.Expr) bool {
		return c11MethodCallOn(cx.info, e, c11CorePath+".Parent", "Visible", p) != nil
	}
}

func (cx *c11Compute) optField(name string) func(ast.Expr) bool {
	return func(e ast.Expr) bool { return c11DirectField(cx.info, e, cx.opts) == name }
}

// ---------------------------------------------------------------------------
// A1 deleted parents get no annotations
// ---------------------------------------------------------------------------

func c11A1(r *core.R) {
	cx := c11Ctx(r)
	if cx == nil {
		return
	}
	info := cx.info
	pvars := cx.parentVars()
	parentOfIndex := func(i types.Object) types.Object {
		var res types.Object
		n := 0
		for p, pi := range pvars {
			if pi == i {
				res = p
				n++
			}
		}
		if n != 1 {
			return nil
		}
		return res
	}
	visibleAt := func(p types.Object, pos token.Pos) (bool, string) {
		switch c11BoolFact(cx.fl.facts(pos), cx.isVisibleOf(p)) {
		case +1:
			return true, ""
		case -1:
			return false, "is reachable only when " + p.Name() + ".Visible() is false"
		}
		return false, "is not dominated by the visible edge of a `" + p.Name() + ".Visible()` test (or " + p.Name() + " is reassigned after the test)"
	}
	type appendSite struct {
		as  *ast.AssignStmt
		lhs ast.Expr
	}
	var appends []appendSite
	nSet := 0
	inspectNoLit(cx.fi.Decl.Body, func(n ast.Node) bool {
		switch x := n.(type) {
		case *ast.CallExpr:
			if !isMethod(callee(info, x), c11CorePath+".Parent", "SetChild") {
				return true
			}
			nSet++
			c := "setchild@Compute " + src(r.P.Fset, x)
			sel, _ := ast.Unparen(x.Fun).(*ast.SelectorExpr)
			var p types.Object
			if sel != nil {
				p = objOf(info, sel.X)
			}
			if p == nil {
				r.Unknown(c, x.Pos(), "SetChild is called on `%s`, not on a parent variable; accepted idiom: `parent := parents[i]; if !parent.Visible() { continue }; ... parent.SetChild(idx, c)`", src(r.P.Fset, x.Fun))
				return true
			}
			if ok, why := visibleAt(p, x.Pos()); ok {
				r.OK(c, x.Pos(), "reachable only on the visible edge of `%s.Visible()`; %s is not reassigned in between", p.Name(), p.Name())
			} else {
				r.Bad(c, x.Pos(), "`%s` %s: a deleted parent version would get its children annotated", src(r.P.Fset, x), why)
			}
		case *ast.AssignStmt:
			if call := c11AppendTo(info, x); call != nil && namedPath(info.TypeOf(x.Lhs[0])) == core.ModulePath+".Updates" {
				appends = append(appends, appendSite{as: x, lhs: x.Lhs[0]})
			}
		}
		return true
	})
	if nSet == 0 {
		r.Anchor("call of Parent.SetChild in core.Compute")
	}
	// which parent does an appended-to list belong to
	flowsTo := func(u types.Object) []types.Object { // indices I with results[I] = append(results[I], u...)
		var out []types.Object
		for _, a := range appends {
			ix, ok := ast.Unparen(a.lhs).(*ast.IndexExpr)
			if !ok {
				continue
			}
			call := c11AppendTo(info, a.as)
			for _, arg := range call.Args[1:] {
				if objOf(info, arg) == u {
					if i := objOf(info, ix.Index); i != nil {
						out = append(out, i)
					}
				}
			}
		}
		return out
	}
	for _, a := range appends {
		c := "append@Compute " + src(r.P.Fset, a.lhs)
		var idx []types.Object
		switch l := ast.Unparen(a.lhs).(type) {
		case *ast.IndexExpr:
			if i := objOf(info, l.Index); i != nil {
				idx = []types.Object{i}
			}
		case *ast.Ident:
			idx = flowsTo(objOf(info, l))
		}
		if len(idx) == 0 {
			r.Unknown(c, a.as.Pos(), "cannot tell which parent the update list `%s` belongs to; accepted idioms: `results[i] = append(results[i], ...)` with `parent := parents[i]`, or a local list later appended to results[i]", src(r.P.Fset, a.lhs))
			continue
		}
		bad := ""
		var names []string
		for _, i := range idx {
			p := parentOfIndex(i)
			if p == nil {
				bad = "no unique `P := parents[" + i.Name() + "]` identifies the parent of index " + i.Name()
				break
			}
			if cx.fl.nAssign(i) != 1 || cx.fl.nAssign(p) != 1 {
				bad = i.Name() + " or " + p.Name() + " is assigned more than once, so results[" + i.Name() + "] need not be the list of the tested parent"
				break
			}
			if ok, why := visibleAt(p, a.as.Pos()); !ok {
				bad = "`" + src(r.P.Fset, a.as) + "` " + why
				break
			}
			names = append(names, p.Name())
		}
		if bad != "" {
			r.Bad(c, a.as.Pos(), "%s: a deleted parent version would receive updates", bad)
		} else {
			r.OK(c, a.as.Pos(), "list of parent %s (= parents[%s]); reachable only on the visible edge of `%s.Visible()`", strings.Join(names, ","), idx[0].Name(), names[0])
		}
	}
	if len(appends) == 0 {
		r.Anchor("append to an osm.Updates list in core.Compute")
	}
}

// ---------------------------------------------------------------------------
// A2 option-gated typed errors, mapping, options
// ---------------------------------------------------------------------------

func c11A2(r *core.R) {
	c11A2Compute(r)
	c11A2Routes(r)
	c11A2Options(r)
}

// c11CoreErrorLit recognises `&T{...}` with T a named type of package core; returns the literal and T's name.
func c11CoreErrorLit(info *types.Info, e ast.Expr) (*ast.CompositeLit, string) {
	ue, ok := ast.Unparen(e).(*ast.UnaryExpr)
	if !ok || ue.Op != token.AND {
		return nil, ""
	}
	cl, ok := ast.Unparen(ue.X).(*ast.CompositeLit)
	if !ok {
		return nil, ""
	}
	np := namedPath(info.TypeOf(cl))
	if !strings.HasPrefix(np, c11CorePath+".") {
		return nil, ""
	}
	return cl, strings.TrimPrefix(np, c11CorePath+".")
}

func c11LitValue(cl *ast.CompositeLit, key string) ast.Expr {
	for _, e := range cl.Elts {
		if kv, ok := e.(*ast.KeyValueExpr); ok {
			if id, ok := kv.Key.(*ast.Ident); ok && id.Name == key {
				return kv.Value
			}
		}
	}
	return nil
}

func c11A2Compute(r *core.R) {
	cx := c11Ctx(r)
	if cx == nil {
		return
	}
	info := cx.info
	notFound := func(e ast.Expr) bool {
		call := c11MethodCallOn(info, e, c11CorePath+".Datasourcer", "NotFound", cx.hist)
		return call != nil && len(call.Args) == 1 && objOf(info, call.Args[0]) == cx.getErr
	}
	childVisible := func(e ast.Expr) bool { // <child>[k].Visible
		f := fieldOf(info, e)
		if f == nil || f.Name() != "Visible" {
			return false
		}
		ix, ok := ast.Unparen(ast.Unparen(e).(*ast.SelectorExpr).X).(*ast.IndexExpr)
		return ok && objOf(info, ix.X) == cx.child
	}
	seen := map[string]int{}
	why := map[string]string{
		"datasource-error":    "a datasource failure that is not a not-found must reach the caller unchanged, and a not-found must be handled by the IgnoreMissingChildren logic instead",
		"NoHistoryError":      "a missing child history must produce *NoHistoryError exactly when the datasource reports not-found and IgnoreMissingChildren is not set",
		"NoVisibleChildError": "a parent whose child has no visible version must produce *NoVisibleChildError exactly when IgnoreInconsistency is not set",
		"inconsistency":       "the \"child deleted between parent versions\" error must be produced only for a non-visible child version inside the update window and only when IgnoreInconsistency is not set",
	}
	inspectNoLit(cx.fi.Decl.Body, func(n ast.Node) bool {
		ret, ok := n.(*ast.ReturnStmt)
		if !ok || len(ret.Results) == 0 {
			return true
		}
		e := ret.Results[len(ret.Results)-1]
		if c11IsNilIdent(info, e) {
			return true
		}
		facts := cx.fl.facts(ret.Pos())
		var missing []string
		req := func(ok bool, what string) {
			if !ok {
				missing = append(missing, what)
			}
		}
		kind := ""
		if objOf(info, e) == cx.getErr {
			kind = "datasource-error"
			req(c11NilFact(info, facts, c11IsObj(info, cx.getErr)) == -1, cx.getErr.Name()+" != nil")
			req(c11BoolFact(facts, notFound) == -1, "!NotFound("+cx.getErr.Name()+")")
		} else if cl, name := c11CoreErrorLit(info, e); cl != nil {
			kind = name
			switch name {
			case "NoHistoryError":
				req(c11NilFact(info, facts, c11IsObj(info, cx.getErr)) == -1, cx.getErr.Name()+" != nil")
				req(c11BoolFact(facts, notFound) == +1, "NotFound("+cx.getErr.Name()+")")
				req(c11BoolFact(facts, cx.optField("IgnoreMissingChildren")) == -1, "!opts.IgnoreMissingChildren")
			case "NoVisibleChildError":
				req(c11NilFact(info, facts, c11IsObj(info, cx.cur)) == +1, cx.cur.Name()+" == nil (no visible child found)")
				req(c11BoolFact(facts, cx.optField("IgnoreInconsistency")) == -1, "!opts.IgnoreInconsistency")
			default:
				r.Unknown("return@Compute "+name, ret.Pos(), "`%s` returns a typed error that is not among the documented ones (NoHistoryError, NoVisibleChildError)", src(r.P.Fset, ret))
				return true
			}
			if v := c11LitValue(cl, "ChildID"); v == nil || objOf(info, v) != cx.fid {
				missing = append(missing, "ChildID set from "+cx.fid.Name()+" (the id whose history was requested)")
			}
		} else {
			kind = "inconsistency"
			req(c11BoolFact(facts, childVisible) == -1, "!"+cx.child.Name()+"[k].Visible")
			req(c11BoolFact(facts, cx.optField("IgnoreInconsistency")) == -1, "!opts.IgnoreInconsistency")
		}
		seen[kind]++
		c := "return@Compute " + kind
		if len(missing) > 0 {
			r.Bad(c, ret.Pos(), "`%s` is not control-dependent on / does not carry: %s. %s", src(r.P.Fset, ret), strings.Join(missing, "; "), why[kind])
		} else {
			var have []string
			for _, a := range facts {
				s := src(r.P.Fset, a.e)
				if !a.val {
					s = "!(" + s + ")"
				}
				have = append(have, s)
			}
			sort.Strings(have)
			r.OK(c, ret.Pos(), "reachable only when %s", strings.Join(have, " && "))
		}
		return true
	})
	for _, k := range []string{"datasource-error", "NoHistoryError", "NoVisibleChildError", "inconsistency"} {
		if seen[k] == 0 {
			r.Bad("return@Compute "+k, cx.fi.Decl.Pos(), "core.Compute has no %s return: %s", k, why[k])
		}
	}
}

// c11ExportedCoreErrors lists the exported named types of package core whose pointer implements error.
func c11ExportedCoreErrors(p *core.Program) []*types.Named {
	cpk := p.Pkg("annotate/internal/core")
	if cpk == nil {
		return nil
	}
	errIface := types.Universe.Lookup("error").Type().Underlying().(*types.Interface)
	var out []*types.Named
	for _, nm := range cpk.Types.Scope().Names() {
		tn, ok := cpk.Types.Scope().Lookup(nm).(*types.TypeName)
		if !ok || !tn.Exported() || tn.IsAlias() {
			continue
		}
		nt, ok := tn.Type().(*types.Named)
		if !ok {
			continue
		}
		if _, isIface := nt.Underlying().(*types.Interface); isIface {
			continue
		}
		if types.Implements(types.NewPointer(nt), errIface) {
			out = append(out, nt)
		}
	}
	return out
}

func c11A2Routes(r *core.R) {
	apk := r.P.Pkg("annotate")
	if apk == nil {
		r.Anchor("package annotate")
		return
	}
	info := apk.TypesInfo
	mappers := map[*types.Func]bool{}
	var order []*types.Func
	for _, name := range []string{"Ways", "Relations"} {
		fi := findFunc(apk, name)
		if fi == nil || fi.Decl.Body == nil {
			r.Anchor("annotate." + name)
			continue
		}
		fl := c11NewFlow(r.P, info, fi.Decl.Body)
		var ccall *ast.CallExpr
		var errObj types.Object
		inspectNoLit(fi.Decl.Body, func(n ast.Node) bool {
			as, ok := n.(*ast.AssignStmt)
			if !ok || len(as.Rhs) != 1 {
				return true
			}
			call, ok := ast.Unparen(as.Rhs[0]).(*ast.CallExpr)
			if !ok || !isPkgFunc(callee(info, call), c11CorePath, "Compute") {
				return true
			}
			ccall = call
			for _, l := range as.Lhs {
				if o := objOf(info, l); o != nil && types.Identical(o.Type(), types.Universe.Lookup("error").Type()) {
					errObj = o
				}
			}
			return true
		})
		if ccall == nil || errObj == nil {
			r.Anchor("`updates, err := core.Compute(...)` in annotate." + name)
			continue
		}
		// error route
		c := "route@" + name
		nErr := 0
		var direct *ast.ReturnStmt
		var mapper *types.Func
		inspectNoLit(fi.Decl.Body, func(n ast.Node) bool {
			ret, ok := n.(*ast.ReturnStmt)
			if !ok || len(ret.Results) == 0 {
				return true
			}
			if c11NilFact(info, fl.facts(ret.Pos()), c11IsObj(info, errObj)) != -1 {
				return true
			}
			nErr++
			e := ast.Unparen(ret.Results[len(ret.Results)-1])
			if call, ok := e.(*ast.CallExpr); ok && len(call.Args) == 1 && objOf(info, call.Args[0]) == errObj {
				if fn := callee(info, call); fn != nil && fn.Pkg() != nil && fn.Pkg().Path() == c11AnnPath {
					mapper = fn
					return true
				}
			}
			direct = ret
			return true
		})
		switch {
		case nErr == 0:
			r.Bad(c, ccall.Pos(), "no return is control-dependent on `%s != nil` after core.Compute: its error (the documented typed errors) is dropped", errObj.Name())
		case direct != nil:
			r.Bad(c, direct.Pos(), "`%s` hands Compute's error to the caller without mapping: callers receive internal core.* error types, so the documented *annotate.NoHistoryError / *annotate.NoVisibleChildError never match", src(r.P.Fset, direct))
		default:
			r.OK(c, ccall.Pos(), "every return under `%s != nil` returns %s(%s)", errObj.Name(), mapper.Name(), errObj.Name())
			if !mappers[mapper] {
				mappers[mapper] = true
				order = append(order, mapper)
			}
		}
		// options are applied to the value handed to Compute
		c = "options@" + name
		sig := fi.Obj.Type().(*types.Signature)
		var optsParam types.Object
		if sig.Variadic() {
			optsParam = sig.Params().At(sig.Params().Len() - 1)
		}
		var optArg types.Object
		for _, a := range ccall.Args {
			if namedPath(info.TypeOf(a)) == c11CorePath+".Options" {
				optArg = objOf(info, a)
			}
		}
		if optsParam == nil {
			r.Anchor("variadic ...Option parameter of annotate." + name)
			continue
		}
		if optArg == nil {
			r.Bad(c, ccall.Pos(), "the *core.Options argument of `%s` is not the variable the options were applied to: IgnoreInconsistency / IgnoreMissingChildren / Threshold / ChildFilter given by the caller have no effect", src(r.P.Fset, ccall))
			continue
		}
		applied := false
		inspectNoLit(fi.Decl.Body, func(n ast.Node) bool {
			rs, ok := n.(*ast.RangeStmt)
			if !ok || objOf(info, rs.X) != optsParam || rs.Value == nil {
				return true
			}
			o := objOf(info, rs.Value)
			hit := false
			isApply := func(e ast.Expr) bool {
				call, ok := ast.Unparen(e).(*ast.CallExpr)
				return ok && objOf(info, call.Fun) == o && len(call.Args) == 1 && objOf(info, call.Args[0]) == optArg
			}
			stmtApplies := func(s ast.Stmt) bool {
				switch x := s.(type) {
				case *ast.AssignStmt:
					return len(x.Rhs) == 1 && isApply(x.Rhs[0])
				case *ast.ExprStmt:
					return isApply(x.X)
				}
				return false
			}
			// unconditional in the loop body: a top-level statement, or the init of a top-level if
			for _, s := range rs.Body.List {
				if stmtApplies(s) {
					hit = true
				}
				if ifs, ok := s.(*ast.IfStmt); ok && ifs.Init != nil && stmtApplies(ifs.Init) {
					hit = true
				}
			}
			if !hit {
				return true
			}
			tb, _ := blockOf(fl.g, ccall.Pos())
			for _, b := range fl.g.Blocks {
				if b.Kind == cfg.KindRangeDone && b.Stmt == rs && tb != nil && (b == tb || fl.dom[tb][b]) {
					applied = true
				}
			}
			return true
		})
		nas := 0
		for _, a := range fl.asg[optArg] {
			if a.pos < ccall.Pos() {
				nas++
			}
		}
		switch {
		case !applied:
			r.Bad(c, ccall.Pos(), "no loop `for _, o := range %s { o(%s) }` completes before core.Compute is called with %s: the caller's options have no effect", optsParam.Name(), optArg.Name(), optArg.Name())
		case nas != 1:
			r.Bad(c, ccall.Pos(), "%s is assigned %d times before core.Compute: the value the options were applied to may be replaced", optArg.Name(), nas)
		default:
			r.OK(c, ccall.Pos(), "every option of %s is applied to %s in a loop that completes before core.Compute(..., %s)", optsParam.Name(), optArg.Name(), optArg.Name())
		}
	}
	for _, m := range order {
		c11A2Mapper(r, apk, m)
	}
}

// c11A2Mapper checks the function Ways/Relations hand Compute's error to.
func c11A2Mapper(r *core.R, apk *packages.Package, fn *types.Func) {
	info := apk.TypesInfo
	fi := findFunc(apk, fn.Name())
	if fi == nil || fi.Decl.Body == nil {
		r.Anchor("declaration of annotate." + fn.Name())
		return
	}
	g := fi.Name()
	sig := fn.Type().(*types.Signature)
	if sig.Params().Len() != 1 {
		r.Anchor("single error parameter of annotate." + g)
		return
	}
	param := sig.Params().At(0)
	var ts *ast.TypeSwitchStmt
	inspectNoLit(fi.Decl.Body, func(n ast.Node) bool {
		x, ok := n.(*ast.TypeSwitchStmt)
		if !ok || ts != nil {
			return true
		}
		var ta *ast.TypeAssertExpr
		switch a := x.Assign.(type) {
		case *ast.AssignStmt:
			if len(a.Rhs) == 1 {
				ta, _ = ast.Unparen(a.Rhs[0]).(*ast.TypeAssertExpr)
			}
		case *ast.ExprStmt:
			ta, _ = ast.Unparen(a.X).(*ast.TypeAssertExpr)
		}
		if ta != nil && objOf(info, ta.X) == param {
			ts = x
		}
		return true
	})
	errs := c11ExportedCoreErrors(r.P)
	if len(errs) == 0 {
		r.Anchor("exported error types of annotate/internal/core")
		return
	}
	for _, nt := range errs {
		name := nt.Obj().Name()
		c := "maperr@" + g + " " + name
		if ts == nil {
			r.Unknown(c, fi.Decl.Pos(), "%s has no `switch t := %s.(type)`; accepted idiom: a type switch on the error parameter with one case per core error type", g, param.Name())
			continue
		}
		var cc *ast.CaseClause
		for _, s := range ts.Body.List {
			cl := s.(*ast.CaseClause)
			for _, te := range cl.List {
				if types.Identical(info.TypeOf(te), types.NewPointer(nt)) {
					cc = cl
				}
			}
		}
		if cc == nil {
			r.Bad(c, ts.Pos(), "%s has no case for *core.%s: Compute's %s reaches the caller as an internal type, so errors.As / type assertions on the documented *annotate.%s fail", g, name, name, name)
			continue
		}
		if len(cc.List) != 1 || len(cc.Body) == 0 {
			r.Unknown(c, cc.Pos(), "case clause for *core.%s lists several types or is empty", name)
			continue
		}
		tv := info.Implicits[cc]
		ret, _ := cc.Body[len(cc.Body)-1].(*ast.ReturnStmt)
		var cl *ast.CompositeLit
		if ret != nil && len(ret.Results) == 1 {
			if ue, ok := ast.Unparen(ret.Results[0]).(*ast.UnaryExpr); ok && ue.Op == token.AND {
				cl, _ = ast.Unparen(ue.X).(*ast.CompositeLit)
			}
		}
		if cl == nil || tv == nil {
			r.Unknown(c, cc.Pos(), "case for *core.%s does not end in `return &T{...}` with a bound switch variable", name)
			continue
		}
		if got := namedPath(info.TypeOf(cl)); got != c11AnnPath+"."+name {
			r.Bad(c, ret.Pos(), "*core.%s is mapped to %s, not to the same-named documented type annotate.%s", name, got, name)
			continue
		}
		srcST, _ := nt.Underlying().(*types.Struct)
		_, dstST := structType(apk, name)
		if srcST == nil || dstST == nil {
			r.Unknown(c, ret.Pos(), "error types are not structs")
			continue
		}
		srcField := func(n string) *types.Var {
			for i := 0; i < srcST.NumFields(); i++ {
				if srcST.Field(i).Name() == n {
					return srcST.Field(i)
				}
			}
			return nil
		}
		used := map[string]bool{}
		var bad []string
		for _, e := range cl.Elts {
			kv, ok := e.(*ast.KeyValueExpr)
			if !ok {
				bad = append(bad, "unkeyed literal")
				break
			}
			kf, _ := info.Uses[kv.Key.(*ast.Ident)].(*types.Var)
			if kf == nil {
				bad = append(bad, "unresolved key")
				continue
			}
			from := c11DirectField(info, kv.Value, tv)
			want := ""
			if sf := srcField(kf.Name()); sf != nil {
				want = sf.Name()
			} else {
				// corresponding field: the only source field of the same type that has no same-named destination
				n := 0
				for i := 0; i < srcST.NumFields(); i++ {
					sf := srcST.Field(i)
					same := false
					for j := 0; j < dstST.NumFields(); j++ {
						if dstST.Field(j).Name() == sf.Name() {
							same = true
						}
					}
					if !same && types.Identical(sf.Type(), kf.Type()) {
						want = sf.Name()
						n++
					}
				}
				if n != 1 {
					want = ""
				}
			}
			if want == "" {
				continue // destination-only field (not derivable from the core error)
			}
			if from != want {
				bad = append(bad, "`"+src(r.P.Fset, kv)+"`: "+name+"."+kf.Name()+" must come from "+tv.Name()+"."+want)
				continue
			}
			used[from] = true
		}
		for i := 0; i < srcST.NumFields(); i++ {
			if !used[srcST.Field(i).Name()] {
				bad = append(bad, "core."+name+"."+srcST.Field(i).Name()+" is not carried over")
			}
		}
		if len(bad) > 0 {
			r.Bad(c, ret.Pos(), "%s; the public error would not identify the child/time the internal error reports", strings.Join(bad, "; "))
		} else {
			var fs []string
			for f := range used {
				fs = append(fs, f)
			}
			sort.Strings(fs)
			r.OK(c, ret.Pos(), "case *core.%s returns &annotate.%s with {%s} carried over from the corresponding fields", name, name, strings.Join(fs, ","))
		}
	}
	// other errors pass through unchanged
	c := "passthrough@" + g
	list := fi.Decl.Body.List
	okPass := false
	if len(list) > 0 {
		if ret, ok := list[len(list)-1].(*ast.ReturnStmt); ok && len(ret.Results) == 1 && objOf(info, ret.Results[0]) == param {
			okPass = true
		}
	}
	if ts != nil {
		for _, s := range ts.Body.List {
			if cl := s.(*ast.CaseClause); cl.List == nil {
				okPass = false
				if len(cl.Body) == 1 {
					if ret, ok := cl.Body[0].(*ast.ReturnStmt); ok && len(ret.Results) == 1 && objOf(info, ret.Results[0]) == param {
						okPass = true
					}
				}
			}
		}
	}
	r.Check(okPass, c, fi.Decl.Pos(), "errors that are not core error types (datasource errors, the untyped inconsistency error) are returned unchanged",
		g+" does not end in `return "+param.Name()+"`: datasource errors would not propagate unchanged")
}

func c11A2Options(r *core.R) {
	apk := r.P.Pkg("annotate")
	if apk == nil {
		return
	}
	info := apk.TypesInfo
	found := map[string]bool{}
	for _, fi := range allFuncs(apk) {
		sig := fi.Obj.Type().(*types.Signature)
		if sig.Recv() != nil || !fi.Obj.Exported() || sig.Results().Len() != 1 || namedPath(sig.Results().At(0).Type()) != c11AnnPath+".Option" {
			continue
		}
		name := fi.Obj.Name()
		found[name] = true
		c := "option@" + name
		var lit *ast.FuncLit
		if len(fi.Decl.Body.List) == 1 {
			if ret, ok := fi.Decl.Body.List[0].(*ast.ReturnStmt); ok && len(ret.Results) == 1 {
				lit, _ = ast.Unparen(ret.Results[0]).(*ast.FuncLit)
			}
		}
		if lit == nil || sig.Params().Len() != 1 || len(lit.Type.Params.List) != 1 || len(lit.Type.Params.List[0].Names) != 1 {
			r.Unknown(c, fi.Decl.Pos(), "option constructor is not of the form `func %s(v T) Option { return func(o *core.Options) error { o.%s = v; return nil } }`", name, name)
			continue
		}
		arg := sig.Params().At(0)
		o := info.Defs[lit.Type.Params.List[0].Names[0]]
		type set struct {
			field string
			rhs   ast.Expr
			stmt  *ast.AssignStmt
		}
		var sets []set
		ast.Inspect(lit.Body, func(n ast.Node) bool {
			as, ok := n.(*ast.AssignStmt)
			if !ok {
				return true
			}
			for i, l := range as.Lhs {
				if f := c11DirectField(info, l, o); f != "" && i < len(as.Rhs) {
					sets = append(sets, set{f, as.Rhs[i], as})
				}
			}
			return true
		})
		switch {
		case len(sets) != 1:
			r.Bad(c, fi.Decl.Pos(), "option %s assigns %d fields of core.Options; it must set exactly the field %s", name, len(sets), name)
		case sets[0].field != name:
			r.Bad(c, sets[0].stmt.Pos(), "`%s`: the public option %s sets core.Options.%s instead of the same-named field, so the documented %s behaviour is not switched by it", src(r.P.Fset, sets[0].stmt), name, sets[0].field, name)
		case sets[0].stmt.Tok != token.ASSIGN || objOf(info, sets[0].rhs) != arg:
			r.Bad(c, sets[0].stmt.Pos(), "`%s`: core.Options.%s must receive the option's argument %s", src(r.P.Fset, sets[0].stmt), name, arg.Name())
		default:
			r.OK(c, sets[0].stmt.Pos(), "sets core.Options.%s (and nothing else) from its argument", name)
		}
	}
	for _, name := range []string{"ChildFilter", "IgnoreInconsistency", "IgnoreMissingChildren", "Threshold"} {
		if !found[name] {
			r.Bad("option@"+name, token.NoPos, "package annotate has no exported option constructor %s returning Option: the documented option cannot be set", name)
		}
	}
}

// ---------------------------------------------------------------------------
// A3 copy agreement
// ---------------------------------------------------------------------------

func c11A3(r *core.R) {
	c11A3SetChild(r)
	c11A3Update(r)
	c11A3From(r)
}

// c11ParentImpls lists the named types of package annotate whose pointer implements core.Parent.
func c11ParentImpls(p *core.Program) []*types.Named {
	apk, cpk := p.Pkg("annotate"), p.Pkg("annotate/internal/core")
	if apk == nil || cpk == nil {
		return nil
	}
	po := cpk.Types.Scope().Lookup("Parent")
	if po == nil {
		return nil
	}
	iface, ok := po.Type().Underlying().(*types.Interface)
	if !ok {
		return nil
	}
	var out []*types.Named
	for _, nm := range apk.Types.Scope().Names() {
		tn, ok := apk.Types.Scope().Lookup(nm).(*types.TypeName)
		if !ok || tn.IsAlias() {
			continue
		}
		nt, ok := tn.Type().(*types.Named)
		if !ok {
			continue
		}
		if _, isIface := nt.Underlying().(*types.Interface); isIface {
			continue
		}
		if types.Implements(types.NewPointer(nt), iface) {
			out = append(out, nt)
		}
	}
	return out
}

func c11StructField(st *types.Struct, name string) *types.Var {
	if st == nil {
		return nil
	}
	for i := 0; i < st.NumFields(); i++ {
		if st.Field(i).Name() == name {
			return st.Field(i)
		}
	}
	return nil
}

func c11RecvObj(info *types.Info, fd *ast.FuncDecl) types.Object {
	if fd.Recv == nil || len(fd.Recv.List) != 1 || len(fd.Recv.List[0].Names) != 1 {
		return nil
	}
	return info.Defs[fd.Recv.List[0].Names[0]]
}

func c11A3SetChild(r *core.R) {
	apk := r.P.Pkg("annotate")
	_, childST := structType(r.P.Pkg("annotate/shared"), "Child")
	impls := c11ParentImpls(r.P)
	if apk == nil || childST == nil || len(impls) == 0 {
		r.Anchor("types of package annotate implementing core.Parent / shared.Child")
		return
	}
	info := apk.TypesInfo
	for _, nt := range impls {
		fi := findFunc(apk, nt.Obj().Name()+".SetChild")
		if fi == nil || fi.Decl.Body == nil {
			r.Anchor(nt.Obj().Name() + ".SetChild")
			continue
		}
		name := fi.Name()
		sig := fi.Obj.Type().(*types.Signature)
		recv := c11RecvObj(info, fi.Decl)
		if sig.Params().Len() != 2 || recv == nil {
			r.Anchor(name + " (idx int, child *shared.Child) with a named receiver")
			continue
		}
		idx, child := sig.Params().At(0), sig.Params().At(1)
		fl := c11NewFlow(r.P, info, fi.Decl.Body)
		c := "copy@" + name
		got := map[string]bool{}
		var bad, unknown []string
		var elemST *types.Struct
		inspectNoLit(fi.Decl.Body, func(n ast.Node) bool {
			as, ok := n.(*ast.AssignStmt)
			if !ok {
				return true
			}
			for i, l := range as.Lhs {
				f := fieldOf(info, l)
				if f == nil {
					continue
				}
				sel := ast.Unparen(l).(*ast.SelectorExpr)
				tp := namedPath(info.TypeOf(sel.X))
				if tp != core.ModulePath+".WayNode" && tp != core.ModulePath+".Member" {
					continue
				}
				if st, ok := info.TypeOf(sel.X).Underlying().(*types.Struct); ok {
					elemST = st
				} else if pt, ok := info.TypeOf(sel.X).Underlying().(*types.Pointer); ok {
					elemST, _ = pt.Elem().Underlying().(*types.Struct)
				}
				ix, isIx := ast.Unparen(sel.X).(*ast.IndexExpr)
				if !isIx || objOf(info, ix.Index) != idx || rootObj(info, ix.X) != recv {
					unknown = append(unknown, "`"+src(r.P.Fset, as)+"`")
					continue
				}
				from := ""
				if as.Tok == token.ASSIGN && i < len(as.Rhs) {
					from = c11DirectField(info, as.Rhs[i], child)
				}
				if from != f.Name() {
					bad = append(bad, "`"+src(r.P.Fset, as)+"`: child field "+f.Name()+" must be copied from "+child.Name()+"."+f.Name())
					continue
				}
				if got[f.Name()] {
					bad = append(bad, "field "+f.Name()+" assigned twice")
				}
				got[f.Name()] = true
			}
			return true
		})
		var want, have []string
		if elemST != nil {
			for i := 0; i < elemST.NumFields(); i++ {
				f := elemST.Field(i)
				if cf := c11StructField(childST, f.Name()); cf != nil && types.Identical(cf.Type(), f.Type()) {
					want = append(want, f.Name())
				}
			}
		}
		for k := range got {
			have = append(have, k)
		}
		sort.Strings(want)
		sort.Strings(have)
		switch {
		case len(unknown) > 0:
			r.Unknown(c, fi.Decl.Pos(), "%s writes a child reference that is not of the form <receiver's member list>[%s].F; accepted idiom: `recv.X.List[%s].F = %s.F`", strings.Join(unknown, ", "), idx.Name(), idx.Name(), child.Name())
		case len(bad) > 0:
			r.Bad(c, fi.Decl.Pos(), "%s: the annotated reference would not carry the version/changeset/location of the child current at the parent's commit", strings.Join(bad, "; "))
		case elemST == nil:
			r.Bad(c, fi.Decl.Pos(), "%s assigns no field of an osm.WayNode / osm.Member: the child reference is never annotated", name)
		case strings.Join(want, ",") != strings.Join(have, ","):
			r.Bad(c, fi.Decl.Pos(), "assigns {%s} of the child reference; shared.Child carries {%s} for it", strings.Join(have, ","), strings.Join(want, ","))
		default:
			r.OK(c, fi.Decl.Pos(), "assigns exactly {%s} of <children>[%s], each from the same-named field of %s", strings.Join(have, ","), idx.Name(), child.Name())
		}
		// child is touched only when non-nil
		c = "nilchild@" + name
		nDeref := 0
		var unguarded []string
		inspectNoLit(fi.Decl.Body, func(n ast.Node) bool {
			var x ast.Expr
			switch e := n.(type) {
			case *ast.SelectorExpr:
				x = e.X
			case *ast.StarExpr:
				x = e.X
			default:
				return true
			}
			if objOf(info, x) != child {
				return true
			}
			nDeref++
			if c11NilFact(info, fl.facts(n.Pos()), c11IsObj(info, child)) != -1 {
				unguarded = append(unguarded, "`"+src(r.P.Fset, n)+"` ("+r.P.Rel(n.Pos())+")")
			}
			return true
		})
		switch {
		case len(unguarded) > 0:
			r.Bad(c, fi.Decl.Pos(), "%s evaluated where %s may be nil: Compute passes a nil child when no visible version exists and IgnoreInconsistency is set, which must leave the reference untouched instead of panicking", strings.Join(unguarded, ", "), child.Name())
		case nDeref == 0:
			r.OKTrivial(c, fi.Decl.Pos(), "%s is never dereferenced", child.Name())
		default:
			r.OK(c, fi.Decl.Pos(), "all %d uses of %s.<field> are reachable only when %s != nil", nDeref, child.Name(), child.Name())
		}
	}
}

// c11IsCommitInfoStart reports whether e denotes the package-level variable osm.CommitInfoStart.
func c11IsCommitInfoStart(info *types.Info, e ast.Expr) bool {
	var id *ast.Ident
	switch x := ast.Unparen(e).(type) {
	case *ast.Ident:
		id = x
	case *ast.SelectorExpr:
		id = x.Sel
	default:
		return false
	}
	v, ok := info.Uses[id].(*types.Var)
	return ok && v.Pkg() != nil && v.Pkg().Path() == core.ModulePath && v.Name() == "CommitInfoStart" && v.Parent() == v.Pkg().Scope()
}

// c11StampRoles analyses the function that chooses an update's timestamp: returns the parameter indices
// playing the roles (element timestamp, commit time).
func c11StampRoles(r *core.R, spk *packages.Package, fn *types.Func) (tsIdx, commIdx int, ok bool) {
	info := spk.TypesInfo
	c := "stamp@" + fn.Name()
	fi := findFunc(spk, fn.Name())
	sig := fn.Type().(*types.Signature)
	if fi == nil || fi.Decl.Body == nil || sig.Params().Len() != 2 || namedPath(sig.Params().At(0).Type()) != "time.Time" || namedPath(sig.Params().At(1).Type()) != "time.Time" {
		r.Unknown(c, token.NoPos, "the function stamping updates is not a two-parameter (time.Time, time.Time) function of package shared")
		return 0, 0, false
	}
	params := []types.Object{sig.Params().At(0), sig.Params().At(1)}
	tsIdx = -1
	inspectNoLit(fi.Decl.Body, func(n ast.Node) bool {
		call, isCall := n.(*ast.CallExpr)
		if !isCall || len(call.Args) != 1 || !c11IsCommitInfoStart(info, call.Args[0]) {
			return true
		}
		for i, p := range params {
			if c11MethodCallOn(info, call, "time.Time", "Before", p) != nil {
				tsIdx = i
			}
		}
		return true
	})
	if tsIdx < 0 {
		r.Unknown(c, fi.Decl.Pos(), "%s has no `<param>.Before(osm.CommitInfoStart)` test: cannot tell which parameter is the element timestamp", fn.Name())
		return 0, 0, false
	}
	commIdx = 1 - tsIdx
	ts, comm := params[tsIdx], params[commIdx]
	fl := c11NewFlow(r.P, info, fi.Decl.Body)
	isBefore := func(e ast.Expr) bool {
		call := c11MethodCallOn(info, e, "time.Time", "Before", ts)
		return call != nil && len(call.Args) == 1 && c11IsCommitInfoStart(info, call.Args[0])
	}
	isZero := func(e ast.Expr) bool { return c11MethodCallOn(info, e, "time.Time", "IsZero", comm) != nil }
	nTS, nComm := 0, 0
	var bad []string
	inspectNoLit(fi.Decl.Body, func(n ast.Node) bool {
		ret, isRet := n.(*ast.ReturnStmt)
		if !isRet || len(ret.Results) != 1 {
			return true
		}
		switch objOf(info, ret.Results[0]) {
		case ts:
			nTS++
		case comm:
			nComm++
			facts := fl.facts(ret.Pos())
			if c11BoolFact(facts, isBefore) != -1 {
				bad = append(bad, "`"+src(r.P.Fset, ret)+"` is reachable when "+ts.Name()+" is before CommitInfoStart (no commit information existed then)")
			}
			if c11BoolFact(facts, isZero) != -1 {
				bad = append(bad, "`"+src(r.P.Fset, ret)+"` is reachable without `!"+comm.Name()+".IsZero()`: children without commit information would stamp their updates with the zero time")
			}
		default:
			bad = append(bad, "`"+src(r.P.Fset, ret)+"` returns neither parameter")
		}
		return true
	})
	if nTS == 0 {
		bad = append(bad, "never returns the element timestamp")
	}
	if nComm == 0 {
		bad = append(bad, "never returns the commit time: updates must be stamped with their commit time when it is known")
	}
	if len(bad) > 0 {
		r.Bad(c, fi.Decl.Pos(), "%s", strings.Join(bad, "; "))
		return tsIdx, commIdx, true
	}
	r.OK(c, fi.Decl.Pos(), "returns parameter %s (commit time) only when !%s.Before(osm.CommitInfoStart) && !%s.IsZero(), otherwise parameter %s (element timestamp)", comm.Name(), ts.Name(), comm.Name(), ts.Name())
	return tsIdx, commIdx, true
}

func c11A3Update(r *core.R) {
	spk := r.P.Pkg("annotate/shared")
	fi := findFunc(spk, "(*Child).Update")
	if fi == nil || fi.Decl.Body == nil {
		r.Anchor("shared.(*Child).Update")
		return
	}
	info := spk.TypesInfo
	name := fi.Name()
	recv := c11RecvObj(info, fi.Decl)
	var lit *ast.CompositeLit
	inspectNoLit(fi.Decl.Body, func(n ast.Node) bool {
		ret, ok := n.(*ast.ReturnStmt)
		if !ok || len(ret.Results) != 1 {
			return true
		}
		if cl, ok := ast.Unparen(ret.Results[0]).(*ast.CompositeLit); ok && namedPath(info.TypeOf(cl)) == core.ModulePath+".Update" {
			lit = cl
		}
		return true
	})
	if lit == nil || recv == nil {
		r.Unknown("update@"+name, fi.Decl.Pos(), "accepted idiom: `return osm.Update{Field: c.Field, ...}` with a named receiver")
		return
	}
	got := map[string]ast.Expr{}
	for _, e := range lit.Elts {
		kv, ok := e.(*ast.KeyValueExpr)
		if !ok {
			r.Unknown("update@"+name, lit.Pos(), "unkeyed osm.Update literal")
			return
		}
		got[kv.Key.(*ast.Ident).Name] = kv.Value
	}
	want := map[string]string{"Version": "Version", "ChangesetID": "ChangesetID", "Lat": "Lat", "Lon": "Lon", "Reverse": "ReverseOfPrevious"}
	for _, k := range []string{"ChangesetID", "Lat", "Lon", "Reverse", "Version"} {
		c := "update@" + name + " " + k
		v, ok := got[k]
		switch {
		case !ok:
			r.Bad(c, lit.Pos(), "Update() does not set %s: every update would carry the zero %s instead of the child version's", k, k)
		case c11DirectField(info, v, recv) != want[k]:
			r.Bad(c, v.Pos(), "`%s: %s`: Update.%s must be the child's %s; applying the update would give the reference a wrong %s", k, src(r.P.Fset, v), k, want[k], k)
		default:
			r.OK(c, v.Pos(), "Update.%s = %s.%s", k, recv.Name(), want[k])
		}
	}
	c := "update@" + name + " Timestamp"
	v, ok := got["Timestamp"]
	if !ok {
		r.Bad(c, lit.Pos(), "Update() does not set Timestamp: ApplyUpdatesUpTo(t) could not place the update in time")
		return
	}
	call, _ := ast.Unparen(v).(*ast.CallExpr)
	var fn *types.Func
	if call != nil {
		fn = callee(info, call)
	}
	if fn == nil || fn.Pkg() == nil || fn.Pkg().Path() != c11SharedPath || fn.Type().(*types.Signature).Recv() != nil || len(call.Args) != 2 {
		r.Bad(c, v.Pos(), "`Timestamp: %s` is not computed by the (timestamp, committed) choice function: updates must be stamped with the child's commit time when it is known and with its timestamp otherwise", src(r.P.Fset, v))
		return
	}
	tsIdx, commIdx, ok := c11StampRoles(r, spk, fn)
	if !ok {
		r.Unknown(c, v.Pos(), "roles of the parameters of %s not identified", fn.Name())
		return
	}
	a, b := c11DirectField(info, call.Args[tsIdx], recv), c11DirectField(info, call.Args[commIdx], recv)
	if a == "Timestamp" && b == "Committed" {
		r.OK(c, v.Pos(), "Update.Timestamp = %s(%s) with %s.Timestamp in the timestamp role and %s.Committed in the commit-time role", fn.Name(), src(r.P.Fset, call.Args[0])+", "+src(r.P.Fset, call.Args[1]), recv.Name(), recv.Name())
	} else {
		r.Bad(c, v.Pos(), "`%s`: the timestamp role (parameter %d) must receive %s.Timestamp and the commit-time role (parameter %d) %s.Committed; otherwise updates are stamped with the edit time although the commit time is known (or vice versa)", src(r.P.Fset, call), tsIdx, recv.Name(), commIdx, recv.Name())
	}
}

type c11Src struct {
	kind    string // field | deref | method | param | other
	name    string
	pos     token.Pos
	guarded bool
	text    string
}

func c11A3From(r *core.R) {
	spk := r.P.Pkg("annotate/shared")
	childNT, childST := structType(spk, "Child")
	if childST == nil {
		r.Anchor("shared.Child")
		return
	}
	info := spk.TypesInfo
	for _, fname := range []string{"FromNode", "FromWay", "FromRelation"} {
		fi := findFunc(spk, fname)
		if fi == nil || fi.Decl.Body == nil {
			r.Anchor("shared." + fname)
			continue
		}
		sig := fi.Obj.Type().(*types.Signature)
		if sig.Params().Len() != 1 {
			r.Anchor("single parameter of shared." + fname)
			continue
		}
		p := sig.Params().At(0)
		pt, _ := p.Type().(*types.Pointer)
		var srcNT *types.Named
		if pt != nil {
			srcNT, _ = pt.Elem().(*types.Named)
		}
		var srcST *types.Struct
		if srcNT != nil {
			srcST, _ = srcNT.Underlying().(*types.Struct)
		}
		if srcST == nil {
			r.Anchor("parameter of shared." + fname + " pointing to an osm element struct")
			continue
		}
		fl := c11NewFlow(r.P, info, fi.Decl.Body)
		classify := func(e ast.Expr) c11Src {
			e = ast.Unparen(e)
			s := c11Src{kind: "other", pos: e.Pos(), text: src(r.P.Fset, e)}
			if st, ok := e.(*ast.StarExpr); ok {
				if f := c11DirectField(info, st.X, p); f != "" {
					s.kind, s.name = "deref", f
				}
				return s
			}
			if f := c11DirectField(info, e, p); f != "" {
				s.kind, s.name = "field", f
				return s
			}
			if call, ok := e.(*ast.CallExpr); ok && len(call.Args) == 0 {
				if sel, ok := ast.Unparen(call.Fun).(*ast.SelectorExpr); ok && objOf(info, sel.X) == p {
					if fn := callee(info, call); fn != nil {
						s.kind, s.name = "method", fn.Name()
					}
				}
				return s
			}
			if objOf(info, e) == p {
				s.kind = "param"
			}
			return s
		}
		set := map[string][]c11Src{}
		inspectNoLit(fi.Decl.Body, func(n ast.Node) bool {
			switch x := n.(type) {
			case *ast.CompositeLit:
				if namedPath(info.TypeOf(x)) != c11SharedPath+".Child" {
					return true
				}
				for _, e := range x.Elts {
					if kv, ok := e.(*ast.KeyValueExpr); ok {
						if id, ok := kv.Key.(*ast.Ident); ok {
							set[id.Name] = append(set[id.Name], classify(kv.Value))
						}
					} else {
						set["?"] = append(set["?"], c11Src{kind: "other", pos: e.Pos(), text: "unkeyed element"})
					}
				}
			case *ast.AssignStmt:
				for i, l := range x.Lhs {
					f := fieldOf(info, l)
					if f == nil || i >= len(x.Rhs) || namedPath(info.TypeOf(ast.Unparen(l).(*ast.SelectorExpr).X)) != c11SharedPath+".Child" {
						continue
					}
					s := classify(x.Rhs[i])
					s.pos = x.Pos()
					if s.kind == "deref" {
						nm := s.name
						s.guarded = c11NilFact(info, fl.facts(x.Pos()), func(e ast.Expr) bool { return c11DirectField(info, e, p) == nm }) == -1
					}
					set[f.Name()] = append(set[f.Name()], s)
				}
			}
			return true
		})
		if len(set["?"]) > 0 {
			r.Unknown("from@"+fname, fi.Decl.Pos(), "unkeyed shared.Child literal")
			continue
		}
		ms := types.NewMethodSet(p.Type())
		for i := 0; i < childST.NumFields(); i++ {
			cf := childST.Field(i)
			k := cf.Name()
			sf := c11StructField(srcST, k)
			wantKind, wantName := "", ""
			switch {
			case sf != nil && types.Identical(sf.Type(), cf.Type()):
				wantKind, wantName = "field", k
			case sf != nil && types.Identical(sf.Type(), types.NewPointer(cf.Type())):
				wantKind, wantName = "deref", k
			case types.Identical(cf.Type(), types.NewPointer(srcNT)):
				wantKind = "param"
			default:
				if cnt, ok := cf.Type().(*types.Named); ok {
					if m := ms.Lookup(cnt.Obj().Pkg(), cnt.Obj().Name()); m != nil {
						if msig, ok := m.Type().(*types.Signature); ok && msig.Params().Len() == 0 && msig.Results().Len() == 1 && types.Identical(msig.Results().At(0).Type(), cf.Type()) {
							wantKind, wantName = "method", cnt.Obj().Name()
						}
					}
				}
			}
			srcs := set[k]
			if wantKind == "" {
				// no counterpart in the source element: must not be wired to one of its fields
				for _, s := range srcs {
					if s.kind == "field" || s.kind == "deref" {
						r.Bad("from@"+fname+" "+k, s.pos, "Child.%s has no counterpart in %s but is set from `%s`", k, srcNT.Obj().Name(), s.text)
					}
				}
				continue
			}
			c := "from@" + fname + " " + k
			wantText := map[string]string{"field": p.Name() + "." + wantName, "deref": "*" + p.Name() + "." + wantName + " under `" + p.Name() + "." + wantName + " != nil`", "param": p.Name(), "method": p.Name() + "." + wantName + "()"}[wantKind]
			switch {
			case len(srcs) == 0:
				r.Bad(c, fi.Decl.Pos(), "%s does not set Child.%s (must be %s): child versions built from %s histories lose their %s, which Compute / FindVisible / Update rely on", fname, k, wantText, srcNT.Obj().Name(), k)
			case len(srcs) > 1:
				r.Unknown(c, srcs[1].pos, "Child.%s is set %d times", k, len(srcs))
			case srcs[0].kind != wantKind || srcs[0].name != wantName:
				r.Bad(c, srcs[0].pos, "`%s: %s`: Child.%s must be %s (no cross-wiring)", k, srcs[0].text, k, wantText)
			case wantKind == "deref" && !srcs[0].guarded:
				r.Bad(c, srcs[0].pos, "`%s` is evaluated where %s.%s may be nil (elements without commit information)", srcs[0].text, p.Name(), k)
			default:
				r.OK(c, srcs[0].pos, "Child.%s = %s", k, wantText)
			}
		}
		_ = childNT
	}
}

// ---------------------------------------------------------------------------
// A4 child lists are version-sorted before indexing
// ---------------------------------------------------------------------------

func c11A4(r *core.R) {
	apk := r.P.Pkg("annotate")
	if apk == nil {
		r.Anchor("package annotate")
		return
	}
	var convs []*FuncInfo
	srcTypes := map[string]*types.Named{}
	for _, fi := range allFuncs(apk) {
		sig := fi.Obj.Type().(*types.Signature)
		if sig.Recv() != nil || sig.Params().Len() != 1 || sig.Results().Len() != 1 || namedPath(sig.Results().At(0).Type()) != c11CorePath+".ChildList" {
			continue
		}
		nt, ok := sig.Params().At(0).Type().(*types.Named)
		if !ok || nt.Obj().Pkg() == nil || nt.Obj().Pkg().Path() != core.ModulePath {
			continue
		}
		if _, ok := nt.Underlying().(*types.Slice); !ok {
			continue
		}
		convs = append(convs, fi)
		srcTypes[nt.Obj().Name()] = nt
	}
	if len(convs) == 0 {
		r.Anchor("functions of package annotate converting osm.Nodes/Ways/Relations to core.ChildList")
		return
	}
	conv := map[*types.Func]bool{}
	for _, fi := range convs {
		conv[fi.Obj] = true
		c11A4Conv(r, apk, fi)
	}
	c11A4Gets(r, apk, conv)
	var names []string
	for n := range srcTypes {
		names = append(names, n)
	}
	sort.Strings(names)
	for _, n := range names {
		c11A4Order(r, n)
	}
}

// c11NonZero reports whether the facts imply v != 0.
func c11NonZero(info *types.Info, facts []c11Atom, v types.Object) bool {
	for _, a := range facts {
		be, ok := ast.Unparen(a.e).(*ast.BinaryExpr)
		if !ok {
			continue
		}
		x, y, op := be.X, be.Y, be.Op
		if c11IsConstInt(info, x, 0) {
			x, y = y, x
			switch op {
			case token.LSS:
				op = token.GTR
			case token.GTR:
				op = token.LSS
			}
		}
		if objOf(info, x) != v || !c11IsConstInt(info, y, 0) {
			continue
		}
		if (op == token.NEQ && a.val) || (op == token.EQL && !a.val) || (op == token.GTR && a.val) || (op == token.LEQ && !a.val) {
			return true
		}
	}
	return false
}

func c11IsTopLevel(body *ast.BlockStmt, s ast.Stmt) bool {
	for _, x := range body.List {
		if x == s {
			return true
		}
	}
	return false
}

func c11A4Conv(r *core.R, apk *packages.Package, fi *FuncInfo) {
	info := apk.TypesInfo
	name := fi.Name()
	x := fi.Obj.Type().(*types.Signature).Params().At(0)
	fl := c11NewFlow(r.P, info, fi.Decl.Body)
	const consequence = "VersionIndex i would not be the position of the i-th lowest version, so Compute's window child[k] (k from VersionIndex+1 up to the next parent's version) would skip or repeat child versions"

	var sortCall *ast.CallExpr
	var rs *ast.RangeStmt
	var vidx *ast.AssignStmt
	inspectNoLit(fi.Decl.Body, func(n ast.Node) bool {
		switch s := n.(type) {
		case *ast.ExprStmt:
			if call, ok := s.X.(*ast.CallExpr); ok {
				if c11MethodCallOn(info, call, namedPath(x.Type()), "SortByIDVersion", x) != nil {
					sortCall = call
				}
			}
		case *ast.RangeStmt:
			if objOf(info, s.X) != x {
				return true
			}
			ast.Inspect(s.Body, func(m ast.Node) bool {
				as, ok := m.(*ast.AssignStmt)
				if !ok || len(as.Lhs) != 1 || len(as.Rhs) != 1 {
					return true
				}
				if f := fieldOf(info, as.Lhs[0]); f != nil && f.Name() == "VersionIndex" && namedPath(info.TypeOf(ast.Unparen(as.Lhs[0]).(*ast.SelectorExpr).X)) == c11SharedPath+".Child" {
					rs, vidx = s, as
				}
				return true
			})
		}
		return true
	})
	c := "sorted@" + name
	if rs == nil {
		r.Bad(c, fi.Decl.Pos(), "no loop over %s assigns VersionIndex: %s", x.Name(), consequence)
		r.Bad("index@"+name, fi.Decl.Pos(), "no loop over %s assigns VersionIndex", x.Name())
		return
	}
	var loopHead *cfg.Block
	for _, b := range fl.g.Blocks {
		if b.Kind == cfg.KindRangeLoop && b.Stmt == rs {
			loopHead = b
		}
	}
	switch {
	case sortCall == nil:
		r.Bad(c, rs.Pos(), "%s is not sorted with SortByIDVersion before the loop that assigns VersionIndex: a datasource may return the history in any order; %s", x.Name(), consequence)
	case loopHead == nil:
		r.Unknown(c, rs.Pos(), "range loop not found in the control-flow graph")
	default:
		sb, _ := blockOf(fl.g, sortCall.Pos())
		if sb == nil || !(fl.dom[loopHead][sb] && sb != loopHead) {
			r.Bad(c, sortCall.Pos(), "`%s` does not dominate the loop that assigns VersionIndex (it runs after it, inside it, or only on some paths): %s", src(r.P.Fset, sortCall), consequence)
		} else if fl.nAssign(x) != 0 {
			r.Bad(c, sortCall.Pos(), "%s is reassigned in %s, so the sorted slice need not be the one the loop ranges over", x.Name(), name)
		} else {
			r.OK(c, sortCall.Pos(), "`%s` dominates the head of `for ... range %s`; %s is never reassigned", src(r.P.Fset, sortCall), x.Name(), x.Name())
		}
	}

	// index agreement
	c = "index@" + name
	key, val := types.Object(nil), types.Object(nil)
	if rs.Key != nil {
		key = objOf(info, rs.Key)
	}
	if rs.Value != nil {
		val = objOf(info, rs.Value)
	}
	cObj := objOf(info, ast.Unparen(vidx.Lhs[0]).(*ast.SelectorExpr).X)
	var bad []string
	if key == nil || val == nil || cObj == nil {
		r.Unknown(c, rs.Pos(), "accepted idiom: `for i, e := range %s { c := shared.FromX(e); c.VersionIndex = i; list[i] = c }`", x.Name())
		return
	}
	if objOf(info, vidx.Rhs[0]) != key || vidx.Tok != token.ASSIGN {
		bad = append(bad, "`"+src(r.P.Fset, vidx)+"`: VersionIndex must be the loop index "+key.Name()+" (Compute indexes child[VersionIndex+1...])")
	}
	var defC, store *ast.AssignStmt
	var listObj types.Object
	skips := false
	ast.Inspect(rs.Body, func(m ast.Node) bool {
		switch s := m.(type) {
		case *ast.FuncLit:
			return false
		case *ast.BranchStmt, *ast.ReturnStmt:
			skips = true
		case *ast.AssignStmt:
			if len(s.Lhs) != 1 || len(s.Rhs) != 1 {
				return true
			}
			if objOf(info, s.Lhs[0]) == cObj {
				if call, ok := ast.Unparen(s.Rhs[0]).(*ast.CallExpr); ok && len(call.Args) == 1 && objOf(info, call.Args[0]) == val {
					if fn := callee(info, call); fn != nil && fn.Pkg() != nil && fn.Pkg().Path() == c11SharedPath && fn.Exported() && strings.HasPrefix(fn.Name(), "From") {
						defC = s
					}
				}
			}
			if ix, ok := ast.Unparen(s.Lhs[0]).(*ast.IndexExpr); ok && namedPath(info.TypeOf(ix.X)) == c11CorePath+".ChildList" && objOf(info, s.Rhs[0]) == cObj {
				store = s
				if objOf(info, ix.Index) != key {
					bad = append(bad, "`"+src(r.P.Fset, s)+"`: the child with VersionIndex "+key.Name()+" must be stored at list index "+key.Name())
				}
				listObj = objOf(info, ix.X)
			}
		}
		return true
	})
	if defC == nil || fl.nDirect(cObj) != 1 {
		bad = append(bad, cObj.Name()+" is not (only) `shared.FromX("+val.Name()+")` of the loop element")
	}
	if store == nil || listObj == nil {
		bad = append(bad, "the child is not stored into a core.ChildList at the loop index")
	}
	if skips {
		bad = append(bad, "the loop body contains continue/break/return: some versions would be skipped and later list slots left nil")
	}
	if !c11IsTopLevel(rs.Body, vidx) || (store != nil && !c11IsTopLevel(rs.Body, store)) {
		bad = append(bad, "VersionIndex assignment or list store is conditional")
	}
	if listObj != nil {
		okMake, okRet := false, false
		inspectNoLit(fi.Decl.Body, func(m ast.Node) bool {
			switch s := m.(type) {
			case *ast.AssignStmt:
				if len(s.Lhs) == 1 && len(s.Rhs) == 1 && objOf(info, s.Lhs[0]) == listObj {
					if call, ok := ast.Unparen(s.Rhs[0]).(*ast.CallExpr); ok && builtinName(info, call) == "make" && len(call.Args) == 2 {
						if la := lenCallArg(info, call.Args[1]); la != nil && objOf(info, la) == x {
							okMake = true
						}
					}
				}
			case *ast.ReturnStmt:
				if len(s.Results) == 1 && objOf(info, s.Results[0]) == listObj {
					if tb, _ := blockOf(fl.g, s.Pos()); tb != nil {
						for _, b := range fl.g.Blocks {
							if b.Kind == cfg.KindRangeDone && b.Stmt == rs && (b == tb || fl.dom[tb][b]) {
								okRet = true
							}
						}
					}
				}
			}
			return true
		})
		if !okMake || fl.nAssign(listObj) != 2 { // make + the indexed store (root object)
			bad = append(bad, listObj.Name()+" is not exactly `make(core.ChildList, len("+x.Name()+"))` filled by the loop")
		}
		if !okRet {
			bad = append(bad, listObj.Name()+" is not returned after the loop")
		}
	}
	if len(bad) > 0 {
		r.Bad(c, vidx.Pos(), "%s; ChildList index and VersionIndex would disagree, which Compute relies on when it indexes child[k] from c.VersionIndex+1", strings.Join(bad, "; "))
	} else {
		r.OK(c, vidx.Pos(), "for %s, %s := range %s: %s := shared.From…(%s); %s.VersionIndex = %s; %s[%s] = %s unconditionally, no element skipped, %s returned after the loop", key.Name(), val.Name(), x.Name(), cObj.Name(), val.Name(), cObj.Name(), key.Name(), listObj.Name(), key.Name(), cObj.Name(), listObj.Name())
	}

	// reversal against the previous version (ways only)
	elemIsWay := false
	if sl, ok := x.Type().Underlying().(*types.Slice); ok && namedPath(sl.Elem()) == core.ModulePath+".Way" {
		elemIsWay = true
	}
	if !elemIsWay {
		return
	}
	c = "reverse@" + name
	var rev *ast.AssignStmt
	ast.Inspect(rs.Body, func(m ast.Node) bool {
		if as, ok := m.(*ast.AssignStmt); ok && len(as.Lhs) == 1 && len(as.Rhs) == 1 && c11DirectField(info, as.Lhs[0], cObj) == "ReverseOfPrevious" {
			rev = as
		}
		return true
	})
	if rev == nil {
		r.Bad(c, rs.Pos(), "ReverseOfPrevious is never computed for way children: updates of way members lose their Reverse flag")
		return
	}
	call, _ := ast.Unparen(rev.Rhs[0]).(*ast.CallExpr)
	okArgs := false
	if call != nil && isPkgFunc(callee(info, call), c11AnnPath, "IsReverse") && len(call.Args) == 2 {
		isCur := func(e ast.Expr) bool { return objOf(info, e) == val }
		isPrev := func(e ast.Expr) bool {
			ix, ok := ast.Unparen(e).(*ast.IndexExpr)
			if !ok || objOf(info, ix.X) != x {
				return false
			}
			be, ok := ast.Unparen(ix.Index).(*ast.BinaryExpr)
			return ok && be.Op == token.SUB && objOf(info, be.X) == key && c11IsConstInt(info, be.Y, 1)
		}
		okArgs = (isCur(call.Args[0]) && isPrev(call.Args[1])) || (isPrev(call.Args[0]) && isCur(call.Args[1]))
	}
	switch {
	case !okArgs:
		r.Bad(c, rev.Pos(), "`%s`: ReverseOfPrevious must be IsReverse(%s, %s[%s-1]), the comparison with the previous version in the sorted history", src(r.P.Fset, rev), val.Name(), x.Name(), key.Name())
	case !c11NonZero(info, fl.facts(rev.Pos()), key):
		r.Bad(c, rev.Pos(), "`%s` is reachable with %s == 0: %s[%s-1] indexes before the first version", src(r.P.Fset, rev), key.Name(), x.Name(), key.Name())
	default:
		r.OK(c, rev.Pos(), "ReverseOfPrevious = IsReverse(%s, %s[%s-1]) only when %s != 0", val.Name(), x.Name(), key.Name(), key.Name())
	}
}

// c11A4Gets: every ChildList a Datasourcer.Get of package annotate returns comes from a sorting
// conversion or directly from the user's AsChildren datasource.
func c11A4Gets(r *core.R, apk *packages.Package, conv map[*types.Func]bool) {
	info := apk.TypesInfo
	cpk := r.P.Pkg("annotate/internal/core")
	var iface *types.Interface
	if cpk != nil {
		if o := cpk.Types.Scope().Lookup("Datasourcer"); o != nil {
			iface, _ = o.Type().Underlying().(*types.Interface)
		}
	}
	if iface == nil {
		r.Anchor("core.Datasourcer")
		return
	}
	n := 0
	for _, fi := range allFuncs(apk) {
		sig := fi.Obj.Type().(*types.Signature)
		if sig.Recv() == nil || fi.Obj.Name() != "Get" || !types.Implements(sig.Recv().Type(), iface) {
			continue
		}
		n++
		c := "get@" + fi.Name()
		var via, user []string
		var bad []string
		inspectNoLit(fi.Decl.Body, func(m ast.Node) bool {
			ret, ok := m.(*ast.ReturnStmt)
			if !ok || len(ret.Results) == 0 {
				return true
			}
			var e ast.Expr = ret.Results[0]
			if c11IsNilIdent(info, e) {
				return true
			}
			call, ok := ast.Unparen(e).(*ast.CallExpr)
			if !ok {
				bad = append(bad, "`"+src(r.P.Fset, ret)+"`")
				return true
			}
			fn := callee(info, call)
			switch {
			case fn != nil && conv[fn]:
				via = append(via, fn.Name())
			case fn != nil && fn.Type().(*types.Signature).Recv() != nil && types.IsInterface(fn.Type().(*types.Signature).Recv().Type()):
				user = append(user, fn.Name())
			default:
				bad = append(bad, "`"+src(r.P.Fset, ret)+"`")
			}
			return true
		})
		switch {
		case len(bad) > 0:
			r.Unknown(c, fi.Decl.Pos(), "%s returns a child list that is neither a sorting conversion nor the user's AsChildren result: %s", fi.Name(), strings.Join(bad, ", "))
		case len(via) > 0:
			r.OK(c, fi.Decl.Pos(), "every returned list comes from %s", strings.Join(via, ", "))
		default:
			r.OKTrivial(c, fi.Decl.Pos(), "returns the user datasource's %s unchanged (trusted: version-sorted, VersionIndex == position)", strings.Join(user, ", "))
		}
	}
	if n == 0 {
		r.Anchor("Get methods of package annotate implementing core.Datasourcer")
	}
}

// c11A4Order: the comparator behind osm.<T>.SortByIDVersion orders equal ids by ascending Version.
func c11A4Order(r *core.R, tname string) {
	pk := r.P.Pkg("")
	info := pk.TypesInfo
	c := "order@" + tname + ".SortByIDVersion"
	sfi := findFunc(pk, tname+".SortByIDVersion")
	if sfi == nil {
		r.Anchor("osm." + tname + ".SortByIDVersion")
		return
	}
	ad := sortAdapter(pk, sfi)
	if ad == nil {
		r.Anchor("sort.Sort(adapter) in osm." + tname + ".SortByIDVersion")
		return
	}
	lf := findFunc(pk, ad.Obj().Name()+".Less")
	if lf == nil || lf.Decl.Body == nil {
		r.Anchor(ad.Obj().Name() + ".Less")
		return
	}
	recv := c11RecvObj(info, lf.Decl)
	sig := lf.Obj.Type().(*types.Signature)
	if recv == nil || sig.Params().Len() != 2 {
		r.Unknown(c, lf.Decl.Pos(), "Less without named receiver / two parameters")
		return
	}
	pi, pj := sig.Params().At(0), sig.Params().At(1)
	side := func(e ast.Expr) (string, string) {
		f := fieldOf(info, e)
		if f == nil {
			return "", ""
		}
		ix, ok := ast.Unparen(ast.Unparen(e).(*ast.SelectorExpr).X).(*ast.IndexExpr)
		if !ok || objOf(info, ix.X) != recv {
			return "", ""
		}
		switch objOf(info, ix.Index) {
		case pi:
			return "i", f.Name()
		case pj:
			return "j", f.Name()
		}
		return "", ""
	}
	// less: field, strict ascending (i before j)
	less := func(e ast.Expr) (string, bool) {
		be, ok := ast.Unparen(e).(*ast.BinaryExpr)
		if !ok {
			return "", false
		}
		a, b := be.X, be.Y
		switch be.Op {
		case token.LSS:
		case token.GTR:
			a, b = b, a
		default:
			sa, fa := side(be.X)
			_, fb := side(be.Y)
			if sa != "" && fa == fb {
				return fa, false
			}
			return "", false
		}
		sa, fa := side(a)
		sb, fb := side(b)
		if fa == "" || fa != fb || sa == "" || sb == "" || sa == sb {
			return "", false
		}
		return fa, sa == "i"
	}
	list := lf.Decl.Body.List
	// form A: if a.ID == b.ID { return a.Version < b.Version }; return a.ID < b.ID
	if len(list) == 2 {
		ifs, ok1 := list[0].(*ast.IfStmt)
		fin, ok2 := list[1].(*ast.ReturnStmt)
		if ok1 && ok2 && ifs.Init == nil && ifs.Else == nil && len(ifs.Body.List) == 1 && len(fin.Results) == 1 {
			if inner, ok := ifs.Body.List[0].(*ast.ReturnStmt); ok && len(inner.Results) == 1 {
				if be, ok := ast.Unparen(ifs.Cond).(*ast.BinaryExpr); ok && be.Op == token.EQL {
					sa, fa := side(be.X)
					sb, fb := side(be.Y)
					if fa == "ID" && fb == "ID" && sa != sb && sa != "" && sb != "" {
						vf, vasc := less(inner.Results[0])
						idf, idasc := less(fin.Results[0])
						switch {
						case vf != "Version" || !vasc:
							r.Bad(c, inner.Pos(), "`%s`: versions of one element must be ordered by strictly ascending Version (i-side < j-side); otherwise VersionIndex does not count versions from lowest to highest", src(r.P.Fset, inner))
						case idf != "ID" || !idasc:
							r.Bad(c, fin.Pos(), "`%s`: different ids must be ordered by ascending ID", src(r.P.Fset, fin))
						default:
							r.OK(c, lf.Decl.Pos(), "%s.Less: equal ID -> strictly ascending Version; otherwise ascending ID", ad.Obj().Name())
						}
						return
					}
				}
			}
		}
	}
	// form B: lexicographic chain
	if chain, perr := parseLessChain(info, lf.Decl); perr == "" && len(chain) == 2 {
		okc := chain[0].field == "ID" && chain[1].field == "Version"
		for _, st := range chain {
			okc = okc && st.strict && st.asc && st.tieOK
		}
		if okc {
			r.OK(c, lf.Decl.Pos(), "%s.Less: lexicographic chain ID, Version (strict, ascending)", ad.Obj().Name())
		} else {
			r.Bad(c, lf.Decl.Pos(), "%s.Less does not order by ascending ID then strictly ascending Version", ad.Obj().Name())
		}
		return
	}
	r.Unknown(c, lf.Decl.Pos(), "comparator shape not recognised; accepted: `if a.ID == b.ID { return a.Version < b.Version }; return a.ID < b.ID` or the chain form `if a.ID != b.ID { return a.ID < b.ID }; return a.Version < b.Version`")
}

// ---------------------------------------------------------------------------
// A5 update window and per-parent grouping
// ---------------------------------------------------------------------------

// c11Locs holds what the location-map builder (the callee of Compute's outer range) establishes:
// which field of the location struct is the parent index and which the position within the parent.
type c11Locs struct {
	parentField, indexField *types.Var
}

// c11A5MapLocs analyses the function `func(parents []Parent, filter func(FeatureID) bool) map[FeatureID]locs`.
func c11A5MapLocs(r *core.R, cpk *packages.Package, fn *types.Func) *c11Locs {
	info := cpk.TypesInfo
	fi := findFunc(cpk, fn.Name())
	c := "loc@" + fn.Name()
	if fi == nil || fi.Decl.Body == nil {
		r.Anchor("declaration of core." + fn.Name())
		return nil
	}
	sig := fn.Type().(*types.Signature)
	var ps, filt types.Object
	for i := 0; i < sig.Params().Len(); i++ {
		p := sig.Params().At(i)
		if sl, ok := p.Type().(*types.Slice); ok && namedPath(sl.Elem()) == c11CorePath+".Parent" {
			ps = p
		}
		if _, ok := p.Type().Underlying().(*types.Signature); ok {
			filt = p
		}
	}
	var outer, inner *ast.RangeStmt
	var iObj, pObj, jObj, fidObj, refsObj, annObj types.Object
	inspectNoLit(fi.Decl.Body, func(n ast.Node) bool {
		switch s := n.(type) {
		case *ast.RangeStmt:
			if ps != nil && objOf(info, s.X) == ps && s.Key != nil && s.Value != nil {
				outer = s
				iObj, pObj = objOf(info, s.Key), objOf(info, s.Value)
			}
			if refsObj != nil && objOf(info, s.X) == refsObj && s.Key != nil && s.Value != nil {
				inner = s
				jObj, fidObj = objOf(info, s.Key), objOf(info, s.Value)
			}
		case *ast.AssignStmt:
			if len(s.Lhs) == 2 && len(s.Rhs) == 1 && pObj != nil && c11MethodCallOn(info, s.Rhs[0], c11CorePath+".Parent", "Refs", pObj) != nil {
				refsObj, annObj = objOf(info, s.Lhs[0]), objOf(info, s.Lhs[1])
			}
		}
		return true
	})
	if outer == nil || inner == nil || iObj == nil || jObj == nil || fidObj == nil {
		r.Unknown(c, fi.Decl.Pos(), "accepted idiom: `for i, p := range parents { refs, annotated := p.Refs(); for j, fid := range refs { ...; m[fid] = append(m[fid], loc{<parent>: i, <index>: j}) } }`")
		return nil
	}
	res := &c11Locs{}
	var lit *ast.CompositeLit
	var store *ast.AssignStmt
	ast.Inspect(inner.Body, func(n ast.Node) bool {
		as, ok := n.(*ast.AssignStmt)
		if !ok {
			return true
		}
		call := c11AppendTo(info, as)
		if call == nil || len(call.Args) != 2 {
			return true
		}
		cl, ok := ast.Unparen(call.Args[1]).(*ast.CompositeLit)
		if !ok {
			return true
		}
		lit, store = cl, as
		return true
	})
	if lit == nil {
		r.Unknown(c, inner.Pos(), "no `m[fid] = append(m[fid], loc{...})` in the loop over the parent's refs")
		return nil
	}
	var bad []string
	if ix, ok := ast.Unparen(store.Lhs[0]).(*ast.IndexExpr); !ok || objOf(info, ix.Index) != fidObj {
		bad = append(bad, "the location is not stored under the ref's feature id "+fidObj.Name())
	}
	for _, e := range lit.Elts {
		kv, ok := e.(*ast.KeyValueExpr)
		if !ok {
			bad = append(bad, "unkeyed location literal")
			continue
		}
		kf, _ := info.Uses[kv.Key.(*ast.Ident)].(*types.Var)
		switch objOf(info, kv.Value) {
		case iObj:
			res.parentField = kf
		case jObj:
			res.indexField = kf
		}
	}
	if res.parentField == nil || res.indexField == nil || res.parentField == res.indexField {
		bad = append(bad, "the location literal `"+src(r.P.Fset, lit)+"` does not record both the parent index "+iObj.Name()+" and the ref position "+jObj.Name())
	}
	if len(bad) > 0 {
		r.Bad(c, lit.Pos(), "%s", strings.Join(bad, "; "))
	} else {
		r.OK(c, lit.Pos(), "location{%s: %s (index into parents), %s: %s (position in p.Refs())} stored under %s", res.parentField.Name(), iObj.Name(), res.indexField.Name(), jObj.Name(), fidObj.Name())
	}

	// skipping a child: only when already annotated and rejected by the filter
	c = "filter@" + fn.Name()
	fl := c11NewFlow(r.P, info, fi.Decl.Body)
	par := parentsOf(r.P, fi)
	nSkip := 0
	var fbad []string
	ast.Inspect(inner.Body, func(n ast.Node) bool {
		var pos token.Pos
		var st ast.Stmt
		switch s := n.(type) {
		case *ast.BranchStmt:
			pos, st = s.Pos(), s
		case *ast.ReturnStmt:
			pos, st = s.Pos(), s
		default:
			return true
		}
		nSkip++
		facts := fl.factsAtStmt(par, st)
		isAnn := func(e ast.Expr) bool {
			ix, ok := ast.Unparen(e).(*ast.IndexExpr)
			return ok && annObj != nil && objOf(info, ix.X) == annObj && objOf(info, ix.Index) == jObj
		}
		isFilt := func(e ast.Expr) bool {
			call, ok := ast.Unparen(e).(*ast.CallExpr)
			return ok && filt != nil && objOf(info, call.Fun) == filt && len(call.Args) == 1 && objOf(info, call.Args[0]) == fidObj
		}
		if c11BoolFact(facts, isAnn) != +1 {
			fbad = append(fbad, "the skip at "+r.P.Rel(pos)+" is reachable for a child that is not yet annotated (no `annotated["+jObj.Name()+"]` on its path): unannotated children must always be annotated, whatever the ChildFilter says")
		} else if c11BoolFact(facts, isFilt) != -1 {
			fbad = append(fbad, "the skip at "+r.P.Rel(pos)+" does not depend on the filter rejecting "+fidObj.Name())
		}
		return true
	})
	switch {
	case len(fbad) > 0:
		r.Bad(c, inner.Pos(), "%s", strings.Join(fbad, "; "))
	case nSkip == 0:
		r.OKTrivial(c, inner.Pos(), "no child is ever skipped")
	default:
		r.OK(c, inner.Pos(), "a ref is skipped only when annotated[%s] && !filter(%s) (%d skip site(s))", jObj.Name(), fidObj.Name(), nSkip)
	}
	if res.parentField == nil || res.indexField == nil {
		return nil
	}
	return res
}

// c11FieldOfIndexed recognises `<R>[<idx>].<field>`; returns the index expression.
func c11FieldOfIndexed(info *types.Info, e ast.Expr, recv types.Object, field *types.Var) ast.Expr {
	f := fieldOf(info, e)
	if f == nil || f != field {
		return nil
	}
	ix, ok := ast.Unparen(ast.Unparen(e).(*ast.SelectorExpr).X).(*ast.IndexExpr)
	if !ok || objOf(info, ix.X) != recv {
		return nil
	}
	return ix.Index
}

// c11A5Group checks the grouping method (callee of Compute's per-parent range): it yields maximal
// runs of equal parent index, in order, covering the receiver.
func c11A5Group(r *core.R, cpk *packages.Package, fn *types.Func, locs *c11Locs) {
	info := cpk.TypesInfo
	c := "group@" + funcName(fn)
	fi := findFunc(cpk, funcName(fn))
	if fi == nil || fi.Decl.Body == nil {
		r.Anchor("declaration of core." + funcName(fn))
		return
	}
	recv := c11RecvObj(info, fi.Decl)
	if recv == nil {
		r.Unknown(c, fi.Decl.Pos(), "unnamed receiver")
		return
	}
	const idiom = "accepted idiom: `for len(L) > 0 { p := L[0].Parent; end := 0; for end < len(L) && L[end].Parent == p { end++ }; result = append(result, L[:end]); L = L[end:] }; return result`"
	fl := c11NewFlow(r.P, info, fi.Decl.Body)
	var inner *ast.ForStmt
	var endObj, pv types.Object
	inspectNoLit(fi.Decl.Body, func(n ast.Node) bool {
		fs, ok := n.(*ast.ForStmt)
		if !ok || fs.Cond == nil {
			return true
		}
		var e, p types.Object
		lt := false
		for _, a := range c11Decompose(fs.Cond, true, fs.Cond) {
			be, ok := ast.Unparen(a.e).(*ast.BinaryExpr)
			if !ok || !a.val {
				continue
			}
			switch be.Op {
			case token.EQL:
				x, y := be.X, be.Y
				if c11FieldOfIndexed(info, x, recv, locs.parentField) == nil {
					x, y = y, x
				}
				if ix := c11FieldOfIndexed(info, x, recv, locs.parentField); ix != nil {
					e, p = objOf(info, ix), objOf(info, y)
				}
			case token.LSS:
				if la := lenCallArg(info, be.Y); la != nil && objOf(info, la) == recv {
					if o := objOf(info, be.X); o != nil {
						lt = true
						if e == nil {
							e = o
						} else if e != o {
							lt = false
						}
					}
				}
			}
		}
		if e != nil && p != nil && lt {
			inner, endObj, pv = fs, e, p
		}
		return true
	})
	if inner == nil {
		r.Unknown(c, fi.Decl.Pos(), "no loop advancing `end` while `end < len(%s) && %s[end].%s == p`: runs of equal parent index are not delimited; %s", recv.Name(), recv.Name(), locs.parentField.Name(), idiom)
		return
	}
	var miss []string
	// p := L[0].Parent ; end := 0 ; end++ only
	okP, okEnd0, okInc := false, false, false
	var app, adv *ast.AssignStmt
	var resObj types.Object
	inspectNoLit(fi.Decl.Body, func(n ast.Node) bool {
		switch s := n.(type) {
		case *ast.AssignStmt:
			if len(s.Lhs) != 1 || len(s.Rhs) != 1 {
				return true
			}
			switch objOf(info, s.Lhs[0]) {
			case pv:
				if ix := c11FieldOfIndexed(info, s.Rhs[0], recv, locs.parentField); ix != nil && c11IsConstInt(info, ix, 0) {
					okP = true
				}
			case endObj:
				if c11IsConstInt(info, s.Rhs[0], 0) {
					okEnd0 = true
				}
			case recv:
				if se, ok := ast.Unparen(s.Rhs[0]).(*ast.SliceExpr); ok && objOf(info, se.X) == recv && se.High == nil && se.Low != nil && objOf(info, se.Low) == endObj {
					adv = s
				}
			}
			if call := c11AppendTo(info, s); call != nil && len(call.Args) == 2 {
				if se, ok := ast.Unparen(call.Args[1]).(*ast.SliceExpr); ok && objOf(info, se.X) == recv && se.Low == nil && se.High != nil && objOf(info, se.High) == endObj {
					app = s
					resObj = objOf(info, s.Lhs[0])
				}
			}
		case *ast.IncDecStmt:
			if objOf(info, s.X) == endObj && s.Tok == token.INC && inner.Pos() <= s.Pos() && s.End() <= inner.End() {
				okInc = true
			}
		}
		return true
	})
	if !okP || fl.nAssign(pv) != 1 {
		miss = append(miss, pv.Name()+" is not (only) `"+recv.Name()+"[0]."+locs.parentField.Name()+"`")
	}
	if !okEnd0 || !okInc || fl.nAssign(endObj) != 2 {
		miss = append(miss, endObj.Name()+" is not `:= 0` advanced only by `++` in the run loop")
	}
	if app == nil {
		miss = append(miss, "no `result = append(result, "+recv.Name()+"[:"+endObj.Name()+"])`")
	}
	if adv == nil || fl.nAssign(recv) != 1 {
		miss = append(miss, "no single `"+recv.Name()+" = "+recv.Name()+"["+endObj.Name()+":]`")
	}
	if app != nil && adv != nil {
		var done *cfg.Block
		for _, b := range fl.g.Blocks {
			if b.Kind == cfg.KindForDone && b.Stmt == inner {
				done = b
			}
		}
		ab, _ := blockOf(fl.g, app.Pos())
		vb, _ := blockOf(fl.g, adv.Pos())
		if done == nil || ab == nil || vb == nil || !(ab == done || fl.dom[ab][done]) || !(vb == done || fl.dom[vb][done]) || !posDominates(fl.g, fl.dom, app.Pos(), adv.Pos()) {
			miss = append(miss, "the run is not appended and then cut off after the run loop has finished")
		}
		outerOK := false
		for p := parentsOf(r.P, fi)[ast.Node(inner)]; p != nil; p = parentsOf(r.P, fi)[p] {
			if fs, ok := p.(*ast.ForStmt); ok && fs.Cond != nil && fs.Init == nil && fs.Post == nil {
				if be, ok := ast.Unparen(fs.Cond).(*ast.BinaryExpr); ok {
					la, other, op := lenCallArg(info, be.X), be.Y, be.Op
					if la == nil {
						la, other = lenCallArg(info, be.Y), be.X
						if op == token.LSS {
							op = token.GTR
						}
					}
					if la != nil && objOf(info, la) == recv && c11IsConstInt(info, other, 0) && (op == token.GTR || op == token.NEQ) {
						outerOK = true
					}
				}
			}
		}
		if !outerOK {
			miss = append(miss, "no enclosing `for len("+recv.Name()+") > 0`")
		}
		okRet := false
		inspectNoLit(fi.Decl.Body, func(n ast.Node) bool {
			if ret, ok := n.(*ast.ReturnStmt); ok && len(ret.Results) == 1 && objOf(info, ret.Results[0]) == resObj {
				okRet = true
			}
			return true
		})
		if !okRet {
			miss = append(miss, "the list of runs is not returned")
		}
	}
	if len(miss) > 0 {
		r.Unknown(c, inner.Pos(), "%s; cannot show that every group has one parent index (Compute uses group[0].%s for the whole group); %s", strings.Join(miss, "; "), locs.parentField.Name(), idiom)
		return
	}
	r.OK(c, inner.Pos(), "each group is %s[:%s] with %s advanced while %s[%s].%s == %s[0].%s, then cut off: groups are runs of one parent index, in order, covering the list", recv.Name(), endObj.Name(), endObj.Name(), recv.Name(), endObj.Name(), locs.parentField.Name(), recv.Name(), locs.parentField.Name())
}

// c11FieldPath returns the field objects selected from root to e (`w.Way.Nodes` -> [Way Nodes]) and the root object.
func c11FieldPath(info *types.Info, e ast.Expr) ([]*types.Var, types.Object) {
	var path []*types.Var
	for {
		switch x := ast.Unparen(e).(type) {
		case *ast.SelectorExpr:
			f := fieldOf(info, x)
			if f == nil {
				return nil, nil
			}
			path = append([]*types.Var{f}, path...)
			e = x.X
		case *ast.Ident:
			return path, objOf(info, x)
		default:
			return nil, nil
		}
	}
}

// c11A5Refs: Refs() and SetChild of every Parent implementation index the same member list.
func c11A5Refs(r *core.R) {
	apk := r.P.Pkg("annotate")
	impls := c11ParentImpls(r.P)
	if apk == nil || len(impls) == 0 {
		r.Anchor("types of package annotate implementing core.Parent")
		return
	}
	info := apk.TypesInfo
	for _, nt := range impls {
		tn := nt.Obj().Name()
		rf, sf := findFunc(apk, tn+".Refs"), findFunc(apk, tn+".SetChild")
		if rf == nil || sf == nil || rf.Decl.Body == nil || sf.Decl.Body == nil {
			r.Anchor(tn + ".Refs / SetChild")
			continue
		}
		c := "refs@" + rf.Name()
		// container SetChild writes into
		var setPath []*types.Var
		sRecv := c11RecvObj(info, sf.Decl)
		inspectNoLit(sf.Decl.Body, func(n ast.Node) bool {
			as, ok := n.(*ast.AssignStmt)
			if !ok {
				return true
			}
			for _, l := range as.Lhs {
				if f := fieldOf(info, l); f != nil {
					if ix, ok := ast.Unparen(ast.Unparen(l).(*ast.SelectorExpr).X).(*ast.IndexExpr); ok {
						if p, root := c11FieldPath(info, ix.X); p != nil && root == sRecv && setPath == nil {
							setPath = p
						}
					}
				}
			}
			return true
		})
		rRecv := c11RecvObj(info, rf.Decl)
		var ids, ann types.Object
		inspectNoLit(rf.Decl.Body, func(n ast.Node) bool {
			if ret, ok := n.(*ast.ReturnStmt); ok && len(ret.Results) == 2 {
				ids, ann = objOf(info, ret.Results[0]), objOf(info, ret.Results[1])
			}
			return true
		})
		if setPath == nil || ids == nil || ann == nil || rRecv == nil {
			r.Unknown(c, rf.Decl.Pos(), "accepted idiom: Refs fills `ids[i] = <members>[i].FeatureID()`, `annotated[i] = <members>[i].Version != 0` and returns them; SetChild writes `<members>[idx].F`")
			continue
		}
		samePath := func(e ast.Expr) bool {
			p, root := c11FieldPath(info, e)
			if root != rRecv || len(p) != len(setPath) {
				return false
			}
			for i := range p {
				if p[i] != setPath[i] {
					return false
				}
			}
			return true
		}
		okIDs, okAnn, okRange, okLen := false, false, false, 0
		inspectNoLit(rf.Decl.Body, func(n ast.Node) bool {
			switch s := n.(type) {
			case *ast.RangeStmt:
				if samePath(s.X) && s.Key != nil {
					key := objOf(info, s.Key)
					okRange = true
					ast.Inspect(s.Body, func(m ast.Node) bool {
						as, ok := m.(*ast.AssignStmt)
						if !ok || len(as.Lhs) != 1 || len(as.Rhs) != 1 {
							return true
						}
						lx, ok := ast.Unparen(as.Lhs[0]).(*ast.IndexExpr)
						if !ok || objOf(info, lx.Index) != key {
							return true
						}
						elem := func(e ast.Expr) bool {
							ix, ok := ast.Unparen(e).(*ast.IndexExpr)
							return ok && samePath(ix.X) && objOf(info, ix.Index) == key
						}
						switch objOf(info, lx.X) {
						case ids:
							if call, ok := ast.Unparen(as.Rhs[0]).(*ast.CallExpr); ok && len(call.Args) == 0 {
								if sel, ok := ast.Unparen(call.Fun).(*ast.SelectorExpr); ok && elem(sel.X) {
									if fn := callee(info, call); fn != nil && fn.Name() == "FeatureID" {
										okIDs = true
									}
								}
							}
						case ann:
							if be, ok := ast.Unparen(as.Rhs[0]).(*ast.BinaryExpr); ok && be.Op == token.NEQ && c11IsConstInt(info, be.Y, 0) {
								if f := fieldOf(info, be.X); f != nil && f.Name() == "Version" && elem(ast.Unparen(be.X).(*ast.SelectorExpr).X) {
									okAnn = true
								}
							}
						}
						return true
					})
				}
			case *ast.AssignStmt:
				if len(s.Lhs) == 1 && len(s.Rhs) == 1 && (objOf(info, s.Lhs[0]) == ids || objOf(info, s.Lhs[0]) == ann) {
					if call, ok := ast.Unparen(s.Rhs[0]).(*ast.CallExpr); ok && builtinName(info, call) == "make" && len(call.Args) == 2 {
						if la := lenCallArg(info, call.Args[1]); la != nil && samePath(la) {
							okLen++
						}
					}
				}
			}
			return true
		})
		var pn []string
		for _, f := range setPath {
			pn = append(pn, f.Name())
		}
		path := strings.Join(pn, ".")
		switch {
		case !okRange || okLen != 2:
			r.Bad(c, rf.Decl.Pos(), "Refs does not build its two result slices with len(<receiver>.%s) and fill them in a loop over <receiver>.%s, the list SetChild indexes: positions reported to Compute and positions annotated would differ", path, path)
		case !okIDs:
			r.Bad(c, rf.Decl.Pos(), "ids[i] is not <receiver>.%s[i].FeatureID(): the history fetched for position i would belong to another child than the one SetChild(i, …) annotates", path)
		case !okAnn:
			r.Bad(c, rf.Decl.Pos(), "annotated[i] is not `<receiver>.%s[i].Version != 0`: the ChildFilter could suppress the annotation of a child that has none yet", path)
		default:
			r.OK(c, rf.Decl.Pos(), "ids[i] = %s[i].FeatureID(), annotated[i] = %s[i].Version != 0 over the whole list; SetChild writes %s[idx]: same list, same positions", path, path, path)
		}
	}
}

func c11A5(r *core.R) {
	c11A5Refs(r)
	cx := c11Ctx(r)
	if cx == nil {
		return
	}
	info := cx.info
	body := cx.fi.Decl.Body
	pvars := cx.parentVars()

	// ---- the loops: for fid, locations := range M(parents, filter) { for _, locs := range locations.G() { ... } }
	var outerRS, groupRS *ast.RangeStmt
	var mcFn, gbFn *types.Func
	var locations, locsObj types.Object
	inspectNoLit(body, func(n ast.Node) bool {
		rs, ok := n.(*ast.RangeStmt)
		if !ok {
			return true
		}
		call, ok := ast.Unparen(rs.X).(*ast.CallExpr)
		if !ok {
			return true
		}
		fn := callee(info, call)
		if fn == nil || fn.Pkg() == nil || fn.Pkg().Path() != c11CorePath {
			return true
		}
		if _, isMap := info.TypeOf(rs.X).Underlying().(*types.Map); isMap && rs.Key != nil && rs.Value != nil && objOf(info, rs.Key) == cx.fid && len(call.Args) >= 1 && objOf(info, call.Args[0]) == cx.parents {
			outerRS, mcFn, locations = rs, fn, objOf(info, rs.Value)
			// the filter handed over is the option
			okFilter := false
			for _, a := range call.Args[1:] {
				if c11DirectField(info, a, cx.opts) == "ChildFilter" {
					okFilter = true
				}
			}
			if !okFilter {
				r.Bad("filter@Compute", call.Pos(), "`%s` does not pass opts.ChildFilter: the ChildFilter option has no effect", src(r.P.Fset, call))
			}
		}
		if sel, ok := ast.Unparen(call.Fun).(*ast.SelectorExpr); ok && locations != nil && objOf(info, sel.X) == locations && rs.Value != nil && len(call.Args) == 0 {
			groupRS, gbFn, locsObj = rs, fn, objOf(info, rs.Value)
		}
		return true
	})
	if outerRS == nil || groupRS == nil || locsObj == nil {
		r.Anchor("`for fid, locations := range <locmap>(parents, opts.ChildFilter) { for _, locs := range locations.<group>() {...} }` in core.Compute")
		return
	}
	locs := c11A5MapLocs(r, cx.pk, mcFn)
	if locs == nil {
		return
	}
	c11A5Group(r, cx.pk, gbFn, locs)
	inGroupBody := func(o types.Object) bool {
		return o != nil && groupRS.Body.Pos() <= o.Pos() && o.Pos() <= groupRS.Body.End()
	}

	// ---- the parent the group belongs to
	var parentObj, idxObj types.Object
	for p, i := range pvars {
		if inGroupBody(p) && inGroupBody(i) {
			// I := locs[0].<parentField> ?
			parentObj, idxObj = p, i
		}
	}
	c := "group@Compute parent-index"
	if parentObj == nil {
		r.Unknown(c, groupRS.Pos(), "no `I := locs[0].%s; P := parents[I]` in the per-parent loop", locs.parentField.Name())
		return
	}
	var idxDef *ast.AssignStmt
	inspectNoLit(groupRS.Body, func(n ast.Node) bool {
		if as, ok := n.(*ast.AssignStmt); ok && len(as.Lhs) == 1 && len(as.Rhs) == 1 && objOf(info, as.Lhs[0]) == idxObj {
			idxDef = as
		}
		return true
	})
	switch {
	case idxDef == nil || cx.fl.nAssign(idxObj) != 1 || cx.fl.nAssign(parentObj) != 1:
		r.Unknown(c, groupRS.Pos(), "%s / %s are not single assignments", idxObj.Name(), parentObj.Name())
	default:
		ix := c11FieldOfIndexed(info, idxDef.Rhs[0], locsObj, locs.parentField)
		if ix == nil || !c11IsConstInt(info, ix, 0) {
			r.Bad(c, idxDef.Pos(), "`%s`: the index into parents/results must be %s[0].%s, the parent index the location map recorded for this group (the other field is the position of the child inside the parent)", src(r.P.Fset, idxDef), locsObj.Name(), locs.parentField.Name())
		} else {
			r.OK(c, idxDef.Pos(), "%s := %s[0].%s; %s := parents[%s] (all locations of a group share that parent index)", idxObj.Name(), locsObj.Name(), locs.parentField.Name(), parentObj.Name(), idxObj.Name())
		}
	}

	// ---- current child and SetChild
	c = "current@Compute"
	{
		var bad []string
		fa := cx.findCall.Args
		if len(fa) != 3 {
			bad = append(bad, "FindVisible is not called with (changeset, time, threshold)")
		} else {
			if c11MethodCallOn(info, fa[0], c11CorePath+".Parent", "ChangesetID", parentObj) == nil {
				bad = append(bad, "first argument `"+src(r.P.Fset, fa[0])+"` is not "+parentObj.Name()+".ChangesetID()")
			}
			if !usesObj(info, fa[1], parentObj) {
				bad = append(bad, "the time argument `"+src(r.P.Fset, fa[1])+"` does not derive from "+parentObj.Name())
			}
			if c11DirectField(info, fa[2], cx.opts) != "Threshold" {
				bad = append(bad, "the threshold argument `"+src(r.P.Fset, fa[2])+"` is not opts.Threshold (the Threshold option would have no effect on which child version is taken as current)")
			}
		}
		if cx.fl.nAssign(cx.cur) != 1 {
			bad = append(bad, cx.cur.Name()+" is assigned more than once")
		}
		nSet := 0
		inspectNoLit(groupRS.Body, func(n ast.Node) bool {
			call, ok := n.(*ast.CallExpr)
			if !ok || !isMethod(callee(info, call), c11CorePath+".Parent", "SetChild") || len(call.Args) != 2 {
				return true
			}
			nSet++
			sel, _ := ast.Unparen(call.Fun).(*ast.SelectorExpr)
			if sel == nil || objOf(info, sel.X) != parentObj {
				bad = append(bad, "`"+src(r.P.Fset, call)+"` is not called on "+parentObj.Name())
			}
			if objOf(info, call.Args[1]) != cx.cur {
				bad = append(bad, "`"+src(r.P.Fset, call)+"` does not pass "+cx.cur.Name()+", the child version FindVisible returned for this parent")
			}
			// arg0: cl.<indexField>, cl ranging over locs
			okIdx := false
			if f := fieldOf(info, call.Args[0]); f != nil && f == locs.indexField {
				cl := objOf(info, ast.Unparen(call.Args[0]).(*ast.SelectorExpr).X)
				for p := cx.par[ast.Node(call)]; p != nil && cl != nil; p = cx.par[p] {
					if rs, ok := p.(*ast.RangeStmt); ok && rs.Value != nil && objOf(info, rs.Value) == cl && objOf(info, rs.X) == locsObj {
						okIdx = true
					}
				}
			}
			if !okIdx {
				bad = append(bad, "`"+src(r.P.Fset, call)+"`: the position must be <cl>."+locs.indexField.Name()+" for cl ranging over "+locsObj.Name())
			}
			return true
		})
		if nSet == 0 {
			bad = append(bad, "SetChild is never called in the per-parent loop")
		}
		if len(bad) > 0 {
			r.Bad(c, cx.findCall.Pos(), "%s", strings.Join(bad, "; "))
		} else {
			r.OK(c, cx.findCall.Pos(), "%s := %s.FindVisible(%s.ChangesetID(), <time of %s>, opts.Threshold) is what %s.SetChild(cl.%s, %s) stores at every location of the group", cx.cur.Name(), cx.child.Name(), parentObj.Name(), parentObj.Name(), parentObj.Name(), locs.indexField.Name(), cx.cur.Name())
		}
	}

	// ---- the window loop
	var updCall *ast.CallExpr
	var kObj types.Object
	inspectNoLit(groupRS.Body, func(n ast.Node) bool {
		call, ok := n.(*ast.CallExpr)
		if !ok || !isMethod(callee(info, call), c11SharedPath+".Child", "Update") {
			return true
		}
		if sel, ok := ast.Unparen(call.Fun).(*ast.SelectorExpr); ok {
			if ix, ok := ast.Unparen(sel.X).(*ast.IndexExpr); ok && objOf(info, ix.X) == cx.child {
				updCall, kObj = call, objOf(info, ix.Index)
			}
		}
		return true
	})
	if updCall == nil || kObj == nil {
		r.Anchor("`<child>[k].Update()` on the fetched child list in core.Compute")
		return
	}
	var win *ast.ForStmt
	for p := cx.par[ast.Node(updCall)]; p != nil; p = cx.par[p] {
		if fs, ok := p.(*ast.ForStmt); ok && fs.Init != nil && usesObj(info, fs.Init, kObj) {
			win = fs
			break
		}
	}
	c = "window@Compute loop"
	if win == nil {
		r.Unknown(c, updCall.Pos(), "the loop defining %s was not found; accepted idiom: `for k := start; k < nextVersion; k++`", kObj.Name())
		return
	}
	var startObj, endObj types.Object
	{
		var bad []string
		if as, ok := win.Init.(*ast.AssignStmt); ok && len(as.Lhs) == 1 && len(as.Rhs) == 1 && objOf(info, as.Lhs[0]) == kObj {
			startObj = objOf(info, as.Rhs[0])
		}
		if startObj == nil {
			bad = append(bad, "init `"+src(r.P.Fset, win.Init)+"` is not `"+kObj.Name()+" := <start variable>`")
		}
		if be, ok := ast.Unparen(win.Cond).(*ast.BinaryExpr); ok {
			x, y, op := be.X, be.Y, be.Op
			if op == token.GTR || op == token.GEQ {
				x, y = y, x
				op = map[token.Token]token.Token{token.GTR: token.LSS, token.GEQ: token.LEQ}[op]
			}
			if objOf(info, x) == kObj && objOf(info, y) != nil {
				endObj = objOf(info, y)
				if op != token.LSS {
					bad = append(bad, "condition `"+src(r.P.Fset, win.Cond)+"` is not the strict `"+kObj.Name()+" < <end>`: the child version that belongs to the next parent version would also be emitted as an update of this one")
				}
			}
		}
		if endObj == nil && len(bad) == 0 {
			bad = append(bad, "condition `"+src(r.P.Fset, win.Cond)+"` is not `"+kObj.Name()+" < <end variable>`")
		}
		if inc, ok := win.Post.(*ast.IncDecStmt); !ok || inc.Tok != token.INC || objOf(info, inc.X) != kObj {
			bad = append(bad, "post statement is not `"+kObj.Name()+"++`")
		}
		if cx.fl.nAssign(kObj) != 2 {
			bad = append(bad, kObj.Name()+" is modified inside the loop")
		}
		if len(bad) > 0 {
			r.Bad(c, win.Pos(), "%s", strings.Join(bad, "; "))
		} else {
			r.OK(c, win.Pos(), "for %s := %s; %s < %s; %s++ over %s[%s] (every child version after the current one and before the next parent's, once)", kObj.Name(), startObj.Name(), kObj.Name(), endObj.Name(), kObj.Name(), cx.child.Name(), kObj.Name())
		}
	}

	// ---- start
	if startObj != nil {
		winInit, _ := blockOf(cx.fl.g, win.Init.Pos())
		nStart := 0
		sawCur := false
		inspectNoLit(body, func(n ast.Node) bool {
			var rhs ast.Expr
			var pos token.Pos
			var stmt ast.Node
			isDef := false
			switch s := n.(type) {
			case *ast.AssignStmt:
				for i, l := range s.Lhs {
					if objOf(info, l) == startObj && i < len(s.Rhs) {
						rhs, pos, stmt, isDef = s.Rhs[i], s.Pos(), s, s.Tok == token.DEFINE
					}
				}
			case *ast.DeclStmt:
				if gd, ok := s.Decl.(*ast.GenDecl); ok {
					for _, sp := range gd.Specs {
						if vs, ok := sp.(*ast.ValueSpec); ok {
							for i, nm := range vs.Names {
								if info.Defs[nm] == startObj {
									pos, stmt, isDef = vs.Pos(), s, true
									if i < len(vs.Values) {
										rhs = vs.Values[i]
									}
								}
							}
						}
					}
				}
			}
			if stmt == nil {
				return true
			}
			nStart++
			text := "zero value"
			if rhs != nil {
				text = src(r.P.Fset, rhs)
			}
			cc := "window@Compute start " + text
			facts := cx.fl.facts(pos)
			curNil := c11NilFact(info, facts, c11IsObj(info, cx.cur))
			// the assignment must be settled before the loop starts: the if statement it sits in is complete
			settled := isDef
			if !isDef {
				// outermost if statement (inside the per-parent loop) the assignment sits in
				var top *ast.IfStmt
				for p := cx.par[stmt]; p != nil && p != ast.Node(groupRS.Body); p = cx.par[p] {
					if ifs, ok := p.(*ast.IfStmt); ok {
						top = ifs
					}
				}
				if top == nil {
					sb2, _ := blockOf(cx.fl.g, pos)
					settled = sb2 != nil && winInit != nil && (sb2 == winInit || cx.fl.dom[winInit][sb2])
				} else {
					for _, b := range cx.fl.g.Blocks {
						if b.Kind == cfg.KindIfDone && b.Stmt == top && winInit != nil && (b == winInit || cx.fl.dom[winInit][b]) {
							settled = true
						}
					}
				}
			}
			switch {
			case rhs == nil || c11IsConstInt(info, rhs, 0):
				if isDef || curNil == +1 {
					r.OKTrivial(cc, pos, "window starts at the first known version only as the initial value or when no current child exists (%s == nil)", cx.cur.Name())
				} else {
					r.Bad(cc, pos, "`%s` can execute although a current child version exists: versions at or before the current one would be emitted as updates", src(r.P.Fset, stmt))
				}
			default:
				v := c11FieldPlusOne(info, rhs, "VersionIndex")
				switch {
				case v == nil:
					if f := fieldOf(info, rhs); f != nil && f.Name() == "VersionIndex" {
						r.Bad(cc, pos, "`%s`: the window must start at VersionIndex + 1; starting at the version itself emits the version already annotated on the parent again as an update (and, before an absent child, the version that precedes the parent)", src(r.P.Fset, stmt))
					} else {
						r.Unknown(cc, pos, "`%s`: accepted start values are 0, <current>.VersionIndex + 1, <VersionBefore(...)>.VersionIndex + 1", src(r.P.Fset, stmt))
					}
				case !settled:
					r.Bad(cc, pos, "`%s` is not settled before the window loop starts", src(r.P.Fset, stmt))
				case v == cx.cur:
					sawCur = true
					if curNil == -1 {
						r.OK(cc, pos, "when %s != nil the window starts right after the current version (ChildList index == VersionIndex by A4)", cx.cur.Name())
					} else {
						r.Bad(cc, pos, "`%s` is reachable with %s == nil", src(r.P.Fset, stmt), cx.cur.Name())
					}
				default:
					// v := child.VersionBefore(<time of parent>)
					okDef := false
					inspectNoLit(groupRS.Body, func(m ast.Node) bool {
						if as, ok := m.(*ast.AssignStmt); ok && len(as.Lhs) == 1 && len(as.Rhs) == 1 && objOf(info, as.Lhs[0]) == v {
							if call := c11MethodCallOn(info, as.Rhs[0], c11CorePath+".ChildList", "VersionBefore", cx.child); call != nil && len(call.Args) == 1 && usesObj(info, call.Args[0], parentObj) {
								okDef = true
							}
						}
						return true
					})
					switch {
					case !okDef || cx.fl.nAssign(v) != 1:
						r.Unknown(cc, pos, "%s is not `%s.VersionBefore(<time of %s>)`", v.Name(), cx.child.Name(), parentObj.Name())
					case curNil != +1 || c11NilFact(info, facts, c11IsObj(info, v)) != -1:
						r.Bad(cc, pos, "`%s` must be reachable only when %s == nil and %s != nil", src(r.P.Fset, stmt), cx.cur.Name(), v.Name())
					default:
						r.OK(cc, pos, "when no current child exists the window starts right after the last version before the parent (%s := %s.VersionBefore(...), non-nil)", v.Name(), cx.child.Name())
					}
				}
			}
			return true
		})
		if !sawCur {
			r.Bad("window@Compute start", win.Pos(), "no assignment `%s = %s.VersionIndex + 1`: the window does not start after the current child version", startObj.Name(), cx.cur.Name())
		}
		_ = nStart
	}

	// ---- end
	if endObj != nil {
		c = "window@Compute end"
		var bad []string
		var def *ast.CallExpr
		inspectNoLit(groupRS.Body, func(n ast.Node) bool {
			if as, ok := n.(*ast.AssignStmt); ok && len(as.Lhs) == 1 && len(as.Rhs) == 1 && objOf(info, as.Lhs[0]) == endObj {
				def, _ = ast.Unparen(as.Rhs[0]).(*ast.CallExpr)
			}
			return true
		})
		var npObj types.Object
		if def == nil || cx.fl.nAssign(endObj) != 1 {
			bad = append(bad, endObj.Name()+" is not a single call result computed per parent")
		} else {
			hasCur, hasChild := false, false
			for _, a := range def.Args {
				o := objOf(info, a)
				switch {
				case o == cx.cur:
					hasCur = true
				case o == cx.child:
					hasChild = true
				case o != nil && namedPath(o.Type()) == c11CorePath+".Parent" && o != parentObj:
					npObj = o
				case o == parentObj:
					bad = append(bad, "`"+src(r.P.Fset, def)+"` receives "+parentObj.Name()+" itself as the next parent")
				}
			}
			if !hasCur || !hasChild || npObj == nil {
				bad = append(bad, "`"+src(r.P.Fset, def)+"` does not receive the current child, the child list and the next parent version")
			}
		}
		if npObj != nil {
			if !inGroupBody(npObj) {
				bad = append(bad, npObj.Name()+" is declared outside the per-parent loop: a stale next parent of another group could be used")
			}
			nAsg := 0
			inspectNoLit(groupRS.Body, func(n ast.Node) bool {
				as, ok := n.(*ast.AssignStmt)
				if !ok || len(as.Lhs) != 1 || len(as.Rhs) != 1 || objOf(info, as.Lhs[0]) != npObj {
					return true
				}
				nAsg++
				ix, ok := ast.Unparen(as.Rhs[0]).(*ast.IndexExpr)
				okNext := false
				if ok && objOf(info, ix.X) == cx.parents {
					if be, ok := ast.Unparen(ix.Index).(*ast.BinaryExpr); ok && be.Op == token.ADD && objOf(info, be.X) == idxObj && c11IsConstInt(info, be.Y, 1) {
						okNext = true
					}
				}
				if !okNext {
					bad = append(bad, "`"+src(r.P.Fset, as)+"`: the next parent version must be parents["+idxObj.Name()+"+1]; otherwise the update window does not end at the following version of the parent")
					return true
				}
				// guarded by I < len(parents)-1  or  I+1 < len(parents)
				guard := false
				for _, a := range cx.fl.facts(as.Pos()) {
					be, ok := ast.Unparen(a.e).(*ast.BinaryExpr)
					if !ok || !a.val || be.Op != token.LSS {
						continue
					}
					if objOf(info, be.X) == idxObj {
						if sb, ok := ast.Unparen(be.Y).(*ast.BinaryExpr); ok && sb.Op == token.SUB && c11IsConstInt(info, sb.Y, 1) {
							if la := lenCallArg(info, sb.X); la != nil && objOf(info, la) == cx.parents {
								guard = true
							}
						}
					}
					if ab, ok := ast.Unparen(be.X).(*ast.BinaryExpr); ok && ab.Op == token.ADD && objOf(info, ab.X) == idxObj && c11IsConstInt(info, ab.Y, 1) {
						if la := lenCallArg(info, be.Y); la != nil && objOf(info, la) == cx.parents {
							guard = true
						}
					}
				}
				if !guard {
					bad = append(bad, "`"+src(r.P.Fset, as)+"` is not guarded by `"+idxObj.Name()+" < len(parents)-1`")
				}
				return true
			})
			if nAsg != 1 {
				bad = append(bad, npObj.Name()+" is assigned "+string(rune('0'+nAsg))+" times (expected: nil by declaration, parents["+idxObj.Name()+"+1] when it exists)")
			}
		}
		if len(bad) > 0 {
			r.Bad(c, win.Pos(), "%s", strings.Join(bad, "; "))
		} else {
			r.OK(c, def.Pos(), "%s := %s(%s, %s, %s, …) with %s = parents[%s+1] when it exists, nil (declared per parent) otherwise; the arithmetic inside is NOT decided", endObj.Name(), src(r.P.Fset, def.Fun), cx.cur.Name(), cx.child.Name(), npObj.Name(), npObj.Name(), idxObj.Name())
		}
	}

	// ---- visible versions only; update index; per-parent list; results
	c = "window@Compute visible-only"
	isVis := func(e ast.Expr) bool {
		f := fieldOf(info, e)
		if f == nil || f.Name() != "Visible" {
			return false
		}
		ix, ok := ast.Unparen(ast.Unparen(e).(*ast.SelectorExpr).X).(*ast.IndexExpr)
		return ok && objOf(info, ix.X) == cx.child && objOf(info, ix.Index) == kObj
	}
	if c11BoolFact(cx.fl.facts(updCall.Pos()), isVis) == +1 {
		r.OK(c, updCall.Pos(), "`%s` is reachable only when %s[%s].Visible", src(r.P.Fset, updCall), cx.child.Name(), kObj.Name())
	} else {
		r.Bad(c, updCall.Pos(), "`%s` is reachable for a child version that is not visible: a deleted child version would be applied to the parent as if it had a location", src(r.P.Fset, updCall))
	}

	var uObj, listObj types.Object
	var uDef, uApp *ast.AssignStmt
	if as, ok := cx.par[ast.Node(updCall)].(*ast.AssignStmt); ok && len(as.Lhs) == 1 {
		uObj, uDef = objOf(info, as.Lhs[0]), as
	}
	c = "window@Compute update-index"
	var clRange *ast.RangeStmt
	for p := cx.par[ast.Node(updCall)]; p != nil && p != ast.Node(win); p = cx.par[p] {
		if rs, ok := p.(*ast.RangeStmt); ok && objOf(info, rs.X) == locsObj && rs.Value != nil {
			clRange = rs
		}
	}
	if uObj == nil || clRange == nil {
		r.Unknown(c, updCall.Pos(), "accepted idiom: `for _, cl := range %s { u := %s[%s].Update(); u.Index = cl.%s; updates = append(updates, u) }`", locsObj.Name(), cx.child.Name(), kObj.Name(), locs.indexField.Name())
	} else {
		cl := objOf(info, clRange.Value)
		okIdx := false
		ast.Inspect(clRange.Body, func(n ast.Node) bool {
			as, ok := n.(*ast.AssignStmt)
			if !ok || len(as.Lhs) != 1 || len(as.Rhs) != 1 {
				return true
			}
			if c11DirectField(info, as.Lhs[0], uObj) == "Index" {
				okIdx = false
				if f := fieldOf(info, as.Rhs[0]); f == locs.indexField && c11DirectField(info, as.Rhs[0], cl) != "" && c11IsTopLevel(clRange.Body, as) {
					okIdx = true
				}
			}
			if call := c11AppendTo(info, as); call != nil && len(call.Args) == 2 && objOf(info, call.Args[1]) == uObj {
				uApp, listObj = as, objOf(info, as.Lhs[0])
			}
			return true
		})
		switch {
		case !okIdx:
			r.Bad(c, uDef.Pos(), "the update's Index is not set (unconditionally) from %s.%s: ApplyUpdatesUpTo would change another child than the one whose history produced the update", cl.Name(), locs.indexField.Name())
		case uApp == nil || !c11IsTopLevel(clRange.Body, uApp) || cx.fl.nAssign(uObj) != 2:
			r.Bad(c, uDef.Pos(), "the update built for location %s is not appended exactly as built (`L = append(L, %s)`)", cl.Name(), uObj.Name())
		default:
			r.OK(c, uDef.Pos(), "for every location %s of the group: %s := %s[%s].Update(); %s.Index = %s.%s; %s = append(%s, %s)", cl.Name(), uObj.Name(), cx.child.Name(), kObj.Name(), uObj.Name(), cl.Name(), locs.indexField.Name(), listObj.Name(), listObj.Name(), uObj.Name())
		}
	}

	c = "group@Compute results"
	{
		var bad []string
		var resObj types.Object
		var resApp *ast.AssignStmt
		inspectNoLit(groupRS.Body, func(n ast.Node) bool {
			as, ok := n.(*ast.AssignStmt)
			if !ok {
				return true
			}
			call := c11AppendTo(info, as)
			if call == nil {
				return true
			}
			ix, ok := ast.Unparen(as.Lhs[0]).(*ast.IndexExpr)
			if !ok || namedPath(info.TypeOf(as.Lhs[0])) != core.ModulePath+".Updates" {
				return true
			}
			resApp, resObj = as, objOf(info, ix.X)
			if objOf(info, ix.Index) != idxObj {
				bad = append(bad, "`"+src(r.P.Fset, as)+"` is not indexed by "+idxObj.Name())
			}
			if len(call.Args) != 2 || !call.Ellipsis.IsValid() || listObj == nil || objOf(info, call.Args[1]) != listObj {
				bad = append(bad, "`"+src(r.P.Fset, as)+"` does not append exactly the per-parent update list")
			}
			return true
		})
		if resApp == nil {
			bad = append(bad, "no `results["+idxObj.Name()+"] = append(results["+idxObj.Name()+"], <updates>...)` in the per-parent loop")
		} else {
			if listObj != nil && !inGroupBody(listObj) {
				bad = append(bad, listObj.Name()+" is declared outside the per-parent loop: updates of one parent version would leak into the next")
			}
			if listObj != nil && cx.fl.nAssign(listObj) != 2 {
				bad = append(bad, listObj.Name()+" is modified elsewhere")
			}
			// after the window loop, unconditionally within the group body
			tb, _ := blockOf(cx.fl.g, resApp.Pos())
			okAfter := false
			for _, b := range cx.fl.g.Blocks {
				if b.Kind == cfg.KindForDone && b.Stmt == win && tb != nil && (b == tb || cx.fl.dom[tb][b]) {
					okAfter = true
				}
			}
			if !okAfter || !c11IsTopLevel(groupRS.Body, resApp) {
				bad = append(bad, "`"+src(r.P.Fset, resApp)+"` does not follow the completed window loop unconditionally")
			}
			// results := make([]osm.Updates, len(parents)), returned on success
			okMake, okRet := false, false
			inspectNoLit(body, func(n ast.Node) bool {
				switch s := n.(type) {
				case *ast.AssignStmt:
					if len(s.Lhs) == 1 && len(s.Rhs) == 1 && objOf(info, s.Lhs[0]) == resObj {
						if call, ok := ast.Unparen(s.Rhs[0]).(*ast.CallExpr); ok && builtinName(info, call) == "make" && len(call.Args) == 2 {
							if la := lenCallArg(info, call.Args[1]); la != nil && objOf(info, la) == cx.parents {
								okMake = true
							}
						}
					}
				case *ast.ReturnStmt:
					if len(s.Results) == 2 && objOf(info, s.Results[0]) == resObj && c11IsNilIdent(info, s.Results[1]) {
						okRet = true
					}
				}
				return true
			})
			if !okMake {
				bad = append(bad, resObj.Name()+" is not make([]osm.Updates, len(parents))")
			}
			if !okRet {
				bad = append(bad, resObj.Name()+" is not what the success path returns")
			}
		}
		if len(bad) > 0 {
			r.Bad(c, groupRS.Pos(), "%s: the updates would not end up on the parent version whose locations produced them", strings.Join(bad, "; "))
		} else {
			r.OK(c, resApp.Pos(), "%s (fresh per parent) is appended to %s[%s] after the window loop; %s = make(…, len(parents)) is returned: result i belongs to parents[i]", listObj.Name(), resObj.Name(), idxObj.Name(), resObj.Name())
		}
	}
}
