package rules

// C11 — "Annotation reconstructs, for any time, the child versions that were current".
//
// The core of C11 (WHICH child version is current at WHICH time, for every history, threshold and query
// time) depends on timestamps and is NOT decided here. This property decides structural necessary
// conditions only (DESIGN.md §5 C11, rules A1..A7).
//
// Technique. Every rule is stated on the PATHS of the functions involved, produced by a small symbolic path
// interpreter (c11_sym.go values, c11_state.go path state, c11_interp.go expressions, c11_exec.go
// statements): a function is executed on symbolic inputs, unexported helpers of its package are inlined,
// local closures are executed in place, every other call is an opaque pure term and is recorded as an event,
// stores to memory are recorded as events, branch decisions are recorded as assumptions, loops are executed
// for one arbitrary iteration (variables assigned in the loop are fresh symbols at its head). The rules then
// ask WHAT happens (which call / store / return value, on which terms) under WHICH decisions. They never
// look at statement shapes, so the following rewrites do not change a verdict (ROBUSTNESS.md classes 1-5):
// extract / inline of helpers and closures, goroutine-free moves between files, if <-> switch <-> tagless
// switch, inverted branches, early return <-> nesting, merged / split guards, if-init forms, captured
// booleans, renamed locals and parameters, pointer and value aliases of places, named constants,
// construct-then-patch <-> single literal, reordered independent statements.
//
// Anchors, in order of preference:
//   exported API      annotate.Ways, annotate.Relations, annotate.Option and the exported option constructors,
//                     annotate.IsReverse, shared.Child (+ Update, FromNode, FromWay, FromRelation), osm.Update,
//                     osm.WayNode, osm.Member, osm.CommitInfoStart, osm.{Nodes,Ways,Relations}.SortByIDVersion,
//                     core.Compute, core.Parent (Visible, SetChild, Refs, ChangesetID), core.Datasourcer (Get,
//                     NotFound), core.ChildList (FindVisible, VersionBefore), core.Options and its fields,
//                     the exported error types of package core
//   inlining policy   in core.Compute: unexported functions/methods, exported-name methods of unexported receiver types
//                     and loop-free forwarders are inlined; kept opaque are the child version selectors (any function
//                     or method (ChildList, ...) -> *shared.Child containing a loop: FindVisible, VersionBefore) and
//                     the grouping method (the method called on an element of the location map); function literals
//                     are executed on the environment of the frame that created them (also when handed to a helper)
//   role / dataflow   everything else: "the parent of the group" is the X of the parents[X].Visible() decision,
//                     "the current child" is child.FindVisible(parents[X].ChangesetID(), ...), "the window
//                     loop" is the loop whose variable indexes child in child[k].Update(), "the location map"
//                     is the map that receives append(m[refs[j]], loc{i, j}), the two fields of the location
//                     struct are identified by which one receives i / j, "the grouping method" is the callee
//                     producing the groups Compute ranges over, "list builders" are the functions of package
//                     annotate that make(core.ChildList, len(X)), "Parent implementations" are the types of
//                     package annotate implementing core.Parent, the comparator is the Less method of the type
//                     handed to sort.Sort by SortByIDVersion
//   unexported names  none
//
// Files: c11.go (registration, mutants), c11_benign.go (behaviour-preserving variants), c11_compute.go (path
// model of Compute, A1, A2 error returns), c11_a2.go (Ways/Relations/options), c11_a3.go, c11_a4.go (A4 and
// A5 refs@), c11_a5.go, c11_bound.go (provenance of the window bound), c11_refs.go, c11_gets.go, c11_cmp.go (comparators found by role), c11_ref.go (pointers to locals, method values, defer), c11_rev2.go (reversal flag computed in a later pass), c11_a7.go (empty child history never indexed), c11_sortskip.go (sort skipped after a strict-ascending check), c11_group.go / c11_group_ind.go / c11_list.go (grouping
// method: finite-domain evaluation in concrete-list mode, inductive proof of the peel-off form), c11_debug.go (C11_DUMP=<function> prints the paths).

import (
	"go/ast"
	"go/types"

	"osmcheck/core"
)

const (
	c11CorePath   = core.ModulePath + "/annotate/internal/core"
	c11SharedPath = core.ModulePath + "/annotate/shared"
	c11AnnPath    = core.ModulePath + "/annotate"
)

func init() {
	const cmp = "annotate/internal/core/compute.go"
	register(&core.Property{
		ID:    "C11",
		Title: "Annotation reconstructs, for any time, the child versions that were current",
		Explanation: "The core of C11 — which child version is current at which time, for every history, threshold and query time t — depends on timestamp values and is NOT decidable by static analysis; it is NOT decided here. " +
			"A PASS means the following structural necessary conditions hold on EVERY PATH of the functions involved (symbolic path interpreter: unexported helpers and local closures inlined, calls pure, one arbitrary iteration per loop), whatever the statement shapes: " +
			"(A1) in core.Compute (with its helpers) every Parent.SetChild call is on parents[X] after the decision parents[X].Visible() == true, and every append to an osm.Updates list follows that decision for exactly one X (a list indexed per parent is indexed by that X): deleted parent versions get no annotations; " +
			"(A2) every path of Compute that returns an error returns one of the documented kinds after the required decisions: the datasource's error unchanged needs err != nil && !NotFound(err); *NoHistoryError (ChildID = the requested id) needs NotFound(err) && !IgnoreMissingChildren; *NoVisibleChildError needs FindVisible(<this parent>) == nil && !IgnoreInconsistency; any other error needs a child version decided not visible && !IgnoreInconsistency; on every path of annotate.Ways / annotate.Relations that reaches core.Compute a loop over the variadic options has called each option with the very *core.Options value handed to Compute; where Compute's error may be non-nil it is classified against every exported core error type, a recognised *core.T is returned as &annotate.T with the corresponding fields carried over, every other error is returned unchanged, and nil is never returned instead; each exported option constructor returns a function that, for every value of the constructor's argument (the zero value included), sets exactly the same-named core.Options field from it and returns nil; only a path that decided the argument negative may refuse it; " +
			"(A3) SetChild of every Parent implementation stores, on every path with a non-nil child, exactly {Version, ChangesetID, Lat, Lon} of <member list>[idx], each from the same-named shared.Child field, stores none of them for a nil child and never uses child.<field> before deciding child != nil; Child.Update() returns Version, ChangesetID, Lat, Lon from the same-named fields and Reverse from ReverseOfPrevious on every path, and its Timestamp obeys the truth table over (Timestamp.Before(osm.CommitInfoStart), Committed.IsZero()): Committed exactly when both are false, Timestamp otherwise, with the tests made on the right fields; FromNode/FromWay/FromRelation return a Child whose ID is FeatureID(), whose Version, ChangesetID, Visible, Timestamp (Lat/Lon, Way) are the same-named fields and whose Committed is *Committed on the paths where that pointer was decided non-nil and the zero time on the others; " +
			"(A4) every function of package annotate that builds a core.ChildList from an osm history X (by signature func(osm.Nodes|Ways|Relations) core.ChildList or by make(core.ChildList, len(X)); the list may be allocated by a generic helper taking the length and a callback, presized and indexed or appended to once per iteration from empty) calls X.SortByIDVersion() before the fill loop on every path, every iteration i of that loop stores c = shared.From…(X[i]) with c.VersionIndex = i at list[i] (no iteration without the store, no break), the filled list is what is returned, ReverseOfPrevious is IsReverse(X[i], X[i-1]) on every iteration that decided i > 0 (in any spelling: if, &&, a flag variable) and false or untouched for i == 0 — computed in the fill loop or in a later pass over every position i >= 1 of the built list that has run on every path returning the list; every Datasourcer.Get of package annotate returns nil, the result of such a builder or the user's AsChildren result; the comparator behind each SortByIDVersion (the Less method of the value handed to sort.Sort — a converted slice or a struct carrying slice and ordering function in fields — or the literal handed to sort.Slice), evaluated on all 9 relations of (ID_i vs ID_j, Version_i vs Version_j), is ID_i < ID_j || (ID_i == ID_j && Version_i < Version_j); " +
			"(A5) locations are recorded as loc{i, j} under refs[j] of parents[i].Refs() in a map that this call made or, when obtained elsewhere (a pool, a helper, a package variable), emptied before it is filled, and a ref is skipped only after deciding annotated[j] and !opts.ChildFilter(refs[j]); the parent processed is parents[G[0].<parent field>] for a group G produced by the grouping method from the locations of the fetched child, and that method returns the partition of the list into maximal runs of equal parent index, in order (decided by finite-domain evaluation of the method on every concrete location list of length 0..5 with every pattern of equal/different adjacent parents, whatever its spelling; for the peel-off re-slicing spelling additionally proved for any length); SetChild stores the result of the child version selector (a function or method (ChildList, ...) -> *shared.Child that searches the list: FindVisible) called with parent.ChangesetID(), a time derived from the parent and opts.Threshold at cl.<index field> for the locations cl of the group; updates are child[k].Update() for the variable k (plus a constant) of one loop with the strict condition k < end and k advanced by one — or for the elements of a range over child[start:end] —, k starts at cur.VersionIndex+1 (cur != nil), VersionBefore(<time of parent>).VersionIndex+1 (cur == nil, non-nil) or 0, within a group only parents[I] and — after deciding I < len(parents)-1 — parents[I+1] are consulted and the bound depends on parents[I+1] when it exists, the bound is 0 or <version>.VersionIndex + n where the PROVENANCE of the version fixes n: the last list element when no next parent version exists (n = 1), the result of the selector called with only a time derived from the next parent (the last version before the next parent lies inside this parent's interval, visible or not: n = 1, after deciding it non-nil), the result of the selector called with the next parent's changeset (the version the next parent starts from is the exclusive end: n = 0, or n = 1 exactly on the paths that decided its time Before a time derived from the next parent); any other version (e.g. the current child of this parent) or constant is a violation, Update() is called only after deciding child[k].Visible, every value appended to an update list that is (a local copy of) child[k].Update() has Index = cl.<index field> for the location cl of the iteration (range or counting loop) over the group and no other field overwritten, wherever Update() itself is called, and every such iteration appends exactly one, the list accumulated by the window loop is empty at loop entry and is appended to results[I], results = make(…, len(parents)) is what the success path returns; Refs() and SetChild of every Parent implementation address the same member list at the same positions (ids[i] = L[i].FeatureID(), annotated[i] = L[i].Version != 0); " +
			"(A6) every success path of Compute runs a loop whose every iteration calls SortByIndex on the list that the result slot at its position holds at that moment (a slot replaced by a right-sized copy must be sorted through the slot, not through the stale slice header), and the comparator behind osm.Updates.SortByIndex, evaluated on all 27 relations of (Index, Timestamp, Version) of two updates, is the strict lexicographic order: updates of one child location are applied oldest version last-wins even when timestamps are equal (sort.Sort is not stable). " +
			"(A7) every read of the fetched child list at a constant or length-relative position (child[0], child[len(child)-1]) in Compute and the helpers it reaches follows, on every path and for every setting of the ignore options, a decision that the list is long enough or a non-nil result of a selector on that list: an empty history must be ignored or reported, never indexed (KNOWN FINDING on the pinned tree: nonempty@Compute child[len(child)-1], the no-next-parent bound of nextVersionIndex with IgnoreInconsistency set). " +
			"NOT decided: the arithmetic inside FindVisible / VersionBefore and the time comparisons of nextVersionIndex (e.g. whether a boundary comparison is < or <=; which times are compared), the time-travel consequence (ApplyUpdatesUpTo(t) reproduces the state at t), correctness of user-supplied AsChildren datasources (their VersionIndex is trusted), Way/Relation.applyUpdate (C15.U4), that ApplyUpdatesUpTo applies the updates in slice order and builds its pending list fresh, never writing into the update list it was given — the time-travel clause of C11 relies on it; that condition is decided by C15 (seeded C11-f is reported there) and the other comparators of package osm (C12). A code shape the interpreter cannot follow (goto, fallthrough, defer/go/select, address of a non-struct local, more than 20000 paths) makes the affected obligations Unknown (fails), never silently OK.",
		Assumptions: []string{
			"go/types (x/tools v0.29.0 go/packages loader)",
			"calls that are not inlined are pure functions of their receiver and arguments (Parent.Visible, ChangesetID, Timestamp, Committed, Refs, Datasourcer.Get/NotFound, ChildList.FindVisible/VersionBefore, time.Time.Before/IsZero, FeatureID, IsReverse, Polygon): the same term denotes the same value along a path; decisions about a memory place are dropped when that place is stored to",
			"loops: properties are established for one arbitrary iteration (variables assigned in the loop are unconstrained at its head) and for the code after the loop with those variables unconstrained",
			"sort.Sort sorts according to Less",
			"user datasources implementing the *AsChildren interfaces return version-sorted children with VersionIndex == position",
		},
		LevelText: "Structural necessary conditions only. Which child version is current at which time (FindVisible / nextVersionIndex arithmetic, thresholds, and the consequence that ApplyUpdatesUpTo(t) reproduces the state at t) is value/time dependent and is NOT decided. Decided on every path (helpers inlined): deleted parents receive no annotation, every error return of Compute follows the decisions documented for its kind and is mapped to the public typed error, options set the same-named field and are applied to the value handed to Compute, field-copy agreement of SetChild / Child.Update / FromNode,FromWay,FromRelation, child lists are version-sorted before VersionIndex is assigned and ChildList index == VersionIndex, shape of the update window (start after the current version, strict end that depends on the next parent version, visible versions only, one update per location with its index, appended to the parent the locations belong to).",
		LevelNote: "Trusts the Go type checker; purity of the calls that are not inlined; sort.Sort; user-provided AsChildren datasources. Covers annotate, annotate/internal/core, annotate/shared and the SortByIDVersion comparators of package osm. Robustness: the behaviour-preserving variants (Benign) and the refactoring corpus stay silent; every mutant is reported.",
		Technique: "symbolic path interpretation (finite-domain evaluation): per function, all paths over its statement structure with symbolic values (terms over parameters, globals, iteration symbols), assumptions for branch decisions, events for calls/stores, inlining of unexported helpers and local closures, one arbitrary iteration per loop, an oracle for the 3x3 comparator table; rules are predicates over paths (event X only after decision Y, returned value Z under decisions W)",
		DesignRef: "DESIGN.md §5 C11",
		Rules: []*core.Rule{
			{ID: "A1", Floor: 2, Doc: "deleted parents get no annotations: on every path SetChild and update appends follow the decision parents[X].Visible() (floor: setchild@Compute, append@Compute)", Run: c11A1},
			{ID: "A2", Floor: 18, Doc: "option-gated typed errors, error mapping, options set same-named fields (floor: 4 error kinds of Compute, 4 exported options, {route, options, passthrough, maperr x 2 core error types} x {Ways, Relations})", Run: c11A2},
			{ID: "A3", Floor: 32, Doc: "copy agreement of SetChild, Child.Update, FromNode/FromWay/FromRelation (floor: {copy, nilchild} x 2 Parent implementations, 6 Update fields + stamp, 8+7+6 Child fields with a counterpart)", Run: c11A3},
			{ID: "A4", Floor: 14, Doc: "child lists are version-sorted before VersionIndex is assigned; list index == VersionIndex (floor: {sorted, index} x 3 osm source types + reverse@Ways, 4 Get methods, 3 comparators)", Run: c11A4},
			{ID: "A5", Floor: 14, Doc: "shape of the update window and per-parent grouping in Compute (floor: refs@ x 2 Parent implementations, loc, filter, group parent-index, grouping method, current, window loop/start/end/bound/visible-only/update-index, results)", Run: c11A5},
			{ID: "A6", Floor: 2, Doc: "application order of a parent's updates: Compute sorts every result list with SortByIndex; its comparator is the strict lexicographic order over (Index, Timestamp, Version) (floor: sort@Compute, order@Updates.SortByIndex)", Run: c11A6},
			{ID: "A7", Floor: 1, Doc: "an empty child history is ignored or reported, never indexed: reads of the fetched child list at a constant or length-relative position follow evidence that the list is long enough (floor: child[len(child)-1] of the no-next-parent bound)", Run: c11A7},
		},
		Benign: c11Benign,
		Mutants: []core.Mutant{
			// A1
			{Name: "visible-test-dropped", File: cmp, Find: "\t\t\tif !parent.Visible() {\n\t\t\t\tcontinue\n\t\t\t}\n", Replace: "", ExpectRule: "A1", ExpectConstruct: "setchild@Compute"},
			{Name: "visible-test-inverted", File: cmp, Find: "if !parent.Visible() {", Replace: "if parent.Visible() {", ExpectRule: "A1", ExpectConstruct: "append@Compute"},
			{Name: "setchild-before-visible-test", File: cmp,
				Find:       "\t\t\tif !parent.Visible() {\n\t\t\t\tcontinue\n\t\t\t}\n\n\t\t\tvar nextParent Parent",
				Replace:    "\t\t\tfor _, cl := range locs {\n\t\t\t\tparent.SetChild(cl.Index, child.FindVisible(parent.ChangesetID(), timeThresholdParent(parent, 0), opts.Threshold))\n\t\t\t}\n\t\t\tif !parent.Visible() {\n\t\t\t\tcontinue\n\t\t\t}\n\n\t\t\tvar nextParent Parent",
				ExpectRule: "A1", ExpectConstruct: "setchild@Compute"},

			// A2
			{Name: "novisible-ungated", File: cmp, Find: "if c == nil && !opts.IgnoreInconsistency {", Replace: "if c == nil {", ExpectRule: "A2", ExpectConstruct: "return@Compute NoVisibleChildError"},
			{Name: "missing-children-gate-inverted", File: cmp, Find: "if opts.IgnoreMissingChildren {", Replace: "if !opts.IgnoreMissingChildren {", ExpectRule: "A2", ExpectConstruct: "return@Compute NoHistoryError"},
			{Name: "deleted-between-wrong-option", File: cmp, Find: "\t\t\t\t\tif !opts.IgnoreInconsistency {", Replace: "\t\t\t\t\tif !opts.IgnoreMissingChildren {", ExpectRule: "A2", ExpectConstruct: "return@Compute inconsistency"},
			{Name: "notfound-inverted", File: cmp, Find: "if !histories.NotFound(err) {", Replace: "if histories.NotFound(err) {", ExpectRule: "A2", ExpectConstruct: "return@Compute"},
			{Name: "maperrors-no-novisible-case", File: "annotate/errors.go", Find: "\tcase *core.NoVisibleChildError:\n\t\treturn &NoVisibleChildError{\n\t\t\tID:        t.ChildID,\n\t\t\tTimestamp: t.Timestamp,\n\t\t}\n", Replace: "", ExpectRule: "A2", ExpectConstruct: "maperr@Ways NoVisibleChildError"},
			{Name: "maperrors-drops-timestamp", File: "annotate/errors.go", Find: "\t\t\tTimestamp: t.Timestamp,\n", Replace: "", ExpectRule: "A2", ExpectConstruct: "maperr@Ways NoVisibleChildError"},
			{Name: "relations-unmapped-error", File: "annotate/relation.go", Find: "return mapErrors(err)", Replace: "return err", ExpectRule: "A2", ExpectConstruct: "route@Relations"},
			{Name: "option-wrong-field", File: "annotate/options.go", Find: "o.IgnoreMissingChildren = yes", Replace: "o.IgnoreInconsistency = yes", ExpectRule: "A2", ExpectConstruct: "option@IgnoreMissingChildren"},
			{Name: "ways-options-not-applied", File: "annotate/way.go", Find: "core.Compute(ctx, parents, wds, computeOpts)", Replace: "core.Compute(ctx, parents, wds, &core.Options{Threshold: defaultThreshold})", ExpectRule: "A2", ExpectConstruct: "options@Ways"},
			// A3
			{Name: "setchild-lat-from-lon", File: "annotate/way.go", Find: "w.Way.Nodes[idx].Lat = child.Lat", Replace: "w.Way.Nodes[idx].Lat = child.Lon", ExpectRule: "A3", ExpectConstruct: "copy@(*parentWay).SetChild"},
			{Name: "rel-setchild-drops-changeset", File: "annotate/relation.go", Find: "\tr.Relation.Members[idx].ChangesetID = child.ChangesetID\n", Replace: "", ExpectRule: "A3", ExpectConstruct: "copy@(*parentRelation).SetChild"},
			{Name: "rel-setchild-nil-unchecked", File: "annotate/relation.go", Find: "\tif child == nil {\n\t\treturn\n\t}\n\n\tr.Relation.Members[idx].Version", Replace: "\tr.Relation.Members[idx].Version", ExpectRule: "A3", ExpectConstruct: "nilchild@(*parentRelation).SetChild"},
			{Name: "update-version-from-versionindex", File: "annotate/shared/child.go", Find: "Version:     c.Version,\n\t\tTimestamp:", Replace: "Version:     c.VersionIndex,\n\t\tTimestamp:", ExpectRule: "A3", ExpectConstruct: "update@(*Child).Update Version"},
			{Name: "update-timestamp-args-swapped", File: "annotate/shared/child.go", Find: "updateTimestamp(c.Timestamp, c.Committed)", Replace: "updateTimestamp(c.Committed, c.Timestamp)", ExpectRule: "A3", ExpectConstruct: "update@(*Child).Update Timestamp"},
			{Name: "update-stamp-ignores-zero-commit", File: "annotate/shared/child.go", Find: "if timestamp.Before(osm.CommitInfoStart) || committed.IsZero() {", Replace: "if timestamp.Before(osm.CommitInfoStart) {", ExpectRule: "A3", ExpectConstruct: "stamp@"},
			{Name: "fromnode-lon-from-lat", File: "annotate/shared/child.go", Find: "Lon: n.Lon,", Replace: "Lon: n.Lat,", ExpectRule: "A3", ExpectConstruct: "from@FromNode Lon"},
			{Name: "fromway-drops-visible", File: "annotate/shared/child.go", Find: "\t\tVisible:     w.Visible,\n", Replace: "", ExpectRule: "A3", ExpectConstruct: "from@FromWay Visible"},
			// A4
			{Name: "ways-childlist-unsorted", File: "annotate/datasource.go", Find: "\tways.SortByIDVersion()\n", Replace: "", ExpectRule: "A4", ExpectConstruct: "sorted@Ways"},
			{Name: "nodes-sorted-after-loop", File: "annotate/datasource.go", Find: "\tnodes.SortByIDVersion()\n\tfor i, n := range nodes {\n\t\tc := shared.FromNode(n)\n\t\tc.VersionIndex = i\n\t\tlist[i] = c\n\t}\n", Replace: "\tfor i, n := range nodes {\n\t\tc := shared.FromNode(n)\n\t\tc.VersionIndex = i\n\t\tlist[i] = c\n\t}\n\tnodes.SortByIDVersion()\n", ExpectRule: "A4", ExpectConstruct: "sorted@Nodes"},
			{Name: "versionindex-off-by-one", File: "annotate/datasource.go", Find: "c.VersionIndex = i\n\t\tlist[i] = c\n\t}\n\n\treturn list\n}\n\nfunc waysToChildList", Replace: "c.VersionIndex = i + 1\n\t\tlist[i] = c\n\t}\n\n\treturn list\n}\n\nfunc waysToChildList", ExpectRule: "A4", ExpectConstruct: "index@Nodes"},
			{Name: "reverse-against-self", File: "annotate/datasource.go", Find: "IsReverse(w, ways[i-1])", Replace: "IsReverse(w, ways[i])", ExpectRule: "A4", ExpectConstruct: "reverse@Ways"},
			{Name: "sort-version-descending", File: "relation.go", Find: "return rs[i].Version < rs[j].Version", Replace: "return rs[i].Version > rs[j].Version", ExpectRule: "A4", ExpectConstruct: "order@Relations.SortByIDVersion"},
			// A5
			{Name: "window-starts-at-current", File: cmp, Find: "start = c.VersionIndex + 1", Replace: "start = c.VersionIndex", ExpectRule: "A5", ExpectConstruct: "window@Compute start"},
			{Name: "window-includes-next", File: cmp, Find: "k < nextVersion", Replace: "k <= nextVersion", ExpectRule: "A5", ExpectConstruct: "window@Compute loop"},
			{Name: "results-indexed-by-location", File: cmp, Find: "parentIndex := locs[0].Parent", Replace: "parentIndex := locs[0].Index", ExpectRule: "A5", ExpectConstruct: "group@Compute parent-index"},
			{Name: "next-parent-is-self", File: cmp, Find: "nextParent = parents[parentIndex+1]", Replace: "nextParent = parents[parentIndex]", ExpectRule: "A5", ExpectConstruct: "window@Compute end"},
			{Name: "childloc-cross-wired", File: cmp, Find: "childLoc{Parent: i, Index: j}", Replace: "childLoc{Parent: j, Index: i}", ExpectRule: "A5", ExpectConstruct: "parent-index"},
			{Name: "filter-skips-unannotated", File: cmp, Find: "if annotated[j] && filter != nil && !filter(fid) {", Replace: "if !annotated[j] && filter != nil && !filter(fid) {", ExpectRule: "A5", ExpectConstruct: "filter@Compute"},
			{Name: "group-run-test-weakened", File: cmp, Find: "for end < len(locs) && locs[end].Parent == p {", Replace: "for end < len(locs) && locs[end].Parent >= p {", ExpectRule: "A5", ExpectConstruct: "group@"},
			{Name: "setchild-wrong-threshold", File: cmp, Find: "\t\t\t\ttimeThresholdParent(parent, 0),\n\t\t\t\topts.Threshold,\n\t\t\t)\n\t\t\tif c == nil", Replace: "\t\t\t\ttimeThresholdParent(parent, 0),\n\t\t\t\t0,\n\t\t\t)\n\t\t\tif c == nil", ExpectRule: "A5", ExpectConstruct: "current@Compute"},
			// ---- round 2: defects placed inside helper / closure / respelled forms (detected through the same path rules)
			{Name: "start-helper-off-by-one", File: cmp,
				Find:       "\t\t\tstart := 0\n\t\t\tif c != nil {\n\t\t\t\tstart = c.VersionIndex + 1\n\t\t\t} else {",
				Replace:    "\t\t\tafter := func(v *shared.Child) int { return v.VersionIndex }\n\t\t\tstart := 0\n\t\t\tif c != nil {\n\t\t\t\tstart = after(c)\n\t\t\t} else {",
				ExpectRule: "A5", ExpectConstruct: "window@Compute start"},
			{Name: "start-before-version-not-skipped", File: cmp, Find: "start = next.VersionIndex + 1", Replace: "start = next.VersionIndex", ExpectRule: "A5", ExpectConstruct: "window@Compute start"},
			{Name: "next-parent-unguarded", File: cmp, Find: "\t\t\tif parentIndex < len(parents)-1 {\n\t\t\t\tnextParent = parents[parentIndex+1]\n\t\t\t}\n", Replace: "\t\t\tif parentIndex < len(parents) {\n\t\t\t\tnextParent = parents[parentIndex+1]\n\t\t\t}\n", ExpectRule: "A5", ExpectConstruct: "window@Compute end"},
			{Name: "next-parent-skips-one", File: cmp, Find: "\t\t\tif parentIndex < len(parents)-1 {\n\t\t\t\tnextParent = parents[parentIndex+1]\n", Replace: "\t\t\tif parentIndex < len(parents)-2 {\n\t\t\t\tnextParent = parents[parentIndex+2]\n", ExpectRule: "A5", ExpectConstruct: "window@Compute end"},
			{Name: "update-index-not-set", File: cmp, Find: "\t\t\t\t\t\tu.Index = cl.Index\n", Replace: "\t\t\t\t\t\t_ = cl\n", ExpectRule: "A5", ExpectConstruct: "window@Compute update-index"},
			{Name: "update-index-from-parent-field", File: cmp, Find: "u.Index = cl.Index", Replace: "u.Index = cl.Parent", ExpectRule: "A5", ExpectConstruct: "window@Compute update-index"},
			{Name: "updates-list-not-fresh", File: cmp, Find: "\t\t\tvar updates osm.Updates\n", Replace: "\t\t\tupdates := results[parentIndex]\n", ExpectRule: "A5", ExpectConstruct: "group@Compute results"},
			{Name: "setchild-stale-child-of-next-parent", File: cmp, Find: "parent.SetChild(cl.Index, c)", Replace: "parent.SetChild(cl.Index, child[0])", ExpectRule: "A5", ExpectConstruct: "current@Compute"},
			{Name: "visible-tested-on-next-parent", File: cmp,
				Find:       "\t\t\tif !parent.Visible() {\n\t\t\t\tcontinue\n\t\t\t}\n\n\t\t\tvar nextParent Parent\n\t\t\tif parentIndex < len(parents)-1 {\n\t\t\t\tnextParent = parents[parentIndex+1]\n\t\t\t}\n",
				Replace:    "\t\t\tvar nextParent Parent\n\t\t\tif parentIndex < len(parents)-1 {\n\t\t\t\tnextParent = parents[parentIndex+1]\n\t\t\t}\n\t\t\tif nextParent != nil && !nextParent.Visible() {\n\t\t\t\tcontinue\n\t\t\t}\n",
				ExpectRule: "A1", ExpectConstruct: "setchild@Compute"},
			{Name: "inconsistency-error-for-visible-version", File: cmp,
				Find:       "\t\t\t\t\tif !opts.IgnoreInconsistency {\n\t\t\t\t\t\treturn nil, fmt.Errorf(",
				Replace:    "\t\t\t\t\tif !opts.IgnoreInconsistency || child[k].Version == 0 {\n\t\t\t\t\t\treturn nil, fmt.Errorf(",
				ExpectRule: "A2", ExpectConstruct: "return@Compute inconsistency"},
			{Name: "maperrors-swallows-other-errors", File: "annotate/errors.go", Find: "\t}\n\n\treturn err\n}", Replace: "\t}\n\n\treturn nil\n}", ExpectRule: "A2", ExpectConstruct: "route@Ways"},
			{Name: "ways-error-dropped", File: "annotate/way.go", Find: "\tif err != nil {\n\t\treturn mapErrors(err)\n\t}\n", Replace: "\tif err != nil && len(updatesForParents) == 0 {\n\t\treturn mapErrors(err)\n\t}\n", ExpectRule: "A2", ExpectConstruct: "route@Ways"},
			{Name: "options-applied-to-copy", File: "annotate/relation.go", Find: "\t\terr := o(computeOpts)\n", Replace: "\t\tscratch := *computeOpts\n\t\terr := o(&scratch)\n", ExpectRule: "A2", ExpectConstruct: "options@Relations"},
			{Name: "option-skipped-in-loop", File: "annotate/way.go", Find: "\tfor _, o := range opts {\n\t\terr := o(computeOpts)\n", Replace: "\tfor i, o := range opts {\n\t\tif i > 2 {\n\t\t\tcontinue\n\t\t}\n\t\terr := o(computeOpts)\n", ExpectRule: "A2", ExpectConstruct: "options@Ways"},
			{Name: "fromnode-committed-unguarded", File: "annotate/shared/child.go", Find: "\tif n.Committed != nil {\n\t\tc.Committed = *n.Committed\n\t}\n", Replace: "\tc.Committed = *n.Committed\n", ExpectRule: "A3", ExpectConstruct: "from@FromNode Committed"},
			{Name: "fromway-committed-dropped-in-helper", File: "annotate/shared/child.go", Find: "\tif w.Committed != nil {\n\t\tc.Committed = *w.Committed\n\t}\n", Replace: "\tc.Committed = func(t *time.Time) time.Time { return time.Time{} }(w.Committed)\n", ExpectRule: "A3", ExpectConstruct: "from@FromWay Committed"},
			{Name: "setchild-alias-wrong-index", File: "annotate/way.go", Find: "\tw.Way.Nodes[idx].Version = child.Version\n", Replace: "\tfirst := &w.Way.Nodes[0]\n\tfirst.Version = child.Version\n", ExpectRule: "A3", ExpectConstruct: "copy@(*parentWay).SetChild"},
			{Name: "conversion-skips-invisible", File: "annotate/datasource.go", Find: "\tfor i, r := range relations {\n\t\tc := shared.FromRelation(r)\n", Replace: "\tfor i, r := range relations {\n\t\tif !r.Visible && i > 0 {\n\t\t\tcontinue\n\t\t}\n\t\tc := shared.FromRelation(r)\n", ExpectRule: "A4", ExpectConstruct: "index@Relations"},
			{Name: "conversion-sorts-a-copy", File: "annotate/datasource.go", Find: "\tways.SortByIDVersion()\n", Replace: "\tappend(osm.Ways(nil), ways...).SortByIDVersion()\n", ExpectRule: "A4", ExpectConstruct: "sorted@Ways"},
			{Name: "sort-version-not-strict", File: "way.go", Find: "return ws[i].Version < ws[j].Version", Replace: "return ws[i].Version <= ws[j].Version", ExpectRule: "A4", ExpectConstruct: "order@Ways.SortByIDVersion"},
			{Name: "refs-annotated-from-changeset", File: "annotate/way.go", Find: "annotated[i] = w.Way.Nodes[i].Version != 0", Replace: "annotated[i] = w.Way.Nodes[i].ChangesetID != 0", ExpectRule: "A5", ExpectConstruct: "refs@(*parentWay).Refs"},
			// A6
			{Name: "updates-sort-drops-version-tiebreak", File: "update.go", Find: "\tif !us[i].Timestamp.Equal(us[j].Timestamp) {\n\t\treturn us[i].Timestamp.Before(us[j].Timestamp)\n\t}\n\n\treturn us[i].Version < us[j].Version\n", Replace: "\treturn us[i].Timestamp.Before(us[j].Timestamp)\n", ExpectRule: "A6", ExpectConstruct: "order@Updates.SortByIndex"},
			{Name: "updates-sort-version-descending", File: "update.go", Find: "return us[i].Version < us[j].Version", Replace: "return us[i].Version > us[j].Version", ExpectRule: "A6", ExpectConstruct: "order@Updates.SortByIndex"},
			{Name: "updates-sort-ignores-index", File: "update.go", Find: "\tif us[i].Index != us[j].Index {\n\t\treturn us[i].Index < us[j].Index\n\t}\n\n\tif !us[i].Timestamp.Equal", Replace: "\tif !us[i].Timestamp.Equal", ExpectRule: "A6", ExpectConstruct: "order@Updates.SortByIndex"},
			{Name: "compute-results-unsorted", File: cmp, Find: "\t\tr.SortByIndex()\n", Replace: "\t\t_ = r\n", ExpectRule: "A6", ExpectConstruct: "sort@Compute"},
			{Name: "compute-sorts-first-result-only", File: cmp, Find: "\tfor _, r := range results {\n\t\tr.SortByIndex()\n\t}\n", Replace: "\tif len(results) > 0 {\n\t\tresults[0].SortByIndex()\n\t}\n", ExpectRule: "A6", ExpectConstruct: "sort@Compute"},
			// ---- round 3: defects seeded into refactored shapes of the window (update built once, closure helper, sub-slice window)
			{Name: "update-built-once-index-never-reset", File: cmp,
				Find:       "\t\t\t\t\tfor _, cl := range locs {\n\t\t\t\t\t\tu := child[k].Update()\n\t\t\t\t\t\tu.Index = cl.Index\n\t\t\t\t\t\tupdates = append(updates, u)\n\t\t\t\t\t}\n",
				Replace:    "\t\t\t\t\tu := child[k].Update()\n\t\t\t\t\tu.Index = locs[0].Index\n\t\t\t\t\tfor range locs {\n\t\t\t\t\t\tupdates = append(updates, u)\n\t\t\t\t\t}\n",
				ExpectRule: "A5", ExpectConstruct: "window@Compute update-index"},
			{Name: "closure-helper-skips-first-location", File: cmp,
				Find:       "\t\t\t\t\tfor _, cl := range locs {\n\t\t\t\t\t\tu := child[k].Update()\n\t\t\t\t\t\tu.Index = cl.Index\n\t\t\t\t\t\tupdates = append(updates, u)\n\t\t\t\t\t}\n",
				Replace:    "\t\t\t\t\teach := func(f func(index int)) {\n\t\t\t\t\t\tfor i := 1; i < len(locs); i++ {\n\t\t\t\t\t\t\tf(locs[i].Index)\n\t\t\t\t\t\t}\n\t\t\t\t\t}\n\t\t\t\t\teach(func(at int) {\n\t\t\t\t\t\tu := child[k].Update()\n\t\t\t\t\t\tu.Index = at\n\t\t\t\t\t\tupdates = append(updates, u)\n\t\t\t\t\t})\n",
				ExpectRule: "A5", ExpectConstruct: "window@Compute update-index"},
			{Name: "subslice-window-keeps-deleted-versions", File: cmp,
				Find:       "\t\t\tfor k := start; k < nextVersion; k++ {\n\t\t\t\tif child[k].Visible {\n\t\t\t\t\t// It's possible for this child to be present at multiple locations in the parent\n\t\t\t\t\tfor _, cl := range locs {\n\t\t\t\t\t\tu := child[k].Update()\n\t\t\t\t\t\tu.Index = cl.Index\n\t\t\t\t\t\tupdates = append(updates, u)\n\t\t\t\t\t}\n\t\t\t\t} else {\n\t\t\t\t\t// A child has become not-visible between parent version.\n\t\t\t\t\t// This is a data inconsistency that can happen in old data\n\t\t\t\t\t// i.e. pre element versioning.\n\t\t\t\t\t//\n\t\t\t\t\t// see node 321452894, changed 7 times in\n\t\t\t\t\t// the same changeset, version 5 was a delete. (also node 65172196)\n\t\t\t\t\tif !opts.IgnoreInconsistency {\n\t\t\t\t\t\treturn nil, fmt.Errorf(\"%v: %v: child deleted between parent versions\",\n\t\t\t\t\t\t\tparent.ID(), fid)\n\t\t\t\t\t}\n\t\t\t\t}\n\t\t\t}\n\n",
				Replace:    "\t\t\tif start < nextVersion {\n\t\t\t\tfor _, version := range child[start:nextVersion] {\n\t\t\t\t\tif !version.Visible && !opts.IgnoreInconsistency {\n\t\t\t\t\t\treturn nil, fmt.Errorf(\"%v: %v: child deleted between parent versions\", parent.ID(), fid)\n\t\t\t\t\t}\n\n\t\t\t\t\tfor _, cl := range locs {\n\t\t\t\t\t\tu := version.Update()\n\t\t\t\t\t\tu.Index = cl.Index\n\t\t\t\t\t\tupdates = append(updates, u)\n\t\t\t\t\t}\n\t\t\t\t}\n\t\t\t}\n\n",
				ExpectRule: "A5", ExpectConstruct: "window@Compute visible-only"},
			{Name: "update-built-once-wrong-version", File: cmp,
				Find:       "\t\t\t\t\tfor _, cl := range locs {\n\t\t\t\t\t\tu := child[k].Update()\n\t\t\t\t\t\tu.Index = cl.Index\n\t\t\t\t\t\tupdates = append(updates, u)\n\t\t\t\t\t}\n",
				Replace:    "\t\t\t\t\tu := child[start].Update()\n\t\t\t\t\tfor _, cl := range locs {\n\t\t\t\t\t\tu.Index = cl.Index\n\t\t\t\t\t\tupdates = append(updates, u)\n\t\t\t\t\t}\n",
				ExpectRule: "A5", ExpectConstruct: "window@Compute"},
			// ---- round 4: provenance of the window bound
			{Name: "bound-fallback-visible-version-excluded", File: cmp,
				Find:       "\t// visble or not, we want to want to include it.\n\t// novisible versions of this child will be filtered out below.\n\treturn next.VersionIndex + 1\n}\n",
				Replace:    "\tif !next.Visible {\n\t\t// deleted before the next parent, we want to include the delete.\n\t\treturn next.VersionIndex + 1\n\t}\n\n\t// this is the version the next parent starts from.\n\treturn next.VersionIndex\n}\n",
				ExpectRule: "A5", ExpectConstruct: "window@Compute bound"},
			{Name: "bound-fallback-plus-one-dropped", File: cmp,
				Find:       "\t// visble or not, we want to want to include it.\n\t// novisible versions of this child will be filtered out below.\n\treturn next.VersionIndex + 1\n}\n",
				Replace:    "\treturn next.VersionIndex\n}\n",
				ExpectRule: "A5", ExpectConstruct: "window@Compute bound"},
			{Name: "bound-at-next-always-included", File: cmp,
				Find:       "\t\tif timeThreshold(next, 0).Before(timeThresholdParent(nextParent, -opts.Threshold)) {\n\t\t\treturn next.VersionIndex + 1\n\t\t}\n\n\t\treturn next.VersionIndex\n",
				Replace:    "\t\tif timeThreshold(next, 0).Before(timeThresholdParent(nextParent, -opts.Threshold)) {\n\t\t\treturn next.VersionIndex + 1\n\t\t}\n\n\t\treturn next.VersionIndex + 1\n",
				ExpectRule: "A5", ExpectConstruct: "window@Compute bound"},
			{Name: "bound-fallback-plus-two", File: cmp,
				Find:       "\t// visble or not, we want to want to include it.\n\t// novisible versions of this child will be filtered out below.\n\treturn next.VersionIndex + 1\n}\n",
				Replace:    "\treturn next.VersionIndex + 2\n}\n",
				ExpectRule: "A5", ExpectConstruct: "window@Compute bound"},
			{Name: "bound-from-stale-variable-after-rename", File: cmp,
				Find:       "\tnext = child.VersionBefore(ts)\n\tif next == nil {\n\t\t// missing at current and next parent.\n\t\treturn 0 // no updates.\n\t}\n\n\t// visble or not, we want to want to include it.\n\t// novisible versions of this child will be filtered out below.\n\treturn next.VersionIndex + 1\n}\n",
				Replace:    "\tlast := child.VersionBefore(ts)\n\tif last == nil {\n\t\t// missing at current and next parent.\n\t\treturn 0 // no updates.\n\t}\n\n\treturn next.VersionIndex + 1\n}\n",
				ExpectRule: "A5", ExpectConstruct: "window@Compute bound"},
			{Name: "bound-from-current-child", File: cmp,
				Find:       "\t// visble or not, we want to want to include it.\n\t// novisible versions of this child will be filtered out below.\n\treturn next.VersionIndex + 1\n}\n",
				Replace:    "\tif current != nil {\n\t\treturn current.VersionIndex + 1\n\t}\n\n\treturn next.VersionIndex + 1\n}\n",
				ExpectRule: "A5", ExpectConstruct: "window@Compute bound"},
			{Name: "bound-last-version-excluded", File: cmp,
				Find:       "\t\treturn child[len(child)-1].VersionIndex + 1\n",
				Replace:    "\t\treturn child[len(child)-1].VersionIndex\n",
				ExpectRule: "A5", ExpectConstruct: "window@Compute bound"},
			// ---- round 5: the grouping method
			{Name: "groupby-last-group-dropped", File: cmp,
				Find:       "\tvar result []childLocs\n\n\tfor len(locs) > 0 {\n\t\tp := locs[0].Parent\n\t\tend := 0\n\n\t\tfor end < len(locs) && locs[end].Parent == p {\n\t\t\tend++\n\t\t}\n\n\t\tresult = append(result, locs[:end])\n\t\tlocs = locs[end:]\n\t}\n\n\treturn result\n",
				Replace:    "\tvar result []childLocs\n\tstart := 0\n\tfor i := 1; i < len(locs); i++ {\n\t\tif locs[i].Parent != locs[i-1].Parent {\n\t\t\tresult = append(result, locs[start:i])\n\t\t\tstart = i\n\t\t}\n\t}\n\n\treturn result\n",
				ExpectRule: "A5", ExpectConstruct: "group@childLocs.GroupByParent"},
			{Name: "groupby-boundary-against-list-head", File: cmp,
				Find:       "\tvar result []childLocs\n\n\tfor len(locs) > 0 {\n\t\tp := locs[0].Parent\n\t\tend := 0\n\n\t\tfor end < len(locs) && locs[end].Parent == p {\n\t\t\tend++\n\t\t}\n\n\t\tresult = append(result, locs[:end])\n\t\tlocs = locs[end:]\n\t}\n\n\treturn result\n",
				Replace:    "\tvar result []childLocs\n\n\tstart := 0\n\tfor end := 1; end <= len(locs); end++ {\n\t\tif end == len(locs) || locs[end].Parent != locs[0].Parent {\n\t\t\tresult = append(result, locs[start:end])\n\t\t\tstart = end\n\t\t}\n\t}\n\n\treturn result\n",
				ExpectRule: "A5", ExpectConstruct: "group@childLocs.GroupByParent"},
			{Name: "groupby-run-split-at-list-end", File: cmp,
				Find:       "for end < len(locs) && locs[end].Parent == p {",
				Replace:    "for end < len(locs)-1 && locs[end].Parent == p {",
				ExpectRule: "A5", ExpectConstruct: "group@childLocs.GroupByParent"},
			{Name: "groupby-groups-in-reverse", File: cmp,
				Find:       "\t\tresult = append(result, locs[:end])\n",
				Replace:    "\t\tresult = append([]childLocs{locs[:end]}, result...)\n",
				ExpectRule: "A5", ExpectConstruct: "group@childLocs.GroupByParent"},
			{Name: "groupby-markers-run-never-restarts", File: cmp,
				Find:       "\tvar result []childLocs\n\n\tfor len(locs) > 0 {\n\t\tp := locs[0].Parent\n\t\tend := 0\n\n\t\tfor end < len(locs) && locs[end].Parent == p {\n\t\t\tend++\n\t\t}\n\n\t\tresult = append(result, locs[:end])\n\t\tlocs = locs[end:]\n\t}\n\n\treturn result\n",
				Replace:    "\tvar result []childLocs\n\n\tstart := 0\n\tfor end := 1; end <= len(locs); end++ {\n\t\tif end == len(locs) || locs[end].Parent != locs[start].Parent {\n\t\t\tresult = append(result, locs[start:end])\n\t\t}\n\t}\n\n\treturn result\n",
				ExpectRule: "A5", ExpectConstruct: "group@childLocs.GroupByParent"},
			// ---- round 6: defects seeded into the new representations
			{Name: "sorter-field-wired-to-timestamp-order", File: "update.go",
				Find:       "type updatesSortIndex Updates\n\n// SortByIndex will sort the updates by index in ascending order.\nfunc (us Updates) SortByIndex()           { sort.Sort(updatesSortIndex(us)) }\nfunc (us updatesSortIndex) Len() int      { return len(us) }\nfunc (us updatesSortIndex) Swap(i, j int) { us[i], us[j] = us[j], us[i] }\nfunc (us updatesSortIndex) Less(i, j int) bool {\n\tif us[i].Index != us[j].Index {\n\t\treturn us[i].Index < us[j].Index\n\t}\n\n\tif !us[i].Timestamp.Equal(us[j].Timestamp) {\n\t\treturn us[i].Timestamp.Before(us[j].Timestamp)\n\t}\n\n\treturn us[i].Version < us[j].Version\n}\n",
				Replace:    "// updatesSorter sorts updates by the order it carries.\ntype updatesSorter struct {\n\tlist  Updates\n\torder func(a, b *Update) bool\n}\n\nfunc (s updatesSorter) Len() int           { return len(s.list) }\nfunc (s updatesSorter) Swap(i, j int)      { s.list[i], s.list[j] = s.list[j], s.list[i] }\nfunc (s updatesSorter) Less(i, j int) bool { return s.order(&s.list[i], &s.list[j]) }\n\n// SortByIndex will sort the updates by index in ascending order.\nfunc (us Updates) SortByIndex() { sort.Sort(updatesSorter{list: us, order: byTime}) }\n\nfunc byTime(a, b *Update) bool { return a.Timestamp.Before(b.Timestamp) }\n\nfunc byIndexTimeVersion(a, b *Update) bool {\n\tswitch {\n\tcase a.Index != b.Index:\n\t\treturn a.Index < b.Index\n\tcase a.Timestamp.Equal(b.Timestamp):\n\t\treturn a.Version < b.Version\n\t}\n\treturn byTime(a, b)\n}\n",
				ExpectRule: "A6", ExpectConstruct: "order@Updates.SortByIndex"},
			{Name: "sorter-field-order-drops-version", File: "update.go",
				Find:       "type updatesSortIndex Updates\n\n// SortByIndex will sort the updates by index in ascending order.\nfunc (us Updates) SortByIndex()           { sort.Sort(updatesSortIndex(us)) }\nfunc (us updatesSortIndex) Len() int      { return len(us) }\nfunc (us updatesSortIndex) Swap(i, j int) { us[i], us[j] = us[j], us[i] }\nfunc (us updatesSortIndex) Less(i, j int) bool {\n\tif us[i].Index != us[j].Index {\n\t\treturn us[i].Index < us[j].Index\n\t}\n\n\tif !us[i].Timestamp.Equal(us[j].Timestamp) {\n\t\treturn us[i].Timestamp.Before(us[j].Timestamp)\n\t}\n\n\treturn us[i].Version < us[j].Version\n}\n",
				Replace:    "// updatesSorter sorts updates by the order it carries.\ntype updatesSorter struct {\n\tlist  Updates\n\torder func(a, b *Update) bool\n}\n\nfunc (s updatesSorter) Len() int           { return len(s.list) }\nfunc (s updatesSorter) Swap(i, j int)      { s.list[i], s.list[j] = s.list[j], s.list[i] }\nfunc (s updatesSorter) Less(i, j int) bool { return s.order(&s.list[i], &s.list[j]) }\n\n// SortByIndex will sort the updates by index in ascending order.\nfunc (us Updates) SortByIndex() { sort.Sort(updatesSorter{list: us, order: byIndexTimeVersion}) }\n\nfunc byTime(a, b *Update) bool { return a.Timestamp.Before(b.Timestamp) }\n\nfunc byIndexTimeVersion(a, b *Update) bool {\n\tswitch {\n\tcase a.Index != b.Index:\n\t\treturn a.Index < b.Index\n\t}\n\treturn byTime(a, b)\n}\n",
				ExpectRule: "A6", ExpectConstruct: "order@Updates.SortByIndex"},
			{Name: "sort-slice-closure-half-comparison", File: "update.go",
				Find:       "type updatesSortIndex Updates\n\n// SortByIndex will sort the updates by index in ascending order.\nfunc (us Updates) SortByIndex()           { sort.Sort(updatesSortIndex(us)) }\nfunc (us updatesSortIndex) Len() int      { return len(us) }\nfunc (us updatesSortIndex) Swap(i, j int) { us[i], us[j] = us[j], us[i] }\nfunc (us updatesSortIndex) Less(i, j int) bool {\n\tif us[i].Index != us[j].Index {\n\t\treturn us[i].Index < us[j].Index\n\t}\n\n\tif !us[i].Timestamp.Equal(us[j].Timestamp) {\n\t\treturn us[i].Timestamp.Before(us[j].Timestamp)\n\t}\n\n\treturn us[i].Version < us[j].Version\n}\n",
				Replace:    "// SortByIndex will sort the updates by index in ascending order.\nfunc (us Updates) SortByIndex() {\n\tsort.Slice(us, func(i, j int) bool {\n\t\ta, b := &us[i], &us[j]\n\t\tif a.Index != b.Index {\n\t\t\treturn a.Index < b.Index\n\t\t}\n\t\tif a.Timestamp.Before(b.Timestamp) {\n\t\t\treturn true\n\t\t}\n\t\treturn a.Version < b.Version\n\t})\n}\n",
				ExpectRule: "A6", ExpectConstruct: "order@Updates.SortByIndex"},
			{Name: "generic-builder-caller-forgets-sort", File: "annotate/datasource.go",
				Find:       "func relationsToChildList(relations osm.Relations) core.ChildList {\n\tif len(relations) == 0 {\n\t\treturn nil\n\t}\n\n\tlist := make(core.ChildList, len(relations))\n\trelations.SortByIDVersion()\n\tfor i, r := range relations {\n\t\tc := shared.FromRelation(r)\n\t\tc.VersionIndex = i\n\t\tlist[i] = c\n\t}\n\n\treturn list\n}\n",
				Replace:    "func relationsToChildList(relations osm.Relations) core.ChildList {\n\treturn buildChildren(len(relations), func(at int) *shared.Child { return shared.FromRelation(relations[at]) })\n}\n\n// buildChildren makes the list of n children, the i-th one produced by child(i).\nfunc buildChildren(n int, child func(at int) *shared.Child) core.ChildList {\n\tif n == 0 {\n\t\treturn nil\n\t}\n\n\tchildren := make(core.ChildList, n)\n\tfor at := 0; at < n; at++ {\n\t\tchildren[at] = child(at)\n\t\tchildren[at].VersionIndex = at\n\t}\n\n\treturn children\n}\n",
				ExpectRule: "A4", ExpectConstruct: "sorted@Relations"},
			{Name: "generic-builder-mirrored-index", File: "annotate/datasource.go",
				Find:       "func relationsToChildList(relations osm.Relations) core.ChildList {\n\tif len(relations) == 0 {\n\t\treturn nil\n\t}\n\n\tlist := make(core.ChildList, len(relations))\n\trelations.SortByIDVersion()\n\tfor i, r := range relations {\n\t\tc := shared.FromRelation(r)\n\t\tc.VersionIndex = i\n\t\tlist[i] = c\n\t}\n\n\treturn list\n}\n",
				Replace:    "func relationsToChildList(relations osm.Relations) core.ChildList {\n\trelations.SortByIDVersion()\n\treturn buildChildren(len(relations), func(at int) *shared.Child { return shared.FromRelation(relations[at]) })\n}\n\n// buildChildren makes the list of n children, the i-th one produced by child(i).\nfunc buildChildren(n int, child func(at int) *shared.Child) core.ChildList {\n\tif n == 0 {\n\t\treturn nil\n\t}\n\n\tchildren := make(core.ChildList, n)\n\tfor at := 0; at < n; at++ {\n\t\tchildren[at] = child(n - 1 - at)\n\t\tchildren[at].VersionIndex = at\n\t}\n\n\treturn children\n}\n",
				ExpectRule: "A4", ExpectConstruct: "index@Relations"},
			{Name: "struct-window-start-off-by-one", File: "annotate/internal/core/compute.go",
				Find:       "\t\t\tstart := 0\n\t\t\tif c != nil {\n\t\t\t\tstart = c.VersionIndex + 1\n\t\t\t} else {\n\t\t\t\t// current child is not defined, is next child\n\t\t\t\tnext := child.VersionBefore(timeThresholdParent(parent, 0))\n\t\t\t\tif next == nil {\n\t\t\t\t\tstart = 0\n\t\t\t\t} else {\n\t\t\t\t\tstart = next.VersionIndex + 1\n\t\t\t\t}\n\t\t\t}\n\n\t\t\tvar updates osm.Updates\n\t\t\tfor k := start; k < nextVersion; k++ {\n",
				Replace:    "\t\t\ttype span struct{ from, to int }\n\t\t\twindow := span{to: nextVersion}\n\t\t\tlookup := func() (*shared.Child, bool) {\n\t\t\t\tv := child.VersionBefore(timeThresholdParent(parent, 0))\n\t\t\t\treturn v, v != nil\n\t\t\t}\n\t\t\tif c != nil {\n\t\t\t\twindow.from = c.VersionIndex + 1\n\t\t\t} else if before, found := lookup(); found {\n\t\t\t\twindow.from = before.VersionIndex\n\t\t\t}\n\n\t\t\tvar updates osm.Updates\n\t\t\tfor k := window.from; k < window.to; k++ {\n",
				ExpectRule: "A5", ExpectConstruct: "window@Compute start"},
			{Name: "struct-window-found-flag-inverted", File: "annotate/internal/core/compute.go",
				Find:       "\t\t\tstart := 0\n\t\t\tif c != nil {\n\t\t\t\tstart = c.VersionIndex + 1\n\t\t\t} else {\n\t\t\t\t// current child is not defined, is next child\n\t\t\t\tnext := child.VersionBefore(timeThresholdParent(parent, 0))\n\t\t\t\tif next == nil {\n\t\t\t\t\tstart = 0\n\t\t\t\t} else {\n\t\t\t\t\tstart = next.VersionIndex + 1\n\t\t\t\t}\n\t\t\t}\n\n\t\t\tvar updates osm.Updates\n\t\t\tfor k := start; k < nextVersion; k++ {\n",
				Replace:    "\t\t\ttype span struct{ from, to int }\n\t\t\twindow := span{to: nextVersion}\n\t\t\tlookup := func() (*shared.Child, bool) {\n\t\t\t\tv := child.VersionBefore(timeThresholdParent(parent, 0))\n\t\t\t\treturn v, v != nil\n\t\t\t}\n\t\t\tif c != nil {\n\t\t\t\twindow.from = c.VersionIndex + 1\n\t\t\t} else if before, found := lookup(); !found {\n\t\t\t\twindow.from = before.VersionIndex + 1\n\t\t\t}\n\n\t\t\tvar updates osm.Updates\n\t\t\tfor k := window.from; k < window.to; k++ {\n",
				ExpectRule: "A5", ExpectConstruct: "window@Compute start"},
			{Name: "append-built-versionindex-after-append", File: "annotate/datasource.go",
				Find:       "\tlist := make(core.ChildList, len(nodes))\n\tnodes.SortByIDVersion()\n\tfor i, n := range nodes {\n\t\tc := shared.FromNode(n)\n\t\tc.VersionIndex = i\n\t\tlist[i] = c\n\t}\n",
				Replace:    "\tnodes.SortByIDVersion()\n\tlist := make(core.ChildList, 0, len(nodes))\n\tfor _, n := range nodes {\n\t\tc := shared.FromNode(n)\n\t\tlist = append(list, c)\n\t\tc.VersionIndex = len(list)\n\t}\n",
				ExpectRule: "A4", ExpectConstruct: "index@Nodes"},
			{Name: "refs-append-built-skips-elements", File: "annotate/way.go",
				Find:       "\tids := make(osm.FeatureIDs, len(w.Way.Nodes))\n\tannotated := make([]bool, len(w.Way.Nodes))\n\n\tfor i := range w.Way.Nodes {\n\t\tids[i] = w.Way.Nodes[i].FeatureID()\n\t\tannotated[i] = w.Way.Nodes[i].Version != 0\n\t}\n",
				Replace:    "\tvar (\n\t\tids       osm.FeatureIDs\n\t\tannotated = make([]bool, 0, len(w.Way.Nodes))\n\t)\n\n\tfor n := 0; n < len(w.Way.Nodes); n++ {\n\t\tnode := &w.Way.Nodes[n]\n\t\tif node.ID == 0 {\n\t\t\tcontinue\n\t\t}\n\t\tids = append(ids, node.FeatureID())\n\t\tannotated = append(annotated, node.Version != 0)\n\t}\n",
				ExpectRule: "A5", ExpectConstruct: "refs@(*parentWay).Refs"},
			// ---- round 7
			{Name: "reverse-flag-true-for-first-version", File: "annotate/datasource.go",
				Find:       "\t\tif i != 0 {\n\t\t\tc.ReverseOfPrevious = IsReverse(w, ways[i-1])\n\t\t}\n",
				Replace:    "\t\tc.ReverseOfPrevious = i == 0 || IsReverse(w, ways[i-1])\n",
				ExpectRule: "A4", ExpectConstruct: "reverse@Ways"},
			{Name: "reverse-flag-skipped-for-second-version", File: "annotate/datasource.go",
				Find:       "\t\tif i != 0 {\n\t\t\tc.ReverseOfPrevious = IsReverse(w, ways[i-1])\n\t\t}\n",
				Replace:    "\t\tc.ReverseOfPrevious = i > 1 && IsReverse(w, ways[i-1])\n",
				ExpectRule: "A4", ExpectConstruct: "reverse@Ways"},
			{Name: "reverse-flag-and-guard-dropped", File: "annotate/datasource.go",
				Find:       "\t\tif i != 0 {\n\t\t\tc.ReverseOfPrevious = IsReverse(w, ways[i-1])\n\t\t}\n",
				Replace:    "\t\tc.ReverseOfPrevious = len(ways) > 1 && IsReverse(w, ways[i-1])\n",
				ExpectRule: "A4", ExpectConstruct: "reverse@Ways"},
			{Name: "results-copy-sorted-through-stale-header", File: "annotate/internal/core/compute.go",
				Find:       "\tfor _, r := range results {\n\t\tr.SortByIndex()\n\t}\n",
				Replace:    "\tfor i, r := range results {\n\t\tif cap(r)-len(r) >= 32 {\n\t\t\tresults[i] = append(make(osm.Updates, 0, len(r)), r...)\n\t\t}\n\n\t\tr.SortByIndex()\n\t}\n",
				ExpectRule: "A6", ExpectConstruct: "sort@Compute"},
			{Name: "pointer-helper-index-from-first-location", File: "annotate/internal/core/compute.go",
				Find:       "\t\t\t\t\tfor _, cl := range locs {\n\t\t\t\t\t\tu := child[k].Update()\n\t\t\t\t\t\tu.Index = cl.Index\n\t\t\t\t\t\tupdates = append(updates, u)\n\t\t\t\t\t}\n",
				Replace:    "\t\t\t\t\temit := func(dst *osm.Updates, build func() osm.Update) {\n\t\t\t\t\t\tfor range locs {\n\t\t\t\t\t\t\tu := build()\n\t\t\t\t\t\t\tu.Index = locs[0].Index\n\t\t\t\t\t\t\t*dst = append(*dst, u)\n\t\t\t\t\t\t}\n\t\t\t\t\t}\n\t\t\t\t\temit(&updates, child[k].Update)\n",
				ExpectRule: "A5", ExpectConstruct: "window@Compute update-index"},
			// ---- round 8
			{Name: "second-pass-starts-at-two", File: "annotate/datasource.go",
				Find:       "\t\tif i != 0 {\n\t\t\tc.ReverseOfPrevious = IsReverse(w, ways[i-1])\n\t\t}\n\n\t\tlist[i] = c\n\t}\n\n\treturn list\n",
				Replace:    "\t\tlist[i] = c\n\t}\n\n\tfor i := 2; i < len(list); i++ {\n\t\tlist[i].ReverseOfPrevious = IsReverse(ways[i], ways[i-1])\n\t}\n\n\treturn list\n",
				ExpectRule: "A4", ExpectConstruct: "reverse@Ways"},
			{Name: "second-pass-compares-with-itself", File: "annotate/datasource.go",
				Find:       "\t\tif i != 0 {\n\t\t\tc.ReverseOfPrevious = IsReverse(w, ways[i-1])\n\t\t}\n\n\t\tlist[i] = c\n\t}\n\n\treturn list\n",
				Replace:    "\t\tlist[i] = c\n\t}\n\n\tfor i := 1; i < len(list); i++ {\n\t\tlist[i].ReverseOfPrevious = IsReverse(ways[i], ways[i])\n\t}\n\n\treturn list\n",
				ExpectRule: "A4", ExpectConstruct: "reverse@Ways"},
			{Name: "second-pass-skipped-on-short-lists", File: "annotate/datasource.go",
				Find:       "\t\tif i != 0 {\n\t\t\tc.ReverseOfPrevious = IsReverse(w, ways[i-1])\n\t\t}\n\n\t\tlist[i] = c\n\t}\n\n\treturn list\n",
				Replace:    "\t\tlist[i] = c\n\t}\n\n\tif len(list) < 3 {\n\t\treturn list\n\t}\n\n\tfor i := 1; i < len(list); i++ {\n\t\tlist[i].ReverseOfPrevious = IsReverse(ways[i], ways[i-1])\n\t}\n\n\treturn list\n",
				ExpectRule: "A4", ExpectConstruct: "reverse@Ways"},
			{Name: "second-pass-stops-one-early", File: "annotate/datasource.go",
				Find:       "\t\tif i != 0 {\n\t\t\tc.ReverseOfPrevious = IsReverse(w, ways[i-1])\n\t\t}\n\n\t\tlist[i] = c\n\t}\n\n\treturn list\n",
				Replace:    "\t\tlist[i] = c\n\t}\n\n\tfor i := 1; i < len(list)-1; i++ {\n\t\tlist[i].ReverseOfPrevious = IsReverse(ways[i], ways[i-1])\n\t}\n\n\treturn list\n",
				ExpectRule: "A4", ExpectConstruct: "reverse@Ways"},
			{Name: "second-pass-flags-previous-element", File: "annotate/datasource.go",
				Find:       "\t\tif i != 0 {\n\t\t\tc.ReverseOfPrevious = IsReverse(w, ways[i-1])\n\t\t}\n\n\t\tlist[i] = c\n\t}\n\n\treturn list\n",
				Replace:    "\t\tlist[i] = c\n\t}\n\n\tfor i := 1; i < len(list); i++ {\n\t\tlist[i-1].ReverseOfPrevious = IsReverse(ways[i], ways[i-1])\n\t}\n\n\treturn list\n",
				ExpectRule: "A4", ExpectConstruct: "reverse@Ways"},
			{Name: "threshold-zero-keeps-default", File: "annotate/options.go",
				Find:       "\t\to.Threshold = t\n\t\treturn nil\n",
				Replace:    "\t\tif t > 0 {\n\t\t\to.Threshold = t\n\t\t}\n\n\t\treturn nil\n",
				ExpectRule: "A2", ExpectConstruct: "option@Threshold"},
			{Name: "threshold-nonzero-only", File: "annotate/options.go",
				Find:       "\t\to.Threshold = t\n\t\treturn nil\n",
				Replace:    "\t\tif t != 0 {\n\t\t\to.Threshold = t\n\t\t}\n\n\t\treturn nil\n",
				ExpectRule: "A2", ExpectConstruct: "option@Threshold"},
			{Name: "each-callback-stops-after-first-location", File: cmp,
				Find:       "\t\t\t// nextVersionIndex figures out what version of this child\n\t\t\t// is present in the next parent version\n\t\t\tnextVersion := nextVersionIndex(c, child, nextParent, opts)\n\n\t\t\tstart := 0\n\t\t\tif c != nil {\n\t\t\t\tstart = c.VersionIndex + 1\n\t\t\t} else {\n\t\t\t\t// current child is not defined, is next child\n\t\t\t\tnext := child.VersionBefore(timeThresholdParent(parent, 0))\n\t\t\t\tif next == nil {\n\t\t\t\t\tstart = 0\n\t\t\t\t} else {\n\t\t\t\t\tstart = next.VersionIndex + 1\n\t\t\t\t}\n\t\t\t}\n\n\t\t\tvar updates osm.Updates\n\t\t\tfor k := start; k < nextVersion; k++ {\n\t\t\t\tif child[k].Visible {\n\t\t\t\t\t// It's possible for this child to be present at multiple locations in the parent\n\t\t\t\t\tfor _, cl := range locs {\n\t\t\t\t\t\tu := child[k].Update()\n\t\t\t\t\t\tu.Index = cl.Index\n\t\t\t\t\t\tupdates = append(updates, u)\n\t\t\t\t\t}\n\t\t\t\t} else {\n\t\t\t\t\t// A child has become not-visible between parent version.\n\t\t\t\t\t// This is a data inconsistency that can happen in old data\n\t\t\t\t\t// i.e. pre element versioning.\n\t\t\t\t\t//\n\t\t\t\t\t// see node 321452894, changed 7 times in\n\t\t\t\t\t// the same changeset, version 5 was a delete. (also node 65172196)\n\t\t\t\t\tif !opts.IgnoreInconsistency {\n\t\t\t\t\t\treturn nil, fmt.Errorf(\"%v: %v: child deleted between parent versions\",\n\t\t\t\t\t\t\tparent.ID(), fid)\n\t\t\t\t\t}\n\t\t\t\t}\n\t\t\t}\n\n\t\t\t// we have what we need for this parent version.\n\t\t\tresults[parentIndex] = append(results[parentIndex], updates...)\n\t\t}\n\t}\n\n\tfor _, r := range results {\n\t\tr.SortByIndex()\n\t}\n\n\treturn results, nil\n}\n\n",
				Replace:    "\t\t\twin := windowOf(c, child, parent, nextParent, opts)\n\n\t\t\tvar updates osm.Updates\n\t\t\tem := emitter{into: &updates, locs: locs}\n\t\t\tk := win.from\n\t\twindow:\n\t\t\tfor {\n\t\t\t\tswitch {\n\t\t\t\tcase k >= win.to:\n\t\t\t\t\tbreak window\n\t\t\t\tcase child[k].Visible:\n\t\t\t\t\tem.emit(child[k])\n\t\t\t\tcase !opts.IgnoreInconsistency:\n\t\t\t\t\treturn nil, fmt.Errorf(\"%v: %v: child deleted between parent versions\",\n\t\t\t\t\t\tparent.ID(), fid)\n\t\t\t\t}\n\t\t\t\tk++\n\t\t\t}\n\n\t\t\t// we have what we need for this parent version.\n\t\t\tresults[parentIndex] = append(results[parentIndex], updates...)\n\t\t}\n\t}\n\n\tfor _, r := range results {\n\t\tr.SortByIndex()\n\t}\n\n\treturn results, nil\n}\n\n// span is the half open range of child versions that are minor versions of a parent.\ntype span struct{ from, to int }\n\nfunc windowOf(c *shared.Child, child ChildList, parent, nextParent Parent, opts *Options) (w span) {\n\tw.to = nextVersionIndex(c, child, nextParent, opts)\n\tif c == nil {\n\t\tc = child.VersionBefore(timeThresholdParent(parent, 0))\n\t}\n\tif c != nil {\n\t\tw.from = c.VersionIndex + 1\n\t}\n\treturn\n}\n\n// emitter appends one update per location.\ntype emitter struct {\n\tinto *osm.Updates\n\tlocs childLocs\n}\n\nfunc (e *emitter) emit(c *shared.Child) {\n\te.locs.each(func(cl childLoc) bool {\n\t\tu := c.Update()\n\t\tu.Index = cl.Index\n\t\t*e.into = append(*e.into, u)\n\t\treturn false\n\t})\n}\n\n// each calls f for every location until it returns false.\nfunc (locs childLocs) each(f func(childLoc) bool) {\n\tfor _, cl := range locs {\n\t\tif !f(cl) {\n\t\t\treturn\n\t\t}\n\t}\n}\n\n",
				ExpectRule: "A5", ExpectConstruct: "window@Compute update-index"},
			// ---- round 9
			{Name: "location-map-reused-not-emptied", File: cmp,
				Find:       "// mapChildLocs builds a cache of a where a child is in a set of parents.\nfunc mapChildLocs(parents []Parent, filter func(osm.FeatureID) bool) map[osm.FeatureID]childLocs {\n\tresult := make(map[osm.FeatureID]childLocs)\n",
				Replace:    "// spareChildLocs is the location map of the previous call, kept for its buckets.\nvar spareChildLocs = make(map[osm.FeatureID]childLocs)\n\n// mapChildLocs builds a cache of a where a child is in a set of parents.\nfunc mapChildLocs(parents []Parent, filter func(osm.FeatureID) bool) map[osm.FeatureID]childLocs {\n\tresult := spareChildLocs\n",
				ExpectRule: "A5", ExpectConstruct: "loc@Compute"},
			{Name: "location-map-reused-partly-emptied", File: cmp,
				Find:       "// mapChildLocs builds a cache of a where a child is in a set of parents.\nfunc mapChildLocs(parents []Parent, filter func(osm.FeatureID) bool) map[osm.FeatureID]childLocs {\n\tresult := make(map[osm.FeatureID]childLocs)\n",
				Replace:    "// spareChildLocs is the location map of the previous call, kept for its buckets.\nvar spareChildLocs = make(map[osm.FeatureID]childLocs)\n\n// mapChildLocs builds a cache of a where a child is in a set of parents.\nfunc mapChildLocs(parents []Parent, filter func(osm.FeatureID) bool) map[osm.FeatureID]childLocs {\n\tresult := spareChildLocs\n\tfor stale, locs := range result {\n\t\tif len(locs) == 0 {\n\t\t\tdelete(result, stale)\n\t\t}\n\t}\n",
				ExpectRule: "A5", ExpectConstruct: "loc@Compute"},
			{Name: "second-unguarded-read-of-first-version", File: cmp,
				Find:       "\t\t// missing at current and next parent.\n\t\treturn 0 // no updates.",
				Replace:    "\t\t// missing at current and next parent.\n\t\treturn child[0].VersionIndex // no updates.",
				ExpectRule: "A7", ExpectConstruct: "nonempty@Compute child[0]"},
			{Name: "second-to-last-version-read-after-nonempty-check", File: cmp,
				Find:       "\t\treturn child[len(child)-1].VersionIndex + 1\n",
				Replace:    "\t\tif len(child) > 0 && child[len(child)-2].Visible {\n\t\t\treturn len(child)\n\t\t}\n\t\treturn child[len(child)-1].VersionIndex + 1\n",
				ExpectRule: "A7", ExpectConstruct: "nonempty@Compute child[len(child)-2]"},
			// ---- round 10
			{Name: "sort-skipped-on-non-strict-order", File: "annotate/datasource.go",
				Find:       "func relationsToChildList(relations osm.Relations) core.ChildList {\n\tif len(relations) == 0 {\n\t\treturn nil\n\t}\n\n\tlist := make(core.ChildList, len(relations))\n\trelations.SortByIDVersion()\n\tfor i, r := range relations {\n\t\tc := shared.FromRelation(r)\n\t\tc.VersionIndex = i\n\t\tlist[i] = c\n\t}\n\n\treturn list\n}\n",
				Replace:    "func relationsToChildList(relations osm.Relations) core.ChildList {\n\tif len(relations) == 0 {\n\t\treturn nil\n\t}\n\n\tlist := make(core.ChildList, len(relations))\n\tif !relationsAscending(relations) {\n\t\trelations.SortByIDVersion()\n\t}\n\tfor i, r := range relations {\n\t\tc := shared.FromRelation(r)\n\t\tc.VersionIndex = i\n\t\tlist[i] = c\n\t}\n\n\treturn list\n}\n\n// relationsAscending reports whether the versions already are in strictly ascending order.\nfunc relationsAscending(rs osm.Relations) bool {\n\tfor i := 1; i < len(rs); i++ {\n\t\tprev, cur := rs[i-1], rs[i]\n\t\tif prev == nil || cur == nil {\n\t\t\treturn false\n\t\t}\n\n\t\tif prev.ID < cur.ID || (prev.ID == cur.ID && prev.Version <= cur.Version) {\n\t\t\tcontinue\n\t\t}\n\n\t\treturn false\n\t}\n\n\treturn true\n}\n",
				ExpectRule: "A4", ExpectConstruct: "sorted@Relations"},
			{Name: "sort-skip-check-misses-first-pair", File: "annotate/datasource.go",
				Find:       "func relationsToChildList(relations osm.Relations) core.ChildList {\n\tif len(relations) == 0 {\n\t\treturn nil\n\t}\n\n\tlist := make(core.ChildList, len(relations))\n\trelations.SortByIDVersion()\n\tfor i, r := range relations {\n\t\tc := shared.FromRelation(r)\n\t\tc.VersionIndex = i\n\t\tlist[i] = c\n\t}\n\n\treturn list\n}\n",
				Replace:    "func relationsToChildList(relations osm.Relations) core.ChildList {\n\tif len(relations) == 0 {\n\t\treturn nil\n\t}\n\n\tlist := make(core.ChildList, len(relations))\n\tif !relationsAscending(relations) {\n\t\trelations.SortByIDVersion()\n\t}\n\tfor i, r := range relations {\n\t\tc := shared.FromRelation(r)\n\t\tc.VersionIndex = i\n\t\tlist[i] = c\n\t}\n\n\treturn list\n}\n\n// relationsAscending reports whether the versions already are in strictly ascending order.\nfunc relationsAscending(rs osm.Relations) bool {\n\tfor i := 2; i < len(rs); i++ {\n\t\tprev, cur := rs[i-1], rs[i]\n\t\tif prev == nil || cur == nil {\n\t\t\treturn false\n\t\t}\n\n\t\tif prev.ID < cur.ID || (prev.ID == cur.ID && prev.Version < cur.Version) {\n\t\t\tcontinue\n\t\t}\n\n\t\treturn false\n\t}\n\n\treturn true\n}\n",
				ExpectRule: "A4", ExpectConstruct: "sorted@Relations"},
			{Name: "sort-skip-check-ignores-version", File: "annotate/datasource.go",
				Find:       "func relationsToChildList(relations osm.Relations) core.ChildList {\n\tif len(relations) == 0 {\n\t\treturn nil\n\t}\n\n\tlist := make(core.ChildList, len(relations))\n\trelations.SortByIDVersion()\n\tfor i, r := range relations {\n\t\tc := shared.FromRelation(r)\n\t\tc.VersionIndex = i\n\t\tlist[i] = c\n\t}\n\n\treturn list\n}\n",
				Replace:    "func relationsToChildList(relations osm.Relations) core.ChildList {\n\tif len(relations) == 0 {\n\t\treturn nil\n\t}\n\n\tlist := make(core.ChildList, len(relations))\n\tif !relationsAscending(relations) {\n\t\trelations.SortByIDVersion()\n\t}\n\tfor i, r := range relations {\n\t\tc := shared.FromRelation(r)\n\t\tc.VersionIndex = i\n\t\tlist[i] = c\n\t}\n\n\treturn list\n}\n\n// relationsAscending reports whether the versions already are in strictly ascending order.\nfunc relationsAscending(rs osm.Relations) bool {\n\tfor i := 1; i < len(rs); i++ {\n\t\tprev, cur := rs[i-1], rs[i]\n\t\tif prev == nil || cur == nil {\n\t\t\treturn false\n\t\t}\n\n\t\tif prev.ID <= cur.ID {\n\t\t\tcontinue\n\t\t}\n\n\t\treturn false\n\t}\n\n\treturn true\n}\n",
				ExpectRule: "A4", ExpectConstruct: "sorted@Relations"},
			{Name: "updates-sort-fast-path-too-wide", File: "update.go",
				Find:       "func (us Updates) SortByIndex()           { sort.Sort(updatesSortIndex(us)) }\n",
				Replace:    "func (us Updates) SortByIndex() {\n\tif len(us) < 3 {\n\t\treturn\n\t}\n\n\tsort.Sort(updatesSortIndex(us))\n}\n",
				ExpectRule: "A6", ExpectConstruct: "anchor"},
			{Name: "scratch-aliased-into-results", File: "annotate/internal/core/compute.go",
				Find:       "\tresults := make([]osm.Updates, len(parents))\n\tfor fid, locations := range mapChildLocs(parents, opts.ChildFilter) {\n\t\tchild, err := histories.Get(ctx, fid)\n\t\tif err != nil {\n\t\t\tif !histories.NotFound(err) {\n\t\t\t\treturn nil, err\n\t\t\t}\n\n\t\t\tif opts.IgnoreMissingChildren {\n\t\t\t\tcontinue\n\t\t\t}\n\n\t\t\treturn nil, &NoHistoryError{ChildID: fid}\n\t\t}\n\n\t\tfor _, locs := range locations.GroupByParent() {\n\t\t\t// figure out the parent and the next parent\n\t\t\tparentIndex := locs[0].Parent\n\t\t\tparent := parents[parentIndex]\n\t\t\tif !parent.Visible() {\n\t\t\t\tcontinue\n\t\t\t}\n\n\t\t\tvar nextParent Parent\n\t\t\tif parentIndex < len(parents)-1 {\n\t\t\t\tnextParent = parents[parentIndex+1]\n\t\t\t}\n\n\t\t\t// get the current child\n\t\t\tc := child.FindVisible(\n\t\t\t\tparent.ChangesetID(),\n\t\t\t\ttimeThresholdParent(parent, 0),\n\t\t\t\topts.Threshold,\n\t\t\t)\n\t\t\tif c == nil && !opts.IgnoreInconsistency {\n\t\t\t\treturn nil, &NoVisibleChildError{\n\t\t\t\t\tChildID:   fid,\n\t\t\t\t\tTimestamp: timeThresholdParent(parent, 0)}\n\t\t\t}\n\n\t\t\t// straight up set this child on major version\n\t\t\tfor _, cl := range locs {\n\t\t\t\tparent.SetChild(cl.Index, c)\n\t\t\t}\n\n\t\t\t// nextVersionIndex figures out what version of this child\n\t\t\t// is present in the next parent version\n\t\t\tnextVersion := nextVersionIndex(c, child, nextParent, opts)\n\n\t\t\tstart := 0\n\t\t\tif c != nil {\n\t\t\t\tstart = c.VersionIndex + 1\n\t\t\t} else {\n\t\t\t\t// current child is not defined, is next child\n\t\t\t\tnext := child.VersionBefore(timeThresholdParent(parent, 0))\n\t\t\t\tif next == nil {\n\t\t\t\t\tstart = 0\n\t\t\t\t} else {\n\t\t\t\t\tstart = next.VersionIndex + 1\n\t\t\t\t}\n\t\t\t}\n\n\t\t\tvar updates osm.Updates\n\t\t\tfor k := start; k < nextVersion; k++ {\n\t\t\t\tif child[k].Visible {\n\t\t\t\t\t// It's possible for this child to be present at multiple locations in the parent\n\t\t\t\t\tfor _, cl := range locs {\n\t\t\t\t\t\tu := child[k].Update()\n\t\t\t\t\t\tu.Index = cl.Index\n\t\t\t\t\t\tupdates = append(updates, u)\n\t\t\t\t\t}\n\t\t\t\t} else {\n\t\t\t\t\t// A child has become not-visible between parent version.\n\t\t\t\t\t// This is a data inconsistency that can happen in old data\n\t\t\t\t\t// i.e. pre element versioning.\n\t\t\t\t\t//\n\t\t\t\t\t// see node 321452894, changed 7 times in\n\t\t\t\t\t// the same changeset, version 5 was a delete. (also node 65172196)\n\t\t\t\t\tif !opts.IgnoreInconsistency {\n\t\t\t\t\t\treturn nil, fmt.Errorf(\"%v: %v: child deleted between parent versions\",\n\t\t\t\t\t\t\tparent.ID(), fid)\n\t\t\t\t\t}\n\t\t\t\t}\n\t\t\t}\n\n\t\t\t// we have what we need for this parent version.\n\t\t\tresults[parentIndex] = append(results[parentIndex], updates...)\n",
				Replace:    "\tresults := make([]osm.Updates, len(parents))\n\n\t// scratch holds the updates of one child for one parent version, its contents are copied into results.\n\tvar scratch osm.Updates\n\tfor fid, locations := range mapChildLocs(parents, opts.ChildFilter) {\n\t\tchild, err := histories.Get(ctx, fid)\n\t\tif err != nil {\n\t\t\tif !histories.NotFound(err) {\n\t\t\t\treturn nil, err\n\t\t\t}\n\n\t\t\tif opts.IgnoreMissingChildren {\n\t\t\t\tcontinue\n\t\t\t}\n\n\t\t\treturn nil, &NoHistoryError{ChildID: fid}\n\t\t}\n\n\t\tfor _, locs := range locations.GroupByParent() {\n\t\t\t// figure out the parent and the next parent\n\t\t\tparentIndex := locs[0].Parent\n\t\t\tparent := parents[parentIndex]\n\t\t\tif !parent.Visible() {\n\t\t\t\tcontinue\n\t\t\t}\n\n\t\t\tvar nextParent Parent\n\t\t\tif parentIndex < len(parents)-1 {\n\t\t\t\tnextParent = parents[parentIndex+1]\n\t\t\t}\n\n\t\t\t// get the current child\n\t\t\tc := child.FindVisible(\n\t\t\t\tparent.ChangesetID(),\n\t\t\t\ttimeThresholdParent(parent, 0),\n\t\t\t\topts.Threshold,\n\t\t\t)\n\t\t\tif c == nil && !opts.IgnoreInconsistency {\n\t\t\t\treturn nil, &NoVisibleChildError{\n\t\t\t\t\tChildID:   fid,\n\t\t\t\t\tTimestamp: timeThresholdParent(parent, 0)}\n\t\t\t}\n\n\t\t\t// straight up set this child on major version\n\t\t\tfor _, cl := range locs {\n\t\t\t\tparent.SetChild(cl.Index, c)\n\t\t\t}\n\n\t\t\t// nextVersionIndex figures out what version of this child\n\t\t\t// is present in the next parent version\n\t\t\tnextVersion := nextVersionIndex(c, child, nextParent, opts)\n\n\t\t\tstart := 0\n\t\t\tif c != nil {\n\t\t\t\tstart = c.VersionIndex + 1\n\t\t\t} else {\n\t\t\t\t// current child is not defined, is next child\n\t\t\t\tnext := child.VersionBefore(timeThresholdParent(parent, 0))\n\t\t\t\tif next == nil {\n\t\t\t\t\tstart = 0\n\t\t\t\t} else {\n\t\t\t\t\tstart = next.VersionIndex + 1\n\t\t\t\t}\n\t\t\t}\n\n\t\t\tupdates := scratch[:0]\n\t\t\tfor k := start; k < nextVersion; k++ {\n\t\t\t\tif child[k].Visible {\n\t\t\t\t\t// It's possible for this child to be present at multiple locations in the parent\n\t\t\t\t\tfor _, cl := range locs {\n\t\t\t\t\t\tu := child[k].Update()\n\t\t\t\t\t\tu.Index = cl.Index\n\t\t\t\t\t\tupdates = append(updates, u)\n\t\t\t\t\t}\n\t\t\t\t} else {\n\t\t\t\t\t// A child has become not-visible between parent version.\n\t\t\t\t\t// This is a data inconsistency that can happen in old data\n\t\t\t\t\t// i.e. pre element versioning.\n\t\t\t\t\t//\n\t\t\t\t\t// see node 321452894, changed 7 times in\n\t\t\t\t\t// the same changeset, version 5 was a delete. (also node 65172196)\n\t\t\t\t\tif !opts.IgnoreInconsistency {\n\t\t\t\t\t\treturn nil, fmt.Errorf(\"%v: %v: child deleted between parent versions\",\n\t\t\t\t\t\t\tparent.ID(), fid)\n\t\t\t\t\t}\n\t\t\t\t}\n\t\t\t}\n\n\t\t\t// we have what we need for this parent version.\n\t\t\tif results[parentIndex] == nil {\n\t\t\t\tresults[parentIndex] = updates\n\t\t\t} else {\n\t\t\t\tresults[parentIndex] = append(results[parentIndex], updates...)\n\t\t\t}\n\t\t\tscratch = updates\n",
				ExpectRule: "A5", ExpectConstruct: "group@Compute results"},
		},
	})
}

func c11IsNilIdent(info *types.Info, e ast.Expr) bool {
	id, ok := ast.Unparen(e).(*ast.Ident)
	if !ok {
		return false
	}
	_, isNil := info.Uses[id].(*types.Nil)
	return isNil
}
