package rules

import (
	"go/ast"
	"go/token"
	"go/types"
)

// c09Build is one construction of an input pair that carries a blob: a keyed composite literal, or an assignment to
// the blob field of a pair variable (`pair.Blob = b`, `pair.Offset, pair.Blob = o, b`).
type c09Build struct {
	pos  token.Pos
	blob ast.Expr
	off  ast.Expr // nil: the offset is left at its zero value
	src  ast.Node
}

// c09Builds lists the pair constructions inside node n (a statement of function fi).
func c09Builds(m *pbfModel, f *c09Fields, n ast.Node, fi *FuncInfo) []c09Build {
	info := m.info
	var out []c09Build
	for _, cl := range c09Lits(info, n, f.inPairT) {
		if blob := c09LitField(info, cl, f.blobIn); blob != nil {
			out = append(out, c09Build{pos: cl.Pos(), blob: blob, off: c09LitField(info, cl, f.pairOffsetIn), src: cl})
		}
	}
	as, ok := n.(*ast.AssignStmt)
	if !ok || len(as.Lhs) != len(as.Rhs) {
		return out
	}
	for i, l := range as.Lhs {
		if fieldOf(info, l) != f.blobIn {
			continue
		}
		v := rootObj(info, l)
		if v == nil || c09NamedOf(v.Type()) != f.inPairT {
			continue
		}
		b := c09Build{pos: as.Pos(), blob: as.Rhs[i], src: as}
		// the offset given to the same variable: in this statement, else the only such assignment in the function
		var offs []ast.Expr
		collect := func(s *ast.AssignStmt) {
			if len(s.Lhs) != len(s.Rhs) {
				return
			}
			for j, l2 := range s.Lhs {
				if fieldOf(info, l2) == f.pairOffsetIn && rootObj(info, l2) == v {
					offs = append(offs, s.Rhs[j])
				}
			}
		}
		collect(as)
		if len(offs) == 0 && fi != nil {
			ast.Inspect(fi.Decl.Body, func(x ast.Node) bool {
				if s, ok := x.(*ast.AssignStmt); ok && s != as {
					collect(s)
				}
				return true
			})
		}
		if len(offs) == 1 {
			b.off = offs[0]
		} else if len(offs) > 1 {
			b.off = &ast.BadExpr{From: as.Pos(), To: as.End()} // ambiguous: not a load of the counter
		}
		out = append(out, b)
	}
	return out
}

// c09CarriedBlobs lists the blob expressions a sent value can carry: of the literals in it, and, for a variable, of
// its defining literals and of the assignments to its blob field.
func c09CarriedBlobs(m *pbfModel, f *c09Fields, e ast.Expr, seen map[types.Object]bool) []ast.Expr {
	info := m.info
	var out []ast.Expr
	for _, cl := range c09Lits(info, e, f.inPairT) {
		if b := c09LitField(info, cl, f.blobIn); b != nil {
			out = append(out, b)
		}
	}
	o, ok := objOf(info, e).(*types.Var)
	if !ok || o.IsField() || seen[o] {
		return out
	}
	seen[o] = true
	for _, d := range m.defsOf(o) {
		if (d.kind == "assign" || d.kind == "arg") && d.e != nil {
			out = append(out, c09CarriedBlobs(m, f, d.e, seen)...)
		}
	}
	if fi := m.funcAt(o.Pos()); fi != nil {
		ast.Inspect(fi.Decl.Body, func(x ast.Node) bool {
			if as, ok := x.(*ast.AssignStmt); ok && len(as.Lhs) == len(as.Rhs) {
				for i, l := range as.Lhs {
					if fieldOf(info, l) == f.blobIn && rootObj(info, l) == types.Object(o) {
						out = append(out, as.Rhs[i])
					}
				}
			}
			return true
		})
	}
	return out
}
