package rules

import (
	"go/ast"
	"go/token"
	"go/types"
)

// c09Build is one construction of an input pair that carries a blob: a keyed composite literal, or an assignment to
// the blob field of a pair variable (`pair.Blob = b`, `pair.Offset, pair.Blob = o, b`).
type c09Build struct {
	pos  token.Pos
	blob ast.Expr
	off  ast.Expr // nil: the offset is left at its zero value
	src  ast.Node
}

// c09Builds lists the pair constructions inside node n (a statement of function fi).
func c09Builds(m *pbfModel, f *c09Fields, n ast.Node, fi *FuncInfo) []c09Build {
	info := m.info
	var out []c09Build
	for _, cl := range c09Lits(info, n, f.inPairT) {
		if blob := c09LitField(info, cl, f.blobIn); blob != nil {
			out = append(out, c09Build{pos: cl.Pos(), blob: blob, off: c09LitField(info, cl, f.pairOffsetIn), src: cl})
		}
	}
	as, ok := n.(*ast.AssignStmt)
	if !ok || len(as.Lhs) != len(as.Rhs) {
		return out
	}
	for i, l := range as.Lhs {
		if fieldOf(info, l) != f.blobIn {
			continue
		}
		v := rootObj(info, l)
		if v == nil || c09NamedOf(v.Type()) != f.inPairT {
			continue
		}
		b := c09Build{pos: as.Pos(), blob: as.Rhs[i], src: as}
		// the offset given to the same variable: in this statement, else the only such assignment in the function
		var offs []ast.Expr
		collect := func(s *ast.AssignStmt) {
			if len(s.Lhs) != len(s.Rhs) {
				return
			}
			for j, l2 := range s.Lhs {
				if fieldOf(info, l2) == f.pairOffsetIn && rootObj(info, l2) == v {
					offs = append(offs, s.Rhs[j])
				}
			}
		}
		collect(as)
		if len(offs) == 0 && fi != nil {
			ast.Inspect(fi.Decl.Body, func(x ast.Node) bool {
				if s, ok := x.(*ast.AssignStmt); ok && s != as {
					collect(s)
				}
				return true
			})
		}
		if len(offs) == 1 {
			b.off = offs[0]
		} else if len(offs) > 1 {
			b.off = &ast.BadExpr{From: as.Pos(), To: as.End()} // ambiguous: not a load of the counter
		}
		out = append(out, b)
	}
	return out
}

// c09CarriedBlobs lists the blob expressions a sent value can carry: of the literals in it, and, for a variable, of
// its defining literals and of the assignments to its blob field.
func c09CarriedBlobs(m *pbfModel, f *c09Fields, e ast.Expr, seen map[types.Object]bool) []ast.Expr {
	info := m.info
	var out []ast.Expr
	for _, cl := range c09Lits(info, e, f.inPairT) {
		if b := c09LitField(info, cl, f.blobIn); b != nil {
			out = append(out, b)
		}
	}
	o, ok := objOf(info, e).(*types.Var)
	if !ok || o.IsField() || seen[o] {
		return out
	}
	seen[o] = true
	for _, d := range m.defsOf(o) {
		if (d.kind == "assign" || d.kind == "arg") && d.e != nil {
			out = append(out, c09CarriedBlobs(m, f, d.e, seen)...)
		}
	}
	if fi := m.funcAt(o.Pos()); fi != nil {
		ast.Inspect(fi.Decl.Body, func(x ast.Node) bool {
			if as, ok := x.(*ast.AssignStmt); ok && len(as.Lhs) == len(as.Rhs) {
				for i, l := range as.Lhs {
					if fieldOf(info, l) == f.blobIn && rootObj(info, l) == types.Object(o) {
						out = append(out, as.Rhs[i])
					}
				}
			}
			return true
		})
	}
	return out
}

// c09SentBuilds resolves a value that is sent to the workers back to the constructions of input pairs (with a blob) it
// can denote, wherever they are: literals in the expression, `&lit` / `*p`, locals and parameters (the argument at
// every call / go statement, which may lie in the spawner), results of declared functions (every return), and
// assignments to the blob field of a pair variable. fi is the function that lexically contains e.
func c09SentBuilds(m *pbfModel, f *c09Fields, e ast.Expr, fi *FuncInfo, seen map[types.Object]bool, depth int) []c09SentBuild {
	info := m.info
	var out []c09SentBuild
	if e == nil || depth > 10 {
		return nil
	}
	e = ast.Unparen(e)
	switch x := e.(type) {
	case *ast.CompositeLit:
		if t, ok := info.TypeOf(x).(*types.Named); ok && t == f.inPairT {
			if blob := c09LitField(info, x, f.blobIn); blob != nil {
				out = append(out, c09SentBuild{c09Build{pos: x.Pos(), blob: blob, off: c09LitField(info, x, f.pairOffsetIn), src: x}, fi})
			}
		}
		return out
	case *ast.UnaryExpr:
		if x.Op == token.AND {
			return c09SentBuilds(m, f, x.X, fi, seen, depth+1)
		}
		return nil
	case *ast.StarExpr:
		return c09SentBuilds(m, f, x.X, fi, seen, depth+1)
	case *ast.CallExpr:
		fn := callee(info, x)
		if fn == nil || m.funcs[fn] == nil {
			return nil
		}
		for _, ret := range m.returnsOf(m.funcs[fn], 0) {
			out = append(out, c09SentBuilds(m, f, ret, m.funcs[fn], seen, depth+1)...)
		}
		return out
	case *ast.Ident:
		o, ok := objOf(info, x).(*types.Var)
		if !ok || o.IsField() || seen[o] {
			return nil
		}
		seen[o] = true
		defer delete(seen, o)
		for _, d := range m.defsOf(o) {
			switch d.kind {
			case "assign", "arg":
				out = append(out, c09SentBuilds(m, f, d.e, d.fi, seen, depth+1)...)
			case "result":
				if call, ok := ast.Unparen(d.e).(*ast.CallExpr); ok {
					if fn := callee(info, call); fn != nil && m.funcs[fn] != nil {
						for _, ret := range m.returnsOf(m.funcs[fn], d.idx) {
							out = append(out, c09SentBuilds(m, f, ret, m.funcs[fn], seen, depth+1)...)
						}
					}
				}
			}
		}
		// field-wise construction of the variable
		if ofi := m.funcAt(o.Pos()); ofi != nil {
			ast.Inspect(ofi.Decl.Body, func(n ast.Node) bool {
				if as, ok := n.(*ast.AssignStmt); ok {
					for _, b := range c09Builds(m, f, as, ofi) {
						if b.src == ast.Node(as) {
							for _, l := range as.Lhs {
								if fieldOf(info, l) == f.blobIn && rootObj(info, l) == types.Object(o) {
									out = append(out, c09SentBuild{b, ofi})
								}
							}
						}
					}
				}
				return true
			})
		}
	}
	return out
}

// c09SentBuild is a pair construction together with the function that contains it.
type c09SentBuild struct {
	c09Build
	fi *FuncInfo
}
