package rules

import (
	"osmcheck/core"
)

func c18Benign() []core.Mutant {
	f := "polygon.go"
	return []core.Mutant{
		// class 1: extract function (loop and closedness become methods, membership becomes a shared helper)
		{Name: "extract-loop-and-ring-helpers", File: f, Find: c18SrcPrefix + "\n" + c18SrcLoop, Replace: c18ShapeHelpers},
		// class 2: if/else-if chain -> tagless switch; else-if on area -> two ifs
		{Name: "tagless-switch-and-split-area", File: f, Find: `	if area := w.Tags.Find("area"); area == "no" {
		return false
	} else if area != "" {
		return true
	}

	for _, c := range polyConditions {
		v := w.Tags.Find(c.Key)
		if v == "" || v == "no" {
			continue
		}

` + c18SrcChain, Replace: `	area := w.Tags.Find("area")
	if area == "no" {
		return false
	}
	if area != "" {
		return true
	}

	for _, c := range polyConditions {
		v := w.Tags.Find(c.Key)
		if v == "" || v == "no" {
			continue
		}

		switch {
		case c.Condition == conditionAll:
			return true
		case c.Condition == conditionWhitelist:
			index := sort.SearchStrings(c.Values, v)
			if index != len(c.Values) && c.Values[index] == v {
				return true
			}
		case c.Condition == conditionBlacklist:
			index := sort.SearchStrings(c.Values, v)
			if index == len(c.Values) || c.Values[index] != v {
				return true
			}
		}
`},
		// class 2: inverted branches, nesting instead of early return / continue, >= spelled the other way round
		{Name: "inverted-branches-nested", File: f, Find: c18SrcPrefix + "\n" + c18SrcLoop, Replace: `	if 3 < len(w.Nodes) && w.Nodes[len(w.Nodes)-1].ID == w.Nodes[0].ID {
		if area := w.Tags.Find("area"); area != "" {
			return !(area == "no")
		}

		for _, c := range polyConditions {
			if v := w.Tags.Find(c.Key); v != "" && v != "no" {
				if c.Condition != conditionAll {
					if c.Condition == conditionBlacklist {
						index := sort.SearchStrings(c.Values, v)
						if !(index < len(c.Values) && c.Values[index] == v) {
							return true
						}
					} else if c.Condition == conditionWhitelist {
						index := sort.SearchStrings(c.Values, v)
						if len(c.Values) > index && v == c.Values[index] {
							return true
						}
					}
				} else {
					return true
				}
			}
		}
	}

	return false
}
`},
		// class 2: merged guard clauses in the prefix, split guard clauses in the loop
		{Name: "merged-and-split-guards", File: f, Find: `	if len(w.Nodes) <= 3 {
		// need more than 3 nodes to be a polygon since first/last is repeated.
		return false
	}

	if w.Nodes[0].ID != w.Nodes[len(w.Nodes)-1].ID {
		// must be closed
		return false
	}

	if area := w.Tags.Find("area"); area == "no" {
		return false
	} else if area != "" {
		return true
	}

	for _, c := range polyConditions {
		v := w.Tags.Find(c.Key)
		if v == "" || v == "no" {
			continue
		}
`, Replace: `	if len(w.Nodes) <= 3 || w.Nodes[0].ID != w.Nodes[len(w.Nodes)-1].ID {
		return false
	}

	if area := w.Tags.Find("area"); area == "no" {
		return false
	} else if area != "" {
		return true
	}

	for _, c := range polyConditions {
		v := w.Tags.Find(c.Key)
		if v == "" {
			continue
		}
		if v == "no" {
			continue
		}
`},
		// class 3: pointer alias of the entry, aliases of node list and tags, first/last nodes read into locals
		{Name: "pointer-alias-entry-and-locals", File: f, Find: c18SrcPrefix + "\n" + c18SrcLoop, Replace: c18ShapeAlias},
		// class 2: if-init forms introduced and removed
		{Name: "if-init-forms", File: f, Find: `	if area := w.Tags.Find("area"); area == "no" {
		return false
	} else if area != "" {
		return true
	}

	for _, c := range polyConditions {
		v := w.Tags.Find(c.Key)
		if v == "" || v == "no" {
			continue
		}

		if c.Condition == conditionAll {
			return true
		} else if c.Condition == conditionWhitelist {
			index := sort.SearchStrings(c.Values, v)
			if index != len(c.Values) && c.Values[index] == v {
				return true
			}
		} else if c.Condition == conditionBlacklist {
			index := sort.SearchStrings(c.Values, v)
			if index == len(c.Values) || c.Values[index] != v {
				return true
			}
		}
`, Replace: `	area := w.Tags.Find("area")
	if area == "no" {
		return false
	} else if area != "" {
		return true
	}

	for _, c := range polyConditions {
		var v string
		if v = w.Tags.Find(c.Key); v == "" || v == "no" {
			continue
		}

		if c.Condition == conditionAll {
			return true
		} else if c.Condition == conditionWhitelist {
			if index := sort.SearchStrings(c.Values, v); index != len(c.Values) && c.Values[index] == v {
				return true
			}
		} else if c.Condition == conditionBlacklist {
			if index := sort.SearchStrings(c.Values, v); index == len(c.Values) || c.Values[index] != v {
				return true
			}
		}
`},
		// class 3: renamed receiver and locals, named constants instead of literals, `<` instead of `<=`
		{Name: "renamed-locals-named-constants", File: f, Find: "func (w *Way) Polygon() bool {\n" + c18SrcPrefix + "\n" + c18SrcLoop, Replace: `func (way *Way) Polygon() bool {
	const (
		minRingRefs = 4
		areaKey     = "area"
		tagNo       = "no"
		tagUnset    = ""
	)

	if len(way.Nodes) < minRingRefs {
		return false
	}

	if way.Nodes[0].ID != way.Nodes[len(way.Nodes)-1].ID {
		return false
	}

	if explicit := way.Tags.Find(areaKey); explicit == tagNo {
		return false
	} else if explicit != tagUnset {
		return true
	}

	for _, feature := range polyConditions {
		tagValue := way.Tags.Find(feature.Key)
		if tagValue == tagUnset || tagValue == tagNo {
			continue
		}

		if feature.Condition == conditionAll {
			return true
		} else if feature.Condition == conditionWhitelist {
			pos := sort.SearchStrings(feature.Values, tagValue)
			if pos != len(feature.Values) && feature.Values[pos] == tagValue {
				return true
			}
		} else if feature.Condition == conditionBlacklist {
			pos := sort.SearchStrings(feature.Values, tagValue)
			if pos == len(feature.Values) || feature.Values[pos] != tagValue {
				return true
			}
		}
	}

	return false
}
`},
		// class 4: independent statements reordered (tag read before the ring test, one search hoisted above the kind test)
		{Name: "reordered-independent-statements", File: f, Find: c18SrcPrefix + "\n" + c18SrcLoop, Replace: `	area := w.Tags.Find("area")

	if len(w.Nodes) <= 3 {
		return false
	}

	if w.Nodes[0].ID != w.Nodes[len(w.Nodes)-1].ID {
		return false
	}

	if area == "no" {
		return false
	} else if area != "" {
		return true
	}

	for _, c := range polyConditions {
		v := w.Tags.Find(c.Key)
		index := sort.SearchStrings(c.Values, v)
		listed := index != len(c.Values) && c.Values[index] == v
		if v == "no" || v == "" {
			continue
		}

		if c.Condition == conditionBlacklist {
			if !listed {
				return true
			}
		} else if c.Condition == conditionWhitelist {
			if listed {
				return true
			}
		} else if c.Condition == conditionAll {
			return true
		}
	}

	return false
}
`},
		// class 2: early return <-> result flag and break
		{Name: "result-flag-and-break", File: f, Find: c18SrcLoop, Replace: c18ShapeFlag},
		// class 1/2: index loop over the table, closure for the membership test, len(v) == 0 for emptiness
		{Name: "index-loop-closure-len-test", File: f, Find: c18SrcLoop, Replace: c18ShapeIndexLoop},
		// class 1: init split into helpers; index loop; sort.Strings; if-init error check
		{Name: "init-helpers-index-loop", File: f, Find: c18SrcInit, Replace: c18ShapeInitHelpers},
		// class 1/3: init sorts through a method of the rule struct called on a pointer alias
		{Name: "init-method-on-pointer-alias", File: f, Find: c18SrcInit, Replace: c18ShapeInitMethod},
		// class 5: functions and declarations moved (init behind the type declarations); var -> const for the kinds
		{Name: "moved-init-const-kinds", File: f, Find: c18SrcInitAndTypes + `
var (
	conditionAll       conditionType = "all"
	conditionBlacklist conditionType = "blacklist"
	conditionWhitelist conditionType = "whitelist"
)
`, Replace: `type conditionType string

const (
	conditionWhitelist conditionType = "whitelist"
	conditionBlacklist conditionType = "blacklist"
	conditionAll       conditionType = "all"
)

type polyCondition struct {
	Values    []string      ` + "`json:\"values\"`" + `
	Condition conditionType ` + "`json:\"polygon\"`" + `
	Key       string        ` + "`json:\"key\"`" + `
}

var polyConditions []polyCondition

func init() {
	err := json.Unmarshal(polygonJSON, &polyConditions)
	if err != nil {
		// This must be valid json
		panic(err)
	}

	for _, p := range polyConditions {
		sort.StringSlice(p.Values).Sort()
	}
}
`},
		// membership by linear scan in a helper (no sortedness needed), range over the value list
		{Name: "linear-membership-helper", File: f, Find: c18SrcChain + `	}

	return false
}
`, Replace: `		if c.Condition == conditionAll {
			return true
		} else if c.Condition == conditionWhitelist {
			if hasString(c.Values, v) {
				return true
			}
		} else if c.Condition == conditionBlacklist {
			if !hasString(c.Values, v) {
				return true
			}
		}
	}

	return false
}

func hasString(list []string, s string) bool {
	for _, x := range list {
		if x == s {
			return true
		}
	}
	return false
}
`},
		// named result with bare returns, helpers with two results, labelled continue, switch with several values per case, bool == bool
		{Name: "named-result-tuple-helpers", File: f, Find: c18SrcWayPolygon, Replace: c18ShapeNamedResultTuples},
		// the table gets a named slice type with methods (rule loop and sort loop become methods on it); Find as a method value
		{Name: "table-type-methods-find-value", File: f, Find: c18SrcPolygonToTable, Replace: c18ShapeTableTypeMethods},
		// Relation.Polygon: switch form
		{Name: "relation-switch", File: f, Find: c18SrcRel, Replace: `	switch r.Tags.Find("type") {
	case "multipolygon", "boundary":
		return true
	}
	return false
`},
		// Relation.Polygon: helper + if chain + named constants
		{Name: "relation-helper-if-chain", File: f, Find: c18SrcRel + "}\n", Replace: `	return isAreaRelationType(r.Tags.Find("type"))
}

const relTypeMultipolygon = "multipolygon"

func isAreaRelationType(typ string) bool {
	if typ == relTypeMultipolygon {
		return true
	}
	if typ != "boundary" {
		return false
	}
	return true
}
`},
	}
}
