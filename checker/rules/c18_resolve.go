package rules

import (
	"fmt"
	"go/ast"
	"go/constant"
	"go/token"
	"go/types"
	"reflect"
	"strings"

	"golang.org/x/tools/go/packages"

	"osmcheck/core"
)

// ---------------------------------------------------------------------------
// resolution of the mechanism by role

type c18Ctx struct {
	pk    *packages.Package
	info  *types.Info
	fi    *FuncInfo // (*Way).Polygon
	funcs map[*types.Func]*ast.FuncDecl
	table *types.Var // package-level conditions table
	keyF  *types.Var
	condF *types.Var
	valsF *types.Var
	// declared values of the condition type: object -> constant string
	condVals map[types.Object]string
}

// c18FuncDecls lists every function declaration with a body (including init functions).
func c18FuncDecls(pk *packages.Package) []*ast.FuncDecl {
	var out []*ast.FuncDecl
	for _, f := range pk.Syntax {
		for _, d := range f.Decls {
			if fd, ok := d.(*ast.FuncDecl); ok && fd.Body != nil {
				out = append(out, fd)
			}
		}
	}
	return out
}

// c18VarInit returns the initialiser expression of a package-level variable or constant.
func c18VarInit(pk *packages.Package, obj types.Object) ast.Expr {
	for _, f := range pk.Syntax {
		for _, d := range f.Decls {
			gd, ok := d.(*ast.GenDecl)
			if !ok {
				continue
			}
			for _, sp := range gd.Specs {
				vs, ok := sp.(*ast.ValueSpec)
				if !ok {
					continue
				}
				for i, nm := range vs.Names {
					if pk.TypesInfo.Defs[nm] == obj && len(vs.Values) == len(vs.Names) {
						return vs.Values[i]
					}
				}
			}
		}
	}
	return nil
}

// c18JSONName is the name encoding/json uses for field i ("" when the field is skipped).
func c18JSONName(st *types.Struct, i int) string {
	f := st.Field(i)
	if !f.Exported() {
		return ""
	}
	tag := reflect.StructTag(st.Tag(i)).Get("json")
	if tag == "-" {
		return ""
	}
	name := strings.Split(tag, ",")[0]
	if name == "" {
		name = f.Name()
	}
	return name
}

// c18RuleStruct returns the element struct of a slice type whose fields carry the JSON names of the
// published file format (key, polygon, values), and those fields.
func c18RuleStruct(t types.Type) (st *types.Struct, key, cond, vals *types.Var) {
	sl, ok := t.Underlying().(*types.Slice)
	if !ok {
		return nil, nil, nil, nil
	}
	el := sl.Elem()
	if pt, ok := el.Underlying().(*types.Pointer); ok {
		el = pt.Elem()
	}
	st, ok = el.Underlying().(*types.Struct)
	if !ok {
		return nil, nil, nil, nil
	}
	for i := 0; i < st.NumFields(); i++ {
		switch n := c18JSONName(st, i); {
		case strings.EqualFold(n, "key"):
			key = st.Field(i)
		case strings.EqualFold(n, "polygon"):
			cond = st.Field(i)
		case strings.EqualFold(n, "values"):
			vals = st.Field(i)
		}
	}
	if key == nil || cond == nil || vals == nil {
		return nil, nil, nil, nil
	}
	return st, key, cond, vals
}

func c18Resolve(r *core.R) *c18Ctx {
	pk := r.P.Pkg("")
	fi := findFunc(pk, "(*Way).Polygon")
	if fi == nil || fi.Decl.Body == nil || fi.Decl.Recv == nil || len(fi.Decl.Recv.List) != 1 || len(fi.Decl.Recv.List[0].Names) != 1 {
		r.Anchor("(*Way).Polygon with a named receiver")
		return nil
	}
	c := &c18Ctx{pk: pk, info: pk.TypesInfo, fi: fi, condVals: map[types.Object]string{}, funcs: c18FuncIndex(pk)}
	// the table: the package-level slice of rule structs (fields with the JSON names key/polygon/values)
	var cands []*types.Var
	sc := pk.Types.Scope()
	for _, nm := range sc.Names() {
		v, ok := sc.Lookup(nm).(*types.Var)
		if !ok {
			continue
		}
		if st, k, cd, vl := c18RuleStruct(v.Type()); st != nil {
			cands = append(cands, v)
			c.table, c.keyF, c.condF, c.valsF = v, k, cd, vl
		}
	}
	if len(cands) > 1 {
		// several slices of rule structs (e.g. a second, literal table for relations): the way table is the one the
		// classification of ways consults, i.e. the one mentioned by (*Way).Polygon or a function it calls
		used := map[*types.Var]bool{}
		for _, fd := range c18Reachable(pk, c.funcs, fi.Decl) {
			ast.Inspect(fd.Body, func(n ast.Node) bool {
				if id, ok := n.(*ast.Ident); ok {
					if v, ok := c.info.Uses[id].(*types.Var); ok {
						used[v] = true
					}
				}
				return true
			})
		}
		var keep []*types.Var
		for _, v := range cands {
			if used[v] {
				keep = append(keep, v)
			}
		}
		cands = keep
		if len(cands) == 1 {
			c.table = cands[0]
			_, c.keyF, c.condF, c.valsF = c18RuleStruct(c.table.Type())
		}
	}
	if len(cands) != 1 {
		r.Anchor(fmt.Sprintf("exactly one package-level slice of rule structs whose fields have the JSON names key, polygon, values (the published file format) that (*Way).Polygon consults; found %d", len(cands)))
		return nil
	}
	if b, ok := c.keyF.Type().Underlying().(*types.Basic); !ok || b.Kind() != types.String {
		r.Anchor("rule struct field `key` of string type")
		return nil
	}
	if b, ok := c.condF.Type().Underlying().(*types.Basic); !ok || b.Kind() != types.String {
		r.Anchor("rule struct field `polygon` of string type")
		return nil
	}
	if sl, ok := c.valsF.Type().Underlying().(*types.Slice); !ok || !types.Identical(sl.Elem(), types.Typ[types.String]) {
		r.Anchor("rule struct field `values` of type []string")
		return nil
	}
	if _, named := c.condF.Type().(*types.Named); named {
		for _, nm := range sc.Names() {
			o := sc.Lookup(nm)
			if !types.Identical(o.Type(), c.condF.Type()) {
				continue
			}
			switch o := o.(type) {
			case *types.Const:
				if o.Val().Kind() == constant.String {
					c.condVals[o] = constant.StringVal(o.Val())
				}
			case *types.Var:
				if e := c18VarInit(pk, o); e != nil {
					if s, ok := constString(c.info, e); ok {
						c.condVals[o] = s
					}
				}
			}
		}
	}
	return c
}

// c18Writes lists the places where a package-level object is (or may be) written:
// assignment through it, ++/--, address taken, destination of copy. allow filters accepted nodes.
func c18Writes(pk *packages.Package, obj types.Object, allow func(ast.Node) bool) []token.Pos {
	info := pk.TypesInfo
	var out []token.Pos
	add := func(n ast.Node) {
		if allow == nil || !allow(n) {
			out = append(out, n.Pos())
		}
	}
	for _, f := range pk.Syntax {
		ast.Inspect(f, func(n ast.Node) bool {
			switch x := n.(type) {
			case *ast.AssignStmt:
				for _, l := range x.Lhs {
					if rootObj(info, l) == obj {
						add(x)
					}
				}
			case *ast.IncDecStmt:
				if rootObj(info, x.X) == obj {
					add(x)
				}
			case *ast.UnaryExpr:
				if x.Op == token.AND && rootObj(info, x.X) == obj {
					add(x)
				}
			case *ast.RangeStmt:
				if x.Tok == token.ASSIGN && ((x.Key != nil && rootObj(info, x.Key) == obj) || (x.Value != nil && rootObj(info, x.Value) == obj)) {
					add(x)
				}
			case *ast.CallExpr:
				if builtinName(info, x) == "copy" && len(x.Args) == 2 && rootObj(info, x.Args[0]) == obj {
					add(x)
				}
			}
			return true
		})
	}
	return out
}
