package rules

import (
	"go/ast"
	"go/token"
	"go/types"

	"golang.org/x/tools/go/cfg"
)

// c01ReachingDefs returns the definitions of local obj that can reach the use at usePos in f without passing
// another definition of obj (reaching definitions on the CFG). A variable that is reused for several values
// (`delta, err = a.Read()` ... `delta, err = b.Read()`) is thereby the value of the nearest definition at each use.
// When the use cannot be located in the CFG (or nothing reaches it) all definitions are returned.
func c01ReachingDefs(f *c01Fn, obj types.Object, usePos token.Pos) []c01Def {
	info := f.info
	all := c01Defs(info, f.body, obj)
	if len(all) == 0 && f.body != f.fi.Decl.Body {
		// a variable of the enclosing function captured by a function literal: every definition out there
		return c01Defs(info, f.fi.Decl.Body, obj)
	}
	if len(all) <= 1 {
		return all
	}
	ub, ui := blockOf(f.g, usePos)
	if ub == nil {
		return all
	}
	// CFG nodes that define obj
	type loc struct {
		b *cfg.Block
		i int
	}
	defAt := map[loc]bool{}
	locOf := make([]loc, len(all))
	for k, d := range all {
		if d.tok == token.AND {
			return all // address taken: may be written anywhere
		}
		b, i := blockOf(f.g, d.stmt.Pos())
		if b == nil {
			return all
		}
		locOf[k] = loc{b, i}
		defAt[loc{b, i}] = true
	}
	var out []c01Def
	for k, d := range all {
		start := locOf[k]
		// the use inside the defining statement itself reads the previous value (`x += e`, `x = f(x)`): skip the node
		reached := false
		seen := map[*cfg.Block]bool{}
		type st struct {
			b *cfg.Block
			i int
		}
		work := []st{{start.b, start.i + 1}}
		for len(work) > 0 && !reached {
			cur := work[len(work)-1]
			work = work[:len(work)-1]
			stopped := false
			for i := cur.i; i < len(cur.b.Nodes); i++ {
				if cur.b == ub && i == ui {
					reached = true
					break
				}
				if defAt[loc{cur.b, i}] {
					stopped = true
					break
				}
			}
			if reached || stopped {
				continue
			}
			for _, nb := range cur.b.Succs {
				if !seen[nb] {
					seen[nb] = true
					work = append(work, st{nb, 0})
				}
			}
		}
		if reached {
			out = append(out, d)
		}
	}
	if len(out) == 0 {
		return all
	}
	return out
}

var _ = ast.Inspect
