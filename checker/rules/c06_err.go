package rules

import (
	"fmt"
	"go/ast"
	"go/token"
	"go/types"
	"sort"
	"strings"

	"golang.org/x/tools/go/cfg"

	"osmcheck/core"
)

// ---------------------------------------------------------------- E8

// c06E8: Err maps only io.EOF to nil. Decided by finite-domain evaluation: the scanner's stored error is given the
// abstract value "a non-nil error other than io.EOF", the CFG of Err is walked taking each branch according to the
// value of its atoms (`s.err == io.EOF` false, `s.err != nil` true, everything else unknown), and every return that
// can be reached must yield a certainly non-nil value. The surface form of Err (if chain, switch, nesting, a helper
// it delegates to) does not matter.
func c06E8(r *core.R) {
	for _, rel := range []string{"osmpbf", "osmxml"} {
		pk := r.P.Pkg(rel)
		fi := findFunc(pk, "(*Scanner).Err")
		if fi == nil {
			r.Anchor(rel + ".(*Scanner).Err")
			continue
		}
		c := rel + ".(*Scanner).Err nil only for io.EOF"
		info := pk.TypesInfo
		// the stored error: the error-typed field of Scanner that Err returns
		var errField *types.Var
		if _, st := structType(pk, "Scanner"); st != nil {
			var cands []*types.Var
			for i := 0; i < st.NumFields(); i++ {
				if isErrorType(st.Field(i).Type()) {
					cands = append(cands, st.Field(i))
				}
			}
			// with several error fields: the one Err (or what it calls) reads
			if len(cands) > 1 {
				var read []*types.Var
				for _, cf := range cands {
					used := false
					for _, g := range c01Reachable(r.P, fi) {
						ast.Inspect(g.Decl.Body, func(y ast.Node) bool {
							if sel, ok := y.(*ast.SelectorExpr); ok && fieldOf(info, sel) == cf {
								used = true
							}
							return !used
						})
					}
					if used {
						read = append(read, cf)
					}
				}
				cands = read
			}
			if len(cands) == 1 {
				errField = cands[0]
			}
		}
		if errField == nil {
			r.Unknown(c, fi.Decl.Pos(), "Scanner has no single error-typed field holding the stored error")
			continue
		}
		bad, unknown := c06ErrNilFor(r.P, fi, errField, 0)
		switch {
		case unknown != "":
			r.Unknown(c, fi.Decl.Pos(), "%s", unknown)
		case bad != nil:
			r.Bad(c, bad.Pos(), "with a stored error other than io.EOF, Err can reach `%s`, which may be nil: an error other than end-of-input would be reported as success", src(r.P.Fset, bad))
		default:
			r.OK(c, fi.Decl.Pos(), "with a stored error other than io.EOF every reachable return of Err yields the stored error (or another certainly non-nil value); only `%s == io.EOF` leads to nil", errField.Name())
		}
		_ = info
	}
}

// c06ErrNilFor walks fi under "the stored error is non-nil and not io.EOF" and returns a reachable return statement
// whose value may be nil (nil if there is none), or a description of a shape it does not understand.
func c06ErrNilFor(p *core.Program, fi *FuncInfo, errField *types.Var, depth int) (*ast.ReturnStmt, string) {
	info := fi.Pkg.TypesInfo
	f := c01FnOf(p, fi)
	isStored := func(e ast.Expr) bool {
		e = c01Expand(info, f.body, e)
		return fieldOf(info, e) == errField
	}
	atom := func(a ast.Expr) c01Tri {
		if x, neq, ok := c01NilCmp(a); ok && isStored(x) {
			return c01Bool(neq)
		}
		if x, y, neq, ok := c01EqCmp(a); ok {
			for _, pr := range [][2]ast.Expr{{x, y}, {y, x}} {
				if isStored(pr[0]) && isIOVar(info, pr[1], "EOF") {
					return c01Bool(neq)
				}
			}
		}
		if call, ok := ast.Unparen(a).(*ast.CallExpr); ok && isPkgFunc(callee(info, call), "errors", "Is") && len(call.Args) == 2 && isStored(call.Args[0]) && isIOVar(info, call.Args[1], "EOF") {
			return c01F
		}
		return c01U
	}
	var bad *ast.ReturnStmt
	unknown := ""
	// env: what the error-typed locals hold on the path being walked: 'S' the stored error (non-nil, not io.EOF on this
	// walk), 'E' another certainly non-nil error, 'N' nil, '?' something unknown
	type item struct {
		b   *cfg.Block
		env map[types.Object]byte
	}
	keyOf := func(b *cfg.Block, env map[types.Object]byte) string {
		ks := make([]string, 0, len(env))
		for o, v := range env {
			ks = append(ks, fmt.Sprintf("%p=%c", o, v))
		}
		sort.Strings(ks)
		return fmt.Sprintf("%p|%s", b, strings.Join(ks, ","))
	}
	seen := map[string]bool{}
	work := []item{{f.g.Blocks[0], map[types.Object]byte{}}}
	nret := 0
	for len(work) > 0 {
		cur := work[len(work)-1]
		work = work[:len(work)-1]
		if k := keyOf(cur.b, cur.env); seen[k] {
			continue
		} else {
			seen[k] = true
		}
		b := cur.b
		env := map[types.Object]byte{}
		for o, v := range cur.env {
			env[o] = v
		}
		classify := func(e ast.Expr, pos token.Pos) byte {
			e = ast.Unparen(e)
			if isNilIdent(e) {
				return 'N'
			}
			if o := objOf(info, e); o != nil {
				if v, ok := env[o]; ok {
					return v
				}
			}
			if isStored(e) {
				return 'S'
			}
			if c01IsErrNonNilExpr(info, e, f.factsAtPos(pos)) {
				return 'E'
			}
			if v2, ok := e.(*ast.SelectorExpr); ok {
				if o, isVar := info.Uses[v2.Sel].(*types.Var); isVar && !o.IsField() && o.Pkg() != nil && o.Parent() == o.Pkg().Scope() && isErrorType(o.Type()) {
					return 'E' // exported error value of another package (osm.ErrScannerClosed)
				}
			}
			return '?'
		}
		patom := func(a ast.Expr) c01Tri {
			if x, neq, ok := c01NilCmp(a); ok {
				if o := objOf(info, x); o != nil {
					switch env[o] {
					case 'S', 'E':
						return c01Bool(neq)
					case 'N':
						return c01Bool(!neq)
					}
				}
			}
			if x, y, neq, ok := c01EqCmp(a); ok {
				for _, pr := range [][2]ast.Expr{{x, y}, {y, x}} {
					if o := objOf(info, pr[0]); o != nil && env[o] == 'S' && isIOVar(info, pr[1], "EOF") {
						return c01Bool(neq)
					}
				}
			}
			if call, ok := ast.Unparen(a).(*ast.CallExpr); ok && isPkgFunc(callee(info, call), "errors", "Is") && len(call.Args) == 2 && isIOVar(info, call.Args[1], "EOF") {
				if o := objOf(info, call.Args[0]); o != nil && env[o] == 'S' {
					return c01F
				}
			}
			return atom(a)
		}
		returned := false
		for _, n := range b.Nodes {
			switch st := n.(type) {
			case *ast.AssignStmt:
				for i, l := range st.Lhs {
					o := objOf(info, l)
					if o == nil || !isErrorType(o.Type()) {
						continue
					}
					if len(st.Rhs) == len(st.Lhs) {
						env[o] = classify(st.Rhs[i], st.Pos())
					} else {
						env[o] = '?'
					}
				}
			case *ast.ValueSpec:
				for i, nm := range st.Names {
					if o := info.Defs[nm]; o != nil && isErrorType(o.Type()) {
						if i < len(st.Values) {
							env[o] = classify(st.Values[i], st.Pos())
						} else {
							env[o] = 'N'
						}
					}
				}
			}
			ret, ok := n.(*ast.ReturnStmt)
			if !ok {
				continue
			}
			returned = true
			nret++
			if len(ret.Results) != 1 {
				unknown = "Err has a return that does not yield exactly one value"
				continue
			}
			v := ast.Unparen(ret.Results[0])
			switch classify(v, ret.Pos()) {
			case 'S', 'E':
			default:
				if call, ok := v.(*ast.CallExpr); ok && depth < 2 {
					if tf := c01Callee(fi.Pkg, call); tf != nil {
						ib, iu := c06ErrNilFor(p, tf, errField, depth+1)
						if iu != "" {
							unknown = iu
						}
						if ib != nil && bad == nil {
							bad = ret
						}
						continue
					}
				}
				if bad == nil {
					bad = ret
				}
			}
		}
		if returned {
			continue
		}
		cond := f.condOf(b)
		for si, nb := range b.Succs {
			if cond != nil && len(b.Succs) == 2 {
				v := c01Eval(info, cond, patom)
				if (si == 0 && v == c01F) || (si == 1 && v == c01T) {
					continue
				}
			}
			work = append(work, item{nb, env})
		}
	}
	if nret == 0 && unknown == "" {
		unknown = "no return statement reachable in " + fi.Name()
	}
	return bad, unknown
}

// c06KnownNil: while the paths after "Next() reported no further field" are walked, what is known about the nil-ness
// of variables from the operands to the left of the Next() call in its condition (object -> is nil).
var c06KnownNil map[types.Object]bool

// c06NilFacts keeps the facts that are nil comparisons of a plain variable.
func c06NilFacts(info *types.Info, facts []guardFact) map[types.Object]bool {
	out := map[types.Object]bool{}
	for _, ft := range facts {
		x, neq, ok := c01NilCmp(ft.expr)
		if !ok {
			continue
		}
		if o := objOf(info, x); o != nil {
			out[o] = ft.val != neq // (x == nil) true  or  (x != nil) false
		}
	}
	return out
}

// c06KnownBranch: the condition of block b is decided by the known nil-ness of variables not assigned on the way;
// it returns the only successor that can be taken.
func c06KnownBranch(f *c01Fn, b *cfg.Block, assigned map[types.Object]bool) (bool, *cfg.Block) {
	cond := f.condOf(b)
	if cond == nil {
		return false, nil
	}
	v := c01Eval(f.info, cond, func(a ast.Expr) c01Tri {
		x, neq, ok := c01NilCmp(a)
		if !ok {
			return c01U
		}
		o := objOf(f.info, x)
		isNil, known := c06KnownNil[o]
		if o == nil || !known || assigned[o] {
			return c01U
		}
		return c01Bool(isNil != neq)
	})
	switch v {
	case c01T:
		return true, b.Succs[0]
	case c01F:
		return true, b.Succs[1]
	}
	return false, nil
}
