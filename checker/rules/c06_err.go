package rules

import (
	"go/ast"
	"go/types"

	"golang.org/x/tools/go/cfg"

	"osmcheck/core"
)

// ---------------------------------------------------------------- E8

// c06E8: Err maps only io.EOF to nil. Decided by finite-domain evaluation: the scanner's stored error is given the
// abstract value "a non-nil error other than io.EOF", the CFG of Err is walked taking each branch according to the
// value of its atoms (`s.err == io.EOF` false, `s.err != nil` true, everything else unknown), and every return that
// can be reached must yield a certainly non-nil value. The surface form of Err (if chain, switch, nesting, a helper
// it delegates to) does not matter.
func c06E8(r *core.R) {
	for _, rel := range []string{"osmpbf", "osmxml"} {
		pk := r.P.Pkg(rel)
		fi := findFunc(pk, "(*Scanner).Err")
		if fi == nil {
			r.Anchor(rel + ".(*Scanner).Err")
			continue
		}
		c := rel + ".(*Scanner).Err nil only for io.EOF"
		info := pk.TypesInfo
		// the stored error: the error-typed field of Scanner that Err returns
		var errField *types.Var
		if _, st := structType(pk, "Scanner"); st != nil {
			for i := 0; i < st.NumFields(); i++ {
				if isErrorType(st.Field(i).Type()) {
					if errField != nil {
						errField = nil
						break
					}
					errField = st.Field(i)
				}
			}
		}
		if errField == nil {
			r.Unknown(c, fi.Decl.Pos(), "Scanner has no single error-typed field holding the stored error")
			continue
		}
		bad, unknown := c06ErrNilFor(r.P, fi, errField, 0)
		switch {
		case unknown != "":
			r.Unknown(c, fi.Decl.Pos(), "%s", unknown)
		case bad != nil:
			r.Bad(c, bad.Pos(), "with a stored error other than io.EOF, Err can reach `%s`, which may be nil: an error other than end-of-input would be reported as success", src(r.P.Fset, bad))
		default:
			r.OK(c, fi.Decl.Pos(), "with a stored error other than io.EOF every reachable return of Err yields the stored error (or another certainly non-nil value); only `%s == io.EOF` leads to nil", errField.Name())
		}
		_ = info
	}
}

// c06ErrNilFor walks fi under "the stored error is non-nil and not io.EOF" and returns a reachable return statement
// whose value may be nil (nil if there is none), or a description of a shape it does not understand.
func c06ErrNilFor(p *core.Program, fi *FuncInfo, errField *types.Var, depth int) (*ast.ReturnStmt, string) {
	info := fi.Pkg.TypesInfo
	f := c01FnOf(p, fi)
	isStored := func(e ast.Expr) bool {
		e = c01Expand(info, f.body, e)
		return fieldOf(info, e) == errField
	}
	atom := func(a ast.Expr) c01Tri {
		if x, neq, ok := c01NilCmp(a); ok && isStored(x) {
			return c01Bool(neq)
		}
		if x, y, neq, ok := c01EqCmp(a); ok {
			for _, pr := range [][2]ast.Expr{{x, y}, {y, x}} {
				if isStored(pr[0]) && isIOVar(info, pr[1], "EOF") {
					return c01Bool(neq)
				}
			}
		}
		if call, ok := ast.Unparen(a).(*ast.CallExpr); ok && isPkgFunc(callee(info, call), "errors", "Is") && len(call.Args) == 2 && isStored(call.Args[0]) && isIOVar(info, call.Args[1], "EOF") {
			return c01F
		}
		return c01U
	}
	var bad *ast.ReturnStmt
	unknown := ""
	seen := map[*cfg.Block]bool{f.g.Blocks[0]: true}
	work := []*cfg.Block{f.g.Blocks[0]}
	nret := 0
	for len(work) > 0 {
		b := work[len(work)-1]
		work = work[:len(work)-1]
		returned := false
		for _, n := range b.Nodes {
			ret, ok := n.(*ast.ReturnStmt)
			if !ok {
				continue
			}
			returned = true
			nret++
			if len(ret.Results) != 1 {
				unknown = "Err has a return that does not yield exactly one value"
				continue
			}
			v := ast.Unparen(ret.Results[0])
			switch {
			case isStored(v):
				// the stored error itself: non-nil on this walk
			case c01IsErrNonNilExpr(info, v, f.factsAtPos(ret.Pos())):
			default:
				if v2, ok := v.(*ast.SelectorExpr); ok {
					if o, isVar := info.Uses[v2.Sel].(*types.Var); isVar && !o.IsField() && o.Pkg() != nil && o.Parent() == o.Pkg().Scope() && isErrorType(o.Type()) {
						continue // exported error value of another package (osm.ErrScannerClosed)
					}
				}
				if call, ok := v.(*ast.CallExpr); ok && depth < 2 {
					if tf := c01Callee(fi.Pkg, call); tf != nil {
						ib, iu := c06ErrNilFor(p, tf, errField, depth+1)
						if iu != "" {
							unknown = iu
						}
						if ib != nil && bad == nil {
							bad = ret
						}
						continue
					}
				}
				if bad == nil {
					bad = ret
				}
			}
		}
		if returned {
			continue
		}
		cond := f.condOf(b)
		for si, nb := range b.Succs {
			if cond != nil && len(b.Succs) == 2 {
				v := c01Eval(info, cond, atom)
				if (si == 0 && v == c01F) || (si == 1 && v == c01T) {
					continue
				}
			}
			if !seen[nb] {
				seen[nb] = true
				work = append(work, nb)
			}
		}
	}
	if nret == 0 && unknown == "" {
		unknown = "no return statement reachable in " + fi.Name()
	}
	return bad, unknown
}
