package rules

import (
	"fmt"
	"go/token"
	"go/types"
	"strings"

	"osmcheck/core"
)

// c03T3Unknown: containers are walked into, every other element that is no object is skipped with its content
// (default@, skip@, container@, root@ of C03.T3; see c03_scan_skip.go).
func c03T3Unknown(r *core.R, m *c03ScanModel, containers []string, objects map[string]bool, loopPos token.Pos) {
	name := m.fi.Name()
	isContainer := map[string]bool{}
	for _, c := range containers {
		isContainer[c] = true
	}
	errField := m.c03TokenErrField()
	inLoop := func(it *c03Iter) bool {
		return it.again != nil && it.token != nil && c03FrameWithin(it.token.Frame, it.token.Node, it.again.Node)
	}
	var rootField *types.Var
	rootFields := map[*types.Var]bool{}
	defaultBad, skipBad := "", ""
	var defaultPos, skipPos, skipOK token.Pos
	nDef, nSkip := 0, 0
	for _, l := range append([]string{""}, m.labels...) {
		if objects[l] {
			continue // C03.T2
		}
		cBad := ""
		var cPos token.Pos
		nC := 0
		for _, it := range m.runs[l] {
			if it.assert == nil || it.ok != triT {
				continue
			}
			pos := c03EvPos(it.assert, m.fi.Decl.Pos())
			if isContainer[l] {
				nC++
				switch {
				case cBad != "":
				case len(it.decode) > 0:
					cBad, cPos = "it is decoded (`"+src(r.P.Fset, it.decode[0].Call)+"`) instead of being walked into", c03EvPos(it.decode[0], pos)
				case len(it.skip) > 0:
					cBad, cPos = "it is skipped (`"+src(r.P.Fset, it.skip[0].Call)+"`): every object inside it is dropped by the scan, whole-document decoding keeps them", c03EvPos(it.skip[0], pos)
				case !inLoop(it):
					cBad, cPos = c03DescribeEnd(it)+" instead of reading the next token", pos
				}
				continue
			}
			nDef++
			switch {
			case len(it.decode) > 0:
				if defaultBad == "" {
					defaultBad, defaultPos = fmt.Sprintf("an element named %s is decoded (`%s`) although no decoder of the library gives that name a meaning", c03Quote(l), src(r.P.Fset, it.decode[0].Call)), c03EvPos(it.decode[0], pos)
				}
			case len(it.skip) > 0:
				nSkip++
				if why := m.c03SkipOutcome(it, inLoop(it), errField); why != "" && skipBad == "" {
					skipBad, skipPos = why, c03EvPos(it.skip[0], pos)
				} else if why == "" {
					skipOK = c03EvPos(it.skip[0], pos)
				}
			case !inLoop(it):
				if defaultBad == "" {
					defaultBad, defaultPos = fmt.Sprintf("for a start element named %s %s", c03Quote(l), c03DescribeEnd(it)), pos
				}
			default:
				f := m.c03RootCondition(it)
				if f == nil {
					if defaultBad == "" {
						defaultBad, defaultPos = fmt.Sprintf("a start element named %s that is not the first one of the document is walked into without its content being skipped: objects nested in an unknown element are yielded by the scan, whole-document decoding ignores an unknown element together with its content", c03Quote(l)), pos
					}
					continue
				}
				rootFields[f] = true
				rootField = f
			}
		}
		if isContainer[l] {
			c := fmt.Sprintf("container %q@%s", l, name)
			switch {
			case nC == 0:
				r.Unknown(c, m.fi.Decl.Pos(), "no path binds a start element named %q", l)
			case cBad != "":
				r.Bad(c, cPos, "<%s> is a container of the OSM XML / osmChange / augmented diff formats (tables/osmxml.json) but %s", l, cBad)
			default:
				r.OK(c, loopPos, "<%s> is walked into: the next token is read without decoding or skipping anything (%d path(s))", l, nC)
			}
		}
	}
	switch {
	case nDef == 0:
		r.Unknown("default@"+name, m.fi.Decl.Pos(), "no path for a start element of an unlisted name")
	case defaultBad != "":
		r.Bad("default@"+name, defaultPos, "%s (containers that are walked into: %s)", defaultBad, strings.Join(containers, ", "))
	case nSkip == 0:
		r.Bad("default@"+name, m.fi.Decl.Pos(), "no path skips the content of an unknown element: only the first start element of a document is ever treated as unknown")
	default:
		r.OK("default@"+name, skipOK, "a start element that is neither an object nor a container (any other name, and spellings of the known names that differ in case, spacing, prefix or suffix) has its content skipped before the next token is read (%d path(s), %d with Skip)", nDef, nSkip)
	}
	switch {
	case skipBad != "":
		r.Bad("skip@"+name, skipPos, "%s", skipBad)
	case nSkip > 0:
		ef := "a scanner field"
		if errField != nil {
			ef = "Scanner." + errField.Name() + " (where the error of Token is kept)"
		}
		r.OK("skip@"+name, skipOK, "Skip is called on the decoder the start element was read from, once, for unknown elements only; when it fails Scan returns false and the error is kept in %s", ef)
	default:
		r.OKTrivial("skip@"+name, m.fi.Decl.Pos(), "no (*xml.Decoder).Skip call for an unknown element on any explored path of Scan")
	}
	c03T3Root(r, m, rootField, len(rootFields))
}

func c03DescribeEnd(it *c03Iter) string {
	if it.again != nil {
		return "the iteration continues a loop that does not read the next token"
	}
	if ret, v := it.returned(); ret {
		return "Scan returns " + v.String()
	}
	return "the path ends with " + it.path.End + " " + it.path.Why
}

// c03T3Root: the state that lets the scan walk into an unknown element holds for the document element only.
func c03T3Root(r *core.R, m *c03ScanModel, f *types.Var, n int) {
	c := "root@" + m.fi.Name()
	switch {
	case f == nil:
		r.OKTrivial(c, m.fi.Decl.Pos(), "no unknown element is walked into, the document element included (a document whose root is none of osm / osmChange yields nothing, like whole-document decoding, which rejects it)")
		return
	case n > 1:
		r.Unknown(c, f.Pos(), "unknown elements are walked into under conditions on more than one scanner field")
		return
	}
	// every path that binds a start element leaves the field non-zero
	for _, l := range append([]string{""}, m.labels...) {
		for _, it := range m.runs[l] {
			if it.assert == nil || it.ok != triT {
				continue
			}
			if z := it.path.St.Zero(m.c03FieldAtEnd(it, f)); z != triF {
				r.Bad(c, c03EvPos(it.assert, f.Pos()), "an unknown element is walked into while Scanner.%s is zero (\"no start element seen yet\"), but after a start element named %s was bound Scanner.%s is not known to be non-zero (%s): later unknown elements count as the document element again and objects nested in them are yielded", f.Name(), c03Quote(l), f.Name(), m.c03FieldAtEnd(it, f).String())
				return
			}
		}
	}
	// the field decides: with the field non-zero the same element is skipped
	decides := false
	for _, it := range m.runs[""] {
		if it.assert != nil && it.ok == triT && len(it.skip) > 0 {
			if rv := it.path.St.Var(m.recv); rv != nil && rv.K == c03KInit && it.path.St.Zero(it.x.fieldInit(rv, f)) == triF {
				decides = true
			}
		}
	}
	if !decides {
		r.Unknown(c, f.Pos(), "an unknown element is walked into on a path on which Scanner.%s is zero, but no path skips one with Scanner.%s non-zero: the field is not what tells the document element from the others", f.Name(), f.Name())
		return
	}
	// a new scanner has it zero
	nctor := 0
	for _, fi := range allFuncs(m.fi.Pkg) {
		sig := fi.Obj.Type().(*types.Signature)
		if sig.Recv() != nil || sig.Results().Len() == 0 || !types.Identical(sig.Results().At(0).Type(), m.recv.Type()) {
			continue
		}
		x := &c03Interp{P: r.P, AllowDynamic: true}
		for _, pa := range x.Run(fi, nil) {
			if pa.End != "return" || len(pa.Ret) == 0 {
				continue
			}
			nctor++
			v := x.field(pa.St, pa.Ret[0], f, fi.Decl, nil)
			if pa.St.Zero(v) != triT {
				r.Bad(c, fi.Decl.Pos(), "%s returns a scanner whose %s is not zero (%s): the document element of the input is treated like an unknown element inside the document and skipped with everything in it", fi.Name(), f.Name(), v.String())
				return
			}
		}
	}
	if nctor == 0 {
		r.Unknown(c, f.Pos(), "no constructor of the scanner type was found to check that Scanner.%s starts out zero", f.Name())
		return
	}
	r.OK(c, f.Pos(), "only the document element is walked into whatever its name: Scanner.%s is zero in a new scanner and non-zero after any start element was bound (%d constructor path(s))", f.Name(), nctor)
}
