package rules

import (
	"go/ast"
	"go/token"
	"go/types"
	"strings"

	"osmcheck/core"
)

// ---------------------------------------------------------------- P3

// tri is a three-valued truth value.
type tri int

const (
	triF tri = iota
	triT
	triU
)

func triNot(a tri) tri {
	switch a {
	case triF:
		return triT
	case triT:
		return triF
	}
	return triU
}
func triAnd(a, b tri) tri {
	if a == triF || b == triF {
		return triF
	}
	if a == triT && b == triT {
		return triT
	}
	return triU
}
func triOr(a, b tri) tri { return triNot(triAnd(triNot(a), triNot(b))) }

// evalTri evaluates a boolean expression with an oracle for atoms.
func evalTri(e ast.Expr, atom func(ast.Expr) tri) tri {
	e = ast.Unparen(e)
	switch x := e.(type) {
	case *ast.BinaryExpr:
		switch x.Op {
		case token.LAND:
			return triAnd(evalTri(x.X, atom), evalTri(x.Y, atom))
		case token.LOR:
			return triOr(evalTri(x.X, atom), evalTri(x.Y, atom))
		}
	case *ast.UnaryExpr:
		if x.Op == token.NOT {
			return triNot(evalTri(x.X, atom))
		}
	}
	return atom(e)
}

// cancelledAtom gives the value of an atom under "the decoder's context is cancelled": `ctx.Err() ==/!= nil` on the
// decoder's context (either operand order, also through a local that holds ctx.Err() or the context), and calls of
// predicate helpers whose body is a single such return expression.
func (m *pbfModel) cancelledAtom(e ast.Expr) tri {
	e = ast.Unparen(e)
	if call, ok := e.(*ast.CallExpr); ok {
		// predicate helper: func (dec) running() bool { return dec.ctx.Err() == nil }
		if fn := callee(m.info, call); fn != nil {
			if ret := singleReturnExpr(m.funcs[fn]); ret != nil {
				return evalTri(ret, m.cancelledAtom)
			}
		}
		return triU
	}
	l, op, rr, ok := cmpNorm(e)
	if !ok || (op != token.EQL && op != token.NEQ) {
		return triU
	}
	var other ast.Expr
	switch {
	case isNilIdent(rr):
		other = l
	case isNilIdent(l):
		other = rr
	default:
		return triU
	}
	if !m.isCtxErrValue(other, map[types.Object]bool{}) {
		return triU
	}
	if op == token.EQL {
		return triF // ctx.Err() == nil is false once cancelled
	}
	return triT
}

// isCtxErrValue: e is `dec.ctx.Err()`, or a local whose only definition is `x := dec.ctx.Err()` in the init clause of
// an if / switch statement (so the value is as fresh as the test that uses it; a value read once before a loop would be stale).
func (m *pbfModel) isCtxErrValue(e ast.Expr, seen map[types.Object]bool) bool {
	if m.isCtxErrCall(e) {
		return true
	}
	id, ok := ast.Unparen(e).(*ast.Ident)
	if !ok {
		return false
	}
	o := objOf(m.info, id)
	if o == nil || seen[o] {
		return false
	}
	seen[o] = true
	defer delete(seen, o)
	defs := m.defsOf(o)
	if len(defs) == 0 {
		return false
	}
	if len(defs) != 1 {
		return false
	}
	d := defs[0]
	if d.kind != "assign" || !m.isCtxErrCall(d.e) || !pbfIsInitStmt(m.view.parents(d.fi), d.stmt) {
		return false
	}
	return true
}

// pbfIsInitStmt reports whether stmt is the init clause of an if or switch statement.
func pbfIsInitStmt(par map[ast.Node]ast.Node, stmt ast.Node) bool {
	switch p := par[stmt].(type) {
	case *ast.IfStmt:
		return p.Init == stmt
	case *ast.SwitchStmt:
		return p.Init == stmt
	}
	return false
}

func c07P3(r *core.R) {
	m := modelOrAnchor(r)
	if m == nil {
		return
	}
	for _, g := range m.gos {
		u := g.unit
		nloops := 0
		m.deepWalk(u, func(s *pbfSite, n ast.Node) bool {
			switch l := n.(type) {
			case *ast.RangeStmt:
				t := m.info.TypeOf(l.X)
				if _, isChan := t.Underlying().(*types.Chan); isChan && !s.deferredCtx() {
					nloops++
					// relay loop over an upstream channel: terminates when upstream closes (P2 proves the close)
					r.OK("loop@"+u.name+" range "+m.chanClass(u, l.X), l.Pos(), "relay loop ends when the upstream channel is closed by its producer's deferred close")
				}
				// ranges over slices are bounded
			case *ast.ForStmt:
				if ch := m.recvDrivenLoop(l); ch != nil && !s.deferredCtx() {
					if _, isChan := m.info.TypeOf(ch).Underlying().(*types.Chan); isChan {
						nloops++
						// the explicit form of a range over an upstream channel
						r.OK("loop@"+u.name+" range "+m.chanClass(u, ch), l.Pos(), "relay loop (`v, ok := <-ch; if !ok { leave }`) ends when the upstream channel is closed by its producer's deferred close")
						return true
					}
				}
				if !m.pipelineLoop(l) {
					return true // a loop over in-memory data: bounded by the block being decoded
				}
				nloops++
				c := "loop@" + u.name + " for"
				if l.Cond != nil {
					if v := evalTri(l.Cond, m.cancelledAtom); v == triF {
						r.OK(c, l.Pos(), "loop condition `%s` is false once the decoder's context is cancelled: at most the block being read is consumed after Close/cancel", src(r.P.Fset, l.Cond))
						return true
					}
				}
				why, incomplete := m.cyclesLeaveOnDone(s, l)
				switch {
				case incomplete != "":
					r.Unknown(c, l.Pos(), "the loop's cycles could not be followed: %s", incomplete)
				case why == "":
					r.OK(c, l.Pos(), "with the context cancelled, every cycle passes a select with a `<-dec.ctx.Done()` case or a test of ctx.Err() that leaves the loop, and after the Done case is taken the loop is left within one cycle")
				default:
					cond := "<none>"
					if l.Cond != nil {
						cond = src(r.P.Fset, l.Cond)
					}
					r.Bad(c, l.Pos(), "loop condition `%s` stays possibly true after cancellation (substituting ctx.Err()==nil := false does not make it false) and %s: the goroutine keeps running (and, in the reader, keeps consuming input) after Close/cancel", cond, why)
				}
			}
			return true
		})
		r.Stat("goroutine_loops", nloops)
	}
	c07DropIsFinal(r, m)
	c07ClosedIsFinal(r, m)
}

// cyclesLeaveOnDone decides, on every path and through helper calls, whether each cycle of loop passes a select that
// has a case on the decoder's Done channel and whether taking that case leaves the loop. It returns "" when it does.
func (m *pbfModel) cyclesLeaveOnDone(s *pbfSite, loop *ast.ForStmt) (why, incomplete string) {
	const (
		outside    = iota // not inside the loop
		fresh             // in a cycle, no cancellation point passed yet
		passed            // a select with a Done case was passed (another case was taken)
		cancelled         // the Done case was taken
		cancelled2        // ... and the loop head was passed once since (the next cycle may test the context and leave)
	)
	fi := s.unit().fi
	body := s.body()
	t := m.newTracer()
	t.Event = func(st int, ev *pbfEvent) int {
		if ev.kind == "head" && ev.n == ast.Node(loop) {
			switch st {
			case fresh:
				if why == "" {
					why = "a cycle of the loop passes no select with a `<-dec.ctx.Done()` case"
				}
			case cancelled:
				return cancelled2
			case cancelled2:
				why = "after a `<-dec.ctx.Done()` case is taken the loop keeps cycling (neither the case nor a test of the context in the next cycle leaves the loop)"
				return cancelled2
			}
			return fresh
		}
		if ev.depth == 0 && ev.n != nil && (ev.n.Pos() < loop.Pos() || ev.n.End() > loop.End()) {
			return outside
		}
		if st == outside || st == cancelled2 {
			return st
		}
		if ev.kind == "comm" {
			cc := ev.n.(*ast.CommClause)
			par := parentsOf(m.p, ev.fi)
			sel, _ := par[par[cc]].(*ast.SelectStmt)
			if dc := m.doneCase(sel); dc != nil && !c07HasDefault(sel) {
				if dc == cc {
					return cancelled
				}
				if st == fresh {
					return passed
				}
			}
		}
		return st
	}
	// a range over the slice of per-worker channels has at least one element (there is at least one worker): it is not
	// left before a first iteration; the cycle of an enclosing `for {}` therefore passes the range body
	t.RangeExit = func(st int, rs *ast.RangeStmt, _ *FuncInfo) (int, bool) {
		if st == fresh && m.isWorkerChanSlice(rs.X) {
			return st, false
		}
		return st, true
	}
	// inside the loop the analysis assumes the context is cancelled: tests of ctx.Err() are decided, everything else goes
	// both ways. Outside the loop nothing is assumed: the cancellation can arrive after an enclosing loop tested the
	// context and entered its body, so an inner loop is reachable and has to stop on its own.
	t.Edge = func(st int, cond ast.Expr, val bool, _ *FuncInfo) (int, bool) {
		if st == outside {
			return st, true
		}
		v := evalTri(cond, m.cancelledAtom)
		return st, v == triU || (v == triT) == val
	}
	t.Run(fi, body, outside)
	return why, strings.Join(t.incomplete, "; ")
}

// pipelineLoop reports whether a cycle of the loop can communicate or read input: its body contains (directly or in
// the functions it calls) a channel operation or a read of the input stream. Other loops run over data in memory.
func (m *pbfModel) pipelineLoop(loop *ast.ForStmt) bool {
	isPipe := func(u *unit) bool {
		found := false
		m.walkUnit(u, func(n ast.Node) bool {
			switch x := n.(type) {
			case *ast.SendStmt, *ast.SelectStmt:
				found = true
			case *ast.UnaryExpr:
				if x.Op == token.ARROW {
					found = true
				}
			case *ast.RangeStmt:
				if _, ok := m.info.TypeOf(x.X).Underlying().(*types.Chan); ok {
					found = true
				}
			case *ast.CallExpr:
				if pbfIsReadCall(m.info, x) {
					found = true
				}
			}
			return !found
		})
		return found
	}
	found := false
	ast.Inspect(loop, func(n ast.Node) bool {
		switch x := n.(type) {
		case *ast.FuncLit:
			return false
		case *ast.SendStmt, *ast.SelectStmt:
			found = true
		case *ast.UnaryExpr:
			if x.Op == token.ARROW {
				found = true
			}
		case *ast.RangeStmt:
			if _, ok := m.info.TypeOf(x.X).Underlying().(*types.Chan); ok {
				found = true
			}
		case *ast.CallExpr:
			fn := callee(m.info, x)
			if pbfIsReadCall(m.info, x) {
				found = true
			}
			if fn != nil && m.funcs[fn] != nil && m.unitReaches(m.byDecl[fn], isPipe) {
				found = true
			}
		}
		return !found
	})
	return found
}

func c07HasDefault(sel *ast.SelectStmt) bool {
	for _, c := range sel.Body.List {
		if c.(*ast.CommClause).Comm == nil {
			return true
		}
	}
	return false
}

// ---------------------------------------------------------------- P4

func c07P4(r *core.R) {
	m := modelOrAnchor(r)
	if m == nil {
		return
	}
	// units that use a decoder field of type io.Reader
	var rField *types.Var
	st := m.decoderT.Underlying().(*types.Struct)
	for i := 0; i < st.NumFields(); i++ {
		if namedPath(st.Field(i).Type()) == "io.Reader" {
			rField = st.Field(i)
		}
	}
	if rField == nil {
		r.Anchor("decoder field of type io.Reader")
		return
	}
	noStart := m.consumerNoStart()
	firstGo := token.Pos(1 << 40)
	for _, g := range m.gos {
		if g.rootPos < firstGo {
			firstGo = g.rootPos
		}
	}
	n := 0
	for _, u := range m.sortedUnits() {
		uses := false
		m.walkUnit(u, func(x ast.Node) bool {
			if sel, ok := x.(*ast.SelectorExpr); ok {
				if s := m.info.Selections[sel]; s != nil && s.Obj() == rField {
					uses = true
				}
			}
			return true
		})
		if !uses {
			continue
		}
		n++
		c := "reader-use@" + u.name
		switch {
		case u.roles["worker"] || u.roles["serializer"]:
			r.Bad(c, u.node.Pos(), "the input reader is used in role(s) %v: reads race with the reader goroutine and blocks are consumed out of order", rolesOf(u))
		case noStart[u]:
			r.Bad(c, u.node.Pos(), "%s reads the input and is reachable from the consumer API without going through the spawner: it runs concurrently with the reader goroutine", u.name)
		default:
			r.OK(c, u.node.Pos(), "uses dec.%s; reachable only from the reader goroutine and from the spawner (roles %v)", rField.Name(), rolesOf(u))
		}
	}
	// the spawner's own calls that reach a reader-using unit must precede every go statement
	startU := m.byDecl[m.start.Obj]
	m.walkUnit(startU, func(x ast.Node) bool {
		call, ok := x.(*ast.CallExpr)
		if !ok {
			return true
		}
		if _, isGo := m.goCalls[call]; isGo {
			return true
		}
		fn := callee(m.info, call)
		if fn == nil || fn.Pkg() != m.pk.Types {
			return true
		}
		tu := m.unitOfFunc(fn)
		if tu == nil || !m.unitReaches(tu, func(y *unit) bool { return m.unitReadsInput(y) }) {
			return true
		}
		n++
		c := "prespawn-read@" + m.start.Name() + " " + fn.Name()
		if call.Pos() < firstGo {
			r.OK(c, call.Pos(), "synchronous read in the spawner precedes every go statement")
		} else {
			r.Bad(c, call.Pos(), "the spawner reads the input after goroutines were started: concurrent with the reader goroutine")
		}
		return true
	})
	r.Stat("units_using_input_reader", n)
}

// consumerNoStart returns the units reachable from the exported API without passing through the spawner, i.e. the
// code that can run on the caller's goroutine concurrently with the pipeline goroutines.
func (m *pbfModel) consumerNoStart() map[*unit]bool {
	noStart := map[*unit]bool{}
	var rec func(u *unit)
	rec = func(u *unit) {
		if u == nil || noStart[u] || u.node == ast.Node(m.start.Decl) {
			return
		}
		noStart[u] = true
		for _, fn := range u.calls {
			rec(m.unitOfFunc(fn))
		}
	}
	for _, u := range m.units {
		if fd, ok := u.node.(*ast.FuncDecl); ok && u.roles["consumer"] {
			if obj, _ := m.info.Defs[fd.Name].(*types.Func); obj != nil && obj.Exported() {
				rec(u)
			}
		}
	}
	return noStart
}

var _ = core.Discharged
