package rules

import "osmcheck/core"

// c09Benign: behaviour-preserving rewrites of the offset bookkeeping; every rule of C09 must stay silent on each.
var c09Benign = []core.Mutant{
	{ // extract helper with a value parameter: the shift moves into dec.shift(off)
		Name: "shift-helper-with-offset-param", File: "osmpbf/decode.go",
		Find: "\t\tdec.pOffset = dec.cOffset\n\t\tdec.cOffset = cd.Offset\n\t\tdec.cData = cd\n\t\tdec.cIndex = 0\n\t}\n\n\tv := dec.cData.Objects[dec.cIndex]\n\tdec.cIndex++\n\treturn v, dec.cData.Err\n}\n",
		Replace: "\t\tdec.shift(cd.Offset)\n\t\tdec.cData = cd\n\t\tdec.cIndex = 0\n\t}\n\n\tv := dec.cData.Objects[dec.cIndex]\n\tdec.cIndex++\n\treturn v, dec.cData.Err\n}\n\n" +
			"func (dec *decoder) shift(off int64) {\n\tdec.pOffset = dec.cOffset\n\tdec.cOffset = off\n}\n",
	},
	{ // inverted branch: the normal block is handled in the then-branch, the end of the queue after it
		Name: "next-inverted-branch", File: "osmpbf/decode.go",
		Find:    "\t\tif !ok || cd.Err == io.EOF {\n\t\t\tif dec.cData.Err != nil {\n\t\t\t\treturn nil, dec.cData.Err\n\t\t\t}\n\n\t\t\t// The queue is closed without an error pair only when the\n\t\t\t// serializer stopped because the context was done.\n\t\t\tif err := dec.ctx.Err(); !ok && err != nil {\n\t\t\t\treturn nil, err\n\t\t\t}\n\t\t\treturn nil, io.EOF\n\t\t}\n\n\t\tdec.pOffset = dec.cOffset\n\t\tdec.cOffset = cd.Offset\n\t\tdec.cData = cd\n\t\tdec.cIndex = 0\n\t}\n",
		Replace: "\t\tif ok && cd.Err != io.EOF {\n\t\t\tdec.pOffset = dec.cOffset\n\t\t\tdec.cOffset = cd.Offset\n\t\t\tdec.cData = cd\n\t\t\tdec.cIndex = 0\n\t\t\tcontinue\n\t\t}\n\n\t\tif dec.cData.Err != nil {\n\t\t\treturn nil, dec.cData.Err\n\t\t}\n\t\tif err := dec.ctx.Err(); !ok && err != nil {\n\t\t\treturn nil, err\n\t\t}\n\t\treturn nil, io.EOF\n\t}\n",
	},
	{ // split guard + switch: closed and EOF tested separately in a tagless switch; independent stores reordered
		Name: "next-switch-split-guards", File: "osmpbf/decode.go",
		Find:    "\t\tif !ok || cd.Err == io.EOF {\n\t\t\tif dec.cData.Err != nil {\n\t\t\t\treturn nil, dec.cData.Err\n\t\t\t}\n\n\t\t\t// The queue is closed without an error pair only when the\n\t\t\t// serializer stopped because the context was done.\n\t\t\tif err := dec.ctx.Err(); !ok && err != nil {\n\t\t\t\treturn nil, err\n\t\t\t}\n\t\t\treturn nil, io.EOF\n\t\t}\n\n\t\tdec.pOffset = dec.cOffset\n\t\tdec.cOffset = cd.Offset\n\t\tdec.cData = cd\n\t\tdec.cIndex = 0\n",
		Replace: "\t\tswitch {\n\t\tcase !ok:\n\t\t\tif dec.cData.Err != nil {\n\t\t\t\treturn nil, dec.cData.Err\n\t\t\t}\n\t\t\tif err := dec.ctx.Err(); err != nil {\n\t\t\t\treturn nil, err\n\t\t\t}\n\t\t\treturn nil, io.EOF\n\t\tcase io.EOF == cd.Err:\n\t\t\tif dec.cData.Err != nil {\n\t\t\t\treturn nil, dec.cData.Err\n\t\t\t}\n\t\t\treturn nil, io.EOF\n\t\t}\n\n\t\tdec.cIndex = 0\n\t\tdec.cData = cd\n\t\tdec.pOffset = dec.cOffset\n\t\tdec.cOffset = cd.Offset\n",
	},
	{ // reordered terms of the sum, a length read once into a local
		Name: "increment-reordered-local-size", File: "osmpbf/decode.go",
		Find:    "\tblobBuf = blobBuf[:blobHeader.GetDatasize()]\n\tblob, err := dec.readBlob(blobBuf)\n\tif err != nil {\n\t\treturn nil, nil, err\n\t}\n\n\tdec.bytesRead += 4 + int64(blobHeaderSize) + int64(blobHeader.GetDatasize())\n",
		Replace: "\tsize := blobHeader.GetDatasize()\n\tblobBuf = blobBuf[:size]\n\tblob, err := dec.readBlob(blobBuf)\n\tif err != nil {\n\t\treturn nil, nil, err\n\t}\n\n\tdec.bytesRead += int64(size) + (int64(blobHeaderSize) + 4)\n",
	},
	{ // two read helpers share one helper that does the io.ReadFull
		Name: "shared-readfull-helper", File: "osmpbf/decode.go",
		Find:    "func (dec *decoder) readBlob(buf []byte) (*osmpbf.Blob, error) {\n\tif _, err := io.ReadFull(dec.r, buf); err != nil {\n\t\treturn nil, unexpectedEOF(err)\n\t}\n",
		Replace: "func (dec *decoder) fill(buf []byte) error {\n\t_, err := io.ReadFull(dec.r, buf)\n\treturn err\n}\n\nfunc (dec *decoder) readBlob(buf []byte) (*osmpbf.Blob, error) {\n\tif err := dec.fill(buf); err != nil {\n\t\treturn nil, unexpectedEOF(err)\n\t}\n",
	},
	{ // renamed local, declaration split from the capture, else-branch form of the pair
		Name: "capture-split-decl-if-else", File: "osmpbf/decode.go",
		Find:    "\t\t\toffset := dec.bytesRead\n\t\t\tblobHeader, blob, err = dec.readFileBlock(sizeBuf, headerBuf, blobBuf)\n\t\t\tif err == nil && blobHeader.GetType() != osmDataType {\n\t\t\t\terr = fmt.Errorf(\"unexpected fileblock of type %s\", blobHeader.GetType())\n\t\t\t}\n\n\t\t\tpair := iPair{Offset: offset, Blob: blob}\n\t\t\tif err != nil {\n\t\t\t\tpair = iPair{Err: err}\n\t\t\t}\n",
		Replace: "\t\t\tvar start int64\n\t\t\tstart = dec.bytesRead\n\t\t\tblobHeader, blob, err = dec.readFileBlock(sizeBuf, headerBuf, blobBuf)\n\t\t\tif err == nil && blobHeader.GetType() != osmDataType {\n\t\t\t\terr = fmt.Errorf(\"unexpected fileblock of type %s\", blobHeader.GetType())\n\t\t\t}\n\n\t\t\tvar pair iPair\n\t\t\tif err == nil {\n\t\t\t\tpair.Offset, pair.Blob = start, blob\n\t\t\t} else {\n\t\t\t\tpair = iPair{Err: err}\n\t\t\t}\n",
	},
	{ // accessor through a local
		Name: "accessor-local", File: "osmpbf/scanner.go",
		Find:    "\treturn atomic.LoadInt64(&s.decoder.cOffset)\n",
		Replace: "\tcurrent := atomic.LoadInt64(&s.decoder.cOffset)\n\treturn current\n",
	},
	{ // if -> tagged switch for the header test
		Name: "header-tagged-switch", File: "osmpbf/decode.go",
		Find:    "\tif blobHeader.GetType() == osmHeaderType {\n\t\tvar err error\n\t\tdec.header, err = decodeOSMHeader(blob)\n\t\tif err != nil {\n\t\t\treturn err\n\t\t}\n\t}\n",
		Replace: "\tswitch blobHeader.GetType() {\n\tcase osmHeaderType:\n\t\tvar err error\n\t\tdec.header, err = decodeOSMHeader(blob)\n\t\tif err != nil {\n\t\t\treturn err\n\t\t}\n\t}\n",
	},
	{ // inverted branch for the restart dispatch
		Name: "restart-inverted-branch", File: "osmpbf/decode.go",
		Find:    "\t\tif blobHeader.GetType() != osmHeaderType {\n\t\t\tdec.inputs[0] <- iPair{Offset: 0, Blob: blob, Err: err}\n\n\t\t\ti = (i + 1) % n\n\t\t}\n",
		Replace: "\t\tif osmHeaderType == blobHeader.GetType() {\n\t\t\t// nothing left over from Start\n\t\t} else {\n\t\t\tfirst := iPair{Blob: blob, Err: err}\n\t\t\tdec.inputs[0] <- first\n\n\t\t\ti = (i + 1) % n\n\t\t}\n",
	},
	{ // worker: offset through a local, inverted if
		Name: "worker-offset-local", File: "osmpbf/decode.go",
		Find:    "\t\t\t\tif p.Err == nil {\n\t\t\t\t\t// send decoded objects or decoding error\n\t\t\t\t\tobjects, err := dd.Decode(p.Blob)\n\t\t\t\t\tout = oPair{Offset: p.Offset, Objects: objects, Err: err}\n\t\t\t\t} else {\n\t\t\t\t\tout = oPair{Err: p.Err} // send input error as is\n\t\t\t\t}\n",
		Replace: "\t\t\t\tif p.Err != nil {\n\t\t\t\t\tout = oPair{Err: p.Err} // send input error as is\n\t\t\t\t} else {\n\t\t\t\t\tat := p.Offset\n\t\t\t\t\tobjs, derr := dd.Decode(p.Blob)\n\t\t\t\t\tout = oPair{Err: derr, Objects: objs, Offset: at}\n\t\t\t\t}\n",
	},
	{ // Next restructured around a helper that loops until a block with objects is current; tuple assignment for the shift; case list
		Name: "next-fill-helper-tuple-shift", File: "osmpbf/decode.go",
		Find:    "func (dec *decoder) Next() (osm.Object, error) {\n\tfor dec.cIndex >= len(dec.cData.Objects) {\n\t\tcd, ok := <-dec.serializer\n\t\tif !ok || cd.Err == io.EOF {\n\t\t\tif dec.cData.Err != nil {\n\t\t\t\treturn nil, dec.cData.Err\n\t\t\t}\n\n\t\t\t// The queue is closed without an error pair only when the\n\t\t\t// serializer stopped because the context was done.\n\t\t\tif err := dec.ctx.Err(); !ok && err != nil {\n\t\t\t\treturn nil, err\n\t\t\t}\n\t\t\treturn nil, io.EOF\n\t\t}\n\n\t\tdec.pOffset = dec.cOffset\n\t\tdec.cOffset = cd.Offset\n\t\tdec.cData = cd\n\t\tdec.cIndex = 0\n\t}\n\n\tv := dec.cData.Objects[dec.cIndex]\n\tdec.cIndex++\n\treturn v, dec.cData.Err\n}\n\n",
		Replace: "func (dec *decoder) Next() (osm.Object, error) {\n\tif dec.cIndex >= len(dec.cData.Objects) {\n\t\tif err := dec.fill(); err != nil {\n\t\t\treturn nil, err\n\t\t}\n\t}\n\n\tv := dec.cData.Objects[dec.cIndex]\n\tdec.cIndex++\n\treturn v, dec.cData.Err\n}\n\n// fill makes the next block that has objects the current one.\nfunc (dec *decoder) fill() error {\n\tfor {\n\t\tcd, ok := <-dec.serializer\n\t\tswitch {\n\t\tcase !ok, cd.Err == io.EOF:\n\t\t\tif dec.cData.Err != nil {\n\t\t\t\treturn dec.cData.Err\n\t\t\t}\n\t\t\tif err := dec.ctx.Err(); !ok && err != nil {\n\t\t\t\treturn err\n\t\t\t}\n\t\t\treturn io.EOF\n\t\t}\n\n\t\tdec.pOffset, dec.cOffset = dec.cOffset, cd.Offset\n\t\tdec.cData = cd\n\t\tdec.cIndex = 0\n\t\tif len(cd.Objects) > 0 {\n\t\t\treturn nil\n\t\t}\n\t}\n}\n\n",
	},
}
