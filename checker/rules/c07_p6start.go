package rules

import (
	"go/ast"
	"sort"

	"osmcheck/core"
)

// c07StopBeforeStart: "every later Scan returns false" holds from before the first Scan: a scanner that was closed, or
// whose context was cancelled, before it was ever started must not start the decoder from Scan - the start reads the
// first block of the input (and can block on it), spawns the pipeline goroutines, and an error of that read would win
// over ErrScannerClosed / the context's error in Err. So on every path of Scan (through the helpers it calls) every
// call of the decoder's Start is preceded by still valid negative tests of the closed flag and of the context.
// One report per unguarded call site (the second and later ones get their own construct names).
func c07StopBeforeStart(r *core.R, sc *c07Scanner, scanFi *FuncInfo, miss map[*ast.CallExpr]int, bitName func(int) []string) {
	c := "stop-before-start@" + sc.rel + ".(*Scanner).Scan"
	if len(miss) == 0 {
		r.OKTrivial(c, scanFi.Decl.Pos(), "Scan does not start the decoder (no call of the decoder's Start is reachable from it)")
		return
	}
	var calls []*ast.CallExpr
	for call := range miss {
		calls = append(calls, call)
	}
	sort.Slice(calls, func(i, j int) bool { return calls[i].Pos() < calls[j].Pos() })
	bad := 0
	for _, call := range calls {
		if miss[call] == 0 {
			continue
		}
		bad++
		r.Bad(c, call.Pos(), "Scan starts the decoder (`%s`: reads the first block of the input and spawns the pipeline goroutines) on a path without a still valid negative test of %v: after New -> Close() or cancel() the first Scan still reads the header block (and blocks with a stalled reader), starts the goroutines, and an error of that first read is reported by Err instead of ErrScannerClosed / the context's error (nil on an empty input)", src(sc.view.fset, call), bitName(miss[call]))
	}
	if bad == 0 {
		r.OK(c, scanFi.Decl.Pos(), "every call of the decoder's Start reachable from Scan is preceded on every path by negative tests of the closed flag and of the context: a scanner stopped before its first Scan never touches the input")
	}
}
