package rules

import (
	"fmt"
	"go/ast"
	"go/types"
)

// Places: a list may live in a local variable or in a field reached from one (`a.updates`, `a.state.lists`, through
// pointers). The sorted-before-escape machinery identifies a list by a types.Object; for a field path it uses a
// synthetic variable that stands for "field path P of variable v". The synthetic variable has the type of the field
// and the position of v (so "declared outside the loop" means what it means for v), and is unique per (v, P), so the
// existing identity comparisons work unchanged. When a function receives the struct (pointer receiver, parameter),
// the place is translated through the argument: field path P of parameter p is field path P of the argument.

type c12PlaceInfo struct {
	root types.Object
	path []*types.Var
}

var (
	c12PlaceByKey = map[string]*types.Var{}
	c12PlaceOf    = map[types.Object]c12PlaceInfo{}
)

// c12Field returns the place "field f of base" (base may itself be a place).
func c12Field(base types.Object, f *types.Var) types.Object {
	if base == nil || f == nil {
		return nil
	}
	key := fmt.Sprintf("%p.%p", base, f)
	if v, ok := c12PlaceByKey[key]; ok {
		return v
	}
	root, path := c12PlaceParts(base)
	v := types.NewVar(base.Pos(), base.Pkg(), base.Name()+"."+f.Name(), f.Type())
	c12PlaceByKey[key] = v
	c12PlaceOf[v] = c12PlaceInfo{root: root, path: append(append([]*types.Var{}, path...), f)}
	return v
}

// c12PlaceParts splits a place into its root variable and field path (a plain variable has an empty path).
func c12PlaceParts(o types.Object) (types.Object, []*types.Var) {
	if pi, ok := c12PlaceOf[o]; ok {
		return pi.root, pi.path
	}
	return o, nil
}

// c12OnBase re-roots the field path of place o (rooted at a parameter) on base (the argument's place).
func c12OnBase(base types.Object, path []*types.Var) types.Object {
	for _, f := range path {
		base = c12Field(base, f)
	}
	return base
}

func c12IsPlace(o types.Object) bool { _, ok := c12PlaceOf[o]; return ok }

// c12ResolveField resolves a field selection x.f (through pointers and parentheses) to a place.
func c12ResolveField(info *types.Info, body ast.Node, e ast.Expr, depth int) types.Object {
	sel, ok := e.(*ast.SelectorExpr)
	if !ok || depth <= 0 {
		return nil
	}
	f := fieldOf(info, sel)
	if f == nil {
		return nil
	}
	x := stripDerefParen(sel.X)
	var base types.Object
	if _, isSel := x.(*ast.SelectorExpr); isSel {
		base = c12ResolveField(info, body, x, depth-1)
	} else {
		base = c12Resolve(info, body, x)
	}
	return c12Field(base, f)
}

// c12ListPlace returns the place a store or append writes to, and whether it is one element of it: `l = ...` and
// `a.l = ...` give (l, false), `l[k] = ...` and `a.l[k] = ...` give (l, true). nil when the left-hand side is none
// of these shapes.
func c12ListPlace(info *types.Info, body ast.Node, lhs ast.Expr) (types.Object, bool) {
	lhs = ast.Unparen(lhs)
	if ix, ok := lhs.(*ast.IndexExpr); ok {
		return c12Resolve(info, body, stripDerefParen(ix.X)), true
	}
	return c12Resolve(info, body, stripDerefParen(lhs)), false
}

// c12WritesPlace: an assignment to lhs changes place v: it stores into v or one of its elements, or replaces a
// variable or field v is reached through.
func c12WritesPlace(info *types.Info, body ast.Node, lhs ast.Expr, v types.Object) bool {
	if c12RootVar(info, lhs) == v {
		return true
	}
	if !c12IsPlace(v) {
		return false
	}
	e := ast.Unparen(lhs)
	for {
		switch x := e.(type) {
		case *ast.IndexExpr:
			e = ast.Unparen(x.X)
			continue
		case *ast.SliceExpr:
			e = ast.Unparen(x.X)
			continue
		case *ast.StarExpr:
			e = ast.Unparen(x.X)
			continue
		}
		break
	}
	p := c12Resolve(info, body, e)
	for o := v; p != nil && o != nil; {
		if o == p {
			return true
		}
		pi, ok := c12PlaceOf[o]
		if !ok || len(pi.path) == 0 {
			break
		}
		o = c12OnBase(pi.root, pi.path[:len(pi.path)-1])
	}
	return false
}

// c12FieldPlaces lists, for a parameter of struct (or pointer to struct) type, the places of its fields (one level,
// two for nested structs) whose type satisfies want.
func c12FieldPlaces(p types.Object, want func(types.Type) bool) []types.Object {
	var out []types.Object
	var walk func(base types.Object, t types.Type, depth int)
	walk = func(base types.Object, t types.Type, depth int) {
		if pt, ok := t.Underlying().(*types.Pointer); ok {
			t = pt.Elem()
		}
		st, ok := t.Underlying().(*types.Struct)
		if !ok || depth <= 0 {
			return
		}
		for i := 0; i < st.NumFields(); i++ {
			f := st.Field(i)
			if want(f.Type()) {
				out = append(out, c12Field(base, f))
			} else {
				walk(c12Field(base, f), f.Type(), depth-1)
			}
		}
	}
	walk(p, p.Type(), 2)
	return out
}

// c12SharesWithCaller: a store into field path of parameter p inside the callee is visible to the caller (p is a
// pointer, or the path goes through a pointer field).
func c12SharesWithCaller(p types.Object, path []*types.Var) bool {
	if _, ok := p.Type().Underlying().(*types.Pointer); ok {
		return true
	}
	for i, f := range path {
		if i == len(path)-1 {
			break
		}
		if _, ok := f.Type().Underlying().(*types.Pointer); ok {
			return true
		}
	}
	return false
}
