package rules

// c16_val.go — values of the C16 abstract evaluator (see c16_eval.go for what it is and is not).
//
// Concrete values: int64 (every integer kind, orb.Orientation included), bool, string, c16Flt (a float that is
// either a concrete number or a symbolic coordinate token), *c16Struct and *c16Arr (value semantics: copied on
// every store), c16Slice (a window on a shared backing array, Go's aliasing and append rules), *c16Map,
// *c16Ptr (an address: load/store closures), c16Nil, *c16Closure / *c16FnVal (functions as values).
// *c16Opq is a value the evaluator knows nothing about except its static type.

import (
	"fmt"
	"go/ast"
	"go/types"
	"sort"
	"strings"
)

type c16Val interface{}

// c16Flt is a float64: concrete (tok == "") or a symbolic coordinate. Distinct tokens denote distinct
// non-zero numbers that differ from every concrete number the code mentions.
type c16Flt struct {
	tok string
	v   float64
}

type c16Struct struct {
	typ types.Type // named struct type (or the struct type itself)
	f   map[string]c16Val
}

type c16Arr struct {
	typ types.Type
	e   []c16Val
}

type c16Backing struct{ e []c16Val }

type c16Slice struct {
	typ         types.Type
	arr         *c16Backing // nil: the nil slice
	off, n, cap int
}

type c16Map struct {
	typ types.Type
	m   map[string]c16Val // key rendering -> value
	k   map[string]c16Val // key rendering -> key
}

type c16Ptr struct {
	elem  types.Type
	load  func() c16Val
	store func(c16Val)
	id    *int // identity (pointer equality)
}

type c16Nil struct{}

type c16Opq struct {
	typ  types.Type
	why  string
	deps map[string]bool // points the value depends on (symbolic comparisons)
	cmp  *c16Cmp         // the comparison of symbolic floats it stands for, if any
	neg  bool            // it stands for the negation of cmp
}

type c16Closure struct {
	lit  *ast.FuncLit
	env  *c16Frame
	info *types.Info
}

type c16FnVal struct{ fn *types.Func }

// c16Bound is a method value: the receiver is evaluated when the value is made.
type c16Bound struct {
	fn   *types.Func
	recv c16Val
}

// c16Tuple is the result of a multi-value call.
type c16Tuple []c16Val

func c16IsOpq(v c16Val) bool { _, ok := v.(*c16Opq); return ok }

// c16Copy implements value semantics: structs and arrays are duplicated, everything else is shared.
func c16Copy(v c16Val) c16Val {
	switch x := v.(type) {
	case *c16Struct:
		n := &c16Struct{typ: x.typ, f: make(map[string]c16Val, len(x.f))}
		for k, e := range x.f {
			n.f[k] = c16Copy(e)
		}
		return n
	case *c16Arr:
		n := &c16Arr{typ: x.typ, e: make([]c16Val, len(x.e))}
		for i, e := range x.e {
			n.e[i] = c16Copy(e)
		}
		return n
	}
	return v
}

// c16Zero builds the zero value of a type.
func c16Zero(t types.Type) c16Val {
	switch u := t.Underlying().(type) {
	case *types.Basic:
		switch {
		case u.Info()&types.IsBoolean != 0:
			return false
		case u.Info()&types.IsString != 0:
			return ""
		case u.Info()&types.IsInteger != 0:
			return int64(0)
		case u.Info()&types.IsFloat != 0:
			return c16Flt{}
		}
		return &c16Opq{typ: t, why: "zero of " + t.String()}
	case *types.Struct:
		s := &c16Struct{typ: t, f: map[string]c16Val{}}
		for i := 0; i < u.NumFields(); i++ {
			s.f[u.Field(i).Name()] = c16Zero(u.Field(i).Type())
		}
		return s
	case *types.Array:
		a := &c16Arr{typ: t, e: make([]c16Val, int(u.Len()))}
		for i := range a.e {
			a.e[i] = c16Zero(u.Elem())
		}
		return a
	case *types.Slice:
		return c16Slice{typ: t}
	}
	return c16Nil{}
}

func c16NewSlice(t types.Type, elems []c16Val) c16Slice {
	return c16Slice{typ: t, arr: &c16Backing{e: elems}, n: len(elems), cap: len(elems)}
}

func (s c16Slice) at(i int) c16Val     { return s.arr.e[s.off+i] }
func (s c16Slice) set(i int, v c16Val) { s.arr.e[s.off+i] = v }
func (s c16Slice) elems() []c16Val {
	if s.arr == nil {
		return nil
	}
	return s.arr.e[s.off : s.off+s.n]
}

// c16Key renders a map key / comparable value canonically.
func c16Key(v c16Val) (string, bool) {
	switch x := v.(type) {
	case int64:
		return fmt.Sprintf("i%d", x), true
	case bool:
		return fmt.Sprintf("b%v", x), true
	case string:
		return "s" + x, true
	case c16Flt:
		if x.tok != "" {
			return "t" + x.tok, true
		}
		return fmt.Sprintf("f%v", x.v), true
	case c16Nil:
		return "nil", true
	case *c16Arr:
		parts := make([]string, len(x.e))
		for i, e := range x.e {
			k, ok := c16Key(e)
			if !ok {
				return "", false
			}
			parts[i] = k
		}
		return "[" + strings.Join(parts, ",") + "]", true
	case *c16Struct:
		names := make([]string, 0, len(x.f))
		for n := range x.f {
			names = append(names, n)
		}
		sort.Strings(names)
		parts := make([]string, len(names))
		for i, n := range names {
			k, ok := c16Key(x.f[n])
			if !ok {
				return "", false
			}
			parts[i] = n + ":" + k
		}
		return "{" + strings.Join(parts, ",") + "}", true
	case *c16Ptr:
		return fmt.Sprintf("p%p", x.id), true
	}
	return "", false
}

// c16Equal decides v == w; known=false when the answer depends on something opaque.
func c16Equal(v, w c16Val) (eq, known bool) {
	if c16IsOpq(v) || c16IsOpq(w) {
		return false, false
	}
	if s, ok := v.(c16Slice); ok { // only comparable with nil
		_, isNil := w.(c16Nil)
		return s.arr == nil && isNil, isNil
	}
	if s, ok := w.(c16Slice); ok {
		_, isNil := v.(c16Nil)
		return s.arr == nil && isNil, isNil
	}
	for _, p := range [2][2]c16Val{{v, w}, {w, v}} {
		if m, ok := p[0].(*c16Map); ok {
			_, isNil := p[1].(c16Nil)
			return m == nil && isNil, isNil
		}
		switch p[0].(type) {
		case *c16Closure, *c16FnVal, *c16Bound:
			_, isNil := p[1].(c16Nil)
			return false, isNil
		}
	}
	kv, ok1 := c16Key(v)
	kw, ok2 := c16Key(w)
	if !ok1 || !ok2 {
		return false, false
	}
	return kv == kw, true
}

// c16Show renders a value for diagnostics.
func c16Show(v c16Val) string {
	switch x := v.(type) {
	case c16Slice:
		parts := []string{}
		for _, e := range x.elems() {
			parts = append(parts, c16Show(e))
		}
		return "[" + strings.Join(parts, " ") + "]"
	case *c16Arr:
		if len(x.e) == 2 {
			if a, ok := x.e[0].(c16Flt); ok && a.tok != "" {
				return strings.TrimSuffix(a.tok, ".x")
			}
		}
		parts := []string{}
		for _, e := range x.e {
			parts = append(parts, c16Show(e))
		}
		return "(" + strings.Join(parts, ",") + ")"
	case *c16Struct:
		names := make([]string, 0, len(x.f))
		for n := range x.f {
			names = append(names, n)
		}
		sort.Strings(names)
		parts := []string{}
		for _, n := range names {
			parts = append(parts, n+":"+c16Show(x.f[n]))
		}
		return "{" + strings.Join(parts, " ") + "}"
	case c16Flt:
		if x.tok != "" {
			return x.tok
		}
		return fmt.Sprint(x.v)
	case *c16Opq:
		return "?" + x.why
	case *c16Sym:
		return "sym" + fmt.Sprint(c16SortedDeps(x.deps))
	case *c16Ptr:
		return "&" + c16Show(x.load())
	case c16Nil:
		return "nil"
	case *c16Map:
		return fmt.Sprintf("map[%d]", len(x.m))
	}
	return fmt.Sprint(v)
}
