package rules

import (
	"fmt"
	"go/ast"
	"go/token"
	"go/types"

	"osmcheck/core"
)

// C06.E6, slab partition. `x[I*K : (I+1)*K]` (also the three-index form with the same upper bound as capacity) is in
// range when x was made once with length N*K and 0 <= I < N holds at the use: every part lies inside the slab. K is
// compared by value (constants) or structurally, I and N through the guard facts (loop condition, counter).

// c06SlabProof looks for that proof.
func c06SlabProof(r *core.R, info *types.Info, fi *FuncInfo, f *c01Fn, e *ast.SliceExpr, facts []guardFact) (bool, string) {
	if e.Low == nil || e.High == nil {
		return false, ""
	}
	if e.Slice3 && (e.Max == nil || !(c06SameValue(info, f.body, e.Max, f.body, e.High) || c06SameText(info, e.Max, e.High))) {
		return false, ""
	}
	xo := objOf(info, e.X)
	if xo == nil {
		return false, ""
	}
	ds := c01Defs(info, f.body, xo)
	if len(ds) != 1 || ds[0].rhs == nil || ds[0].index >= 0 {
		return false, ""
	}
	mk, ok := ast.Unparen(ds[0].rhs).(*ast.CallExpr)
	if !ok || builtinName(info, mk) != "make" || len(mk.Args) < 2 {
		return false, ""
	}
	same := func(a, b ast.Expr) bool {
		av, aok := constInt(info, a)
		bv, bok := constInt(info, b)
		if aok || bok {
			return aok && bok && av == bv
		}
		return c06SameValue(info, f.body, a, f.body, b)
	}
	mul := func(x ast.Expr) (ast.Expr, ast.Expr, bool) {
		be, ok := ast.Unparen(c01StripConv(info, x)).(*ast.BinaryExpr)
		if !ok || be.Op != token.MUL {
			return nil, nil, false
		}
		return be.X, be.Y, true
	}
	plusOne := func(x, i ast.Expr) bool {
		be, ok := ast.Unparen(c01StripConv(info, x)).(*ast.BinaryExpr)
		if !ok || be.Op != token.ADD {
			return false
		}
		for _, pr := range [][2]ast.Expr{{be.X, be.Y}, {be.Y, be.X}} {
			if v, okc := constInt(info, pr[1]); okc && v == 1 && same(pr[0], i) {
				return true
			}
		}
		return false
	}
	la, lb, ok1 := mul(mk.Args[1])
	a1, a2, ok2 := mul(e.Low)
	if !ok1 || !ok2 {
		return false, ""
	}
	for _, nk := range [][2]ast.Expr{{la, lb}, {lb, la}} {
		n, k := nk[0], nk[1]
		for _, ik := range [][2]ast.Expr{{a1, a2}, {a2, a1}} {
			i, k2 := ik[0], ik[1]
			if !same(k, k2) {
				continue
			}
			// high = (i+1)*k  or  i*k + k
			hiOK := false
			if h1, h2, okh := mul(e.High); okh {
				for _, hp := range [][2]ast.Expr{{h1, h2}, {h2, h1}} {
					if same(hp[1], k) && plusOne(hp[0], i) {
						hiOK = true
					}
				}
			}
			if be, okb := ast.Unparen(c01StripConv(info, e.High)).(*ast.BinaryExpr); okb && be.Op == token.ADD && !hiOK {
				for _, hp := range [][2]ast.Expr{{be.X, be.Y}, {be.Y, be.X}} {
					if same(hp[1], k) && same(hp[0], e.Low) {
						hiOK = true
					}
				}
			}
			if !hiOK {
				continue
			}
			// 0 <= i < n
			isI := func(x ast.Expr) bool { return c06SameValue(info, f.body, x, f.body, i) }
			isN := func(x ast.Expr) bool { return same(x, n) }
			lt := knownLess(facts, isI, isN)
			if lt == nil {
				continue
			}
			nonNeg := false
			if io := objOf(info, c01StripConv(info, i)); io != nil && (c06IsCounter(info, fi, io) || c06OnlyGrows(info, fi, io) || c06LoopCounter(info, f, io)) {
				nonNeg = true
			}
			if !nonNeg {
				bd := &c06Bound{}
				c06BoundsFromFacts(r.P.Fset, info, facts, isI, bd, fi.Name())
				nonNeg = bd.nonNeg
			}
			if !nonNeg {
				continue
			}
			if c06CountAssigns(info, f.body, xo, mk.End(), e.Pos()) > 0 {
				continue
			}
			if no := objOf(info, c01StripConv(info, n)); no != nil && c06CountAssigns(info, f.body, no, mk.Pos(), e.Pos()) > 0 {
				continue
			}
			return true, fmt.Sprintf("part %s of the slab `%s` (%s parts of %s elements): `%s` is %v on every path to the use and the index is a counter from 0", src(r.P.Fset, i), src(r.P.Fset, mk), src(r.P.Fset, n), src(r.P.Fset, k), src(r.P.Fset, lt.expr), lt.val)
		}
	}
	return false, ""
}

// c06LoopCounter: o is the variable of a three-clause for loop that starts at a non-negative constant and is only
// incremented (in the post statement or by ++ / += positive constant).
func c06LoopCounter(info *types.Info, f *c01Fn, o types.Object) bool {
	okInit, bad := false, false
	ast.Inspect(f.body, func(n ast.Node) bool {
		switch s := n.(type) {
		case *ast.ForStmt:
			if as, ok := s.Init.(*ast.AssignStmt); ok && as.Tok == token.DEFINE {
				for i, l := range as.Lhs {
					if info.Defs[identOf(l)] == o && i < len(as.Rhs) {
						if v, okc := constInt(info, as.Rhs[i]); okc && v >= 0 {
							okInit = true
						}
					}
				}
			}
		case *ast.AssignStmt:
			for i, l := range s.Lhs {
				if id, ok := ast.Unparen(l).(*ast.Ident); ok && info.Uses[id] == o {
					if s.Tok == token.ADD_ASSIGN && i < len(s.Rhs) {
						if v, okc := constInt(info, s.Rhs[i]); okc && v >= 0 {
							continue
						}
					}
					bad = true
				}
			}
		case *ast.IncDecStmt:
			if objOf(info, s.X) == o && s.Tok != token.INC {
				bad = true
			}
		case *ast.UnaryExpr:
			if s.Op == token.AND && objOf(info, s.X) == o {
				bad = true
			}
		}
		return true
	})
	return okInit && !bad
}

// c06SameText: two expressions without calls that read the same (they denote the same value when nothing in between
// assigns their variables, which the callers check).
func c06SameText(info *types.Info, a, b ast.Expr) bool {
	pure := func(e ast.Expr) bool {
		ok := true
		ast.Inspect(e, func(n ast.Node) bool {
			if call, isCall := n.(*ast.CallExpr); isCall && !c01IsConversion(info, call) {
				ok = false
			}
			return ok
		})
		return ok
	}
	return pure(a) && pure(b) && types.ExprString(a) == types.ExprString(b)
}
