package rules

import "osmcheck/core"

// Round-7 refactoring shapes (seen in benign C13-g, C04-g, C05-g): an attribute looked up through an index-returning
// helper; an array of blocks handed on as a slice (x[:]); a list filtered in place (kept := x[:0]); a literal
// assembled byte by byte. Silent variants and mutants seeded into the same shapes, for C03, C04 and C05.

const c03ActionAttrLoop = "\tfor _, attr := range start.Attr {\n\t\tif attr.Name.Local == \"type\" {\n\t\t\ta.Type = ActionType(attr.Value)\n\t\t\tbreak\n\t\t}\n\t}\n"

func c03ActionAttrIndex(test string) string {
	return "\tattrIndex := func(name string) int {\n\t\tfor i, attr := range start.Attr {\n\t\t\tif attr.Name.Local == name {\n\t\t\t\treturn i\n\t\t\t}\n\t\t}\n\t\treturn -1\n\t}\n\tif i := attrIndex(\"type\"); " + test + " {\n\t\ta.Type = ActionType(start.Attr[i].Value)\n\t}\n"
}

var c03Benign5 = []core.Mutant{
	{Name: "attribute-through-index-returning-helper", File: "diff.go", Find: c03ActionAttrLoop, Replace: c03ActionAttrIndex("i >= 0")},
	{Name: "attribute-index-compared-with-minus-one", File: "diff.go", Find: c03ActionAttrLoop, Replace: c03ActionAttrIndex("i != -1")},
}

var c03Mutants5 = []core.Mutant{
	{Name: "attribute-index-helper-misses-first-attribute", File: "diff.go", Find: c03ActionAttrLoop, Replace: c03ActionAttrIndex("i > 0"), ExpectRule: "T4", ExpectConstruct: "attr@(*Action).UnmarshalXML type"},
}

const c04ChangeCalls = "\tif err := marshalInnerChange(e, \"create\", c.Create); err != nil {\n\t\treturn err\n\t}\n\n\tif err := marshalInnerChange(e, \"modify\", c.Modify); err != nil {\n\t\treturn err\n\t}\n\n\tif err := marshalInnerChange(e, \"delete\", c.Delete); err != nil {\n\t\treturn err\n\t}\n"

func c04ChangeArray(slice string) string {
	return "\tblocks := [...]struct {\n\t\tname string\n\t\tosm  *OSM\n\t}{\n\t\t{name: \"create\", osm: c.Create},\n\t\t{name: \"modify\", osm: c.Modify},\n\t\t{name: \"delete\", osm: c.Delete},\n\t}\n\tfor _, b := range blocks" + slice + " {\n\t\tif err := marshalInnerChange(e, b.name, b.osm); err != nil {\n\t\t\treturn err\n\t\t}\n\t}\n"
}

var c04Benign5 = []core.Mutant{
	{Name: "blocks-array-handed-on-as-slice", File: "change.go", Find: c04ChangeCalls, Replace: c04ChangeArray("[:]")},
	{Name: "blocks-array-sliced-to-its-length", File: "change.go", Find: c04ChangeCalls, Replace: c04ChangeArray("[0:len(blocks)]")},
}

var c04Mutants5 = []core.Mutant{
	{Name: "blocks-slice-drops-the-first-block", File: "change.go", Find: c04ChangeCalls, Replace: c04ChangeArray("[1:]"), ExpectRule: "X6", ExpectConstruct: "written@Change.Create"},
}

const c05FilterLoop = "\telements := make(Objects, 0, len(objects))\n\tfor _, obj := range objects {\n\t\tif _, ok := obj.(*Bounds); ok {\n\t\t\tcontinue\n\t\t}\n\t\telements = append(elements, obj)\n\t}\n"

func c05FilterInPlace(start string) string {
	return "\telements := objects[:" + start + "]\n\tfor i := 0; i < len(objects); i++ {\n\t\tif _, isBounds := objects[i].(*Bounds); !isBounds {\n\t\t\telements = append(elements, objects[i])\n\t\t}\n\t}\n"
}

const c05RelLiteral = "func (x xmlNameJSONTypeRel) MarshalJSON() ([]byte, error) {\n\treturn []byte(`\"relation\"`), nil\n}\n"

func c05RelLiteralBytes(name string) string {
	return "func (x xmlNameJSONTypeRel) MarshalJSON() ([]byte, error) {\n\tquoted := make([]byte, 0, 16)\n\tquoted = append(quoted, '\"')\n\tquoted = append(quoted, \"" + name + "\"...)\n\tquoted = append(quoted, '\"')\n\treturn quoted, nil\n}\n"
}

var c05Benign5 = []core.Mutant{
	{Name: "elements-filtered-in-place", File: "osm.go", Find: c05FilterLoop, Replace: c05FilterInPlace("0")},
	{Name: "type-literal-assembled-byte-by-byte", File: "json.go", Find: c05RelLiteral, Replace: c05RelLiteralBytes("relation")},
}

var c05Mutants5 = []core.Mutant{
	{Name: "in-place-filter-keeps-the-first-object", File: "osm.go", Find: c05FilterLoop, Replace: c05FilterInPlace("1"), ExpectRule: "J1", ExpectConstruct: "type@Bounds"},
	{Name: "byte-assembled-literal-of-other-name", File: "json.go", Find: c05RelLiteral, Replace: c05RelLiteralBytes("relations"), ExpectRule: "J3", ExpectConstruct: "name@Relation"},
}
