package rules

import (
	"go/ast"
	"go/types"

	"golang.org/x/tools/go/packages"
)

// c01ConstMap returns the composite literal that initialises package-level map variable o when the map is a constant
// table: declared with that literal, and nowhere in the package assigned, written by element, deleted from, address
// taken or handed to a function (reads by index, range and len are fine). Otherwise nil.
func c01ConstMap(pk *packages.Package, o types.Object) *ast.CompositeLit {
	v, ok := o.(*types.Var)
	if !ok || v.IsField() || v.Pkg() != pk.Types || v.Parent() != pk.Types.Scope() {
		return nil
	}
	if _, isMap := v.Type().Underlying().(*types.Map); !isMap {
		return nil
	}
	return c01ConstTable(pk, o)
}

// c01ConstTable is c01ConstMap for a package-level table of any indexable type (map, array, slice).
func c01ConstTable(pk *packages.Package, o types.Object) *ast.CompositeLit {
	v, ok := o.(*types.Var)
	if !ok || v.IsField() || v.Pkg() != pk.Types || v.Parent() != pk.Types.Scope() {
		return nil
	}
	info := pk.TypesInfo
	var lit *ast.CompositeLit
	written := false
	for _, f := range pk.Syntax {
		// parent links for this file, local to the walk
		var stack []ast.Node
		ast.Inspect(f, func(n ast.Node) bool {
			if n == nil {
				stack = stack[:len(stack)-1]
				return true
			}
			stack = append(stack, n)
			switch s := n.(type) {
			case *ast.ValueSpec:
				for i, nm := range s.Names {
					if info.Defs[nm] == o && i < len(s.Values) {
						lit, _ = ast.Unparen(s.Values[i]).(*ast.CompositeLit)
					}
				}
			case *ast.Ident:
				if info.Uses[s] != o || len(stack) < 2 {
					return true
				}
				switch p := stack[len(stack)-2].(type) {
				case *ast.IndexExpr:
					// m[k]: a write when the index expression is assigned to or inc/dec'ed
					if p.X == ast.Expr(s) && len(stack) >= 3 {
						switch gp := stack[len(stack)-3].(type) {
						case *ast.AssignStmt:
							for _, l := range gp.Lhs {
								if l == ast.Expr(p) {
									written = true
								}
							}
						case *ast.IncDecStmt:
							written = true
						case *ast.UnaryExpr:
							written = true
						}
					}
				case *ast.RangeStmt:
					if p.X != ast.Expr(s) {
						written = true
					}
				case *ast.CallExpr:
					if builtinName(info, p) != "len" {
						written = true // delete(m, k), or the map escapes into a function
					}
				default:
					written = true // assigned, address taken, copied ...
				}
			}
			return true
		})
	}
	if written {
		return nil
	}
	return lit
}
