package rules

import (
	"go/ast"
	"go/token"
	"go/types"
	"strings"

	"osmcheck/core"
)

// Interior pointers, function values and package-level initialisers for the abstract interpreter of c03_eval.go.
//
//   - &x.F.G (x a pointer, a symbolic object or a local struct) is a c03KRef: Base (the pointer / address of the
//     local) + the field path. Reading through it reads the field, `*p = v` stores into the field, p.H reads/stores
//     x.F.G.H. This is what an out-parameter `dst **T` written in a helper needs, and what the receiver of a
//     pointer-receiver method called on a field is.
//   - a function literal is a c03KFunc value closing over the variables of the path (variables are keyed by their
//     declaration, so captured variables are shared); calling it enters its body.
//   - a package-level variable that is never assigned outside its declaration evaluates to its initialiser
//     (tables such as map[string]func() T).

// refTarget returns the value an interior pointer points to.
func (x *c03Interp) refTarget(st *c03State, v *c03V, at ast.Node, fr *c03Frame) *c03V {
	cur := v.Base
	for _, f := range v.Path {
		cur = x.field(st, cur, f, at, fr)
	}
	return cur
}

// refStore stores val into what an interior pointer points to (below it: fs).
func (x *c03Interp) refStore(st *c03State, v *c03V, fs []*types.Var, val *c03V, at ast.Node, fr *c03Frame) {
	path := append(append([]*types.Var{}, v.Path...), fs...)
	x.setField(st, v.Base, path, val, at, fr)
}

// addrOf evaluates &e for a selector chain e = base.F.G...: an interior pointer when the chain is fields only.
func (x *c03Interp) addrOf(fr *c03Frame, st *c03State, e ast.Expr, t types.Type) ([]c03EV, bool) {
	info := fr.info()
	var fs []*types.Var
	base := ast.Unparen(e)
	for {
		s, ok := base.(*ast.SelectorExpr)
		if !ok {
			break
		}
		ss := info.Selections[s]
		if ss == nil || ss.Kind() != types.FieldVal {
			return nil, false
		}
		fs = append(c03SelFields(ss), fs...)
		base = ast.Unparen(s.X)
	}
	if len(fs) == 0 {
		return nil, false
	}
	var out []c03EV
	mk := func(s *c03State, b *c03V) {
		// a path through a pointer field continues from that pointer: anchor the reference at the last pointer
		anchor := b
		var rest []*types.Var
		for i, f := range fs {
			rest = append(rest, f)
			if i < len(fs)-1 && c03IsPointer(f.Type()) {
				p := anchor
				for _, g := range rest {
					p = x.field(s, p, g, e, fr)
				}
				anchor, rest = p, nil
			}
		}
		out = append(out, c03EV{s, &c03V{K: c03KRef, Base: anchor, Path: rest, T: t}})
	}
	if id, ok := base.(*ast.Ident); ok {
		if o, ok := objOf(info, id).(*types.Var); ok && !c03IsPointer(o.Type()) {
			mk(st, &c03V{K: c03KAddr, Var: o, T: types.NewPointer(o.Type())})
			return out, true
		}
	}
	if bt := info.TypeOf(base); bt == nil || !c03IsPointer(bt) {
		return nil, false
	}
	for _, ev := range x.eval(fr, st, base) {
		switch ev.v.K {
		case c03KPtr, c03KAddr, c03KInit, c03KRef:
			mk(ev.st, ev.v)
		default:
			out = append(out, c03EV{ev.st, &c03V{K: c03KUnk, T: t, Key: x.fresh("a"), From: []*c03V{ev.v}, Z: triF}})
		}
	}
	return out, true
}

// globalInit returns the initialiser of a package-level variable that is assigned nowhere else in its package.
func (x *c03Interp) globalInit(o *types.Var) (ast.Expr, *FuncInfo) {
	if x.globals == nil {
		x.globals = map[*types.Var]*c03Global{}
	}
	if g, ok := x.globals[o]; ok {
		return g.init, g.fi
	}
	g := &c03Global{}
	x.globals[o] = g
	g.init, g.fi = c03FindGlobalInit(x.P, o)
	return g.init, g.fi
}

type c03Global struct {
	init ast.Expr
	fi   *FuncInfo
}

// c03FindGlobalInit: the initialiser expression of an unexported package-level variable of the repository that is
// never assigned, incremented or address-taken elsewhere in its package (so it still holds the initialiser), with a
// pseudo function to evaluate it in.
func c03FindGlobalInit(p *core.Program, o *types.Var) (ast.Expr, *FuncInfo) {
	if o.Pkg() == nil || o.Exported() || !strings.HasPrefix(o.Pkg().Path(), core.ModulePath) {
		return nil, nil
	}
	pk := p.ByPath[o.Pkg().Path()]
	if pk == nil || len(pk.Syntax) == 0 {
		return nil, nil
	}
	var init ast.Expr
	assigned := false
	for _, f := range pk.Syntax {
		ast.Inspect(f, func(n ast.Node) bool {
			switch s := n.(type) {
			case *ast.ValueSpec:
				for i, nm := range s.Names {
					if pk.TypesInfo.Defs[nm] == o && i < len(s.Values) && len(s.Values) == len(s.Names) {
						init = s.Values[i]
					}
				}
			case *ast.AssignStmt:
				for _, l := range s.Lhs {
					if rootObj(pk.TypesInfo, l) == o {
						assigned = true
					}
				}
			case *ast.IncDecStmt:
				if rootObj(pk.TypesInfo, s.X) == o {
					assigned = true
				}
			case *ast.UnaryExpr:
				if s.Op == token.AND && rootObj(pk.TypesInfo, s.X) == o {
					assigned = true
				}
			}
			return true
		})
	}
	if init == nil || assigned {
		return nil, nil
	}
	fi := &FuncInfo{Pkg: pk, Decl: &ast.FuncDecl{Name: ast.NewIdent("init of " + o.Name()), Type: &ast.FuncType{}, Body: &ast.BlockStmt{}}}
	return init, fi
}
