package rules

import (
	"fmt"
	"go/ast"
	"go/types"
	"sort"

	"osmcheck/core"
)

// C08, private copies of the knobs. The decoding goroutines may work from a copy of the Scanner's Skip* / Filter*
// fields (a struct of options taken when the scan starts) instead of reading the exported fields themselves. A field
// of a struct of the package every store to which is the value of one knob of the Scanner is that knob as far as
// O3/O7 are concerned. What the copy adds is an obligation of its own (O9): the copy must have been taken on every
// path on which the decoders are started, whichever exported method of the Scanner is called first.

var c08KnobCache = map[*pbfModel]map[*types.Var]*types.Var{}

// c08KnobAliases maps copy fields to the Scanner knob they hold.
func c08KnobAliases(m *pbfModel) map[*types.Var]*types.Var {
	if a, ok := c08KnobCache[m]; ok {
		return a
	}
	info := m.info
	cand := map[*types.Var]*types.Var{}
	bad := map[*types.Var]bool{}
	knobOf := func(scope ast.Node, e ast.Expr) *types.Var {
		sel, ok := ast.Unparen(c01Expand(info, scope, e)).(*ast.SelectorExpr)
		if !ok {
			return nil
		}
		f := fieldOf(info, sel)
		if f == nil || !f.Exported() || !c08IsScannerField(m, f) || namedPath(selRecv(info, sel)) != namedPath(m.scannerT) {
			return nil
		}
		switch f.Type().Underlying().(type) {
		case *types.Basic, *types.Signature:
			return f
		}
		return nil
	}
	note := func(scope ast.Node, dst *types.Var, rhs ast.Expr) {
		if dst == nil || dst.Pkg() != m.pk.Types || c08IsScannerField(m, dst) {
			return
		}
		k := knobOf(scope, rhs)
		if k == nil || !types.Identical(k.Type(), dst.Type()) {
			if _, was := cand[dst]; was {
				bad[dst] = true
			}
			if k == nil {
				bad[dst] = true
			}
			return
		}
		if old, was := cand[dst]; was && old != k {
			bad[dst] = true
		}
		cand[dst] = k
	}
	for _, fi := range allFuncs(m.pk) {
		fi := fi
		ast.Inspect(fi.Decl.Body, func(n ast.Node) bool {
			switch s := n.(type) {
			case *ast.AssignStmt:
				if len(s.Lhs) == len(s.Rhs) {
					for i, l := range s.Lhs {
						if sel, ok := ast.Unparen(l).(*ast.SelectorExpr); ok {
							if f := fieldOf(info, sel); f != nil && (cand[f] != nil || knobOf(fi.Decl.Body, s.Rhs[i]) != nil) {
								note(fi.Decl.Body, f, s.Rhs[i])
							}
						}
					}
				}
			case *ast.KeyValueExpr:
				if id, ok := s.Key.(*ast.Ident); ok {
					if f, isF := info.Uses[id].(*types.Var); isF && f.IsField() && (cand[f] != nil || knobOf(fi.Decl.Body, s.Value) != nil) {
						note(fi.Decl.Body, f, s.Value)
					}
				}
			}
			return true
		})
	}
	out := map[*types.Var]*types.Var{}
	for f, k := range cand {
		if !bad[f] {
			out[f] = k
		}
	}
	c08KnobCache[m] = out
	return out
}

// c08KnobOf returns the Scanner knob field fld is or holds a copy of (nil when it is neither).
func c08KnobOf(m *pbfModel, fld *types.Var) *types.Var {
	if fld == nil {
		return nil
	}
	if c08IsScannerField(m, fld) {
		return fld
	}
	return c08KnobAliases(m)[fld]
}

// c08O9: the copy of the knobs is taken on every path on which the decoders are started.
func c08O9(r *core.R) {
	m := c01PBFModel(r)
	if m == nil {
		return
	}
	info := m.info
	al := c08KnobAliases(m)
	if len(al) == 0 {
		r.OKTrivial("knob copies", m.start.Decl.Pos(), "the decoding goroutines read the Scanner's exported Skip* / Filter* fields themselves: there is no copy that could be missing or stale")
		return
	}
	var copies []*types.Var
	for f := range al {
		copies = append(copies, f)
	}
	sort.Slice(copies, func(i, j int) bool { return copies[i].Pos() < copies[j].Pos() })
	// a node that stores every copy field (one literal, or one assignment each)
	writes := func(n ast.Node) map[*types.Var]bool {
		w := map[*types.Var]bool{}
		ast.Inspect(n, func(y ast.Node) bool {
			switch s := y.(type) {
			case *ast.FuncLit:
				return false
			case *ast.AssignStmt:
				for _, l := range s.Lhs {
					if f := fieldOf(info, l); f != nil && al[f] != nil {
						w[f] = true
					}
				}
			case *ast.KeyValueExpr:
				if id, ok := s.Key.(*ast.Ident); ok {
					if f, isF := info.Uses[id].(*types.Var); isF && al[f] != nil {
						w[f] = true
					}
				}
			}
			return true
		})
		return w
	}
	isStart := func(f *c01Fn, n ast.Node) bool {
		return c01ContainsCall(n, func(call *ast.CallExpr) bool { return callee(info, call) == m.start.Obj })
	}
	for _, cf := range copies {
		cf := cf
		isCopy := func(f *c01Fn, n ast.Node) bool { return writes(n)[cf] }
		sum := c01NewSum(r.P, isCopy)
		var bad []string
		n := 0
		c := fmt.Sprintf("knob copy@%s (%s)", cf.Name(), al[cf].Name())
		// a copy the decoding goroutine takes itself: it must precede every read of the copy on the way from the
		// decode entry point
		inWorker := false
		for _, wf := range c01RoleFuncs(m, "worker") {
			ast.Inspect(wf.Decl.Body, func(y ast.Node) bool {
				if st, ok := y.(ast.Stmt); ok && writes(st)[cf] {
					inWorker = true
				}
				return !inWorker
			})
		}
		if entry := c01DecodeEntry(m); inWorker && entry != nil {
			isRead := func(f *c01Fn, nd ast.Node) bool {
				hit := false
				ast.Inspect(nd, func(y ast.Node) bool {
					if as, ok := y.(*ast.AssignStmt); ok {
						for _, rh := range as.Rhs {
							ast.Inspect(rh, func(z ast.Node) bool {
								if sel, ok := z.(*ast.SelectorExpr); ok && fieldOf(info, sel) == cf {
									hit = true
								}
								return !hit
							})
						}
						return false
					}
					if sel, ok := y.(*ast.SelectorExpr); ok && fieldOf(info, sel) == cf {
						hit = true
					}
					return !hit
				})
				return hit
			}
			if sum.Unprotected(entry, isRead, map[*types.Func]int{}) {
				r.Bad(c, cf.Pos(), "the copy `%s` of %s is taken inside the decoding goroutine, but a path from %s reads it before it has been taken for the block being decoded", cf.Name(), al[cf].Name(), entry.Name())
			} else {
				r.OK(c, cf.Pos(), "the decoding goroutine stores %s in `%s` on every path from %s before it reads the copy", al[cf].Name(), cf.Name(), entry.Name())
			}
			continue
		}
		for _, fi := range allFuncs(m.pk) {
			sig := fi.Obj.Type().(*types.Signature)
			if sig.Recv() == nil || namedPath(sig.Recv().Type()) != namedPath(m.scannerT) || !fi.Obj.Exported() {
				continue
			}
			reaches := false
			for _, g := range c01Reachable(r.P, fi) {
				ast.Inspect(g.Decl.Body, func(y ast.Node) bool {
					if call, ok := y.(*ast.CallExpr); ok && callee(info, call) == m.start.Obj {
						reaches = true
					}
					return !reaches
				})
			}
			if !reaches {
				continue
			}
			n++
			if sum.Unprotected(fi, isStart, map[*types.Func]int{}) {
				bad = append(bad, fi.Name())
			}
		}
		switch {
		case n == 0:
			r.Unknown(c, cf.Pos(), "no exported method of the Scanner reaches the start of the decoders")
		case len(bad) > 0:
			r.Bad(c, cf.Pos(), "the decoding goroutines read %s from the copy `%s`, but %v can start the decoders on a path that has not taken the copy: when that method is the first one called, the decoders run with the zero value and the knob the caller set is ignored for the whole scan", al[cf].Name(), cf.Name(), bad)
		default:
			r.OK(c, cf.Pos(), "every exported method of the Scanner that can start the decoders stores %s in `%s` before it does (%d entry points)", al[cf].Name(), cf.Name(), n)
		}
	}
}
